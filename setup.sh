#!/bin/bash
# Build the framework from files on disk only (offline): Lean library + oracle executables, Go harness.
set -e
cd "$(dirname "$0")"
export GOFLAGS=-mod=mod GOPROXY=off GOSUMDB=off GOTOOLCHAIN=local
mkdir -p .build evidence replays
# regenerate every Gen/*.lean from /repo so that the whole library builds
(cd go && for d in extract/*/; do w=$(basename "$d"); go run "./extract/$w" "$w" /repo /verif || true; done)
(cd lean && lake build KafkaVerif Oracle $(grep -E '^name = "oracle_' lakefile.toml | sed 's/name = "\(.*\)"/\1/') 2>&1 | tail -5) || true
(cd go && go build -tags verif ./... ) || true
echo setup done
