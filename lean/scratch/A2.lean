import KafkaVerif.Lemmas.WriterAck
namespace KV.Writer

theorem ackState_batch {σ : Sender} {b : Nat} (h : AckState σ b) : σ.batch? = some b := by
  rcases h with ⟨k, hk⟩ | ⟨cb, hk⟩ <;> (rw [hk]; rfl)

theorem sent_sub_pipe (P : PW) : ∀ b ∈ P.sent, b ∈ P.pipe := by
  intro b hb; unfold PW.pipe; exact List.mem_append_left _ hb

theorem sender_mem_pipe {P : PW} {b : Nat} (h : P.sender.batch? = some b) : b ∈ P.pipe := by
  simp [PW.pipe, h]

theorem invAck_newBatch {s s' : State} (hO : InvOrd s) (hI : InvAck s) {pw b : Nat} {P : PW} (hP : s.pws pw = some P)
    (hc : P.curr = none) (hpend : P.pending = none) (hb : s.batches b = none)
    (epws : s'.pws = upd s.pws pw (some { P with curr := some b, nbatches := P.nbatches + 1 }))
    (ebat : s'.batches = upd s.batches b (some (Batch.new pw P.tp P.nbatches)))
    (elog : s'.log = s.log) : InvAck s' := by
  have hpipe : ({ P with curr := some b, nbatches := P.nbatches + 1 } : PW).pipe = P.pipe ++ [b] := by
    simp [PW.pipe, hc, hpend]
  have hsent : ({ P with curr := some b, nbatches := P.nbatches + 1 } : PW).sent = P.sent := by simp [PW.sent]
  have hne : ∀ x X, s.pws x = some X → ∀ y ∈ X.pipe, y ≠ b := by
    intro x X hx y hy e
    obtain ⟨B, hB, -⟩ := hO.pipeEx x X hx y hy
    rw [e, hb] at hB; cases hB
  have hlook : ∀ y, y ≠ b → s'.batches y = s.batches y := fun y hy => by rw [ebat]; exact upd_other _ _ _ _ hy
  have hlookb : s'.batches b = some (Batch.new pw P.tp P.nbatches) := by rw [ebat]; simp
  -- old partition writer of a new one, with the same sender
  have hold : ∀ x X', s'.pws x = some X' → ∃ X, s.pws x = some X ∧ X'.sender = X.sender ∧ X'.sent = X.sent ∧
      (X'.pipe = X.pipe ∨ X'.pipe = X.pipe ++ [b]) := by
    intro x X' hx
    rw [epws] at hx
    rcases upd_some_elim hx with ⟨rfl, rfl⟩ | ⟨-, h⟩
    · exact ⟨P, hP, rfl, hsent, Or.inr hpipe⟩
    · exact ⟨X', h, rfl, rfl, Or.inl rfl⟩
  constructor
  · intro x X' hx y hy Y hY
    obtain ⟨X, hX, -, -, hp⟩ := hold x X' hx
    by_cases hyb : y = b
    · subst hyb; rw [hlookb] at hY; cases hY; rfl
    · rw [hlook y hyb] at hY
      have hy' : y ∈ X.pipe := by
        rcases hp with e | e
        · exact e ▸ hy
        · rw [e] at hy
          rcases List.mem_append.mp hy with h | h
          · exact h
          · simp at h; exact absurd h hyb
      exact hI.pipeLive x X hX y hy' Y hY
  · intro x X' hx y hy Y hY
    obtain ⟨X, hX, -, hs, -⟩ := hold x X' hx
    rw [hs] at hy
    have hyb : y ≠ b := hne x X hX y (sent_sub_pipe X y hy)
    rw [hlook y hyb] at hY
    exact hI.sentDet x X hX y hy Y hY
  · intro y Y hY hack
    by_cases hyb : y = b
    · subst hyb; rw [hlookb] at hY; cases hY; cases hack
    · rw [hlook y hyb] at hY; exact hI.ackedDet y Y hY hack
  · intro x X' hx y hst Y hY
    obtain ⟨X, hX, hsd, -, -⟩ := hold x X' hx
    rw [hsd] at hst
    have hyb : y ≠ b := hne x X hX y (sender_mem_pipe (ackState_batch hst))
    rw [hlook y hyb] at hY
    exact hI.senderAcked x X hX y hst Y hY
  · intro y Y hY hd
    by_cases hyb : y = b
    · subst hyb; rw [hlookb] at hY; cases hY; cases hd
    · rw [hlook y hyb] at hY; exact hI.doneAcked y Y hY hd
  · intro y Y hY hack
    by_cases hyb : y = b
    · subst hyb; rw [hlookb] at hY; cases hY; cases hack
    · rw [hlook y hyb] at hY
      rcases hI.ackedWhere y Y hY hack with hd | ⟨X, hX, hst⟩
      · exact Or.inl hd
      · right
        by_cases hxp : Y.pw = pw
        · rw [hxp] at hX; rw [hP] at hX; cases hX
          exact ⟨{ P with curr := some b, nbatches := P.nbatches + 1 }, by rw [epws, hxp]; simp, hst⟩
        · exact ⟨X, by rw [epws, upd_other _ _ _ _ hxp]; exact hX, hst⟩
  · intro y Y hY hack m hm
    by_cases hyb : y = b
    · subst hyb; rw [hlookb] at hY; cases hY; cases hack
    · rw [hlook y hyb] at hY; rw [elog]; exact hI.ackedInLog y Y hY hack m hm

theorem invAck_detach {s s' : State} (hI : InvAck s) {pw b : Nat} {P : PW} {B : Batch} {why : Why}
    (hP : s.pws pw = some P) (hB : s.batches b = some B) (hc : P.curr = some b) (hpend : P.pending = none)
    (epws : s'.pws = upd s.pws pw (some { P with curr := none, pending := some b }))
    (ebat : s'.batches = upd s.batches b (some { B with detached := some why }))
    (elog : s'.log = s.log) : InvAck s' := by
  have hpipe : ({ P with curr := none, pending := some b } : PW).pipe = P.pipe := by simp [PW.pipe, hc, hpend]
  have hsent : ({ P with curr := none, pending := some b } : PW).sent = P.sent ++ [b] := by simp [PW.sent, hpend]
  have hold : ∀ x X', s'.pws x = some X' → ∃ X, s.pws x = some X ∧ X'.sender = X.sender ∧ X'.pipe = X.pipe ∧
      (X'.sent = X.sent ∨ X'.sent = X.sent ++ [b]) := by
    intro x X' hx
    rw [epws] at hx
    rcases upd_some_elim hx with ⟨rfl, rfl⟩ | ⟨-, h⟩
    · exact ⟨P, hP, rfl, hpipe, Or.inr hsent⟩
    · exact ⟨X', h, rfl, rfl, Or.inl rfl⟩
  -- the new version of every batch: same as before except that b is now detached
  have hbat : ∀ y Y', s'.batches y = some Y' → ∃ Y, s.batches y = some Y ∧ Y'.msgs = Y.msgs ∧ Y'.tp = Y.tp ∧ Y'.pw = Y.pw ∧
      Y'.done = Y.done ∧ Y'.acked = Y.acked ∧ (Y.detached.isSome = true ∨ y = b → Y'.detached.isSome = true) := by
    intro y Y' hy
    rw [ebat] at hy
    rcases upd_some_elim hy with ⟨rfl, rfl⟩ | ⟨hne, h⟩
    · exact ⟨B, hB, rfl, rfl, rfl, rfl, rfl, fun _ => rfl⟩
    · exact ⟨Y', h, rfl, rfl, rfl, rfl, rfl, fun h => h.elim id (fun e => absurd e hne)⟩
  constructor
  · intro x X' hx y hy Y' hY'
    obtain ⟨X, hX, -, hp, -⟩ := hold x X' hx
    obtain ⟨Y, hY, -, -, -, hd, -⟩ := hbat y Y' hY'
    rw [hd]; exact hI.pipeLive x X hX y (hp ▸ hy) Y hY
  · intro x X' hx y hy Y' hY'
    obtain ⟨X, hX, -, -, hs⟩ := hold x X' hx
    obtain ⟨Y, hY, -, -, -, -, -, hdet⟩ := hbat y Y' hY'
    by_cases hyb : y = b
    · exact hdet (Or.inr hyb)
    · have hy' : y ∈ X.sent := by
        rcases hs with e | e
        · exact e ▸ hy
        · rw [e] at hy
          rcases List.mem_append.mp hy with h | h
          · exact h
          · simp at h; exact absurd h hyb
      exact hdet (Or.inl (hI.sentDet x X hX y hy' Y hY))
  · intro y Y' hY' hack
    obtain ⟨Y, hY, -, -, -, -, ha, hdet⟩ := hbat y Y' hY'
    exact hdet (Or.inl (hI.ackedDet y Y hY (ha ▸ hack)))
  · intro x X' hx y hst Y' hY'
    obtain ⟨X, hX, hsd, -, -⟩ := hold x X' hx
    obtain ⟨Y, hY, -, -, -, -, ha, -⟩ := hbat y Y' hY'
    rw [ha]; exact hI.senderAcked x X hX y (hsd ▸ hst) Y hY
  · intro y Y' hY' hd
    obtain ⟨Y, hY, -, -, -, hd', ha, -⟩ := hbat y Y' hY'
    rw [ha]; exact hI.doneAcked y Y hY (hd' ▸ hd)
  · intro y Y' hY' hack
    obtain ⟨Y, hY, -, -, hpw, hd', ha, -⟩ := hbat y Y' hY'
    rcases hI.ackedWhere y Y hY (ha ▸ hack) with hd | ⟨X, hX, hst⟩
    · left; rw [hd']; exact hd
    · right
      rw [hpw]
      by_cases hxp : Y.pw = pw
      · rw [hxp] at hX; rw [hP] at hX; cases hX
        exact ⟨{ P with curr := none, pending := some b }, by rw [epws, hxp]; simp, hst⟩
      · exact ⟨X, by rw [epws, upd_other _ _ _ _ hxp]; exact hX, hst⟩
  · intro y Y' hY' hack m hm
    obtain ⟨Y, hY, hmsgs, htp, -, -, ha, -⟩ := hbat y Y' hY'
    rw [elog, htp]; exact hI.ackedInLog y Y hY (ha ▸ hack) m (hmsgs ▸ hm)

end KV.Writer
