import KafkaVerif.Lemmas.WriterOrder
namespace KV.Writer

theorem seqBefore_congr {bt bt' : Nat → Option Batch} {x y : Nat} (hx : bt' x = bt x) (hy : bt' y = bt y)
    (h : SeqBefore bt x y) : SeqBefore bt' x y := by
  intro B B' h1 h2; rw [hx] at h1; rw [hy] at h2; exact h B B' h1 h2

theorem invOrd_newBatch {s s' : State} (hI : InvOrd s) {pw b : Nat} {P : PW} (hP : s.pws pw = some P)
    (hc : P.curr = none) (hpend : P.pending = none) (hb : s.batches b = none)
    (epws : s'.pws = upd s.pws pw (some { P with curr := some b, nbatches := P.nbatches + 1 }))
    (ebat : s'.batches = upd s.batches b (some (Batch.new pw P.tp P.nbatches)))
    (elog : s'.log = s.log) (eseq : s'.seq = s.seq) (epwOf : s'.pwOf = s.pwOf) : InvOrd s' := by
  have hpipe : ({ P with curr := some b, nbatches := P.nbatches + 1 } : PW).pipe = P.pipe ++ [b] := by
    simp [PW.pipe, hc, hpend]
  -- every batch in any old pipeline exists, hence differs from the fresh id b
  have hne : ∀ x X, s.pws x = some X → ∀ y ∈ X.pipe, y ≠ b := by
    intro x X hx y hy e
    obtain ⟨B, hB, -⟩ := hI.pipeEx x X hx y hy
    rw [e, hb] at hB; cases hB
  have hlook : ∀ y, y ≠ b → s'.batches y = s.batches y := fun y hy => by rw [ebat]; exact upd_other _ _ _ _ hy
  have hlookb : s'.batches b = some (Batch.new pw P.tp P.nbatches) := by rw [ebat]; simp
  have hnewmsgs : (Batch.new pw P.tp P.nbatches).msgs = [] := rfl
  constructor
  · intro x X hx m hm
    rw [ebat] at hx; rw [eseq]
    rcases upd_some_elim hx with ⟨rfl, rfl⟩ | ⟨-, h⟩
    · rw [hnewmsgs] at hm; cases hm
    · exact hI.counterB x X h m hm
  · rw [elog, eseq]; exact hI.counterL
  · intro x X hx
    rw [ebat] at hx
    rcases upd_some_elim hx with ⟨rfl, rfl⟩ | ⟨-, h⟩
    · rw [hnewmsgs]; exact List.Pairwise.nil
    · exact hI.sorted x X h
  · intro x X hx
    rw [epws] at hx; rw [epwOf]
    rcases upd_some_elim hx with ⟨rfl, rfl⟩ | ⟨-, h⟩
    · exact hI.uniq x P hP
    · exact hI.uniq x X h
  · intro x X hx y hy
    rw [epws] at hx
    rcases upd_some_elim hx with ⟨rfl, rfl⟩ | ⟨-, h⟩
    · rw [hpipe] at hy
      rcases List.mem_append.mp hy with hy | hy
      · obtain ⟨B, hB, hpw⟩ := hI.pipeEx x P hP y hy
        exact ⟨B, by rw [hlook y (hne x P hP y hy)]; exact hB, hpw⟩
      · simp at hy; subst hy
        exact ⟨_, hlookb, rfl⟩
    · obtain ⟨B, hB, hpw⟩ := hI.pipeEx x X h y hy
      exact ⟨B, by rw [hlook y (hne x X h y hy)]; exact hB, hpw⟩
  · intro x X hx
    rw [epws] at hx
    rcases upd_some_elim hx with ⟨rfl, rfl⟩ | ⟨-, h⟩
    · rw [hpipe]
      refine List.nodup_append.mpr ⟨hI.pipeNodup x P hP, by simp, ?_⟩
      intro y hy z hz
      simp at hz; subst hz
      exact hne x P hP y hy
    · exact hI.pipeNodup x X h
  · intro x X hx
    rw [epws] at hx
    rcases upd_some_elim hx with ⟨rfl, rfl⟩ | ⟨-, h⟩
    · rw [hpipe]
      refine List.pairwise_append.mpr ⟨?_, List.pairwise_singleton _ _, ?_⟩
      · have := hI.pipeSeq x P hP
        refine List.Pairwise.imp_of_mem ?_ this
        intro y z hy hz hr
        exact seqBefore_congr (hlook y (hne x P hP y hy)) (hlook z (hne x P hP z hz)) hr
      · intro y hy z hz
        simp at hz; subst hz
        intro B B' _ h2 m _ m' hm'
        rw [hlookb] at h2; cases h2
        rw [hnewmsgs] at hm'; cases hm'
    · have := hI.pipeSeq x X h
      refine List.Pairwise.imp_of_mem ?_ this
      intro y z hy hz hr
      exact seqBefore_congr (hlook y (hne x X h y hy)) (hlook z (hne x X h z hz)) hr
  · intro x X hx e he y hy B hB m hm
    rw [epws] at hx; rw [elog] at he
    rcases upd_some_elim hx with ⟨rfl, rfl⟩ | ⟨-, h⟩
    · rw [hpipe] at hy
      rcases List.mem_append.mp hy with hy | hy
      · have hB' : s.batches y = some B := by rw [← hlook y (hne x P hP y hy)]; exact hB
        exact hI.logSeq x P hP e he y hy B hB' m hm
      · simp at hy; subst hy
        rw [hlookb] at hB; cases hB
        rw [hnewmsgs] at hm; cases hm
    · have hB' : s.batches y = some B := by rw [← hlook y (hne x X h y hy)]; exact hB
      exact hI.logSeq x X h e he y hy B hB' m hm
  · rw [elog]; exact hI.logOrd

end KV.Writer
