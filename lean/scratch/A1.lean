import KafkaVerif.Lemmas.WriterAck
namespace KV.Writer

theorem frame_pws_upd {s : State} {pws' : Nat → Option PW} {pw : Nat} {P P' : PW} (hP : s.pws pw = some P)
    (e : pws' = upd s.pws pw (some P')) (hpipe : P'.pipe.Sublist P.pipe) (hsent : P'.sent.Sublist P.sent)
    (h1 : ∀ b, AckState P'.sender b → AckState P.sender b) (h2 : ∀ b, AckState P.sender b → AckState P'.sender b) :
    (∀ x X', pws' x = some X' → (X'.pipe = [] ∧ X'.sent = [] ∧ X'.sender = .idle) ∨
      ∃ X, s.pws x = some X ∧ X'.pipe.Sublist X.pipe ∧ X'.sent.Sublist X.sent ∧ ∀ b, AckState X'.sender b → AckState X.sender b) ∧
    (∀ x X, s.pws x = some X → ∃ X', pws' x = some X' ∧ ∀ b, AckState X.sender b → AckState X'.sender b) := by
  constructor
  · intro x X' hx
    rw [e] at hx
    rcases upd_some_elim hx with ⟨rfl, rfl⟩ | ⟨-, h⟩
    · exact Or.inr ⟨P, hP, hpipe, hsent, h1⟩
    · exact Or.inr ⟨X', h, List.Sublist.refl _, List.Sublist.refl _, fun _ h => h⟩
  · intro x X hx
    by_cases hxp : x = pw
    · subst hxp; rw [hP] at hx; cases hx
      exact ⟨P', by rw [e]; simp, h2⟩
    · exact ⟨X, by rw [e, upd_other _ _ _ _ hxp]; exact hx, fun _ h => h⟩

theorem frame_pws_id {s : State} :
    (∀ x X', s.pws x = some X' → (X'.pipe = [] ∧ X'.sent = [] ∧ X'.sender = .idle) ∨
      ∃ X, s.pws x = some X ∧ X'.pipe.Sublist X.pipe ∧ X'.sent.Sublist X.sent ∧ ∀ b, AckState X'.sender b → AckState X.sender b) ∧
    (∀ x X, s.pws x = some X → ∃ X', s.pws x = some X' ∧ ∀ b, AckState X.sender b → AckState X'.sender b) :=
  ⟨fun _ X' h => Or.inr ⟨X', h, List.Sublist.refl _, List.Sublist.refl _, fun _ h => h⟩, fun _ X h => ⟨X, h, fun _ h => h⟩⟩

theorem frame_bat_upd {s : State} {bt' : Nat → Option Batch} {b : Nat} {B B' : Batch} (hB : s.batches b = some B)
    (e : bt' = upd s.batches b (some B')) (h1 : B'.tp = B.tp) (h2 : B'.pw = B.pw) (h3 : B'.done = B.done)
    (h4 : B'.acked = B.acked) (h5 : B.detached.isSome = true → B'.detached.isSome = true)
    (h6 : B'.msgs = B.msgs ∨ (B.acked = false ∧ ∃ m, B'.msgs = B.msgs ++ [m])) :
    ∀ x X', bt' x = some X' → ∃ X, s.batches x = some X ∧ X'.tp = X.tp ∧ X'.pw = X.pw ∧
      X'.done = X.done ∧ X'.acked = X.acked ∧ (X.detached.isSome = true → X'.detached.isSome = true) ∧
      (X'.msgs = X.msgs ∨ (X.acked = false ∧ ∃ m, X'.msgs = X.msgs ++ [m])) := by
  intro x X' hx
  rw [e] at hx
  rcases upd_some_elim hx with ⟨rfl, rfl⟩ | ⟨-, h⟩
  · exact ⟨B, hB, h1, h2, h3, h4, h5, h6⟩
  · exact ⟨X', h, rfl, rfl, rfl, rfl, fun h => h, Or.inl rfl⟩

theorem frame_bat_id {s : State} :
    ∀ x X', s.batches x = some X' → ∃ X, s.batches x = some X ∧ X'.tp = X.tp ∧ X'.pw = X.pw ∧
      X'.done = X.done ∧ X'.acked = X.acked ∧ (X.detached.isSome = true → X'.detached.isSome = true) ∧
      (X'.msgs = X.msgs ∨ (X.acked = false ∧ ∃ m, X'.msgs = X.msgs ++ [m])) :=
  fun _ X' h => ⟨X', h, rfl, rfl, rfl, rfl, fun h => h, Or.inl rfl⟩

theorem ackState_congr {σ σ' : Sender} (h : ∀ b k br, σ ≠ .attempting b k br) (h' : ∀ b k br, σ' ≠ .attempting b k br)
    (g : ∀ b c cb, σ ≠ .finishing b c cb) (g' : ∀ b c cb, σ' ≠ .finishing b c cb) :
    (∀ b, AckState σ' b → AckState σ b) ∧ (∀ b, AckState σ b → AckState σ' b) := by
  constructor
  · intro b hb; rcases hb with ⟨k, hk⟩ | ⟨cb, hk⟩
    · exact absurd hk (h' _ _ _)
    · exact absurd hk (g' _ _ _)
  · intro b hb; rcases hb with ⟨k, hk⟩ | ⟨cb, hk⟩
    · exact absurd hk (h _ _ _)
    · exact absurd hk (g _ _ _)

theorem invAck_step (cfg : Cfg) (s : State) (e : Event) (s' : State) (hO : InvOrd s) (hI : InvAck s)
    (hs : step cfg s e = some s') : InvAck s' := by
  cases e with
  | qput q b acc =>
    simp only [step] at hs
    repeat' split at hs
    all_goals (first | (cases hs; done) | skip)
    rename_i _ pw hq _ P hP hg
    obtain ⟨hpend, hc, -⟩ := hg
    cases hs
    have hf := frame_pws_upd (P' := { P with pending := none, queue := enq P.queue b acc }) hP rfl
      (by cases acc <;> simp [PW.pipe, hc, hpend, enq]) (by cases acc <;> simp [PW.sent, hpend, enq])
      (fun _ h => h) (fun _ h => h)
    exact hI.of_frame hf.1 hf.2 frame_bat_id (fun _ _ h => h)
  | qget q ob =>
    simp only [step] at hs
    repeat' split at hs
    all_goals (first | (cases hs; done) | skip)
    · rename_i _ pw hq _ P hP _ b hg
      obtain ⟨hsend, hhead⟩ := hg
      cases hs
      have hq := head?_cons_tail hhead
      have ha := ackState_congr (σ := P.sender) (σ' := .ready b 0) (by simp [hsend]) (by simp) (by simp [hsend]) (by simp)
      have hf := frame_pws_upd (P' := { P with queue := P.queue.tail, sender := .ready b 0 }) hP rfl
        (by simp only [PW.pipe, hsend, Sender.batch?]; rw [hq]; simp)
        (by simp only [PW.sent, hsend, Sender.batch?]; rw [hq]; simp) ha.1 ha.2
      exact hI.of_frame hf.1 hf.2 frame_bat_id (fun _ _ h => h)
    · rename_i _ pw hq _ P hP _ hg
      obtain ⟨hsend, -, -⟩ := hg
      cases hs
      have ha := ackState_congr (σ := P.sender) (σ' := .exited) (by simp [hsend]) (by simp) (by simp [hsend]) (by simp)
      have hf := frame_pws_upd (P' := { P with sender := .exited }) hP rfl
        (by simp [PW.pipe, hsend, Sender.batch?]) (by simp [PW.sent, hsend, Sender.batch?]) ha.1 ha.2
      exact hI.of_frame hf.1 hf.2 frame_bat_id (fun _ _ h => h)
  | qclose q =>
    simp only [step] at hs
    repeat' split at hs
    all_goals (first | (cases hs; done) | skip)
    rename_i _ pw hq _ P hP hg
    cases hs
    have hf := frame_pws_upd (P' := { P with qclosed := true }) hP rfl (by simp [PW.pipe]) (by simp [PW.sent])
      (fun _ h => h) (fun _ h => h)
    exact hI.of_frame hf.1 hf.2 frame_bat_id (fun _ _ h => h)
  | timerFire pw b att =>
    simp only [step] at hs
    repeat' split at hs
    all_goals (first | (cases hs; done) | skip)
    rename_i _ P hP _ B hB hg
    cases hs
    exact hI.of_frame frame_pws_id.1 frame_pws_id.2
      (frame_bat_upd (B' := { B with timerFired := true }) hB rfl rfl rfl rfl rfl (fun h => h) (Or.inl rfl)) (fun _ _ h => h)
  | attempt pw b k =>
    simp only [step] at hs
    repeat' split at hs
    all_goals (first | (cases hs; done) | skip)
    rename_i _ P hP hg
    cases hs
    have ha : (∀ x, AckState (.attempting b k none) x → AckState P.sender x) ∧ (∀ x, AckState P.sender x → AckState (.attempting b k none) x) := by
      constructor
      · intro x hx; rcases hx with ⟨k', hk⟩ | ⟨cb, hk⟩ <;> cases hk
      · intro x hx; rw [hg.1] at hx; rcases hx with ⟨k', hk⟩ | ⟨cb, hk⟩ <;> cases hk
    have hf := frame_pws_upd (P' := { P with sender := .attempting b k none }) hP rfl
      (by simp [PW.pipe, hg.1, Sender.batch?]) (by simp [PW.sent, hg.1, Sender.batch?]) ha.1 ha.2
    exact hI.of_frame hf.1 hf.2 frame_bat_id (fun _ _ h => h)
  | attemptDone pw b k code =>
    simp only [step] at hs
    repeat' split at hs
    all_goals (first | (cases hs; done) | skip)
    rename_i _ P hP _ b' k' br hsend hg
    obtain ⟨rfl, rfl, hcons⟩ := hg
    cases hs
    have hbq : (afterAttempt cfg b' k' code).batch? = some b' := by
      unfold afterAttempt
      split
      · rfl
      · split <;> rfl
    have ha : (∀ x, AckState (afterAttempt cfg b' k' code) x → AckState P.sender x) ∧
        (∀ x, AckState P.sender x → AckState (afterAttempt cfg b' k' code) x) := by
      constructor
      · intro x hx
        unfold afterAttempt at hx
        split at hx
        · rename_i hc0
          subst hc0
          have hbr : br = some .acked := by
            cases br with
            | none => simp [consistent] at hcons
            | some o =>
              cases o with
              | acked => rfl
              | lost a => simp [consistent] at hcons
              | rejected c => simp [consistent] at hcons; exact absurd hcons.1.symm hcons.2
          rcases hx with ⟨k, hk⟩ | ⟨cb, hk⟩
          · cases hk
          · cases hk; rw [hsend, hbr]; exact Or.inl ⟨k', rfl⟩
        · rename_i hc0
          split at hx
          · rcases hx with ⟨k, hk⟩ | ⟨cb, hk⟩ <;> cases hk
          · rcases hx with ⟨k, hk⟩ | ⟨cb, hk⟩
            · cases hk
            · cases hk; exact absurd rfl hc0
      · intro x hx
        rw [hsend] at hx
        rcases hx with ⟨k, hk⟩ | ⟨cb, hk⟩
        · cases hk
          have : code = 0 := by simpa [consistent] using hcons
          subst this
          simp only [afterAttempt, if_true]
          exact Or.inr ⟨false, rfl⟩
        · cases hk
    have hf := frame_pws_upd (P' := { P with sender := afterAttempt cfg b' k' code }) hP rfl
      (by simp only [PW.pipe]; rw [hbq, hsend]; simp [Sender.batch?])
      (by simp only [PW.sent]; rw [hbq, hsend]; simp [Sender.batch?]) ha.1 ha.2
    exact hI.of_frame hf.1 hf.2 frame_bat_id (fun _ _ h => h)
  | completion pw b code =>
    simp only [step] at hs
    repeat' split at hs
    all_goals (first | (cases hs; done) | skip)
    rename_i _ P hP _ B hB hg
    cases hs
    have ha : (∀ x, AckState (.finishing b code true) x → AckState P.sender x) ∧ (∀ x, AckState P.sender x → AckState (.finishing b code true) x) := by
      constructor
      · intro x hx; rw [hg.2]; rcases hx with ⟨k', hk⟩ | ⟨cb, hk⟩
        · cases hk
        · cases hk; exact Or.inr ⟨false, rfl⟩
      · intro x hx; rw [hg.2] at hx; rcases hx with ⟨k', hk⟩ | ⟨cb, hk⟩
        · cases hk
        · cases hk; exact Or.inr ⟨true, rfl⟩
    have hf := frame_pws_upd (P' := { P with sender := .finishing b code true }) hP rfl
      (by simp [PW.pipe, hg.2, Sender.batch?]) (by simp [PW.sent, hg.2, Sender.batch?]) ha.1 ha.2
    exact hI.of_frame hf.1 hf.2
      (frame_bat_upd (B' := { B with ncompl := B.ncompl + 1, cbCode := some code }) hB rfl rfl rfl rfl rfl (fun h => h) (Or.inl rfl))
      (fun _ _ h => h)
  | add pw b c i size =>
    simp only [step, stepAdd] at hs
    repeat' split at hs
    all_goals (first | (cases hs; done) | skip)
    rename_i _ P hP _ B hB _ C hC hg
    obtain ⟨-, -, -, -, -, hdet, -⟩ := hg
    cases hs
    have hna : B.acked = false := by
      cases h : B.acked with
      | false => rfl
      | true => have := hI.ackedDet b B hB h; rw [hdet] at this; cases this
    exact hI.of_frame frame_pws_id.1 frame_pws_id.2
      (frame_bat_upd (B' := B.push { msg := (c, i), size := size, seq := s.seq }) hB rfl rfl rfl rfl rfl (fun h => h)
        (Or.inr ⟨hna, _, rfl⟩)) (fun _ _ h => h)
  | newPW pw q tp =>
    simp only [step] at hs
    repeat' split at hs
    all_goals (first | (cases hs; done) | skip)
    rename_i hg
    obtain ⟨-, -, -, h2, -⟩ := hg
    have h2' : s.pws pw = none := by simpa using h2
    cases hs
    refine hI.of_frame ?_ ?_ frame_bat_id (fun _ _ h => h)
    · intro x X' hx
      rcases upd_some_elim hx with ⟨rfl, rfl⟩ | ⟨-, h⟩
      · left; simp [PW.new, PW.pipe, PW.sent, Sender.batch?]
      · exact Or.inr ⟨X', h, List.Sublist.refl _, List.Sublist.refl _, fun _ h => h⟩
    · intro x X hx
      have hne : x ≠ pw := by intro e; rw [e, h2'] at hx; cases hx
      exact ⟨X, by show upd s.pws pw _ x = _; rw [upd_other _ _ _ _ hne]; exact hx, fun _ h => h⟩
  | newBatch pw b => sorry
  | detach pw b why size => sorry
  | produce pw tp msgs out => sorry
  | complete pw b code => sorry
  | _ =>
    simp only [step, stepReject, stepRet] at hs
    repeat' split at hs
    all_goals (first | (cases hs; done) | skip)
    all_goals (cases hs)
    all_goals exact hI.of_frame frame_pws_id.1 frame_pws_id.2 frame_bat_id (fun _ _ h => h)

end KV.Writer
