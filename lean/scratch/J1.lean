import KafkaVerif.Lemmas.WriterPlace
namespace KV.Writer

/-! ## The journal of produce attempts and the number of copies in the log -/

structure InvJournal (s : State) : Prop where
  journalAcked : ∀ j ∈ s.journal, j.out = .acked → ∃ B, s.batches j.batch = some B ∧ B.acked = true ∧ B.tp = j.tp
  ackedJournal : ∀ b B, s.batches b = some B → B.acked = true → ∃ j ∈ s.journal, j.batch = b ∧ j.out = .acked ∧ j.tp = B.tp
  journalOnce : s.journal.Pairwise (fun j1 j2 => j1.batch = j2.batch → j1.out ≠ .acked)
  counts : ∀ b B, s.batches b = some B → B.napplied = B.nlost + (if B.acked then 1 else 0)
  appliedDet : ∀ b B, s.batches b = some B → 0 < B.napplied → B.detached.isSome = true
  logBatchEx : ∀ tp, ∀ e ∈ s.log tp, ∃ B, s.batches e.batch = some B
  logCount : ∀ b B, s.batches b = some B →
    ((s.log B.tp).filter (fun e => e.batch == b)).length = B.napplied * B.msgs.length

theorem invJournal_init : InvJournal State.init := by
  constructor <;> simp [State.init]

theorem InvJournal.of_frame {s s' : State} (h : InvJournal s)
    (hj : s'.journal = s.journal) (hlog : s'.log = s.log)
    (hbat : ∀ b B', s'.batches b = some B' →
      (s.batches b = none ∧ B'.acked = false ∧ B'.napplied = 0 ∧ B'.nlost = 0) ∨
      ∃ B, s.batches b = some B ∧ B'.acked = B.acked ∧ B'.tp = B.tp ∧ B'.napplied = B.napplied ∧ B'.nlost = B.nlost ∧
        (B.detached.isSome = true → B'.detached.isSome = true) ∧ (B'.msgs = B.msgs ∨ B.napplied = 0))
    (hbat' : ∀ b B, s.batches b = some B → ∃ B', s'.batches b = some B' ∧ B'.acked = B.acked ∧ B'.tp = B.tp) :
    InvJournal s' := by
  constructor
  · intro j hjm hout
    rw [hj] at hjm
    obtain ⟨B, hB, ha, ht⟩ := h.journalAcked j hjm hout
    obtain ⟨B', hB', ha', ht'⟩ := hbat' _ _ hB
    exact ⟨B', hB', ha' ▸ ha, ht' ▸ ht⟩
  · intro b B' hB' hack
    rcases hbat b B' hB' with ⟨-, hf, -, -⟩ | ⟨B, hB, ha, ht, -⟩
    · rw [hf] at hack; cases hack
    · rw [hj, ht]; exact h.ackedJournal b B hB (ha ▸ hack)
  · rw [hj]; exact h.journalOnce
  · intro b B' hB'
    rcases hbat b B' hB' with ⟨-, hf, h1, h2⟩ | ⟨B, hB, ha, -, h1, h2, -, -⟩
    · simp [hf, h1, h2]
    · rw [ha, h1, h2]; exact h.counts b B hB
  · intro b B' hB' hpos
    rcases hbat b B' hB' with ⟨-, -, h1, -⟩ | ⟨B, hB, -, -, h1, -, hd, -⟩
    · omega
    · exact hd (h.appliedDet b B hB (h1 ▸ hpos))
  · intro tp e he
    rw [hlog] at he
    obtain ⟨B, hB⟩ := h.logBatchEx tp e he
    obtain ⟨B', hB', -⟩ := hbat' _ _ hB
    exact ⟨B', hB'⟩
  · intro b B' hB'
    rw [hlog]
    rcases hbat b B' hB' with ⟨hnone, -, h1, -⟩ | ⟨B, hB, -, ht, h1, -, -, hm⟩
    · rw [h1, Nat.zero_mul]
      have : (s.log B'.tp).filter (fun e => e.batch == b) = [] := by
        rw [List.filter_eq_nil_iff]
        intro e he heq
        obtain ⟨B0, hB0⟩ := h.logBatchEx _ e he
        have : e.batch = b := by simpa using heq
        rw [this, hnone] at hB0; cases hB0
      rw [this]; rfl
    · rw [ht, h1]
      have := h.logCount b B hB
      rcases hm with hm | hm
      · rw [hm]; exact this
      · rw [hm] at this ⊢; simpa using this

end KV.Writer

namespace KV.Writer

theorem jframe_bat_id {s s' : State} (e : s'.batches = s.batches) :
    (∀ b B', s'.batches b = some B' →
      (s.batches b = none ∧ B'.acked = false ∧ B'.napplied = 0 ∧ B'.nlost = 0) ∨
      ∃ B, s.batches b = some B ∧ B'.acked = B.acked ∧ B'.tp = B.tp ∧ B'.napplied = B.napplied ∧ B'.nlost = B.nlost ∧
        (B.detached.isSome = true → B'.detached.isSome = true) ∧ (B'.msgs = B.msgs ∨ B.napplied = 0)) ∧
    (∀ b B, s.batches b = some B → ∃ B', s'.batches b = some B' ∧ B'.acked = B.acked ∧ B'.tp = B.tp) :=
  ⟨fun _ B' h => Or.inr ⟨B', e ▸ h, rfl, rfl, rfl, rfl, fun h => h, Or.inl rfl⟩, fun _ B h => ⟨B, e ▸ h, rfl, rfl⟩⟩

theorem jframe_bat_upd {s s' : State} {b : Nat} {B B' : Batch} (hB : s.batches b = some B)
    (e : s'.batches = upd s.batches b (some B')) (h1 : B'.acked = B.acked) (h2 : B'.tp = B.tp)
    (h3 : B'.napplied = B.napplied) (h4 : B'.nlost = B.nlost) (h5 : B.detached.isSome = true → B'.detached.isSome = true)
    (h6 : B'.msgs = B.msgs ∨ B.napplied = 0) :
    (∀ x X', s'.batches x = some X' →
      (s.batches x = none ∧ X'.acked = false ∧ X'.napplied = 0 ∧ X'.nlost = 0) ∨
      ∃ X, s.batches x = some X ∧ X'.acked = X.acked ∧ X'.tp = X.tp ∧ X'.napplied = X.napplied ∧ X'.nlost = X.nlost ∧
        (X.detached.isSome = true → X'.detached.isSome = true) ∧ (X'.msgs = X.msgs ∨ X.napplied = 0)) ∧
    (∀ x X, s.batches x = some X → ∃ X', s'.batches x = some X' ∧ X'.acked = X.acked ∧ X'.tp = X.tp) := by
  constructor
  · intro x X' hx
    rw [e] at hx
    rcases upd_some_elim hx with ⟨rfl, rfl⟩ | ⟨-, h⟩
    · exact Or.inr ⟨B, hB, h1, h2, h3, h4, h5, h6⟩
    · exact Or.inr ⟨X', h, rfl, rfl, rfl, rfl, fun h => h, Or.inl rfl⟩
  · intro x X hx
    by_cases hxb : x = b
    · subst hxb; rw [hB] at hx; cases hx
      exact ⟨B', by rw [e]; simp, h1, h2⟩
    · exact ⟨X, by rw [e, upd_other _ _ _ _ hxb]; exact hx, rfl, rfl⟩

theorem filter_batch_mkEntries_same (pw b : Nat) (B : Batch) :
    (mkEntries pw b B).filter (fun e => e.batch == b) = mkEntries pw b B := by
  rw [List.filter_eq_self]
  intro e he
  obtain ⟨m, -, rfl⟩ := List.mem_map.mp he
  simp

theorem filter_batch_mkEntries_other (pw b y : Nat) (B : Batch) (h : y ≠ b) :
    (mkEntries pw b B).filter (fun e => e.batch == y) = [] := by
  rw [List.filter_eq_nil_iff]
  intro e he
  obtain ⟨m, -, rfl⟩ := List.mem_map.mp he
  simp; exact fun e => h e.symm

theorem invJournal_produce {s s' : State} (hA : InvAck s) (hI : InvJournal s) {pw b k : Nat} {P : PW} {B : Batch} {tp : TP} {out : BrOut}
    (hP : s.pws pw = some P) (hB : s.batches b = some B) (hsend : P.sender = .attempting b k none)
    (hBpw : B.pw = pw) (hBtp : B.tp = tp)
    (ebat : s'.batches = upd s.batches b (some (B.noteProduce out)))
    (elog : s'.log = if out.applied then upd s.log tp (s.log tp ++ mkEntries pw b B) else s.log)
    (ej : s'.journal = s.journal ++ [{ tp := tp, pw := pw, batch := b, attempt := k, out := out }]) : InvJournal s' := by
  have hna := not_acked_in_flight hA hP hB hsend hBpw
  have hdet : B.detached.isSome = true := hA.sentDet pw P hP b (sender_mem_sent (by rw [hsend]; rfl)) B hB
  have hlookb : s'.batches b = some (B.noteProduce out) := by rw [ebat]; simp
  have hlook : ∀ y, y ≠ b → s'.batches y = s.batches y := fun y hy => by rw [ebat]; exact upd_other _ _ _ _ hy
  have hacked' : (B.noteProduce out).acked = (out == .acked) := by simp [Batch.noteProduce, hna]
  have hout : ∀ {o : BrOut}, (o == BrOut.acked) = true → o = .acked := by
    intro o h; cases o <;> simp_all
  have hexist : ∀ y Y, s.batches y = some Y → ∃ Y', s'.batches y = some Y' := by
    intro y Y hy
    by_cases hyb : y = b
    · exact ⟨_, hyb ▸ hlookb⟩
    · exact ⟨Y, by rw [hlook y hyb]; exact hy⟩
  constructor
  · intro j hjm hjo
    rw [ej] at hjm
    rcases List.mem_append.mp hjm with hjm | hjm
    · obtain ⟨B0, hB0, ha, ht⟩ := hI.journalAcked j hjm hjo
      have hne : j.batch ≠ b := by
        intro e; rw [e, hB] at hB0; cases hB0; rw [hna] at ha; cases ha
      exact ⟨B0, by rw [hlook _ hne]; exact hB0, ha, ht⟩
    · simp at hjm; subst hjm
      simp only at hjo; subst hjo
      exact ⟨_, hlookb, by rw [hacked']; rfl, hBtp⟩
  · intro y Y' hY' hack
    rw [ej]
    by_cases hyb : y = b
    · subst hyb; rw [hlookb] at hY'; cases hY'
      rw [hacked'] at hack
      have := hout hack; subst this
      exact ⟨_, List.mem_append_right _ (List.mem_singleton.mpr rfl), rfl, rfl, hBtp.symm⟩
    · rw [hlook y hyb] at hY'
      obtain ⟨j, hjm, h1, h2, h3⟩ := hI.ackedJournal y Y' hY' hack
      exact ⟨j, List.mem_append_left _ hjm, h1, h2, h3⟩
  · rw [ej]
    refine List.pairwise_append.mpr ⟨hI.journalOnce, List.pairwise_singleton _ _, ?_⟩
    intro j0 hj0 j1 hj1 hbe hacked
    simp at hj1; subst hj1
    obtain ⟨B0, hB0, ha, -⟩ := hI.journalAcked j0 hj0 hacked
    simp only at hbe
    rw [hbe, hB] at hB0; cases hB0
    rw [hna] at ha; cases ha
  · intro y Y' hY'
    by_cases hyb : y = b
    · subst hyb; rw [hlookb] at hY'; cases hY'
      have hc := hI.counts y B hB
      rw [hna] at hc
      cases out with
      | acked => simp [Batch.noteProduce, BrOut.applied, hna] at hc ⊢; omega
      | lost a => cases a <;> simp [Batch.noteProduce, BrOut.applied, hna] at hc ⊢ <;> omega
      | rejected c => simp [Batch.noteProduce, BrOut.applied, hna] at hc ⊢; omega
    · rw [hlook y hyb] at hY'; exact hI.counts y Y' hY'
  · intro y Y' hY' hpos
    by_cases hyb : y = b
    · subst hyb; rw [hlookb] at hY'; cases hY'; exact hdet
    · rw [hlook y hyb] at hY'; exact hI.appliedDet y Y' hY' hpos
  · intro t e he
    rw [elog] at he
    split at he
    · by_cases ht : t = tp
      · subst ht
        simp at he
        rcases he with he | he
        · obtain ⟨B0, hB0⟩ := hI.logBatchEx t e he
          exact hexist _ _ hB0
        · obtain ⟨m, -, rfl⟩ := List.mem_map.mp he
          exact ⟨_, hlookb⟩
      · rw [upd_other _ _ _ _ ht] at he
        obtain ⟨B0, hB0⟩ := hI.logBatchEx t e he
        exact hexist _ _ hB0
    · obtain ⟨B0, hB0⟩ := hI.logBatchEx t e he
      exact hexist _ _ hB0
  · intro y Y' hY'
    by_cases hyb : y = b
    · subst hyb; rw [hlookb] at hY'; cases hY'
      have hc := hI.logCount y B hB
      rw [hBtp] at hc
      show ((s'.log B.tp).filter _).length = (B.noteProduce out).napplied * B.msgs.length
      rw [hBtp, elog]
      cases happ : out.applied
      · simp [Batch.noteProduce, happ]; exact hc
      · simp only [if_true, upd_same, List.filter_append, List.length_append, filter_batch_mkEntries_same, Batch.noteProduce, happ]
        rw [hc]; simp [mkEntries, Nat.add_mul]
    · rw [hlook y hyb] at hY'
      have hc := hI.logCount y Y' hY'
      rw [elog]
      cases happ : out.applied
      · simpa using hc
      · simp only [if_true]
        by_cases ht : Y'.tp = tp
        · rw [ht] at hc ⊢
          simp only [upd_same, List.filter_append, List.length_append, filter_batch_mkEntries_other _ _ _ _ hyb]
          simpa using hc
        · rw [upd_other _ _ _ _ ht]; exact hc

theorem invJournal_step (cfg : Cfg) (s : State) (e : Event) (s' : State) (hA : InvAck s)
    (hI : InvJournal s) (hs : step cfg s e = some s') : InvJournal s' := by
  cases e with
  | produce pw tp msgs out =>
    simp only [step, stepProduce] at hs
    repeat' split at hs
    all_goals (first | (cases hs; done) | skip)
    rename_i _ P hP _ b k hsend _ B hB hg
    obtain ⟨hBpw, hBtp, -, -⟩ := hg
    cases hs
    exact invJournal_produce hA hI hP hB hsend hBpw hBtp rfl rfl rfl
  | newBatch pw b =>
    simp only [step] at hs
    repeat' split at hs
    all_goals (first | (cases hs; done) | skip)
    rename_i _ P hP hg
    have hnone : s.batches b = none := by simpa using hg.2.2.2
    cases hs
    refine hI.of_frame rfl rfl ?_ ?_
    · intro x X' hx
      rcases upd_some_elim hx with ⟨rfl, rfl⟩ | ⟨-, h⟩
      · exact Or.inl ⟨hnone, rfl, rfl, rfl⟩
      · exact Or.inr ⟨X', h, rfl, rfl, rfl, rfl, fun h => h, Or.inl rfl⟩
    · intro x X hx
      have hne : x ≠ b := by intro e; rw [e, hnone] at hx; cases hx
      exact ⟨X, by show upd s.batches b _ x = _; rw [upd_other _ _ _ _ hne]; exact hx, rfl, rfl⟩
  | add pw b c i size =>
    simp only [step, stepAdd] at hs
    repeat' split at hs
    all_goals (first | (cases hs; done) | skip)
    rename_i _ P hP _ B hB _ C hC hg
    obtain ⟨-, -, -, -, -, hdet, -⟩ := hg
    cases hs
    have h0 : B.napplied = 0 := by
      cases hn : B.napplied with
      | zero => rfl
      | succ n => have := hI.appliedDet b B hB (by omega); rw [hdet] at this; cases this
    exact hI.of_frame rfl rfl (jframe_bat_upd (B' := B.push { msg := (c, i), size := size, seq := s.seq }) hB rfl rfl rfl rfl rfl (fun h => h) (Or.inr h0)).1 (jframe_bat_upd (B' := B.push { msg := (c, i), size := size, seq := s.seq }) hB rfl rfl rfl rfl rfl (fun h => h) (Or.inr h0)).2
  | detach pw b why size =>
    simp only [step, stepDetach] at hs
    repeat' split at hs
    all_goals (first | (cases hs; done) | skip)
    rename_i _ P hP _ B hB hg
    cases hs
    exact hI.of_frame rfl rfl (jframe_bat_upd (B' := { B with detached := some why }) hB rfl rfl rfl rfl rfl (fun _ => rfl) (Or.inl rfl)).1 (jframe_bat_upd (B' := { B with detached := some why }) hB rfl rfl rfl rfl rfl (fun _ => rfl) (Or.inl rfl)).2
  | timerFire pw b att =>
    simp only [step] at hs
    repeat' split at hs
    all_goals (first | (cases hs; done) | skip)
    rename_i _ P hP _ B hB hg
    cases hs
    exact hI.of_frame rfl rfl (jframe_bat_upd (B' := { B with timerFired := true }) hB rfl rfl rfl rfl rfl (fun h => h) (Or.inl rfl)).1 (jframe_bat_upd (B' := { B with timerFired := true }) hB rfl rfl rfl rfl rfl (fun h => h) (Or.inl rfl)).2
  | completion pw b code =>
    simp only [step] at hs
    repeat' split at hs
    all_goals (first | (cases hs; done) | skip)
    rename_i _ P hP _ B hB hg
    cases hs
    exact hI.of_frame rfl rfl (jframe_bat_upd (B' := { B with ncompl := B.ncompl + 1, cbCode := some code }) hB rfl rfl rfl rfl rfl (fun h => h) (Or.inl rfl)).1 (jframe_bat_upd (B' := { B with ncompl := B.ncompl + 1, cbCode := some code }) hB rfl rfl rfl rfl rfl (fun h => h) (Or.inl rfl)).2
  | complete pw b code =>
    simp only [step] at hs
    repeat' split at hs
    all_goals (first | (cases hs; done) | skip)
    rename_i _ P hP _ B hB hg
    cases hs
    exact hI.of_frame rfl rfl (jframe_bat_upd (B' := { B with done := some code }) hB rfl rfl rfl rfl rfl (fun h => h) (Or.inl rfl)).1 (jframe_bat_upd (B' := { B with done := some code }) hB rfl rfl rfl rfl rfl (fun h => h) (Or.inl rfl)).2
  | _ =>
    simp only [step, stepReject, stepRet] at hs
    repeat' split at hs
    all_goals (first | (cases hs; done) | skip)
    all_goals (cases hs)
    all_goals exact hI.of_frame rfl rfl (jframe_bat_id rfl).1 (jframe_bat_id rfl).2

end KV.Writer
