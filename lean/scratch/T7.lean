import KafkaVerif.Lemmas.WriterOrder
namespace KV.Writer

theorem invOrd_produce {s s' : State} (hI : InvOrd s) {pw b k : Nat} {P : PW} {B : Batch} {tp : TP} {out : BrOut}
    (hP : s.pws pw = some P) (hB : s.batches b = some B) (hsend : P.sender = .attempting b k none)
    (hPtp : P.tp = tp)
    (epws : s'.pws = upd s.pws pw (some { P with sender := .attempting b k (some out) }))
    (ebat : s'.batches = upd s.batches b (some (B.noteProduce out)))
    (elog : s'.log = upd s.log tp (s.log tp ++ mkEntries pw b B)) (eseq : s'.seq = s.seq)
    (epwOf : s'.pwOf = s.pwOf) : InvOrd s' := by
  have hpipe' : ({ P with sender := .attempting b k (some out) } : PW).pipe = P.pipe := by
    simp [PW.pipe, hsend, Sender.batch?]
  have hhead : P.pipe = b :: (P.queue ++ P.pending.toList ++ P.curr.toList) := by
    simp [PW.pipe, hsend, Sender.batch?]
  have hb := shrink_bat (B' := B.noteProduce out) hB ebat rfl rfl
  have hpws : ∀ x X', s'.pws x = some X' → ∃ X, s.pws x = some X ∧ X'.tp = X.tp ∧ X'.pipe = X.pipe := by
    intro x X' hx
    rw [epws] at hx
    rcases upd_some_elim hx with ⟨rfl, rfl⟩ | ⟨-, h⟩
    · exact ⟨P, hP, rfl, hpipe'⟩
    · exact ⟨X', h, rfl, rfl⟩
  have hSB : ∀ y z, SeqBefore s.batches y z → SeqBefore s'.batches y z := by
    intro y z hr B1' B2' h1 h2 m hm m' hm'
    obtain ⟨B1, hB1, e1, -⟩ := hb.1 _ _ h1
    obtain ⟨B2, hB2, e2, -⟩ := hb.1 _ _ h2
    exact hr B1 B2 hB1 hB2 m (e1 ▸ hm) m' (e2 ▸ hm')
  have hlogtp : s'.log tp = s.log tp ++ mkEntries pw b B := by rw [elog]; simp
  have hlogne : ∀ t, t ≠ tp → s'.log t = s.log t := fun t ht => by rw [elog]; exact upd_other _ _ _ _ ht
  have hent : ∀ x ∈ mkEntries pw b B, ∃ m ∈ B.msgs, x.seq = m.seq ∧ x.batch = b := by
    intro x hx
    obtain ⟨m, hm, rfl⟩ := List.mem_map.mp hx
    exact ⟨m, hm, rfl, rfl⟩
  constructor
  · intro x X' hx m hm
    obtain ⟨X, hX, e, -⟩ := hb.1 _ _ hx
    rw [eseq]; exact hI.counterB x X hX m (e ▸ hm)
  · intro t x hx
    rw [eseq]
    by_cases ht : t = tp
    · subst ht; rw [hlogtp] at hx
      rcases List.mem_append.mp hx with hx | hx
      · exact hI.counterL t x hx
      · obtain ⟨m, hm, e, -⟩ := hent x hx
        rw [e]; exact hI.counterB b B hB m hm
    · rw [hlogne t ht] at hx; exact hI.counterL t x hx
  · intro x X' hx
    obtain ⟨X, hX, e, -⟩ := hb.1 _ _ hx
    rw [e]; exact hI.sorted x X hX
  · intro x X' hx
    obtain ⟨X, hX, e, -⟩ := hpws _ _ hx
    rw [epwOf, e]; exact hI.uniq x X hX
  · intro x X' hx y hy
    obtain ⟨X, hX, -, e⟩ := hpws _ _ hx
    obtain ⟨Y, hY, hpw⟩ := hI.pipeEx x X hX y (e ▸ hy)
    obtain ⟨Y', hY', -, e2⟩ := hb.2 _ _ hY
    exact ⟨Y', hY', e2 ▸ hpw⟩
  · intro x X' hx
    obtain ⟨X, hX, -, e⟩ := hpws _ _ hx
    rw [e]; exact hI.pipeNodup x X hX
  · intro x X' hx
    obtain ⟨X, hX, -, e⟩ := hpws _ _ hx
    rw [e]; exact (hI.pipeSeq x X hX).imp (hSB _ _)
  · intro x X' hx e he y hy Y' hY' a ha
    obtain ⟨X, hX, etp, epipe⟩ := hpws _ _ hx
    obtain ⟨Y, hY, emsgs, -⟩ := hb.1 _ _ hY'
    rw [epipe] at hy; rw [emsgs] at ha; rw [etp] at he
    by_cases ht : X.tp = tp
    · -- then x is the producing partition writer
      have hxpw : x = pw := by
        have h1 := hI.uniq x X hX
        have h2 := hI.uniq pw P hP
        rw [ht] at h1; rw [hPtp] at h2; rw [h1] at h2; cases h2; rfl
      subst hxpw; rw [hP] at hX; cases hX
      rw [ht, hlogtp] at he
      rcases List.mem_append.mp he with he | he
      · exact hI.logSeq x P hP e (ht ▸ he) y hy Y hY a ha
      · obtain ⟨m0, hm0, es, eb⟩ := hent e he
        by_cases hyb : y = b
        · right; rw [eb, hyb]
        · left
          have hps := hI.pipeSeq x P hP
          rw [hhead] at hps hy
          have hy' : y ∈ P.queue ++ P.pending.toList ++ P.curr.toList := by
            rcases List.mem_cons.mp hy with h | h
            · exact absurd h hyb
            · exact h
          have := (List.pairwise_cons.mp hps).1 y hy'
          rw [es]; exact this B Y hB hY m0 hm0 a ha
    · rw [hlogne _ ht] at he
      exact hI.logSeq x X hX e he y hy Y hY a ha
  · intro t
    by_cases ht : t = tp
    · subst ht; rw [hlogtp]
      refine List.pairwise_append.mpr ⟨hI.logOrd t, ?_, ?_⟩
      · unfold mkEntries
        refine List.Pairwise.map _ ?_ (hI.sorted b B hB)
        intro m m' h; exact Or.inl h
      · intro x hx y hy
        obtain ⟨m0, hm0, es, eb⟩ := hent y hy
        have := hI.logSeq pw P hP x (hPtp ▸ hx) b (by rw [hhead]; simp) B hB m0 hm0
        rcases this with h | h
        · left; rw [es]; exact h
        · right; rw [eb]; exact h
    · rw [hlogne t ht]; exact hI.logOrd t

end KV.Writer
