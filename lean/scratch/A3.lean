import KafkaVerif.Lemmas.WriterAck
namespace KV.Writer

theorem ackState_batch {σ : Sender} {b : Nat} (h : AckState σ b) : σ.batch? = some b := by
  rcases h with ⟨k, hk⟩ | ⟨cb, hk⟩ <;> (rw [hk]; rfl)

theorem sender_mem_pipe {P : PW} {b : Nat} (h : P.sender.batch? = some b) : b ∈ P.pipe := by
  simp [PW.pipe, h]

theorem sender_mem_sent {P : PW} {b : Nat} (h : P.sender.batch? = some b) : b ∈ P.sent := by
  simp [PW.sent, h]

/-- while an attempt is in flight without an answer, the batch has not been acknowledged before -/
theorem not_acked_in_flight {s : State} (hI : InvAck s) {pw b k : Nat} {P : PW} {B : Batch}
    (hP : s.pws pw = some P) (hB : s.batches b = some B) (hsend : P.sender = .attempting b k none) (hBpw : B.pw = pw) :
    B.acked = false := by
  cases h : B.acked with
  | false => rfl
  | true =>
    rcases hI.ackedWhere b B hB h with hd | ⟨P0, hP0, hst⟩
    · have := hI.pipeLive pw P hP b (sender_mem_pipe (by rw [hsend]; rfl)) B hB
      rw [this] at hd; cases hd
    · rw [hBpw, hP] at hP0; cases hP0
      rw [hsend] at hst
      rcases hst with ⟨k', hk⟩ | ⟨cb, hk⟩ <;> cases hk

theorem invAck_produce {s s' : State} (hI : InvAck s) {pw b k : Nat} {P : PW} {B : Batch} {tp : TP} {out : BrOut}
    (hP : s.pws pw = some P) (hB : s.batches b = some B) (hsend : P.sender = .attempting b k none)
    (hBpw : B.pw = pw) (hBtp : B.tp = tp)
    (epws : s'.pws = upd s.pws pw (some { P with sender := .attempting b k (some out) }))
    (ebat : s'.batches = upd s.batches b (some (B.noteProduce out)))
    (hlogmono : ∀ t e, e ∈ s.log t → e ∈ s'.log t)
    (hlogent : out = .acked → ∀ x ∈ mkEntries pw b B, x ∈ s'.log tp) : InvAck s' := by
  have hna := not_acked_in_flight hI hP hB hsend hBpw
  have hpipe : ({ P with sender := .attempting b k (some out) } : PW).pipe = P.pipe := by
    simp [PW.pipe, hsend, Sender.batch?]
  have hsent : ({ P with sender := .attempting b k (some out) } : PW).sent = P.sent := by
    simp [PW.sent, hsend, Sender.batch?]
  have hbpipe : b ∈ P.pipe := sender_mem_pipe (by rw [hsend]; rfl)
  have hbsent : b ∈ P.sent := sender_mem_sent (by rw [hsend]; rfl)
  have hold : ∀ x X', s'.pws x = some X' → ∃ X, s.pws x = some X ∧ X'.pipe = X.pipe ∧ X'.sent = X.sent ∧
      ((x = pw ∧ X = P ∧ X'.sender = .attempting b k (some out)) ∨ (x ≠ pw ∧ X' = X)) := by
    intro x X' hx
    rw [epws] at hx
    rcases upd_some_elim hx with ⟨rfl, rfl⟩ | ⟨hne, h⟩
    · exact ⟨P, hP, hpipe, hsent, Or.inl ⟨rfl, rfl, rfl⟩⟩
    · exact ⟨X', h, rfl, rfl, Or.inr ⟨hne, rfl⟩⟩
  have hbat : ∀ y Y', s'.batches y = some Y' → ∃ Y, s.batches y = some Y ∧ Y'.msgs = Y.msgs ∧ Y'.tp = Y.tp ∧ Y'.pw = Y.pw ∧
      Y'.done = Y.done ∧ Y'.detached = Y.detached ∧
      ((y = b ∧ Y = B ∧ Y'.acked = (out == .acked)) ∨ (y ≠ b ∧ Y' = Y)) := by
    intro y Y' hy
    rw [ebat] at hy
    rcases upd_some_elim hy with ⟨rfl, rfl⟩ | ⟨hne, h⟩
    · exact ⟨B, hB, rfl, rfl, rfl, rfl, rfl, Or.inl ⟨rfl, rfl, by simp [Batch.noteProduce, hna]⟩⟩
    · exact ⟨Y', h, rfl, rfl, rfl, rfl, rfl, Or.inr ⟨hne, rfl⟩⟩
  have hout : ∀ {o : BrOut}, (o == BrOut.acked) = true → o = .acked := by
    intro o h; cases o <;> simp_all
  constructor
  · intro x X' hx y hy Y' hY'
    obtain ⟨X, hX, hp, -, -⟩ := hold x X' hx
    obtain ⟨Y, hY, -, -, -, hd, -⟩ := hbat y Y' hY'
    rw [hd]; exact hI.pipeLive x X hX y (hp ▸ hy) Y hY
  · intro x X' hx y hy Y' hY'
    obtain ⟨X, hX, -, hs, -⟩ := hold x X' hx
    obtain ⟨Y, hY, -, -, -, -, hdet, -⟩ := hbat y Y' hY'
    rw [hdet]; exact hI.sentDet x X hX y (hs ▸ hy) Y hY
  · intro y Y' hY' hack
    obtain ⟨Y, hY, -, -, -, -, hdet, hc⟩ := hbat y Y' hY'
    rw [hdet]
    rcases hc with ⟨rfl, rfl, -⟩ | ⟨-, rfl⟩
    · exact hI.sentDet pw P hP y hbsent Y hB
    · exact hI.ackedDet y Y' hY hack
  · intro x X' hx y hst Y' hY'
    obtain ⟨X, hX, -, -, hc⟩ := hold x X' hx
    obtain ⟨Y, hY, -, -, -, -, -, hcb⟩ := hbat y Y' hY'
    rcases hc with ⟨rfl, rfl, hsd⟩ | ⟨hne, rfl⟩
    · rw [hsd] at hst
      rcases hst with ⟨k', hk⟩ | ⟨cb, hk⟩
      · cases hk
        rcases hcb with ⟨-, -, ha⟩ | ⟨hne, -⟩
        · rw [ha]; rfl
        · exact absurd rfl hne
      · cases hk
    · have := hI.senderAcked x X' hX y hst Y hY
      rcases hcb with ⟨rfl, rfl, -⟩ | ⟨-, rfl⟩
      · rw [hna] at this; cases this
      · exact this
  · intro y Y' hY' hd
    obtain ⟨Y, hY, -, -, -, hd', -, hcb⟩ := hbat y Y' hY'
    rcases hcb with ⟨rfl, rfl, -⟩ | ⟨-, rfl⟩
    · have := hI.pipeLive pw P hP y hbpipe Y hB
      rw [hd', this] at hd; cases hd
    · exact hI.doneAcked y Y' hY hd
  · intro y Y' hY' hack
    obtain ⟨Y, hY, -, -, hpw, hd', -, hcb⟩ := hbat y Y' hY'
    rcases hcb with ⟨rfl, rfl, ha⟩ | ⟨hne, rfl⟩
    · right
      rw [ha] at hack
      have := hout hack
      subst this
      exact ⟨{ P with sender := .attempting y k (some .acked) }, by rw [hpw, hBpw, epws]; simp, Or.inl ⟨k, rfl⟩⟩
    · rcases hI.ackedWhere y Y' hY hack with hd | ⟨X, hX, hst⟩
      · exact Or.inl hd
      · right
        by_cases hxp : Y'.pw = pw
        · rw [hxp, hP] at hX; cases hX
          rw [hsend] at hst
          rcases hst with ⟨k', hk⟩ | ⟨cb, hk⟩ <;> cases hk
        · exact ⟨X, by rw [epws, upd_other _ _ _ _ hxp]; exact hX, hst⟩
  · intro y Y' hY' hack m hm
    obtain ⟨Y, hY, hmsgs, htp, -, -, -, hcb⟩ := hbat y Y' hY'
    rcases hcb with ⟨rfl, rfl, ha⟩ | ⟨hne, rfl⟩
    · rw [ha] at hack
      have := hout hack
      rw [htp, hBtp]
      rw [hmsgs] at hm
      refine ⟨{ msg := m.msg, seq := m.seq, batch := y, ord := Y.ord, pw := pw }, hlogent this _ ?_, rfl, rfl⟩
      exact List.mem_map.mpr ⟨m, hm, rfl⟩
    · obtain ⟨e, he, h1, h2⟩ := hI.ackedInLog y Y' hY hack m hm
      exact ⟨e, hlogmono _ _ he, h1, h2⟩

end KV.Writer
