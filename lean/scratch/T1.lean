import KafkaVerif.Model.Writer
namespace KV.Writer

theorem forall_upd {β : Type} {P : β → Prop} (f : Nat → Option β) (b0 : Nat) (B0 : β)
    (h : ∀ b B, f b = some B → P B) (h0 : P B0) : ∀ b B, upd f b0 (some B0) b = some B → P B := by
  intro b B hb
  by_cases hbb : b = b0
  · subst hbb; simp at hb; exact hb ▸ h0
  · rw [upd_other _ _ _ _ hbb] at hb; exact h b B hb

def BatchOK (cfg : Cfg) (B : Batch) : Prop :=
  B.msgs.length ≤ cfg.batchSize ∧ B.bytes ≤ cfg.batchBytes ∧ B.bytes = (B.msgs.map (·.size)).sum

def CallOK (cfg : Cfg) (C : Call) : Prop := C.phase = .batching → allFit cfg C.msgs = true

def Inv08 (cfg : Cfg) (s : State) : Prop :=
  (∀ b B, s.batches b = some B → BatchOK cfg B) ∧ (∀ c C, s.calls c = some C → CallOK cfg C)

theorem inv08_step (cfg : Cfg) (s : State) (e : Event) (s' : State) (hI : Inv08 cfg s) (hs : step cfg s e = some s') :
    Inv08 cfg s' := by
  obtain ⟨hB, hC⟩ := hI
  cases e <;> simp only [step, stepReject, stepAdd, stepDetach, stepProduce, stepRet] at hs <;>
    repeat' split at hs
  all_goals (first | (cases hs; done) | skip)
  all_goals (cases hs)
  all_goals (refine ⟨?_, ?_⟩)
  all_goals dsimp only
  all_goals (first | exact hB | exact hC | skip)
  all_goals (first
    | (apply forall_upd _ _ _ hB; exact hB _ _ (by assumption))
    | (apply forall_upd _ _ _ hC; intro hp; first | cases hp | (exact hC _ _ (by assumption) hp) | (simp_all; done))
    | skip)
  all_goals (trace_state; sorry)
end KV.Writer
