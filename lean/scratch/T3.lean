import KafkaVerif.Lemmas.WriterOrder
namespace KV.Writer

theorem invOrd_step (cfg : Cfg) (s : State) (e : Event) (s' : State) (hI : InvOrd s) (hs : step cfg s e = some s') :
    InvOrd s' := by
  cases e with
  | detach pw b why size =>
    simp only [step, stepDetach] at hs
    repeat' split at hs
    all_goals (first | (cases hs; done) | skip)
    rename_i _ P hP _ B hB hg
    obtain ⟨hc, hpend, -, -⟩ := hg
    cases hs
    have hb := shrink_bat (B' := { B with detached := some why }) hB rfl rfl rfl
    exact hI.of_shrink rfl rfl rfl
      (shrink_pws hP rfl rfl (by simp [PW.pipe, hc, hpend])) hb.1 hb.2
  | qput q b acc =>
    simp only [step] at hs
    repeat' split at hs
    all_goals (first | (cases hs; done) | skip)
    rename_i _ pw hq _ P hP hg
    obtain ⟨hpend, hc, -⟩ := hg
    cases hs
    exact hI.of_shrink rfl rfl rfl
      (shrink_pws hP rfl rfl (by cases acc <;> simp [PW.pipe, hc, hpend, enq])) shrink_bat_id.1 shrink_bat_id.2
  | qget q ob =>
    simp only [step] at hs
    repeat' split at hs
    all_goals (first | (cases hs; done) | skip)
    · rename_i _ pw hq _ P hP _ b hg
      obtain ⟨hsend, hhead⟩ := hg
      cases hs
      refine hI.of_shrink rfl rfl rfl (shrink_pws hP rfl rfl ?_) shrink_bat_id.1 shrink_bat_id.2
      have := head?_cons_tail hhead
      simp only [PW.pipe, hsend, Sender.batch?]
      rw [this]; simp
    · rename_i _ pw hq _ P hP _ hg
      obtain ⟨hsend, -, -⟩ := hg
      cases hs
      exact hI.of_shrink rfl rfl rfl (shrink_pws hP rfl rfl (by simp [PW.pipe, hsend, Sender.batch?])) shrink_bat_id.1 shrink_bat_id.2
  | qclose q =>
    simp only [step] at hs
    repeat' split at hs
    all_goals (first | (cases hs; done) | skip)
    rename_i _ pw hq _ P hP hg
    cases hs
    exact hI.of_shrink rfl rfl rfl (shrink_pws hP rfl rfl (by simp [PW.pipe])) shrink_bat_id.1 shrink_bat_id.2
  | timerFire pw b att =>
    simp only [step] at hs
    repeat' split at hs
    all_goals (first | (cases hs; done) | skip)
    rename_i _ P hP _ B hB hg
    cases hs
    have hb := shrink_bat (B' := { B with timerFired := true }) hB rfl rfl rfl
    exact hI.of_shrink rfl rfl rfl shrink_pws_id hb.1 hb.2
  | attempt pw b k =>
    simp only [step] at hs
    repeat' split at hs
    all_goals (first | (cases hs; done) | skip)
    rename_i _ P hP hg
    cases hs
    exact hI.of_shrink rfl rfl rfl (shrink_pws hP rfl rfl (by simp [PW.pipe, hg.1, Sender.batch?])) shrink_bat_id.1 shrink_bat_id.2
  | attemptDone pw b k code =>
    simp only [step] at hs
    repeat' split at hs
    all_goals (first | (cases hs; done) | skip)
    rename_i _ P hP _ b' k' br hsend hg
    obtain ⟨rfl, rfl, -⟩ := hg
    cases hs
    refine hI.of_shrink rfl rfl rfl (shrink_pws hP rfl rfl ?_) shrink_bat_id.1 shrink_bat_id.2
    have : (afterAttempt cfg b' k' code).batch? = some b' := by
      unfold afterAttempt
      split
      · rfl
      · split <;> rfl
    simp only [PW.pipe]
    rw [this, hsend]
    simp [Sender.batch?]
  | completion pw b code =>
    simp only [step] at hs
    repeat' split at hs
    all_goals (first | (cases hs; done) | skip)
    rename_i _ P hP _ B hB hg
    cases hs
    have hb := shrink_bat (B' := { B with ncompl := B.ncompl + 1, cbCode := some code }) hB rfl rfl rfl
    exact hI.of_shrink rfl rfl rfl (shrink_pws hP rfl rfl (by simp [PW.pipe, hg.2, Sender.batch?])) hb.1 hb.2
  | complete pw b code =>
    simp only [step] at hs
    repeat' split at hs
    all_goals (first | (cases hs; done) | skip)
    rename_i _ P hP _ B hB hg
    cases hs
    have hb := shrink_bat (B' := { B with done := some code }) hB rfl rfl rfl
    exact hI.of_shrink rfl rfl rfl (shrink_pws hP rfl rfl (by simp [PW.pipe, hg, Sender.batch?])) hb.1 hb.2
  | newPW pw q tp => sorry
  | newBatch pw b => sorry
  | add pw b c i size => sorry
  | produce pw tp msgs out => sorry
  | _ =>
    simp only [step, stepReject, stepRet] at hs
    repeat' split at hs
    all_goals (first | (cases hs; done) | skip)
    all_goals (cases hs)
    all_goals exact hI.of_shrink rfl rfl rfl shrink_pws_id shrink_bat_id.1 shrink_bat_id.2

end KV.Writer
