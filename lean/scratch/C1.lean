import KafkaVerif.Lemmas.WriterPlace
namespace KV.Writer

/-! ## Completion callback accounting -/

structure InvCompl (cfg : Cfg) (s : State) : Prop where
  complZero : ∀ b B, s.batches b = some B → B.done = none →
    (∀ P, s.pws B.pw = some P → ∀ code, P.sender ≠ .finishing b code true) → B.ncompl = 0
  complOne : ∀ pw P, s.pws pw = some P → ∀ b code, P.sender = .finishing b code true → ∀ B, s.batches b = some B →
    B.ncompl = 1 ∧ B.cbCode = some code
  complDone : ∀ b B code, s.batches b = some B → B.done = some code →
    (cfg.completion = true → B.ncompl = 1 ∧ B.cbCode = some code) ∧ (cfg.completion = false → B.ncompl = 0)

theorem invCompl_init (cfg : Cfg) : InvCompl cfg State.init := by
  constructor <;> simp [State.init]

theorem InvCompl.of_frame {cfg : Cfg} {s s' : State} (h : InvCompl cfg s)
    (hpws : ∀ pw P', s'.pws pw = some P' → (∀ b code, P'.sender ≠ .finishing b code true) ∨
      ∃ P, s.pws pw = some P ∧ P'.sender = P.sender)
    (hpws' : ∀ pw P, s.pws pw = some P → ∀ b code, P.sender = .finishing b code true →
      ∃ P', s'.pws pw = some P' ∧ P'.sender = .finishing b code true)
    (hbat : ∀ b B', s'.batches b = some B' →
      (B'.ncompl = 0 ∧ B'.done = none ∧ ∀ pw P', s'.pws pw = some P' → P'.sender.batch? ≠ some b) ∨
      ∃ B, s.batches b = some B ∧ B'.pw = B.pw ∧ B'.done = B.done ∧ B'.ncompl = B.ncompl ∧ B'.cbCode = B.cbCode) :
    InvCompl cfg s' := by
  constructor
  · intro b B' hB' hd hprem
    rcases hbat b B' hB' with ⟨h0, -, -⟩ | ⟨B, hB, hpw, hd', hn, -⟩
    · exact h0
    · rw [hn]
      refine h.complZero b B hB (hd' ▸ hd) ?_
      intro P hP code hsend
      obtain ⟨P', hP', hs'⟩ := hpws' _ P hP b code hsend
      exact hprem P' (hpw ▸ hP') code hs'
  · intro pw P' hP' b code hsend B' hB'
    rcases hpws pw P' hP' with hno | ⟨P, hP, hsd⟩
    · exact absurd hsend (hno b code)
    · rcases hbat b B' hB' with ⟨-, -, hfresh⟩ | ⟨B, hB, -, -, hn, hc⟩
      · exact absurd (by rw [hsend]; rfl) (hfresh pw P' hP')
      · rw [hn, hc]; exact h.complOne pw P hP b code (hsd ▸ hsend) B hB
  · intro b B' code hB' hd
    rcases hbat b B' hB' with ⟨-, hdn, -⟩ | ⟨B, hB, -, hd', hn, hc⟩
    · rw [hdn] at hd; cases hd
    · rw [hn, hc]; exact h.complDone b B code hB (hd' ▸ hd)

end KV.Writer

namespace KV.Writer

theorem cframe_pws_id {s : State} :
    (∀ pw P', s.pws pw = some P' → (∀ b code, P'.sender ≠ .finishing b code true) ∨ ∃ P, s.pws pw = some P ∧ P'.sender = P.sender) ∧
    (∀ pw P, s.pws pw = some P → ∀ b code, P.sender = .finishing b code true → ∃ P', s.pws pw = some P' ∧ P'.sender = .finishing b code true) :=
  ⟨fun _ P' h => Or.inr ⟨P', h, rfl⟩, fun _ P h _ _ hs => ⟨P, h, hs⟩⟩

/-- partition writer pw changes; either its sender is unchanged, or neither the old nor the new sender state is
"Completion already called" -/
theorem cframe_pws_upd {s : State} {pws' : Nat → Option PW} {pw : Nat} {P P' : PW} (hP : s.pws pw = some P)
    (e : pws' = upd s.pws pw (some P'))
    (hsd : P'.sender = P.sender ∨ ((∀ b code, P'.sender ≠ .finishing b code true) ∧ (∀ b code, P.sender ≠ .finishing b code true))) :
    (∀ x X', pws' x = some X' → (∀ b code, X'.sender ≠ .finishing b code true) ∨ ∃ X, s.pws x = some X ∧ X'.sender = X.sender) ∧
    (∀ x X, s.pws x = some X → ∀ b code, X.sender = .finishing b code true → ∃ X', pws' x = some X' ∧ X'.sender = .finishing b code true) := by
  constructor
  · intro x X' hx
    rw [e] at hx
    rcases upd_some_elim hx with ⟨rfl, rfl⟩ | ⟨-, h⟩
    · rcases hsd with h | ⟨h, -⟩
      · exact Or.inr ⟨P, hP, h⟩
      · exact Or.inl h
    · exact Or.inr ⟨X', h, rfl⟩
  · intro x X hx b code hs
    by_cases hxp : x = pw
    · subst hxp; rw [hP] at hx; cases hx
      rcases hsd with h | ⟨-, h⟩
      · exact ⟨P', by rw [e]; simp, h ▸ hs⟩
      · exact absurd hs (h b code)
    · exact ⟨X, by rw [e, upd_other _ _ _ _ hxp]; exact hx, hs⟩

theorem cframe_bat_id {s s' : State} (e : s'.batches = s.batches) :
    ∀ b B', s'.batches b = some B' →
      (B'.ncompl = 0 ∧ B'.done = none ∧ ∀ pw P', s'.pws pw = some P' → P'.sender.batch? ≠ some b) ∨
      ∃ B, s.batches b = some B ∧ B'.pw = B.pw ∧ B'.done = B.done ∧ B'.ncompl = B.ncompl ∧ B'.cbCode = B.cbCode :=
  fun _ B' h => Or.inr ⟨B', e ▸ h, rfl, rfl, rfl, rfl⟩

theorem cframe_bat_upd {s s' : State} {b : Nat} {B B' : Batch} (hB : s.batches b = some B)
    (e : s'.batches = upd s.batches b (some B')) (h1 : B'.pw = B.pw) (h2 : B'.done = B.done) (h3 : B'.ncompl = B.ncompl)
    (h4 : B'.cbCode = B.cbCode) :
    ∀ x X', s'.batches x = some X' →
      (X'.ncompl = 0 ∧ X'.done = none ∧ ∀ pw P', s'.pws pw = some P' → P'.sender.batch? ≠ some x) ∨
      ∃ X, s.batches x = some X ∧ X'.pw = X.pw ∧ X'.done = X.done ∧ X'.ncompl = X.ncompl ∧ X'.cbCode = X.cbCode := by
  intro x X' hx
  rw [e] at hx
  rcases upd_some_elim hx with ⟨rfl, rfl⟩ | ⟨-, h⟩
  · exact Or.inr ⟨B, hB, h1, h2, h3, h4⟩
  · exact Or.inr ⟨X', h, rfl, rfl, rfl, rfl⟩

theorem invCompl_completion {cfg : Cfg} {s s' : State} (hO : InvOrd s) (hA : InvAck s) (hI : InvCompl cfg s)
    {pw b : Nat} {P : PW} {B : Batch} {code : Code}
    (hP : s.pws pw = some P) (hB : s.batches b = some B) (hsend : P.sender = .finishing b code false)
    (epws : s'.pws = upd s.pws pw (some { P with sender := .finishing b code true }))
    (ebat : s'.batches = upd s.batches b (some { B with ncompl := B.ncompl + 1, cbCode := some code })) :
    InvCompl cfg s' := by
  have hbpipe : b ∈ P.pipe := sender_mem_pipe (by rw [hsend]; rfl)
  have hBpw : B.pw = pw := by
    obtain ⟨B0, hB0, h⟩ := hO.pipeEx pw P hP b hbpipe
    rw [hB] at hB0; cases hB0; exact h
  have hBdone : B.done = none := hA.pipeLive pw P hP b hbpipe B hB
  have hlookpw : s'.pws pw = some { P with sender := .finishing b code true } := by rw [epws]; simp
  have hn0 : B.ncompl = 0 := by
    refine hI.complZero b B hB hBdone ?_
    intro P0 hP0 c hs
    rw [hBpw, hP] at hP0; cases hP0
    rw [hsend] at hs; cases hs
  -- a different partition writer never holds b
  have hother : ∀ x X, s.pws x = some X → x ≠ pw → X.sender.batch? ≠ some b := by
    intro x X hx hne hsb
    obtain ⟨B0, hB0, h⟩ := hO.pipeEx x X hx b (sender_mem_pipe hsb)
    rw [hB] at hB0; cases hB0
    exact hne (h.symm.trans hBpw)
  constructor
  · intro y Y' hY' hd hprem
    rw [ebat] at hY'
    rcases upd_some_elim hY' with ⟨rfl, rfl⟩ | ⟨hne, hY⟩
    · exact absurd rfl (hprem _ (by show s'.pws B.pw = _; rw [hBpw]; exact hlookpw) code)
    · refine hI.complZero y Y' hY hd ?_
      intro P0 hP0 c hs
      by_cases hxp : Y'.pw = pw
      · rw [hxp, hP] at hP0; cases hP0
        rw [hsend] at hs; cases hs
      · exact hprem P0 (by rw [epws, upd_other _ _ _ _ hxp]; exact hP0) c hs
  · intro x X' hx y c hs Y' hY'
    rw [epws] at hx
    rcases upd_some_elim hx with ⟨rfl, rfl⟩ | ⟨hne, hX⟩
    · cases hs
      rw [ebat] at hY'
      simp at hY'; subst hY'
      exact ⟨by simp [hn0], rfl⟩
    · have hyb : y ≠ b := by
        intro e; subst e
        exact hother x X' hX hne (by rw [hs]; rfl)
      rw [ebat, upd_other _ _ _ _ hyb] at hY'
      exact hI.complOne x X' hX y c hs Y' hY'
  · intro y Y' c hY' hd
    rw [ebat] at hY'
    rcases upd_some_elim hY' with ⟨rfl, rfl⟩ | ⟨hne, hY⟩
    · rw [show ({ B with ncompl := B.ncompl + 1, cbCode := some code } : Batch).done = B.done from rfl, hBdone] at hd
      cases hd
    · exact hI.complDone y Y' c hY hd

theorem invCompl_complete {cfg : Cfg} {s s' : State} (hO : InvOrd s) (hA : InvAck s) (hI : InvCompl cfg s)
    {pw b : Nat} {P : PW} {B : Batch} {code : Code}
    (hP : s.pws pw = some P) (hB : s.batches b = some B) (hsend : P.sender = .finishing b code cfg.completion)
    (epws : s'.pws = upd s.pws pw (some { P with sender := .idle }))
    (ebat : s'.batches = upd s.batches b (some { B with done := some code })) :
    InvCompl cfg s' := by
  have hbpipe : b ∈ P.pipe := sender_mem_pipe (by rw [hsend]; rfl)
  have hBpw : B.pw = pw := by
    obtain ⟨B0, hB0, h⟩ := hO.pipeEx pw P hP b hbpipe
    rw [hB] at hB0; cases hB0; exact h
  have hBdone : B.done = none := hA.pipeLive pw P hP b hbpipe B hB
  have hother : ∀ x X, s.pws x = some X → x ≠ pw → X.sender.batch? ≠ some b := by
    intro x X hx hne hsb
    obtain ⟨B0, hB0, h⟩ := hO.pipeEx x X hx b (sender_mem_pipe hsb)
    rw [hB] at hB0; cases hB0
    exact hne (h.symm.trans hBpw)
  constructor
  · intro y Y' hY' hd hprem
    rw [ebat] at hY'
    rcases upd_some_elim hY' with ⟨rfl, rfl⟩ | ⟨hne, hY⟩
    · cases hd
    · refine hI.complZero y Y' hY hd ?_
      intro P0 hP0 c hs
      by_cases hxp : Y'.pw = pw
      · rw [hxp, hP] at hP0; cases hP0
        rw [hsend] at hs
        exact hne (Sender.finishing.inj hs).1.symm
      · exact hprem P0 (by rw [epws, upd_other _ _ _ _ hxp]; exact hP0) c hs
  · intro x X' hx y c hs Y' hY'
    rw [epws] at hx
    rcases upd_some_elim hx with ⟨rfl, rfl⟩ | ⟨hne, hX⟩
    · cases hs
    · have hyb : y ≠ b := by
        intro e; subst e
        exact hother x X' hX hne (by rw [hs]; rfl)
      rw [ebat, upd_other _ _ _ _ hyb] at hY'
      exact hI.complOne x X' hX y c hs Y' hY'
  · intro y Y' c hY' hd
    rw [ebat] at hY'
    rcases upd_some_elim hY' with ⟨rfl, rfl⟩ | ⟨hne, hY⟩
    · cases hd
      constructor
      · intro hc
        rw [hc] at hsend
        exact hI.complOne pw P hP y code hsend B hB
      · intro hc
        rw [hc] at hsend
        refine hI.complZero y B hB hBdone ?_
        intro P0 hP0 c' hs
        rw [hBpw, hP] at hP0; cases hP0
        rw [hsend] at hs; cases hs
    · exact hI.complDone y Y' c hY hd

end KV.Writer

namespace KV.Writer

theorem notFin_of {σ : Sender} (h : ∀ b c cb, σ ≠ .finishing b c cb) : ∀ b code, σ ≠ .finishing b code true :=
  fun b c => h b c true

theorem invCompl_step (cfg : Cfg) (s : State) (e : Event) (s' : State) (hO : InvOrd s) (hA : InvAck s)
    (hI : InvCompl cfg s) (hs : step cfg s e = some s') : InvCompl cfg s' := by
  cases e with
  | completion pw b code =>
    simp only [step] at hs
    repeat' split at hs
    all_goals (first | (cases hs; done) | skip)
    rename_i _ P hP _ B hB hg
    cases hs
    exact invCompl_completion hO hA hI hP hB hg.2 rfl rfl
  | complete pw b code =>
    simp only [step] at hs
    repeat' split at hs
    all_goals (first | (cases hs; done) | skip)
    rename_i _ P hP _ B hB hg
    cases hs
    exact invCompl_complete hO hA hI hP hB hg rfl rfl
  | newPW pw q tp =>
    simp only [step] at hs
    repeat' split at hs
    all_goals (first | (cases hs; done) | skip)
    rename_i hg
    obtain ⟨-, -, -, h2, -⟩ := hg
    have h2' : s.pws pw = none := by simpa using h2
    cases hs
    refine hI.of_frame ?_ ?_ (cframe_bat_id rfl)
    · intro x X' hx
      rcases upd_some_elim hx with ⟨rfl, rfl⟩ | ⟨-, h⟩
      · left; intro b c hc; simp [PW.new] at hc
      · exact Or.inr ⟨X', h, rfl⟩
    · intro x X hx b c hsd
      have hne : x ≠ pw := by intro e; rw [e, h2'] at hx; cases hx
      exact ⟨X, by show upd s.pws pw _ x = _; rw [upd_other _ _ _ _ hne]; exact hx, hsd⟩
  | newBatch pw b =>
    simp only [step] at hs
    repeat' split at hs
    all_goals (first | (cases hs; done) | skip)
    rename_i _ P hP hg
    have hnone : s.batches b = none := by simpa using hg.2.2.2
    cases hs
    have hf := cframe_pws_upd (P' := { P with curr := some b, nbatches := P.nbatches + 1 }) hP rfl (Or.inl rfl)
    refine hI.of_frame hf.1 hf.2 ?_
    intro x X' hx
    rcases upd_some_elim hx with ⟨rfl, rfl⟩ | ⟨-, h⟩
    · left
      refine ⟨rfl, rfl, ?_⟩
      intro y Y' hy hsb
      -- the sender of Y' is the sender of an old partition writer, whose batch exists already
      have : ∃ Y, s.pws y = some Y ∧ Y'.sender = Y.sender := by
        rcases upd_some_elim hy with ⟨rfl, rfl⟩ | ⟨-, h⟩
        · exact ⟨P, hP, rfl⟩
        · exact ⟨Y', h, rfl⟩
      obtain ⟨Y, hY, hsd⟩ := this
      obtain ⟨B0, hB0, -⟩ := hO.pipeEx y Y hY x (sender_mem_pipe (hsd ▸ hsb))
      rw [hnone] at hB0; cases hB0
    · exact Or.inr ⟨X', h, rfl, rfl, rfl, rfl⟩
  | detach pw b why size =>
    simp only [step, stepDetach] at hs
    repeat' split at hs
    all_goals (first | (cases hs; done) | skip)
    rename_i _ P hP _ B hB hg
    cases hs
    have hf := cframe_pws_upd (P' := { P with curr := none, pending := some b }) hP rfl (Or.inl rfl)
    exact hI.of_frame hf.1 hf.2 (cframe_bat_upd (B' := { B with detached := some why }) hB rfl rfl rfl rfl rfl)
  | qput q b acc =>
    simp only [step] at hs
    repeat' split at hs
    all_goals (first | (cases hs; done) | skip)
    rename_i _ pw hq _ P hP hg
    cases hs
    have hf := cframe_pws_upd (P' := { P with pending := none, queue := enq P.queue b acc }) hP rfl (Or.inl rfl)
    exact hI.of_frame hf.1 hf.2 (cframe_bat_id rfl)
  | qclose q =>
    simp only [step] at hs
    repeat' split at hs
    all_goals (first | (cases hs; done) | skip)
    rename_i _ pw hq _ P hP hg
    cases hs
    have hf := cframe_pws_upd (P' := { P with qclosed := true }) hP rfl (Or.inl rfl)
    exact hI.of_frame hf.1 hf.2 (cframe_bat_id rfl)
  | qget q ob =>
    simp only [step] at hs
    repeat' split at hs
    all_goals (first | (cases hs; done) | skip)
    · rename_i _ pw hq _ P hP _ b hg
      cases hs
      have hf := cframe_pws_upd (P' := { P with queue := P.queue.tail, sender := .ready b 0 }) hP rfl
        (Or.inr ⟨by simp, by simp [hg.1]⟩)
      exact hI.of_frame hf.1 hf.2 (cframe_bat_id rfl)
    · rename_i _ pw hq _ P hP _ hg
      cases hs
      have hf := cframe_pws_upd (P' := { P with sender := .exited }) hP rfl (Or.inr ⟨by simp, by simp [hg.1]⟩)
      exact hI.of_frame hf.1 hf.2 (cframe_bat_id rfl)
  | attempt pw b k =>
    simp only [step] at hs
    repeat' split at hs
    all_goals (first | (cases hs; done) | skip)
    rename_i _ P hP hg
    cases hs
    have hf := cframe_pws_upd (P' := { P with sender := .attempting b k none }) hP rfl (Or.inr ⟨by simp, by simp [hg.1]⟩)
    exact hI.of_frame hf.1 hf.2 (cframe_bat_id rfl)
  | attemptDone pw b k code =>
    simp only [step] at hs
    repeat' split at hs
    all_goals (first | (cases hs; done) | skip)
    rename_i _ P hP _ b' k' br hsend hg
    cases hs
    have hnf : ∀ x c, afterAttempt cfg b k code ≠ .finishing x c true := by
      intro x c; unfold afterAttempt
      split
      · simp
      · split <;> simp
    have hf := cframe_pws_upd (P' := { P with sender := afterAttempt cfg b k code }) hP rfl (Or.inr ⟨hnf, by simp [hsend]⟩)
    exact hI.of_frame hf.1 hf.2 (cframe_bat_id rfl)
  | produce pw tp msgs out =>
    simp only [step, stepProduce] at hs
    repeat' split at hs
    all_goals (first | (cases hs; done) | skip)
    rename_i _ P hP _ b k hsend _ B hB hg
    cases hs
    have hf := cframe_pws_upd (P' := { P with sender := .attempting b k (some out) }) hP rfl (Or.inr ⟨by simp, by simp [hsend]⟩)
    exact hI.of_frame hf.1 hf.2 (cframe_bat_upd (B' := B.noteProduce out) hB rfl rfl rfl rfl rfl)
  | timerFire pw b att =>
    simp only [step] at hs
    repeat' split at hs
    all_goals (first | (cases hs; done) | skip)
    rename_i _ P hP _ B hB hg
    cases hs
    exact hI.of_frame cframe_pws_id.1 cframe_pws_id.2 (cframe_bat_upd (B' := { B with timerFired := true }) hB rfl rfl rfl rfl rfl)
  | add pw b c i size =>
    simp only [step, stepAdd] at hs
    repeat' split at hs
    all_goals (first | (cases hs; done) | skip)
    rename_i _ P hP _ B hB _ C hC hg
    cases hs
    exact hI.of_frame cframe_pws_id.1 cframe_pws_id.2
      (cframe_bat_upd (B' := B.push { msg := (c, i), size := size, seq := s.seq }) hB rfl rfl rfl rfl rfl)
  | _ =>
    simp only [step, stepReject, stepRet] at hs
    repeat' split at hs
    all_goals (first | (cases hs; done) | skip)
    all_goals (cases hs)
    all_goals exact hI.of_frame cframe_pws_id.1 cframe_pws_id.2 (cframe_bat_id rfl)

end KV.Writer
