import KafkaVerif.Lemmas.WriterSched
namespace KV.Writer

/-! ## Only validated calls place messages -/

structure CallFit (cfg : Cfg) (C : Call) : Prop where
  assigned : ∀ (j : Nat) (tp : TP), C.assign[j]? = some tp → ∃ m, C.msgs[j]? = some m ∧ chooseTopic cfg m = some tp.1
  placed : (C.phase = .batching ∨ C.phase = .batched ∨ ∃ i, (C.place i).isSome = true) →
    allFit cfg C.msgs = true ∧ C.assign.length = C.msgs.length

def InvFit (cfg : Cfg) (s : State) : Prop := ∀ c C, s.calls c = some C → CallFit cfg C

theorem invFit_init (cfg : Cfg) : InvFit cfg State.init := by
  intro c C h; simp [State.init] at h

/-- a call record changes only in phase / result -/
theorem callFit_meta {cfg : Cfg} {C C' : Call} (h : CallFit cfg C) (h1 : C'.msgs = C.msgs) (h2 : C'.assign = C.assign)
    (h3 : C'.place = C.place)
    (hph : (C'.phase = .batching ∨ C'.phase = .batched) → (C.phase = .batching ∨ C.phase = .batched)) : CallFit cfg C' := by
  constructor
  · intro j tp hj; rw [h1]; exact h.assigned j tp (h2 ▸ hj)
  · intro hp
    rw [h1, h2]
    apply h.placed
    rcases hp with hp | hp | ⟨i, hi⟩
    · rcases hph (Or.inl hp) with h | h
      · exact Or.inl h
      · exact Or.inr (Or.inl h)
    · rcases hph (Or.inr hp) with h | h
      · exact Or.inl h
      · exact Or.inr (Or.inl h)
    · exact Or.inr (Or.inr ⟨i, h3 ▸ hi⟩)

theorem invFit_step (cfg : Cfg) (s : State) (e : Event) (s' : State) (hI : InvFit cfg s)
    (hs : step cfg s e = some s') : InvFit cfg s' := by
  cases e with
  | reject c why i =>
    cases why <;> simp only [step, stepReject] at hs <;> repeat' split at hs
    all_goals (first | (cases hs; done) | skip)
    all_goals (rename_i _ C hC hg; cases hs; apply forall_upd _ _ _ hI)
    all_goals exact callFit_meta (hI c C hC) rfl rfl rfl (fun h => by rcases h with h | h <;> cases h)
  | ret c r =>
    cases r <;> simp only [step, stepRet] at hs <;> repeat' split at hs
    all_goals (first | (cases hs; done) | skip)
    all_goals (rename_i _ C hC hg; cases hs; apply forall_upd _ _ _ hI)
    all_goals exact callFit_meta (hI c C hC) rfl rfl rfl (fun h => by rcases h with h | h <;> cases h)
  | begin_ c msgs =>
    simp only [step] at hs
    repeat' split at hs
    all_goals (first | (cases hs; done) | skip)
    cases hs
    apply forall_upd _ _ _ hI
    constructor
    · intro j tp hj; simp at hj
    · intro hp
      rcases hp with hp | hp | ⟨i, hi⟩
      · cases hp
      · cases hp
      · simp at hi
  | assign c i tp =>
    simp only [step] at hs
    repeat' split at hs
    all_goals (first | (cases hs; done) | skip)
    rename_i _ C hC hg
    obtain ⟨hph, hlen, hfit, hm⟩ := hg
    obtain ⟨m, hmi, hch⟩ := msgAt_elim hm
    cases hs
    apply forall_upd _ _ _ hI
    have hold := hI c C hC
    constructor
    · intro j tp' hj
      show ∃ m, C.msgs[j]? = some m ∧ chooseTopic cfg m = some tp'.1
      have hj' : (C.assign ++ [tp])[j]? = some tp' := hj
      by_cases hjl : j < C.assign.length
      · rw [List.getElem?_append_left hjl] at hj'
        exact hold.assigned j tp' hj'
      · have hge : C.assign.length ≤ j := Nat.le_of_not_lt hjl
        rw [List.getElem?_append_right hge] at hj'
        have hj0 : j - C.assign.length = 0 := by
          cases hk : j - C.assign.length with
          | zero => rfl
          | succ n => rw [hk] at hj'; simp at hj'
        rw [hj0] at hj'; simp at hj'
        have : j = i := by omega
        subst this; subst hj'
        exact ⟨m, hmi, by simpa using hch⟩
    · intro hp
      rcases hp with hp | hp | ⟨k, hk⟩
      · cases hp
      · cases hp
      · have := hold.placed (Or.inr (Or.inr ⟨k, hk⟩))
        -- a call that has placed something has all indexes assigned, so it cannot be in the assign loop
        have hmlen : i < C.msgs.length := by
          cases Nat.lt_or_ge i C.msgs.length with
          | inl h => exact h
          | inr h => rw [List.getElem?_eq_none h] at hmi; cases hmi
        omega
  | batch c =>
    simp only [step] at hs
    repeat' split at hs
    all_goals (first | (cases hs; done) | skip)
    rename_i _ C hC hg
    obtain ⟨-, -, -, hlen, hfit⟩ := hg
    cases hs
    apply forall_upd _ _ _ hI
    exact ⟨(hI c C hC).assigned, fun _ => ⟨hfit, hlen⟩⟩
  | batched c =>
    simp only [step] at hs
    repeat' split at hs
    all_goals (first | (cases hs; done) | skip)
    rename_i _ C hC hg
    cases hs
    apply forall_upd _ _ _ hI
    exact callFit_meta (hI c C hC) rfl rfl rfl (fun _ => Or.inl hg.2.1)
  | add pw b c i size =>
    simp only [step, stepAdd] at hs
    repeat' split at hs
    all_goals (first | (cases hs; done) | skip)
    rename_i _ P hP _ B hB _ C hC hg
    obtain ⟨-, -, -, -, -, -, -, -, hphase, -⟩ := hg
    cases hs
    apply forall_upd _ _ _ hI
    have hold := hI c C hC
    exact ⟨hold.assigned, fun _ => hold.placed (Or.inl hphase)⟩
  | _ =>
    simp only [step, stepDetach, stepProduce] at hs
    repeat' split at hs
    all_goals (first | (cases hs; done) | skip)
    all_goals (cases hs)
    all_goals exact hI

theorem invFit (cfg : Cfg) : ∀ s, Reachable cfg s → InvFit cfg s :=
  invariant_of_step cfg (InvFit cfg) (invFit_init cfg) (fun s e s' => invFit_step cfg s e s')

end KV.Writer
