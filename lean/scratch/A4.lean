import KafkaVerif.Lemmas.WriterAck
namespace KV.Writer

theorem ackState_batch {σ : Sender} {b : Nat} (h : AckState σ b) : σ.batch? = some b := by
  rcases h with ⟨k, hk⟩ | ⟨cb, hk⟩ <;> (rw [hk]; rfl)

theorem sender_mem_pipe {P : PW} {b : Nat} (h : P.sender.batch? = some b) : b ∈ P.pipe := by
  simp [PW.pipe, h]

theorem invAck_complete {s s' : State} (hO : InvOrd s) (hI : InvAck s) {pw b : Nat} {P : PW} {B : Batch} {code : Code} {cb : Bool}
    (hP : s.pws pw = some P) (hB : s.batches b = some B) (hsend : P.sender = .finishing b code cb)
    (epws : s'.pws = upd s.pws pw (some { P with sender := .idle }))
    (ebat : s'.batches = upd s.batches b (some { B with done := some code }))
    (elog : s'.log = s.log) : InvAck s' := by
  have hhead : P.pipe = b :: ({ P with sender := .idle } : PW).pipe := by simp [PW.pipe, hsend, Sender.batch?]
  have hheadS : P.sent = b :: ({ P with sender := .idle } : PW).sent := by simp [PW.sent, hsend, Sender.batch?]
  have hbpipe : b ∈ P.pipe := sender_mem_pipe (by rw [hsend]; rfl)
  have hBpw : B.pw = pw := by
    obtain ⟨B0, hB0, h⟩ := hO.pipeEx pw P hP b hbpipe
    rw [hB] at hB0; cases hB0; exact h
  have hnotrest : b ∉ ({ P with sender := .idle } : PW).pipe := by
    have := hO.pipeNodup pw P hP
    rw [hhead] at this
    exact (List.nodup_cons.mp this).1
  have hnotin : ∀ x X, s.pws x = some X → x ≠ pw → b ∉ X.pipe := by
    intro x X hx hne hmem
    obtain ⟨B0, hB0, h⟩ := hO.pipeEx x X hx b hmem
    rw [hB] at hB0; cases hB0
    exact hne (h.symm.trans hBpw)
  have hold : ∀ x X', s'.pws x = some X' → ∃ X, s.pws x = some X ∧ b ∉ X'.pipe ∧ (∀ y ∈ X'.pipe, y ∈ X.pipe) ∧
      (∀ y ∈ X'.sent, y ∈ X.sent) ∧ ((x = pw ∧ X'.sender = .idle) ∨ (x ≠ pw ∧ X' = X)) := by
    intro x X' hx
    rw [epws] at hx
    rcases upd_some_elim hx with ⟨rfl, rfl⟩ | ⟨hne, h⟩
    · refine ⟨P, hP, hnotrest, ?_, ?_, Or.inl ⟨rfl, rfl⟩⟩
      · intro y hy; rw [hhead]; exact List.mem_cons_of_mem _ hy
      · intro y hy; rw [hheadS]; exact List.mem_cons_of_mem _ hy
    · exact ⟨X', h, hnotin x X' h hne, fun _ h => h, fun _ h => h, Or.inr ⟨hne, rfl⟩⟩
  have hbat : ∀ y Y', s'.batches y = some Y' → ∃ Y, s.batches y = some Y ∧ Y'.msgs = Y.msgs ∧ Y'.tp = Y.tp ∧ Y'.pw = Y.pw ∧
      Y'.acked = Y.acked ∧ Y'.detached = Y.detached ∧
      ((y = b ∧ Y = B ∧ Y'.done = some code) ∨ (y ≠ b ∧ Y' = Y)) := by
    intro y Y' hy
    rw [ebat] at hy
    rcases upd_some_elim hy with ⟨rfl, rfl⟩ | ⟨hne, h⟩
    · exact ⟨B, hB, rfl, rfl, rfl, rfl, rfl, Or.inl ⟨rfl, rfl, rfl⟩⟩
    · exact ⟨Y', h, rfl, rfl, rfl, rfl, rfl, Or.inr ⟨hne, rfl⟩⟩
  constructor
  · intro x X' hx y hy Y' hY'
    obtain ⟨X, hX, hnb, hsub, -, -⟩ := hold x X' hx
    obtain ⟨Y, hY, -, -, -, -, -, hc⟩ := hbat y Y' hY'
    rcases hc with ⟨rfl, -, -⟩ | ⟨-, rfl⟩
    · exact absurd hy hnb
    · exact hI.pipeLive x X hX y (hsub y hy) Y' hY
  · intro x X' hx y hy Y' hY'
    obtain ⟨X, hX, -, -, hsub, -⟩ := hold x X' hx
    obtain ⟨Y, hY, -, -, -, -, hdet, -⟩ := hbat y Y' hY'
    rw [hdet]; exact hI.sentDet x X hX y (hsub y hy) Y hY
  · intro y Y' hY' hack
    obtain ⟨Y, hY, -, -, -, ha, hdet, -⟩ := hbat y Y' hY'
    rw [hdet]; exact hI.ackedDet y Y hY (ha ▸ hack)
  · intro x X' hx y hst Y' hY'
    obtain ⟨X, hX, -, -, -, hc⟩ := hold x X' hx
    obtain ⟨Y, hY, -, -, -, ha, -, -⟩ := hbat y Y' hY'
    rcases hc with ⟨-, hsd⟩ | ⟨-, rfl⟩
    · rw [hsd] at hst; rcases hst with ⟨k', hk⟩ | ⟨cb', hk⟩ <;> cases hk
    · rw [ha]; exact hI.senderAcked x X' hX y hst Y hY
  · intro y Y' hY' hd
    obtain ⟨Y, hY, -, -, -, ha, -, hc⟩ := hbat y Y' hY'
    rw [ha]
    rcases hc with ⟨rfl, rfl, hd'⟩ | ⟨-, rfl⟩
    · rw [hd'] at hd; cases hd
      exact hI.senderAcked pw P hP y (by rw [hsend]; exact Or.inr ⟨cb, rfl⟩) Y hB
    · exact hI.doneAcked y Y' hY hd
  · intro y Y' hY' hack
    obtain ⟨Y, hY, -, -, hpw, ha, -, hc⟩ := hbat y Y' hY'
    rcases hc with ⟨rfl, rfl, hd'⟩ | ⟨hne, rfl⟩
    · left
      rcases hI.ackedWhere y Y hB (ha ▸ hack) with hd | ⟨P0, hP0, hst⟩
      · have := hI.pipeLive pw P hP y hbpipe Y hB
        rw [this] at hd; cases hd
      · rw [hBpw, hP] at hP0; cases hP0
        rw [hsend] at hst
        rcases hst with ⟨k', hk⟩ | ⟨cb', hk⟩
        · cases hk
        · cases hk; exact hd'
    · rcases hI.ackedWhere y Y' hY hack with hd | ⟨X, hX, hst⟩
      · exact Or.inl hd
      · right
        by_cases hxp : Y'.pw = pw
        · rw [hxp, hP] at hX; cases hX
          have := ackState_batch hst
          rw [hsend] at this
          simp [Sender.batch?] at this
          exact absurd this.symm hne
        · exact ⟨X, by rw [epws, upd_other _ _ _ _ hxp]; exact hX, hst⟩
  · intro y Y' hY' hack m hm
    obtain ⟨Y, hY, hmsgs, htp, -, ha, -, -⟩ := hbat y Y' hY'
    rw [elog, htp]; exact hI.ackedInLog y Y hY (ha ▸ hack) m (hmsgs ▸ hm)

end KV.Writer
