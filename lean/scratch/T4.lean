import KafkaVerif.Lemmas.WriterOrder
namespace KV.Writer

theorem seqBefore_congr {bt bt' : Nat → Option Batch} {x y : Nat} (hx : bt' x = bt x) (hy : bt' y = bt y)
    (h : SeqBefore bt x y) : SeqBefore bt' x y := by
  intro B B' h1 h2; rw [hx] at h1; rw [hy] at h2; exact h B B' h1 h2

theorem invOrd_newPW {s : State} (hI : InvOrd s) {pw q : Nat} {tp : TP} (h1 : s.pwOf tp = none) (h2 : s.pws pw = none) :
    InvOrd { s with pwOf := upd s.pwOf tp (some pw), qOf := upd s.qOf q (some pw), pwIds := s.pwIds ++ [pw],
                    tps := s.tps ++ [tp], pws := upd s.pws pw (some (PW.new tp q)) } := by
  have hnew : (PW.new tp q).pipe = [] := by simp [PW.new, PW.pipe, Sender.batch?]
  constructor
  · exact hI.counterB
  · exact hI.counterL
  · exact hI.sorted
  · intro x X hx
    rcases upd_some_elim hx with ⟨rfl, rfl⟩ | ⟨hne, h⟩
    · simp [PW.new]
    · have := hI.uniq x X h
      have hne2 : X.tp ≠ tp := by intro e; rw [e, h1] at this; cases this
      show upd s.pwOf tp (some pw) X.tp = some x
      rw [upd_other _ _ _ _ hne2]; exact this
  · intro x X hx b hb
    rcases upd_some_elim hx with ⟨rfl, rfl⟩ | ⟨hne, h⟩
    · rw [hnew] at hb; cases hb
    · exact hI.pipeEx x X h b hb
  · intro x X hx
    rcases upd_some_elim hx with ⟨rfl, rfl⟩ | ⟨hne, h⟩
    · rw [hnew]; exact List.nodup_nil
    · exact hI.pipeNodup x X h
  · intro x X hx
    rcases upd_some_elim hx with ⟨rfl, rfl⟩ | ⟨hne, h⟩
    · rw [hnew]; exact List.Pairwise.nil
    · exact hI.pipeSeq x X h
  · intro x X hx y hy b hb
    rcases upd_some_elim hx with ⟨rfl, rfl⟩ | ⟨hne, h⟩
    · rw [hnew] at hb; cases hb
    · exact hI.logSeq x X h y hy b hb
  · exact hI.logOrd

end KV.Writer
