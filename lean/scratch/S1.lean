import KafkaVerif.Lemmas.WriterCompl
namespace KV.Writer

/-! ## Rejected calls never queued anything -/

def Result.isReject : Result → Bool
  | .closed => true
  | .rejected _ _ => true
  | _ => false

/-- either the call got (or had) the right to queue its messages — it is inside / past batchMessages and was not
rejected — or nothing of it has been placed in any batch -/
def CallRej (C : Call) : Prop :=
  ((C.phase = .batching ∨ C.phase = .batched ∨ (C.phase = .returned ∧ ∃ r, C.result = some r ∧ r.isReject = false)) ∨
    (∀ i, C.place i = none)) ∧
  (∀ r, C.result = some r → C.phase = .returned)

def InvRej (s : State) : Prop := ∀ c C, s.calls c = some C → CallRej C

theorem invRej_init : InvRej State.init := by
  intro c C h; simp [State.init] at h

theorem callRej_none_of_early {C : Call} (h : CallRej C)
    (hp : C.phase = .begun ∨ C.phase = .assigning ∨ C.phase = .rejectedClosed) : (∀ i, C.place i = none) ∧ C.result = none := by
  obtain ⟨h1, h2⟩ := h
  constructor
  · rcases h1 with (h | h | ⟨h, -⟩) | h
    · rcases hp with hp | hp | hp <;> rw [hp] at h <;> cases h
    · rcases hp with hp | hp | hp <;> rw [hp] at h <;> cases h
    · rcases hp with hp | hp | hp <;> rw [hp] at h <;> cases h
    · exact h
  · cases hr : C.result with
    | none => rfl
    | some r =>
      have := h2 r hr
      rcases hp with hp | hp | hp <;> rw [hp] at this <;> cases this

theorem invRej_step (cfg : Cfg) (s : State) (e : Event) (s' : State) (hI : InvRej s) (hs : step cfg s e = some s') :
    InvRej s' := by
  cases e with
  | reject c why i =>
    cases why <;> simp only [step, stepReject] at hs <;> repeat' split at hs
    all_goals (first | (cases hs; done) | skip)
    all_goals (rename_i _ C hC hg; cases hs; apply forall_upd _ _ _ hI; have hold := hI c C hC)
    · have := callRej_none_of_early hold (Or.inl hg.1)
      exact ⟨Or.inr this.1, fun r hr => rfl⟩
    · have := callRej_none_of_early hold (by rcases hg.1 with h | h <;> simp [h])
      exact ⟨Or.inr this.1, fun r hr => rfl⟩
    · have := callRej_none_of_early hold (by rcases hg.1 with h | h <;> simp [h])
      exact ⟨Or.inr this.1, fun r hr => rfl⟩
    · have := callRej_none_of_early hold (Or.inr (Or.inl hg.2.2.1))
      exact ⟨Or.inr this.1, fun r hr => by rw [show ({ C with phase := Phase.rejectedClosed } : Call).result = C.result from rfl, this.2] at hr; cases hr⟩
  | ret c r =>
    cases r <;> simp only [step, stepRet] at hs <;> repeat' split at hs
    all_goals (first | (cases hs; done) | skip)
    all_goals (rename_i _ C hC hg; cases hs; apply forall_upd _ _ _ hI; have hold := hI c C hC)
    · exact ⟨Or.inl (Or.inr (Or.inr ⟨rfl, _, rfl, rfl⟩)), fun r hr => rfl⟩
    · exact ⟨Or.inl (Or.inr (Or.inr ⟨rfl, _, rfl, rfl⟩)), fun r hr => rfl⟩
    · exact ⟨Or.inl (Or.inr (Or.inr ⟨rfl, _, rfl, rfl⟩)), fun r hr => rfl⟩
    · have := callRej_none_of_early hold (Or.inr (Or.inr hg))
      exact ⟨Or.inr this.1, fun r hr => rfl⟩
    · exact ⟨Or.inl (Or.inr (Or.inr ⟨rfl, _, rfl, rfl⟩)), fun r hr => rfl⟩
  | begin_ c msgs =>
    simp only [step] at hs
    repeat' split at hs
    all_goals (first | (cases hs; done) | skip)
    cases hs
    apply forall_upd _ _ _ hI
    exact ⟨Or.inr (fun _ => rfl), fun r hr => by cases hr⟩
  | assign c i tp =>
    simp only [step] at hs
    repeat' split at hs
    all_goals (first | (cases hs; done) | skip)
    rename_i _ C hC hg
    cases hs
    apply forall_upd _ _ _ hI
    have := callRej_none_of_early (hI c C hC) (by rcases hg.1 with h | h <;> simp [h])
    exact ⟨Or.inr this.1, fun r hr => by rw [show ({ C with phase := Phase.assigning, assign := C.assign ++ [tp] } : Call).result = C.result from rfl, this.2] at hr; cases hr⟩
  | batch c =>
    simp only [step] at hs
    repeat' split at hs
    all_goals (first | (cases hs; done) | skip)
    rename_i _ C hC hg
    cases hs
    apply forall_upd _ _ _ hI
    have := callRej_none_of_early (hI c C hC) (Or.inr (Or.inl hg.2.2.1))
    exact ⟨Or.inl (Or.inl rfl), fun r hr => by rw [show ({ C with phase := Phase.batching } : Call).result = C.result from rfl, this.2] at hr; cases hr⟩
  | batched c =>
    simp only [step] at hs
    repeat' split at hs
    all_goals (first | (cases hs; done) | skip)
    rename_i _ C hC hg
    cases hs
    apply forall_upd _ _ _ hI
    obtain ⟨-, h2⟩ := hI c C hC
    refine ⟨Or.inl (Or.inr (Or.inl rfl)), ?_⟩
    intro r hr
    have := h2 r hr
    rw [hg.2.1] at this; cases this
  | add pw b c i size =>
    simp only [step, stepAdd] at hs
    repeat' split at hs
    all_goals (first | (cases hs; done) | skip)
    rename_i _ P hP _ B hB _ C hC hg
    obtain ⟨-, -, -, -, -, -, -, -, hphase, -⟩ := hg
    cases hs
    apply forall_upd _ _ _ hI
    obtain ⟨-, h2⟩ := hI c C hC
    exact ⟨Or.inl (Or.inl hphase), h2⟩
  | _ =>
    simp only [step, stepDetach, stepProduce] at hs
    repeat' split at hs
    all_goals (first | (cases hs; done) | skip)
    all_goals (cases hs)
    all_goals exact hI

theorem invRej (cfg : Cfg) : ∀ s, Reachable cfg s → InvRej s :=
  invariant_of_step cfg InvRej invRej_init (fun s e s' => invRej_step cfg s e s')

end KV.Writer
