import KafkaVerif.Model.Writer
namespace KV.Writer
def BatchOK (cfg : Cfg) (B : Batch) : Prop :=
  B.msgs.length ≤ cfg.batchSize ∧ B.bytes ≤ cfg.batchBytes ∧ B.bytes = (B.msgs.map (·.size)).sum

example (cfg : Cfg) (s : State) (b : Nat) (B : Batch) (hB : ∀ (b : Nat) (B : Batch), s.batches b = some B → BatchOK cfg B)
  (heq : s.batches b = some B) : BatchOK cfg { B with detached := some .full } := by
  exact hB _ _ (by assumption)
example (cfg : Cfg) (s : State) (b : Nat) (B : Batch) (hB : ∀ (b : Nat) (B : Batch), s.batches b = some B → BatchOK cfg B)
  (heq : s.batches b = some B) : BatchOK cfg { B with detached := some .full } := by
  exact hB _ B (by assumption)
example (cfg : Cfg) (s : State) (b : Nat) (B : Batch) (hB : ∀ (b : Nat) (B : Batch), s.batches b = some B → BatchOK cfg B)
  (heq : s.batches b = some B) : BatchOK cfg { B with detached := some .full } := by
  have := hB _ _ heq
  exact this
end KV.Writer
