import KafkaVerif.Lemmas.WriterOrder
namespace KV.Writer

theorem invOrd_add {s s' : State} (hI : InvOrd s) {pw b : Nat} {P : PW} {B : Batch} {m : BMsg}
    (hP : s.pws pw = some P) (hB : s.batches b = some B) (hc : P.curr = some b) (hpend : P.pending = none)
    (hBpw : B.pw = pw) (hm : m.seq = s.seq)
    (epws : s'.pws = s.pws) (ebat : s'.batches = upd s.batches b (some (B.push m)))
    (elog : s'.log = s.log) (eseq : s'.seq = s.seq + 1) (epwOf : s'.pwOf = s.pwOf) : InvOrd s' := by
  have hlook : ∀ y, y ≠ b → s'.batches y = s.batches y := fun y hy => by rw [ebat]; exact upd_other _ _ _ _ hy
  have hlookb : s'.batches b = some (B.push m) := by rw [ebat]; simp
  have hmsgs : (B.push m).msgs = B.msgs ++ [m] := rfl
  -- b sits only in pw's pipeline, as its last element
  have hpipe : P.pipe = (P.sender.batch?.toList ++ P.queue) ++ [b] := by simp [PW.pipe, hc, hpend]
  have hnotin : ∀ x X, s.pws x = some X → x ≠ pw → b ∉ X.pipe := by
    intro x X hx hne hmem
    obtain ⟨B', hB', hpw'⟩ := hI.pipeEx x X hx b hmem
    rw [hB] at hB'; cases hB'
    exact hne (hpw'.symm.trans hBpw)
  have hfront : b ∉ P.sender.batch?.toList ++ P.queue := by
    have := hI.pipeNodup pw P hP
    rw [hpipe] at this
    have := (List.nodup_append.mp this).2.2
    intro hmem
    exact this b hmem b (by simp) rfl
  -- stamps of every message of the new version of a batch
  have hmem' : ∀ y Y', s'.batches y = some Y' → ∀ x ∈ Y'.msgs,
      (∃ Y, s.batches y = some Y ∧ x ∈ Y.msgs) ∨ (y = b ∧ x = m) := by
    intro y Y' hy x hx
    by_cases hyb : y = b
    · subst hyb; rw [hlookb] at hy; cases hy
      rw [hmsgs] at hx
      rcases List.mem_append.mp hx with hx | hx
      · exact Or.inl ⟨B, hB, hx⟩
      · simp at hx; exact Or.inr ⟨rfl, hx⟩
    · rw [hlook y hyb] at hy; exact Or.inl ⟨Y', hy, hx⟩
  have hSB : ∀ y z, y ≠ b → SeqBefore s.batches y z → (∃ Y, s.batches y = some Y) → SeqBefore s'.batches y z := by
    intro y z hyb hr hex Y Z' hy hz a ha c hc'
    rw [hlook y hyb] at hy
    rcases hmem' z Z' hz c hc' with ⟨Z, hZ, hcz⟩ | ⟨-, rfl⟩
    · exact hr Y Z hy hZ a ha c hcz
    · rw [hm]; exact hI.counterB y Y hy a ha
  constructor
  · intro x X hx a ha
    rw [eseq]
    rcases hmem' x X hx a ha with ⟨Y, hY, haY⟩ | ⟨-, rfl⟩
    · exact Nat.lt_succ_of_lt (hI.counterB x Y hY a haY)
    · omega
  · intro tp x hx; rw [elog] at hx; rw [eseq]; exact Nat.lt_succ_of_lt (hI.counterL tp x hx)
  · intro x X hx
    by_cases hxb : x = b
    · subst hxb; rw [hlookb] at hx; cases hx
      rw [hmsgs]
      refine List.pairwise_append.mpr ⟨hI.sorted x B hB, List.pairwise_singleton _ _, ?_⟩
      intro a ha c hc'
      simp at hc'; subst hc'
      rw [hm]; exact hI.counterB x B hB a ha
    · rw [hlook x hxb] at hx; exact hI.sorted x X hx
  · intro x X hx; rw [epws] at hx; rw [epwOf]; exact hI.uniq x X hx
  · intro x X hx y hy
    rw [epws] at hx
    obtain ⟨Y, hY, hpw⟩ := hI.pipeEx x X hx y hy
    by_cases hyb : y = b
    · subst hyb; rw [hB] at hY; cases hY
      exact ⟨_, hlookb, hpw⟩
    · exact ⟨Y, by rw [hlook y hyb]; exact hY, hpw⟩
  · intro x X hx; rw [epws] at hx; exact hI.pipeNodup x X hx
  · intro x X hx
    rw [epws] at hx
    have hps := hI.pipeSeq x X hx
    by_cases hxpw : x = pw
    · subst hxpw; rw [hP] at hx; cases hx
      rw [hpipe] at hps ⊢
      obtain ⟨h1, -, h3⟩ := List.pairwise_append.mp hps
      refine List.pairwise_append.mpr ⟨?_, List.pairwise_singleton _ _, ?_⟩
      · refine List.Pairwise.imp_of_mem ?_ h1
        intro y z hy hz hr
        have hyb : y ≠ b := fun e => hfront (e ▸ hy)
        obtain ⟨Y, hY, -⟩ := hI.pipeEx x P hP y (by rw [hpipe]; exact List.mem_append_left _ hy)
        exact hSB y z hyb hr ⟨Y, hY⟩
      · intro y hy z hz
        have hyb : y ≠ b := fun e => hfront (e ▸ hy)
        obtain ⟨Y, hY, -⟩ := hI.pipeEx x P hP y (by rw [hpipe]; exact List.mem_append_left _ hy)
        exact hSB y z hyb (h3 y hy z hz) ⟨Y, hY⟩
    · refine List.Pairwise.imp_of_mem ?_ hps
      intro y z hy hz hr
      have hyb : y ≠ b := fun e => hnotin x X hx hxpw (e ▸ hy)
      obtain ⟨Y, hY, -⟩ := hI.pipeEx x X hx y hy
      exact hSB y z hyb hr ⟨Y, hY⟩
  · intro x X hx e he y hy Y' hY' a ha
    rw [epws] at hx; rw [elog] at he
    rcases hmem' y Y' hY' a ha with ⟨Y, hY, haY⟩ | ⟨-, rfl⟩
    · exact hI.logSeq x X hx e he y hy Y hY a haY
    · left; rw [hm]; exact hI.counterL X.tp e he
  · rw [elog]; exact hI.logOrd

end KV.Writer
