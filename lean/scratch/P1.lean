import KafkaVerif.Lemmas.WriterPlace
namespace KV.Writer

theorem invPlace_add {s s' : State} (hI : InvPlace s) {b c i size : Nat} {P : PW} {B : Batch} {C : Call}
    (hB : s.batches b = some B) (hC : s.calls c = some C)
    (hBtp : B.tp = P.tp) (hassign : C.assign[i]? = some P.tp)
    (ebat : s'.batches = upd s.batches b (some (B.push { msg := (c, i), size := size, seq := s.seq })))
    (ecalls : s'.calls = upd s.calls c (some { C with place := upd C.place i (some b) }))
    (elog : s'.log = s.log) : InvPlace s' := by
  -- lookups after the step
  have hcl : ∀ x X, s.calls x = some X → ∃ X', s'.calls x = some X' ∧ X'.assign = X.assign := by
    intro x X hx
    by_cases hxc : x = c
    · subst hxc; rw [hC] at hx; cases hx
      exact ⟨{ C with place := upd C.place i (some b) }, by rw [ecalls]; simp, rfl⟩
    · exact ⟨X, by rw [ecalls, upd_other _ _ _ _ hxc]; exact hx, rfl⟩
  have hbt : ∀ y Y, s.batches y = some Y → ∃ Y', s'.batches y = some Y' ∧ Y'.tp = Y.tp ∧ ∀ m ∈ Y.msgs, m ∈ Y'.msgs := by
    intro y Y hy
    by_cases hyb : y = b
    · subst hyb; rw [hB] at hy; cases hy
      exact ⟨B.push { msg := (c, i), size := size, seq := s.seq }, by rw [ebat]; simp, rfl, fun m hm => by simp [Batch.push, hm]⟩
    · exact ⟨Y, by rw [ebat, upd_other _ _ _ _ hyb]; exact hy, rfl, fun _ h => h⟩
  constructor
  · intro x X' hx j y hp
    rw [ecalls] at hx
    rcases upd_some_elim hx with ⟨rfl, rfl⟩ | ⟨hne, hx⟩
    · by_cases hji : j = i
      · subst hji
        simp at hp; subst hp
        refine ⟨B.push { msg := (x, j), size := size, seq := s.seq }, by rw [ebat]; simp,
          ⟨{ msg := (x, j), size := size, seq := s.seq }, by simp [Batch.push], rfl⟩, ?_⟩
        show C.assign[j]? = some B.tp
        rw [hBtp]; exact hassign
      · have hp' : C.place j = some y := by
          have : upd C.place i (some b) j = C.place j := upd_other _ _ _ _ hji
          rw [← this]; exact hp
        obtain ⟨Y, hY, ⟨m, hm, hmm⟩, ha⟩ := hI.placed x C hC j y hp'
        obtain ⟨Y', hY', htp, hsub⟩ := hbt y Y hY
        exact ⟨Y', hY', ⟨m, hsub m hm, hmm⟩, htp ▸ ha⟩
    · obtain ⟨Y, hY, ⟨m, hm, hmm⟩, ha⟩ := hI.placed x X' hx j y hp
      obtain ⟨Y', hY', htp, hsub⟩ := hbt y Y hY
      exact ⟨Y', hY', ⟨m, hsub m hm, hmm⟩, htp ▸ ha⟩
  · intro y Y' hy m hm
    rw [ebat] at hy
    rcases upd_some_elim hy with ⟨rfl, rfl⟩ | ⟨hne, hy⟩
    · simp only [Batch.push] at hm
      rcases List.mem_append.mp hm with hm | hm
      · obtain ⟨X, hX, ha⟩ := hI.batchTP y B hB m hm
        obtain ⟨X', hX', e⟩ := hcl _ _ hX
        exact ⟨X', hX', by rw [e]; exact ha⟩
      · simp at hm; subst hm
        refine ⟨{ C with place := upd C.place i (some y) }, by rw [ecalls]; simp, ?_⟩
        show C.assign[i]? = some B.tp
        rw [hBtp]; exact hassign
    · obtain ⟨X, hX, ha⟩ := hI.batchTP y Y' hy m hm
      obtain ⟨X', hX', e⟩ := hcl _ _ hX
      exact ⟨X', hX', by rw [e]; exact ha⟩
  · intro tp e he
    rw [elog] at he
    obtain ⟨X, hX, ha⟩ := hI.logTP tp e he
    obtain ⟨X', hX', e'⟩ := hcl _ _ hX
    exact ⟨X', hX', by rw [e']; exact ha⟩

theorem InvPlace.of_calls_upd {s s' : State} (h : InvPlace s) {c : Nat} {C C' : Call} (hC : s.calls c = some C)
    (ec : s'.calls = upd s.calls c (some C')) (eb : s'.batches = s.batches) (el : s'.log = s.log)
    (hpl : C'.place = C.place) (hmono : ∀ (j : Nat) (tp : TP), C.assign[j]? = some tp → C'.assign[j]? = some tp) :
    InvPlace s' := by
  have hf := pframe_calls_upd hC ec hpl hmono
  refine h.of_frame hf.1 hf.2 ?_ ?_ ?_
  · rw [eb]; exact pframe_bat_id.1
  · rw [eb]; exact pframe_bat_id.2
  · rw [el]; exact fun _ _ h => Or.inl h

theorem invPlace_step (cfg : Cfg) (s : State) (e : Event) (s' : State) (hI : InvPlace s)
    (hs : step cfg s e = some s') : InvPlace s' := by
  have hlogid : ∀ (tp : TP) (e : LogEntry), e ∈ s.log tp → e ∈ s.log tp ∨ ∃ b B, s.batches b = some B ∧ B.tp = tp ∧ ∃ m ∈ B.msgs, e.msg = m.msg :=
    fun _ _ h => Or.inl h
  cases e with
  | add pw b c i size =>
    simp only [step, stepAdd] at hs
    repeat' split at hs
    all_goals (first | (cases hs; done) | skip)
    rename_i _ P hP _ B hB _ C hC hg
    obtain ⟨-, -, -, -, hBtp, -, -, -, -, hassign, -⟩ := hg
    cases hs
    exact invPlace_add hI hB hC hBtp hassign rfl rfl rfl
  | begin_ c msgs =>
    simp only [step] at hs
    repeat' split at hs
    all_goals (first | (cases hs; done) | skip)
    rename_i hg
    have hnone : s.calls c = none := by simpa using hg.2.1
    cases hs
    refine hI.of_frame ?_ ?_ pframe_bat_id.1 pframe_bat_id.2 hlogid
    · intro x X hx
      have hne : x ≠ c := by intro e; rw [e, hnone] at hx; cases hx
      exact ⟨X, by show upd s.calls c _ x = _; rw [upd_other _ _ _ _ hne]; exact hx, fun _ _ h => h⟩
    · intro x X' hx
      rcases upd_some_elim hx with ⟨rfl, rfl⟩ | ⟨-, h⟩
      · exact Or.inl (fun _ => rfl)
      · exact Or.inr ⟨X', h, rfl⟩
  | assign c i tp =>
    simp only [step] at hs
    repeat' split at hs
    all_goals (first | (cases hs; done) | skip)
    rename_i _ C hC hg
    cases hs
    have hf := pframe_calls_upd (C' := { C with phase := .assigning, assign := C.assign ++ [tp] }) hC rfl rfl
      (fun _ _ h => getElem?_append_some h)
    exact hI.of_frame hf.1 hf.2 pframe_bat_id.1 pframe_bat_id.2 hlogid
  | newBatch pw b =>
    simp only [step] at hs
    repeat' split at hs
    all_goals (first | (cases hs; done) | skip)
    rename_i _ P hP hg
    have hnone : s.batches b = none := by simpa using hg.2.2.2
    cases hs
    refine hI.of_frame pframe_calls_id.1 pframe_calls_id.2 ?_ ?_ hlogid
    · intro x X' hx
      rcases upd_some_elim hx with ⟨rfl, rfl⟩ | ⟨-, h⟩
      · exact Or.inl rfl
      · exact Or.inr ⟨X', h, rfl, rfl⟩
    · intro x X hx
      have hne : x ≠ b := by intro e; rw [e, hnone] at hx; cases hx
      exact ⟨X, by show upd s.batches b _ x = _; rw [upd_other _ _ _ _ hne]; exact hx, rfl, rfl⟩
  | detach pw b why size =>
    simp only [step, stepDetach] at hs
    repeat' split at hs
    all_goals (first | (cases hs; done) | skip)
    rename_i _ P hP _ B hB hg
    cases hs
    have hf := pframe_bat_upd (B' := { B with detached := some why }) hB rfl rfl rfl
    exact hI.of_frame pframe_calls_id.1 pframe_calls_id.2 hf.1 hf.2 hlogid
  | timerFire pw b att =>
    simp only [step] at hs
    repeat' split at hs
    all_goals (first | (cases hs; done) | skip)
    rename_i _ P hP _ B hB hg
    cases hs
    have hf := pframe_bat_upd (B' := { B with timerFired := true }) hB rfl rfl rfl
    exact hI.of_frame pframe_calls_id.1 pframe_calls_id.2 hf.1 hf.2 hlogid
  | completion pw b code =>
    simp only [step] at hs
    repeat' split at hs
    all_goals (first | (cases hs; done) | skip)
    rename_i _ P hP _ B hB hg
    cases hs
    have hf := pframe_bat_upd (B' := { B with ncompl := B.ncompl + 1, cbCode := some code }) hB rfl rfl rfl
    exact hI.of_frame pframe_calls_id.1 pframe_calls_id.2 hf.1 hf.2 hlogid
  | complete pw b code =>
    simp only [step] at hs
    repeat' split at hs
    all_goals (first | (cases hs; done) | skip)
    rename_i _ P hP _ B hB hg
    cases hs
    have hf := pframe_bat_upd (B' := { B with done := some code }) hB rfl rfl rfl
    exact hI.of_frame pframe_calls_id.1 pframe_calls_id.2 hf.1 hf.2 hlogid
  | produce pw tp msgs out =>
    simp only [step, stepProduce] at hs
    repeat' split at hs
    all_goals (first | (cases hs; done) | skip)
    rename_i _ P hP _ b k hsend _ B hB hg
    obtain ⟨-, hBtp, -, -⟩ := hg
    cases hs
    have hf := pframe_bat_upd (B' := B.noteProduce out) hB rfl rfl rfl
    refine hI.of_frame pframe_calls_id.1 pframe_calls_id.2 hf.1 hf.2 ?_
    intro t e he
    simp only [produced] at he
    split at he
    · by_cases ht : t = tp
      · subst ht
        simp at he
        rcases he with he | he
        · exact Or.inl he
        · right
          obtain ⟨m, hm, rfl⟩ := List.mem_map.mp he
          exact ⟨b, B, hB, hBtp, m, hm, rfl⟩
      · rw [upd_other _ _ _ _ ht] at he; exact Or.inl he
    · exact Or.inl he
  | reject c why i =>
    cases why <;> simp only [step, stepReject] at hs <;> repeat' split at hs
    all_goals (first | (cases hs; done) | skip)
    all_goals (rename_i _ C hC hg; cases hs)
    all_goals exact hI.of_calls_upd hC rfl rfl rfl rfl (fun _ _ h => h)
  | batch c =>
    simp only [step] at hs
    repeat' split at hs
    all_goals (first | (cases hs; done) | skip)
    rename_i _ C hC hg
    cases hs
    have hf := pframe_calls_upd (C' := { C with phase := .batching }) hC rfl rfl (fun _ _ h => h)
    exact hI.of_frame hf.1 hf.2 pframe_bat_id.1 pframe_bat_id.2 hlogid
  | batched c =>
    simp only [step] at hs
    repeat' split at hs
    all_goals (first | (cases hs; done) | skip)
    rename_i _ C hC hg
    cases hs
    have hf := pframe_calls_upd (C' := { C with phase := .batched }) hC rfl rfl (fun _ _ h => h)
    exact hI.of_frame hf.1 hf.2 pframe_bat_id.1 pframe_bat_id.2 hlogid
  | ret c r =>
    cases r <;> simp only [step, stepRet] at hs <;> repeat' split at hs
    all_goals (first | (cases hs; done) | skip)
    all_goals (rename_i _ C hC hg; cases hs)
    all_goals exact hI.of_calls_upd hC rfl rfl rfl rfl (fun _ _ h => h)
  | _ =>
    simp only [step] at hs
    repeat' split at hs
    all_goals (first | (cases hs; done) | skip)
    all_goals (cases hs)
    all_goals exact hI.of_frame pframe_calls_id.1 pframe_calls_id.2 pframe_bat_id.1 pframe_bat_id.2 hlogid

end KV.Writer
