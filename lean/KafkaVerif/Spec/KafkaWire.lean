/-
Spec/KafkaWire.lean — the Kafka primitive encodings, transcribed from the protocol guide
(https://kafka.apache.org/protocol#protocol_types) independently of the shape of the model (core only).

  BOOLEAN  0 / 1 in one byte                           INT8/16/32/64  big-endian two's complement
  FLOAT64  IEEE-754 bits, big-endian                   UNSIGNED_VARINT  7-bit groups, least significant first,
                                                                        high bit = "more groups follow"
  STRING  INT16 N, N bytes            NULLABLE_STRING  N = -1 is null
  COMPACT_STRING  UNSIGNED_VARINT N+1, N bytes         COMPACT_NULLABLE_STRING  0 is null
  BYTES / NULLABLE_BYTES  INT32 N …   COMPACT_(NULLABLE_)BYTES  UNSIGNED_VARINT N+1 …
  RECORDS  as NULLABLE_BYTES
  ARRAY  INT32 N (−1 null), N items   COMPACT_ARRAY  UNSIGNED_VARINT N+1 (0 null), N items
  struct  fields in order; flexible versions end with a tag buffer:
          UNSIGNED_VARINT count, then per field UNSIGNED_VARINT tag, UNSIGNED_VARINT size, size bytes
  request header v1: api_key INT16, api_version INT16, correlation_id INT32, client_id NULLABLE_STRING
  request header v2: … + tag buffer      response header v0: correlation_id INT32    v1: + tag buffer
  frame: INT32 size, then exactly size bytes

The Go library has no null strings: the empty Go string stands for null wherever the field is nullable
(and nil slices stand for null arrays / bytes).  That convention is part of the reference (`encode` below).
-/
import KafkaVerif.Base.Bytes
import KafkaVerif.Model.Schema

namespace KV.Spec
open KV KV.Codec

/-- byte `i` (from the most significant) of the `k`-byte big-endian form of `n` -/
def byteAt (k n i : Nat) : UInt8 := UInt8.ofNat (n / 256 ^ (k - 1 - i) % 256)

def unsignedBE (k n : Nat) : Bytes := (List.range k).map (byteAt k n)

/-- two's complement in `8k` bits -/
def twos (k : Nat) (i : Int) : Nat := if i < 0 then (i + (2 ^ (8 * k) : Nat)).toNat else i.toNat

def sint (k : Nat) (i : Int) : Bytes := unsignedBE k (twos k i % 2 ^ (8 * k))

/-- UNSIGNED_VARINT -/
def uvar (n : Nat) : Bytes :=
  if h : n < 128 then [UInt8.ofNat n] else UInt8.ofNat (128 + n % 128) :: uvar (n / 128)
decreasing_by omega

def kString (compact nullable : Bool) (s : Bytes) : Bytes :=
  match compact, nullable && s.isEmpty with
  | false, true => sint 2 (-1)
  | false, false => sint 2 s.length ++ s
  | true, true => uvar 0
  | true, false => uvar (s.length + 1) ++ s

def kBytes (compact nullable : Bool) (b : Option Bytes) : Bytes :=
  match b, nullable with
  | none, true => if compact then uvar 0 else sint 4 (-1)
  | b, _ => let s := b.getD []; (if compact then uvar (s.length + 1) else sint 4 s.length) ++ s

mutual
def encode : Ty → Val → Bytes
  | .bool, .bool b => [if b then 1 else 0]
  | .int8, .int i => sint 1 i
  | .int16, .int i => sint 2 i
  | .int32, .int i => sint 4 i
  | .int64, .int i => sint 8 i
  | .float64, .int i => sint 8 i
  | .string c n, .str s => kString c n s
  | .bytes c n, .bytes b => kBytes c n b
  | .array c n t, .arr a =>
    match a, n with
    | none, true => if c then uvar 0 else sint 4 (-1)
    | a, _ => let l := a.getD []
      (if c then uvar (l.length + 1) else sint 4 l.length) ++ encodeAll t l
  | .struct flex fs ids ts, .struct vs tvs =>
    encodeFields fs vs ++ (if flex then uvar (numTagged ts) ++ encodeTagged ids ts tvs else [])
  | .unit flex, _ => if flex then uvar 0 else []
  | .records, .records (some p) => sint 4 p.length ++ p
  | _, _ => []
def encodeAll : Ty → List Val → Bytes
  | _, [] => []
  | t, v :: vs => encode t v ++ encodeAll t vs
def encodeFields : List Ty → List Val → Bytes
  | t :: ts, v :: vs => (if t.zeroSize then [] else encode t v) ++ encodeFields ts vs
  | _, _ => []
def encodeTagged : List Int → List Ty → List Val → Bytes
  | i :: is, t :: ts, v :: vs =>
    (if t.zeroSize then [] else uvar (twos 8 i) ++ uvar (encode t v).length ++ encode t v) ++ encodeTagged is ts vs
  | _, _, _ => []
def numTagged : List Ty → Nat
  | [] => 0
  | t :: ts => (if t.zeroSize then 0 else 1) + numTagged ts
end

def frame (body : Bytes) : Bytes := sint 4 body.length ++ body

def frameRequest (flex : Bool) (apiKey version corr : Int) (clientID body : Bytes) : Bytes :=
  frame (sint 2 apiKey ++ sint 2 version ++ sint 4 corr ++
    (if flex then kString false true clientID ++ uvar 0 else kString false false clientID) ++ body)

def frameResponse (flex : Bool) (corr : Int) (body : Bytes) : Bytes :=
  frame (sint 4 corr ++ (if flex then uvar 0 else []) ++ body)

end KV.Spec
