/-
Spec/Routing.lean — reference side of property C12 (core Lean only; independent of Model/ and Gen/).

* `routingClass`: which broker the Kafka protocol designates for each API, keyed by Kafka's numeric API key
  (transcribed from the published protocol guide / client behaviour; there is no Kafka source in the sandbox).
  `none` = not audited: the check states nothing about that API (must not alarm).
* `bestVersion` / `versionOK`: the version clause of the property.
* `leaderOf`, `coordinatorOK`, … : monitors evaluated on what the fake cluster's journal recorded.
-/
namespace KV.Spec.Routing

/-- the broker the protocol designates for a request -/
inductive RClass where
  | leader            -- the leader of every topic-partition named in the request
  | groupCoordinator  -- the coordinator FindCoordinator(key = group id, type 0) names
  | txnCoordinator    -- the coordinator FindCoordinator(key = transactional id, type 1) names
  | controller        -- the cluster controller of the metadata
  | anyBroker         -- any broker of the cluster
  deriving DecidableEq, Repr, Inhabited

/-- Kafka API key → routing class.  Audited entries only. -/
def routingClass : Nat → Option RClass
  | 0  => some .leader            -- Produce
  | 1  => some .leader            -- Fetch
  | 2  => some .leader            -- ListOffsets
  | 3  => some .anyBroker         -- Metadata
  | 8  => some .groupCoordinator  -- OffsetCommit
  | 9  => some .groupCoordinator  -- OffsetFetch
  | 10 => some .anyBroker         -- FindCoordinator
  | 11 => some .groupCoordinator  -- JoinGroup
  | 12 => some .groupCoordinator  -- Heartbeat
  | 13 => some .groupCoordinator  -- LeaveGroup
  | 14 => some .groupCoordinator  -- SyncGroup
  | 15 => some .groupCoordinator  -- DescribeGroups (per group)
  | 17 => some .anyBroker         -- SaslHandshake (per connection)
  | 18 => some .anyBroker         -- ApiVersions (per connection)
  | 19 => some .controller        -- CreateTopics
  | 20 => some .controller        -- DeleteTopics
  | 22 => some .txnCoordinator    -- InitProducerId (transactional)
  | 24 => some .txnCoordinator    -- AddPartitionsToTxn
  | 25 => some .txnCoordinator    -- AddOffsetsToTxn
  | 26 => some .txnCoordinator    -- EndTxn
  | 28 => some .groupCoordinator  -- TxnOffsetCommit (group coordinator)
  | 36 => some .anyBroker         -- SaslAuthenticate (per connection)
  | 37 => some .controller        -- CreatePartitions
  | 42 => some .groupCoordinator  -- DeleteGroups
  | 43 => some .controller        -- ElectLeaders
  | 45 => some .controller        -- AlterPartitionReassignments
  | 46 => some .controller        -- ListPartitionReassignments
  | 47 => some .groupCoordinator  -- OffsetDelete
  -- not audited (class depends on resource types or differs between client generations):
  -- 16 ListGroups (every broker), 29–31 ACLs, 32/33/44 configs (broker resources → that broker),
  -- 48/49 client quotas, 50/51 SCRAM credentials
  | _  => none

/-- does an implementation class satisfy the designated one?  `anyBroker` is satisfied by any class that
always names a broker of the cluster (the controller is one). -/
def accepts : RClass → RClass → Bool
  | .anyBroker, .anyBroker => true
  | .anyBroker, .controller => true
  | a, b => a == b

/-! ### version clause -/

/-- the two ranges share a version -/
def overlap (cmin cmax bmin bmax : Int) : Bool := decide (cmin ≤ bmax) && decide (bmin ≤ cmax)

/-- highest version supported by both sides -/
def bestVersion (cmax bmax : Int) : Int := if cmax ≤ bmax then cmax else bmax

/-- the property's version clause evaluated on an observed version `v`:
when the ranges overlap, `v` is the highest common version (hence inside both ranges);
when they do not, nothing is demanded. -/
def versionOK (cmin cmax bmin bmax v : Int) : Bool :=
  !overlap cmin cmax bmin bmax || (v == bestVersion cmax bmax && decide (bmin ≤ v) && decide (v ≤ bmax))

/-! ### "encoded with" the version: the parts of the body that depend on the version beyond the field layout -/

/-- Kafka's contract for the record sets of a Produce request (protocol guide; KIP-98): versions 0–2 carry message
sets (magic 0 or 1), version 3 and later carry record batches (magic 2); brokers reject a mismatch
(InvalidRecordException / CORRUPT_MESSAGE) -/
def magicOK (apiVersion magic : Int) : Bool :=
  if apiVersion < 3 then magic == 0 || magic == 1 else magic == 2

/-- LeaveGroup (KIP-345): versions 0–2 name the one leaving member in `MemberID`, versions 3+ in the `Members` array.
`want` = the members the caller named; observed on the wire: the member id and the ids of the array -/
def leaveGroupBodyOK (apiVersion : Int) (want : List String) (wireMember : String) (wireMembers : List String) : Bool :=
  if apiVersion < 3 then (match want with | m :: _ => wireMember == m | [] => true) && wireMembers.isEmpty
  else wireMembers == want

/-- first version that has the option on the wire (Kafka protocol guide): DescribeConfigs IncludeSynonyms v1,
IncludeDocumentation v3; DescribeGroups IncludeAuthorizedOperations v3 -/
def optionSince (apiKey : Nat) (option : String) : Option Int :=
  match apiKey, option with
  | 32, "IncludeSynonyms" => some 1
  | 32, "IncludeDocumentation" => some 3
  | 15, "IncludeAuthorizedOperations" => some 3
  | _, _ => none

/-- an option the caller switched on arrives switched on exactly when the request's version has it -/
def optionOK (apiKey : Nat) (option : String) (apiVersion : Int) (arrived : Bool) : Bool :=
  match optionSince apiKey option with
  | some since => arrived == decide (since ≤ apiVersion)
  | none => true

/-- the address a client has to dial for a broker the metadata lists as (host, port): `host:port`, with the host in
brackets when it is an IPv6 literal (contains a colon; RFC 3986 §3.2.2 — otherwise host and port cannot be told apart) -/
def hostPort (host : String) (port : Int) : String :=
  if host.contains ':' || host.contains '%' then s!"[{host}]:{port}" else s!"{host}:{port}"

/-! ### leader clause (monitor over a plain description of the cluster) -/

/-- cluster facts as the fake cluster holds them: partition → leader -/
abbrev Leaders := List ((String × Int) × Int)

def leaderOf (ls : Leaders) (t : String) (p : Int) : Option Int :=
  (ls.find? (fun e => e.1 == (t, p))).map (·.2)

/-- `b` is the leader of every requested partition -/
def allLedBy (ls : Leaders) (tps : List (String × Int)) (b : Int) : Bool :=
  tps.all (fun tp => leaderOf ls tp.1 tp.2 == some b)

end KV.Spec.Routing
