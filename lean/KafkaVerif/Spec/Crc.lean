/-
Spec/Crc.lean — CRC-32 (reflected, bit at a time) with the polynomial as a parameter (core Lean only).
`crc32 polyIEEE` = `hash/crc32.ChecksumIEEE`, `crc32 polyCastagnoli` = `crc32.Checksum(·, MakeTable(Castagnoli))`.
The stdlib functions are not verified: the definitions here are validated against them on generated inputs
and the standard check vector "123456789" in every run of C05 (ops `crc` of the oracle).
The polynomial is a parameter so that no big literal sits inside a recursive definition.
-/
import KafkaVerif.Base.Bytes

namespace KV.Crc
open KV

def stepBit (poly c : UInt32) : UInt32 :=
  if c &&& 1 = 1 then (c >>> 1) ^^^ poly else c >>> 1

def stepByte (poly c : UInt32) (b : UInt8) : UInt32 :=
  let c := c ^^^ b.toUInt32
  stepBit poly (stepBit poly (stepBit poly (stepBit poly (stepBit poly (stepBit poly (stepBit poly (stepBit poly c)))))))

/-- `crc32.Update(crc, table, data)` (pre- and post-inversion included, as in Go) -/
def update (poly : UInt32) (crc : UInt32) (data : Bytes) : UInt32 :=
  (data.foldl (stepByte poly) (crc ^^^ 0xFFFFFFFF)) ^^^ 0xFFFFFFFF

def crc32 (poly : UInt32) (data : Bytes) : Nat := (update poly 0 data).toNat

def polyIEEE : UInt32 := 0xEDB88320
def polyCastagnoli : UInt32 := 0x82F63B78

theorem crc32_lt (poly : UInt32) (data : Bytes) : crc32 poly data < 4294967296 :=
  UInt32.toNat_lt _

/-- streaming: updating over a concatenation = updating twice (used by writers that checksum in pieces) -/
theorem update_append (poly crc : UInt32) (a b : Bytes) :
    update poly crc (a ++ b) = update poly (update poly crc a) b := by
  simp [update, List.foldl_append, UInt32.xor_assoc]

end KV.Crc
