/-
Spec/GroupAssign.lean — reference predicates of property C14 (core Lean only).  Independent of the model:
they speak about a set of members, a list of partitions and an assignment `a : topic → member id → partitions`
and never mention the algorithms.  The oracle evaluates them (they are decidable on finite domains) on the
implementation's output; Props/C14.lean proves them of the model's output.
-/
import KafkaVerif.Model.GroupBalancer   -- only for the data types `Member`, `Part`

namespace KV.Spec.GroupAssign
open KV.GroupBalancer (Member Part)

/-- an assignment: topic → member id → partition ids handed to that member (`[]` = nothing / no entry) -/
abbrev Asg := Nat → Nat → List Int

/-- the members that subscribe to `t` -/
def subscribers (ms : List Member) (t : Nat) : List Member := ms.filter (fun m => m.topics.contains t)

/-- the listed partitions of topic `t` -/
def partsOf (t : Nat) (ps : List Part) : List Int := (ps.filter (fun p => p.topic == t)).map (·.id)

/-- hypothesis of the property: "a set of members" — the ids handed out by the coordinator are distinct.
(A member's topic list may repeat a topic; it subscribes to `t` iff `t` occurs in the list.) -/
def DistinctIds (ms : List Member) : Prop := (ms.map (·.id)).Nodup
def WellFormed (ms : List Member) : Prop := DistinctIds ms

instance (ms : List Member) : Decidable (DistinctIds ms) := by unfold DistinctIds; infer_instance
instance (ms : List Member) : Decidable (WellFormed ms) := by unfold WellFormed; infer_instance

/-- every listed partition of `t` is handed out exactly once among the subscribers of `t`
(as multisets: the lists of the subscribers together are a permutation of the partitions of `t`) -/
def CoverAt (ms : List Member) (ps : List Part) (a : Asg) (t : Nat) : Prop :=
  ((subscribers ms t).flatMap (fun m => a t m.id)).Perm (partsOf t ps)

/-- an id that is not a subscriber of `t` gets nothing of `t` -/
def OnlySubscribersAt (ms : List Member) (a : Asg) (t id : Nat) : Prop :=
  (∀ m ∈ subscribers ms t, m.id ≠ id) → a t id = []

/-- loads of the subscribers of `t` differ by at most one -/
def BalancedAt (ms : List Member) (a : Asg) (t : Nat) : Prop :=
  ∀ m₁ ∈ subscribers ms t, ∀ m₂ ∈ subscribers ms t, (a t m₁.id).length ≤ (a t m₂.id).length + 1

/-- position of `id` among the subscribers of `t` ordered by id (number of subscribers with a smaller id):
a function of the *set* of members only -/
def rank (ms : List Member) (t id : Nat) : Nat := ((subscribers ms t).filter (fun m => m.id < id)).length

/-- the contiguous run `[i·P/M, (i+1)·P/M)` of `l` -/
def run (M i : Nat) (l : List Int) : List Int :=
  (l.drop (i * l.length / M)).take ((i + 1) * l.length / M - i * l.length / M)

/-- every `k`-th element of `l` starting with the `r`-th, in listed order -/
def stride (k r : Nat) (l : List Int) : List Int :=
  ((l.zipIdx).filter (fun x => x.2 % k == r)).map (·.1)

/-- Range: the subscriber of rank `i` gets the contiguous run number `i` of the listed partitions -/
def RangeShapeAt (ms : List Member) (ps : List Part) (a : Asg) (t : Nat) : Prop :=
  ∀ m ∈ subscribers ms t, a t m.id = run (subscribers ms t).length (rank ms t m.id) (partsOf t ps)

/-- RoundRobin: the subscriber of rank `i` gets every M-th listed partition starting with the i-th -/
def RRShapeAt (ms : List Member) (ps : List Part) (a : Asg) (t : Nat) : Prop :=
  ∀ m ∈ subscribers ms t, a t m.id = stride (subscribers ms t).length (rank ms t m.id) (partsOf t ps)

instance (ms ps a t) : Decidable (CoverAt ms ps a t) := by unfold CoverAt; infer_instance
instance (ms a t id) : Decidable (OnlySubscribersAt ms a t id) := by unfold OnlySubscribersAt; infer_instance
instance (ms a t) : Decidable (BalancedAt ms a t) := by unfold BalancedAt; infer_instance
instance (ms ps a t) : Decidable (RangeShapeAt ms ps a t) := by unfold RangeShapeAt; infer_instance
instance (ms ps a t) : Decidable (RRShapeAt ms ps a t) := by unfold RRShapeAt; infer_instance

/-- C14 for one topic and one candidate id (cover, only subscribers, balance) -/
def GoodAt (ms : List Member) (ps : List Part) (a : Asg) (t : Nat) : Prop :=
  (subscribers ms t ≠ [] → CoverAt ms ps a t) ∧ BalancedAt ms a t

instance (ms ps a t) : Decidable (GoodAt ms ps a t) := by unfold GoodAt; infer_instance

/-- the monitor on finite domains: `ts` the topics and `ids` the member ids to look at (the oracle passes every
topic and id that occurs in the input or in the implementation's output) -/
def coverBalanceOn (ms : List Member) (ps : List Part) (a : Asg) (ts ids : List Nat) : Bool :=
  ts.all fun t => decide (GoodAt ms ps a t) && ids.all fun id => decide (OnlySubscribersAt ms a t id)

def rangeHoldsOn (ms : List Member) (ps : List Part) (a : Asg) (ts ids : List Nat) : Bool :=
  coverBalanceOn ms ps a ts ids && ts.all fun t => decide (RangeShapeAt ms ps a t)

def rrHoldsOn (ms : List Member) (ps : List Part) (a : Asg) (ts ids : List Nat) : Bool :=
  coverBalanceOn ms ps a ts ids && ts.all fun t => decide (RRShapeAt ms ps a t)

/-! ## RackAffinity -/

/-- the listed partitions of topic `t` whose leader is in rack `z` -/
def ledIn (ps : List Part) (t z : Nat) : List Int :=
  (ps.filter (fun p => p.topic == t && p.zone == z)).map (·.id)

/-- the subscribers of `t` that run in rack `z` -/
def inRack (ms : List Member) (t z : Nat) : List Member := (subscribers ms t).filter (fun m => m.zone == z)

/-- number of partitions led in rack `z` that are placed on members of rack `z` -/
def placedInRack (ms : List Member) (ps : List Part) (a : Asg) (t z : Nat) : Nat :=
  (((inRack ms t z).flatMap (fun m => a t m.id)).filter (fun x => (ledIn ps t z).contains x)).length

/-- for rack `z`: at least min(partitions led in `z`, members in `z` × ⌊P/M⌋) partitions stay in the rack -/
def RackBoundAt (ms : List Member) (ps : List Part) (a : Asg) (t z : Nat) : Prop :=
  min (ledIn ps t z).length ((inRack ms t z).length * ((partsOf t ps).length / (subscribers ms t).length))
    ≤ placedInRack ms ps a t z

instance (ms ps a t z) : Decidable (RackBoundAt ms ps a t z) := by unfold RackBoundAt; infer_instance

def rackHoldsOn (ms : List Member) (ps : List Part) (a : Asg) (ts ids zs : List Nat) : Bool :=
  coverBalanceOn ms ps a ts ids && ts.all fun t => zs.all fun z => decide (RackBoundAt ms ps a t z)

end KV.Spec.GroupAssign
