/-
Spec/ConnFrames.lean — REFERENCE side for C11/C17: the response layouts of the Kafka protocol guide
(https://kafka.apache.org/protocol, "Responses"), transcribed by hand for the API versions kafka.Conn speaks and for
the request shapes it sends (body = everything after the correlation id).  Independent of /repo: nothing here is
generated.  A layout is written in the data fragment of the `Step` language (no control steps), so that
`wellFormed` is "the layout parses the body and nothing is left".

  INT8/BOOLEAN → .int 1, INT16 → .int 2 (error_code → .err), INT32 → .int 4, INT64 → .int 8,
  STRING / NULLABLE_STRING → .str, BYTES / NULLABLE_BYTES / RECORDS → .bytes, ARRAY(x) → .arr x,
  fetch high_watermark → .hwm (so that the monitor can see it).
-/
import KafkaVerif.Model.ConnOps

namespace KV.Spec.ConnFrames
open KV KV.Reader KV.ConnOps

def brokersV1 : Step := .arr [.int 4, .str, .int 4, .str]                    -- node_id host port rack
def partitionV1 : List Step := [.err, .int 4, .int 4, .arr [.int 4], .arr [.int 4]]
def fetchPartitionV4 : List Step :=                                           -- v4..v10 with log_start_offset (v5+)
  [.int 4, .err, .hwm, .int 8, .int 8, .abortedTxs, .bytes]     -- aborted_transactions: −1 = null, n ≥ 0 entries of 16 bytes

/-- `layout api version` for the operation names of the driver / Model.ConnSpecs -/
def layout : String → Nat → Option (List Step)
  | "apiVersions", 0 => some [.err, .arrB 6 [.int 2, .int 2, .int 2]]      -- a non-nullable array of 6-byte entries
  | "listOffsets", 1 => some [.arr [.str, .arr [.int 4, .err, .int 8, .int 8]]]
  | "metadata", 1 | "brokers", 1 | "controller", 1 =>
    some [brokersV1, .int 4, .arr ([.err, .str, .int 1, .arr partitionV1])]
  | "metadata", 6 =>
    some [.int 4, brokersV1, .str, .int 4, .arr ([.err, .str, .int 1, .arr (partitionV1 ++ [.arr [.int 4]])])]
  | "produce", 2 | "produce", 3 => some [.arr [.str, .arr [.int 4, .err, .int 8, .int 8]], .int 4]
  | "produce", 7 => some [.arr [.str, .arr [.int 4, .err, .int 8, .int 8, .int 8]], .int 4]
  | "fetch", 2 => some [.int 4, .arr [.str, .arr [.int 4, .err, .hwm, .bytes]]]
  | "fetch", 5 => some [.int 4, .arr [.str, .arr fetchPartitionV4]]
  | "fetch", 10 => some [.int 4, .err, .int 4, .arr [.str, .arr fetchPartitionV4]]
  | "createTopics", 0 => some [.arr [.str, .err]]
  | "createTopics", 1 => some [.arr [.str, .err, .str]]
  | "createTopics", 2 => some [.int 4, .arr [.str, .err, .str]]
  | "deleteTopics", 0 => some [.arr [.str, .err]]
  | "deleteTopics", 1 => some [.int 4, .arr [.str, .err]]
  | "findCoordinator", 0 => some [.err, .int 4, .str, .int 4]
  | "joinGroup", 1 => some [.err, .int 4, .str, .str, .str, .arr [.str, .bytes]]
  | "joinGroup", 2 => some [.int 4, .err, .int 4, .str, .str, .str, .arr [.str, .bytes]]
  | "heartbeat", 0 => some [.err]
  | "leaveGroup", 0 => some [.err]
  | "syncGroup", 0 => some [.err, .bytes]
  | "listGroups", 1 => some [.int 4, .err, .arr [.str, .str]]
  | "offsetCommit", 2 => some [.arr [.str, .arr [.int 4, .err]]]
  | "offsetFetch", 1 => some [.arr [.str, .arr [.int 4, .int 8, .str, .err]]]
  | "saslHandshake", 0 | "saslHandshake", 1 => some [.err, .arr [.str]]
  | "saslAuthenticate", 0 => some [.err, .str, .bytes]
  | _, _ => none

/-- the body is an encoding of the layout: parses, and nothing is left -/
def parse (name : String) (ver : Nat) (body : Bytes) : Option Ctx :=
  match layout name ver with
  | none => none
  | some l =>
    match runSteps l { ver := ver } ⟨body, body.length⟩ with
    | (.ok c, s) => if s.sz = 0 then some c else none
    | _ => none

/-! canonical token list of a program with the version conditionals resolved, to compare generated programs with
layouts (tokens are numbers so that `decide` evaluates the comparison in the kernel) -/
mutual
def renderStep (v : Nat) : Step → List Nat
  | .int n => [1, n]
  | .err => [2]
  | .str => [3]
  | .bytes => [4]
  | .discStr => [5]
  | .discBytes => [6]
  | .disc n => [7, n]
  | .arr body => [10] ++ renderSteps v body ++ [11]
  | .arrB e body => [15, e] ++ renderSteps v body ++ [11]
  | .ifGe w body => if v ≥ w then renderSteps v body else []
  | .failIfErr => [12]
  | .expect1 => [13]
  | .hwm => [1, 8]
  | .setSizeRead => [1, 4]
  | .setSizeCheck => [14]
  | .abortedTxs => [10, 1, 8, 1, 8, 11]
def renderSteps (v : Nat) : List Step → List Nat
  | [] => []
  | s :: r => renderStep v s ++ renderSteps v r
end

/-- the partition entry inside the list-offsets / produce layouts (what the inline closures of conn.go read with a
generated `readFrom`) -/
def listOffsetsPartition : List Step := [.int 4, .err, .int 8, .int 8]
def producePartition (v : Nat) : List Step := if v ≥ 5 then [.int 4, .err, .int 8, .int 8, .int 8] else [.int 4, .err, .int 8, .int 8]

end KV.Spec.ConnFrames
