/-
Spec/Xerial.lean — the xerial snappy framing FORMAT (reference side, core Lean only), as written by
snappy-java's SnappyOutputStream and read by every Kafka client:

    magic  : 0x82 'S' 'N' 'A' 'P' 'P' 'Y' 0x00           (8 bytes)
    version: int32 BE = 1, compatible version: int32 BE = 1
    then   : [ length:int32 BE ][ raw snappy block of that length ]*

`frame`/`parse` work on still-compressed blocks; the block codec is not part of the framing.
-/
import KafkaVerif.Base.RecWire

namespace KV.Spec.Xerial
open KV KV.RW

def magic : Bytes := [0x82, 0x53, 0x4e, 0x41, 0x50, 0x50, 0x59, 0]
def header : Bytes := magic ++ [0, 0, 0, 1, 0, 0, 0, 1]

def frameBlocks : List Bytes → Bytes
  | [] => []
  | b :: bs => beN 4 b.length ++ (b ++ frameBlocks bs)

def frame (blocks : List Bytes) : Bytes := header ++ frameBlocks blocks

def parseBlocks : Nat → Bytes → Option (List Bytes)
  | _, [] => some []
  | 0, _ :: _ => none
  | fuel + 1, s =>
    match readN 4 s with
    | none => none
    | some (n, r) =>
      match takeN n r with
      | none => none
      | some (b, r') =>
        match parseBlocks fuel r' with
        | none => none
        | some bs => some (b :: bs)

/-- the whole stream must be header + well-delimited blocks -/
def parse (s : Bytes) : Option (List Bytes) :=
  if s.take 16 = header then parseBlocks s.length (s.drop 16) else none

theorem parseBlocks_frameBlocks (bs : List Bytes) (h : ∀ b ∈ bs, b.length < 256 ^ 4) (fuel : Nat)
    (hf : bs.length ≤ fuel) : parseBlocks fuel (frameBlocks bs) = some bs := by
  induction bs generalizing fuel with
  | nil => cases fuel <;> simp [parseBlocks, frameBlocks]
  | cons b bs ih =>
    cases fuel with
    | zero => simp at hf
    | succ fuel =>
      have hb := h b (by simp)
      cases hs : frameBlocks (b :: bs) with
      | nil =>
        have := congrArg List.length hs
        simp [frameBlocks] at this
      | cons x xs =>
        rw [← hs]
        have hrest := ih (fun b' hb' => h b' (by simp [hb'])) fuel (by simp only [List.length_cons] at hf; omega)
        rw [hs]; simp only [parseBlocks]; rw [← hs]
        simp only [frameBlocks]
        rw [readN_beN 4 b.length _ hb]
        simp [takeN_append, hrest]

theorem frameBlocks_length_ge (bs : List Bytes) : bs.length ≤ (frameBlocks bs).length := by
  induction bs with
  | nil => simp [frameBlocks]
  | cons b bs ih => simp [frameBlocks]; omega

theorem parse_frame (bs : List Bytes) (h : ∀ b ∈ bs, b.length < 256 ^ 4) : parse (frame bs) = some bs := by
  have h16 : header.length = 16 := by decide
  have ht : (frame bs).take 16 = header := by
    simp only [frame]; rw [← h16]; simp
  have hd : (frame bs).drop 16 = frameBlocks bs := by
    simp only [frame]; rw [← h16]; simp
  simp only [parse, ht, if_true, hd]
  apply parseBlocks_frameBlocks bs h
  have := frameBlocks_length_ge bs
  simp [frame]; omega

end KV.Spec.Xerial
