/-
Spec/FieldMaps.lean — which source field each user-visible / routing-relevant destination field must be copied
from (C12 layout, C19 mappings), against the tables regenerated into Gen/Mappings.lean.

`agrees` is deliberately tolerant, so that behaviour-preserving edits never alarm: a destination field that is
not set in the composite literal (set later by assignment) or that is set from a plain local (`_`) is accepted —
the end-to-end correspondence still covers those; a *visible different source* is a disagreement.
-/
namespace KV.Spec.FieldMaps

def agrees (table : List (String × String)) (field src : String) : Bool :=
  match table.lookup field with
  | some s => s == src || s == "_"
  | none => true

def allAgree (table pins : List (String × String)) : Bool := pins.all fun p => agrees table p.1 p.2

/-! ### transport.go makeLayout / makePartitions (C12) -/
def layoutBroker : List (String × String) := [("Host", "_.Host"), ("ID", "_.NodeID"), ("Port", "_.Port"), ("Rack", "_.Rack")]
def layoutCluster : List (String × String) := [("Controller", "_.ControllerID")]
def layoutTopic : List (String × String) := [("Error", "_.ErrorCode"), ("Name", "_.Name"), ("Partitions", "makePartitions(_.Partitions)")]
def layoutPartition : List (String × String) := [("Error", "_.ErrorCode"), ("ID", "_.PartitionIndex"), ("Leader", "_.LeaderID")]

def filterPlaceholder : List (String × String) := [("ErrorCode", "int16(UnknownTopicOrPartition)"), ("Name", "_")]

/-! ### metadata.go Client.Metadata, conn.go ReadPartitions (C19) -/
def userBroker : List (String × String) := [("Host", "_.Host"), ("ID", "int(_.NodeID)"), ("Port", "int(_.Port)"), ("Rack", "_.Rack")]
def metaPartition : List (String × String) :=
  [("Error", "makeError(_.ErrorCode,\"\")"), ("ID", "int(_.PartitionIndex)"), ("Leader", "makeBrokers(_,_.LeaderID)[0]"),
   ("Replicas", "makeBrokers(_,_.ReplicaNodes)"), ("Isr", "makeBrokers(_,_.IsrNodes)"), ("Topic", "_.Name")]
def metaTopic : List (String × String) := [("Error", "makeError(_.ErrorCode,\"\")"), ("Internal", "_.IsInternal"), ("Name", "_.Name")]
def metaResponse : List (String × String) := [("ClusterID", "_.ClusterID"), ("Throttle", "makeDuration(_.ThrottleTimeMs)")]
def metaRequest : List (String × String) := [("TopicNames", "_.Topics")]
def connPartition : List (String × String) :=
  [("ID", "int(_.PartitionID)"), ("Isr", "makeBrokers(_,_.Isr)"), ("Leader", "makeBrokers(_,_.Leader)[0]"),
   ("Replicas", "makeBrokers(_,_.Replicas)"), ("Topic", "_.TopicName"), ("Error", "makeError(_.PartitionErrorCode,\"\")")]
def connPartitionV6 : List (String × String) := connPartition ++ [("OfflineReplicas", "makeBrokers(_,_.OfflineReplicas)")]

/-! ### offsetfetch.go / offsetcommit.go / listoffset.go (C19) -/
def fetchPartition : List (String × String) :=
  [("CommittedOffset", "_.CommittedOffset"), ("Error", "makeError(_.ErrorCode,\"\")"), ("Metadata", "_.Metadata"),
   ("Partition", "int(_.PartitionIndex)")]
def fetchResponse : List (String × String) := [("Error", "makeError(_.ErrorCode,\"\")"), ("Throttle", "makeDuration(_.ThrottleTimeMs)")]
def fetchRequest : List (String × String) := [("GroupID", "_.GroupID")]
def commitPartition : List (String × String) := [("Error", "makeError(_.ErrorCode,\"\")"), ("Partition", "int(_.PartitionIndex)")]
def commitRequestPartition : List (String × String) :=
  [("CommittedMetadata", "_.Metadata"), ("CommittedOffset", "_.Offset"), ("PartitionIndex", "int32(_.Partition)")]
def commitRequest : List (String × String) :=
  [("GenerationID", "int32(_.GenerationID)"), ("GroupID", "_.GroupID"), ("GroupInstanceID", "_.InstanceID"), ("MemberID", "_.MemberID")]
def listRequestPartition : List (String × String) :=
  [("CurrentLeaderEpoch", "-1"), ("Partition", "int32(_.Partition)"), ("Timestamp", "_.Timestamp")]
def listRequest : List (String × String) := [("IsolationLevel", "int8(_.IsolationLevel)"), ("ReplicaID", "-1")]
def listPartitionOffsets : List (String × String) := [("FirstOffset", "-1"), ("LastOffset", "-1"), ("Partition", "_.Partition")]

end KV.Spec.FieldMaps
