/-
Spec/WriterMonitors.lean — the decidable property monitors of C01 / C07 / C08, evaluated on what the
IMPLEMENTATION did: the scenario's declared calls, the fake broker's journal of produce requests
(environment events of the trace), and the driver's observations (return values of WriteMessages,
final partition logs, Completion callback arguments).  Independent of Model/Writer.lean (core only).
-/
namespace KV.WriterSpec

structure MDecl where
  key : String
  size : Nat          -- Message.totalSize measure, computed by the driver from the documented layout
  topic : String      -- message-level topic ("" = none)
  part : Int          -- what the configured (deterministic) balancer returns for this message
  shape : String := "kv"  -- Key: k bytes / n nil / e empty-not-nil; Value: v bytes / n nil (tombstone) / e empty-not-nil
  deriving Repr

structure CDecl where
  id : Nat
  caller : Nat        -- submitting goroutine
  seq : Nat           -- position among that goroutine's successive calls
  msgs : List MDecl
  deriving Repr

/-- one produce request as the broker saw it; out ∈ acked | lost1 (applied, ack lost) | lost0 | k<code> -/
structure JReq where
  topic : String
  part : Int
  keys : List String
  out : String
  deriving Repr

structure MCfg where
  bs : Nat
  bb : Nat
  ma : Nat
  async : Bool
  compl : Bool
  topic : String
  linger : Nat := 0
  deriving Repr

structure Obs where
  rets : List (Nat × String)                     -- call id ↦ ok | closed | other | werr:c0,c1,…
  logs : List ((String × Int) × List String)
  cbs : List (String × String)                   -- every Completion argument: key, error class
  unsent : Nat
  multi : Nat
  stuck : Nat
  stats : String := "-"
  early : Nat := 0     -- batch timers that provably fired before BatchTimeout had elapsed (sound bound, 1 ms tolerance)
  shapes : List (String × String) := []   -- (id, shape) of every record that reached the broker, any attempt
  wheres : List (String × (String × Int) × Nat) := []   -- Completion without error: id, Topic/Partition, Offset as reported
  deriving Repr

def JReq.applied (r : JReq) : Bool := r.out == "acked" || r.out == "lost1"

/-- where a message must go: its topic (message-level or writer-level) and the balancer's partition -/
def expectedTP (cfg : MCfg) (m : MDecl) : String × Int := (if m.topic ≠ "" then m.topic else cfg.topic, m.part)

def allMsgs (calls : List CDecl) : List (CDecl × Nat × MDecl) :=
  calls.flatMap (fun c => c.msgs.zipIdx.map (fun (m, i) => (c, i, m)))

def findMsg (calls : List CDecl) (key : String) : Option (CDecl × Nat × MDecl) :=
  (allMsgs calls).find? (fun x => x.2.2.key == key)

def retOf (obs : Obs) (c : Nat) : String :=
  match obs.rets.find? (·.1 == c) with
  | some r => r.2
  | none => "missing"

def isAccepted (r : String) : Bool := r == "ok" || r.startsWith "werr:"

/-- the call must be rejected up front: a message larger than BatchBytes or a topic conflict / missing topic -/
def mustReject (cfg : MCfg) (c : CDecl) : Bool :=
  c.msgs.any (fun m => decide (cfg.bb < m.size) || (cfg.topic ≠ "" && m.topic ≠ "") || (cfg.topic == "" && m.topic == "") ||
    m.topic.startsWith "nope")     -- nope<code>: topics the fake cluster does not have (the metadata lookup fails with <code>)

/-! ## C08 -/

def reqWithinLimits (cfg : MCfg) (calls : List CDecl) (r : JReq) : Bool :=
  decide (r.keys.length ≤ cfg.bs) &&
  decide ((r.keys.map (fun k => match findMsg calls k with | some x => x.2.2.size | none => cfg.bb + 1)).sum ≤ cfg.bb) &&
  r.keys.all (fun k => match findMsg calls k with | some x => expectedTP cfg x.2.2 == (r.topic, r.part) | none => false)

def holdsC08 (cfg : MCfg) (calls : List CDecl) (journal : List JReq) (obs : Obs) : Bool :=
  journal.all (reqWithinLimits cfg calls) && obs.multi == 0 &&
  -- rejected before anything of the call is sent
  calls.all (fun c => !mustReject cfg c ||
    (!isAccepted (retOf obs c.id) && c.msgs.all (fun m => journal.all (fun r => !r.keys.contains m.key)))) &&
  -- every accepted message was scheduled and produced without further input
  obs.unsent == 0 && obs.early == 0

/-! ## C07 -/

/-- x was submitted before y by the same goroutine (lexicographic: call position, index) -/
def before (x y : CDecl × Nat × MDecl) : Bool :=
  decide (x.1.seq < y.1.seq) || (x.1.seq == y.1.seq && decide (x.2.1 < y.2.1))

def pairOk (calls : List CDecl) (kx ky : String) : Bool :=
  match findMsg calls kx, findMsg calls ky with
  | some x, some y => x.1.caller != y.1.caller || before x y
  | _, _ => false

/-- order inside one request: earlier positions were submitted earlier (per goroutine) -/
def insideOk (calls : List CDecl) : List String → Bool
  | [] => true
  | k :: ks => ks.all (fun k' => pairOk calls k k') && insideOk calls ks

/-- across requests applied to one partition: unless it is the same batch again, everything in the earlier
request was submitted before everything (of the same goroutine) in the later one -/
def acrossOk (calls : List CDecl) : List JReq → Bool
  | [] => true
  | r :: rs => rs.all (fun r' => r.keys == r'.keys || r.keys.all (fun k => r'.keys.all (fun k' => pairOk calls k k'))) && acrossOk calls rs

def tpsOf (journal : List JReq) (obs : Obs) : List (String × Int) :=
  ((journal.map (fun r => (r.topic, r.part))) ++ obs.logs.map (·.1)).eraseDups

def logOf (obs : Obs) (tp : String × Int) : List String :=
  match obs.logs.find? (·.1 == tp) with
  | some l => l.2
  | none => []

/-- the reader's view (C07.inversion_is_a_repeated_copy), on the log alone: a key standing after a key of the same
goroutine that was submitted later is a repeated copy — it already occurs before that key -/
def readerOk (calls : List CDecl) : List String → List String → Bool
  | _, [] => true
  | seen, k :: rest =>
    rest.all (fun k' =>
      match findMsg calls k, findMsg calls k' with
      | some x, some y => x.1.caller != y.1.caller || !before y x || seen.contains k'
      | _, _ => false) && readerOk calls (seen ++ [k]) rest

def holdsC07 (calls : List CDecl) (journal : List JReq) (obs : Obs) : Bool :=
  (tpsOf journal obs).all (fun tp =>
    let rs := journal.filter (fun r => r.applied && (r.topic, r.part) == tp)
    logOf obs tp == rs.flatMap (·.keys) && rs.all (fun r => insideOk calls r.keys) && acrossOk calls rs &&
    readerOk calls [] (logOf obs tp))

/-! ## C01 -/

def ackedOn (cfg : MCfg) (journal : List JReq) (m : MDecl) : Bool :=
  journal.any (fun r => r.out == "acked" && r.keys.contains m.key && (r.topic, r.part) == expectedTP cfg m)

def werrCodes (r : String) : List String := (r.drop 5).toString.splitOn ","

def dupsOk (journal : List JReq) (obs : Obs) (cfg : MCfg) (m : MDecl) : Bool :=
  let rs := journal.filter (fun r => r.applied && r.keys.contains m.key)
  (rs.dropLast.all (fun r => r.out == "lost1")) &&
  ((logOf obs (expectedTP cfg m)).count m.key == rs.length) &&
  -- bounded duplication (C01.copies_bounded): at most MaxAttempts produce requests carry the message at all
  decide ((journal.filter (fun r => r.keys.contains m.key)).length ≤ max cfg.ma 1)

def holdsC01 (cfg : MCfg) (calls : List CDecl) (journal : List JReq) (obs : Obs) : Bool :=
  -- every request reached the broker with the configured acks (≠ None) and options
  obs.multi == 0 &&
  -- nil ⇒ everything acknowledged in the chosen partition; WriteErrors[i] = nil ⇔ message i acknowledged
  calls.all (fun c =>
    let r := retOf obs c.id
    if r == "ok" then cfg.async || c.msgs.all (fun m => ackedOn cfg journal m &&
      -- C01.ok_means_at_least_once_at_most_maxAttempts, on the log itself
      (let n := (logOf obs (expectedTP cfg m)).count m.key; decide (1 ≤ n) && decide (n ≤ max cfg.ma 1)))
    else if r.startsWith "werr:" then
      let codes := werrCodes r
      codes.length == c.msgs.length && codes.any (· != "ok") &&
      (c.msgs.zip codes).all (fun (m, code) => (code == "ok") == ackedOn cfg journal m)
    else true) &&
  -- Completion: every accepted message exactly once, with that outcome
  (if cfg.compl then
     calls.all (fun c =>
       let r := retOf obs c.id
       if isAccepted r || r == "ctx" then
         (c.msgs.zipIdx).all (fun (m, i) =>
           match obs.cbs.filter (·.1 == m.key) with
           | [cb] => (cb.2 == "ok") == ackedOn cfg journal m &&
                     (if r.startsWith "werr:" then (werrCodes r)[i]? == some cb.2 else (cfg.async || r == "ctx" || cb.2 == "ok"))
           | _ => false)
       else c.msgs.all (fun m => obs.cbs.all (·.1 != m.key)))
   else obs.cbs.isEmpty) &&
  -- the record the broker got is the message as given: a nil Key / Value arrives as null, an empty one as empty
  obs.shapes.all (fun x => match findMsg calls x.1 with | some d => d.2.2.shape == x.2 | none => false) &&
  -- Completion reports where the message is: the log of that topic-partition holds it at the reported offset
  obs.wheres.all (fun x => (logOf obs x.2.1)[x.2.2]? == some x.1) &&
  -- never written to another partition or topic
  journal.all (fun r => r.keys.all (fun k => match findMsg calls k with | some x => expectedTP cfg x.2.2 == (r.topic, r.part) | none => false)) &&
  obs.logs.all (fun l => l.2.all (fun k => match findMsg calls k with | some x => expectedTP cfg x.2.2 == l.1 | none => false)) &&
  -- at most one copy per applied attempt; more than one only after a lost acknowledgement
  (allMsgs calls).all (fun x => dupsOk journal obs cfg x.2.2)

/-! ## Trace-level monitors

Evaluated on the recorded hook events themselves (tokenised), so that a broken mechanism is a concrete failing
input whenever the trace shows it, whether or not this particular schedule went on to corrupt the log. -/

abbrev TEv := List String

/-- events emitted inside the ptw.mutex critical sections of partition writer `pw` -/
def pwSectionEvent (e : TEv) (pw : String) : Bool :=
  match e with
  | k :: p :: _ => (k == "PW.NewBatch" || k == "PW.Add" || k == "PW.Detach" || k == "B.TimerFire") && p == pw
  | _ => false

def isPutOf (e : TEv) (b : String) : Bool :=
  match e with
  | ["Q.Put", _, b', _] => b' == b
  | _ => false

/-- C07 mechanism "batches are queued only while they are the current batch, under the partition mutex": between
`PW.Detach pw b` and the `Q.Put` of b no other ptw.mutex-section event of the same partition writer is recorded
(otherwise a later batch can be created — and queued — before b). -/
def putInsideSection : List TEv → Bool
  | [] => true
  | e :: rest =>
    (match e with
     | ["PW.Detach", pw, b, _, _] => (rest.takeWhile (fun x => !isPutOf x b)).all (fun x => !pwSectionEvent x pw)
     | _ => true) && putInsideSection rest

/-- C08 "scheduled for sending": every detached batch is handed to the queue -/
def detachedGetsPut : List TEv → Bool
  | [] => true
  | e :: rest =>
    (match e with
     | ["PW.Detach", _, b, _, _] => rest.any (fun x => isPutOf x b)
     | _ => true) && detachedGetsPut rest

def bump (st : List (String × Nat × Nat)) (b : String) (sz : Nat) : List (String × Nat × Nat) × Nat × Nat :=
  match st.find? (·.1 == b) with
  | some (_, n, by_) => ((b, n + 1, by_ + sz) :: st.filter (·.1 != b), n + 1, by_ + sz)
  | none => ((b, 1, sz) :: st, 1, sz)

/-- C08 "its batch is closed as soon as it is full": after the `PW.Add` that brings a batch to BatchSize messages or
BatchBytes bytes (sizes as declared by the driver), the next ptw.mutex-section event of that partition writer — and
in any case the end of the batchMessages section / of the trace — must be `PW.Detach pw b full`. -/
def closedWhenFullGo (bs bb : Nat) (size : String → Nat → Nat) :
    List TEv → List (String × Nat × Nat) → Option (String × String) → Bool
  | [], _, pend => pend.isNone
  | e :: rest, st, pend =>
    let isThatDetach : Bool := match pend, e with
      | some (pw, b), ["PW.Detach", pw', b', "full", _] => pw == pw' && b == b'
      | _, _ => false
    let okPend : Bool := match pend with
      | none => true
      | some (pw, _) => if pwSectionEvent e pw || e.head? == some "W.Batched" then isThatDetach else true
    let pend1 := if isThatDetach then none else pend
    match e with
    | ["PW.Add", pw, b, ptr, i, _] =>
      let (st', n, by_) := bump st b (size ptr (i.toNat?.getD 0))
      okPend && closedWhenFullGo bs bb size rest st' (if decide (bs ≤ n) || decide (bb ≤ by_) then some (pw, b) else pend1)
    | _ => okPend && closedWhenFullGo bs bb size rest st pend1

def closedWhenFull (bs bb : Nat) (size : String → Nat → Nat) (evs : List TEv) : Bool :=
  closedWhenFullGo bs bb size evs [] none

/-- C08 "every accepted message is scheduled and produced": every index of an accepted call (given as recorder id of the
call and number of messages) was appended to a batch for which a produce attempt was started (an attempt that dies in
the transport before reaching a broker still counts — the Writer did send) -/
def attemptedAll (evs : List TEv) (accepted : List (String × Nat)) : Bool :=
  accepted.all (fun (ptr, n) => (List.range n).all (fun i =>
    evs.any (fun e => match e with
      | ["PW.Add", _, b, p, j, _] => p == ptr && j == toString i &&
          evs.any (fun e' => match e' with | ["PW.Attempt", _, b', _] => b' == b | _ => false)
      | _ => false)))

def countWhere (evs : List TEv) (p : TEv → Bool) : Nat := (evs.filter p).length

/-- C01: a batch is accepted by the queue at most once, completed at most once, its Completion runs at most once -/
def batchOnce (evs : List TEv) : Bool :=
  let batches := (evs.filterMap (fun e => match e with | ["PW.NewBatch", _, b] => some b | _ => none))
  batches.all (fun b =>
    countWhere evs (fun e => match e with | ["Q.Put", _, b', "true"] => b' == b | _ => false) ≤ 1 &&
    countWhere evs (fun e => match e with | ["B.Complete", _, b', _] => b' == b | _ => false) ≤ 1 &&
    countWhere evs (fun e => match e with | ["B.Completion", _, b', _] => b' == b | _ => false) ≤ 1)

/-- C01/C08: a timer detaches only its own batch and only while that batch is still attached: every
`PW.Detach pw b timer` directly follows (among pw's section events) `B.TimerFire pw b true` -/
def timerDetachGo : List TEv → List (String × TEv) → Bool
  | [], _ => true
  | e :: rest, last =>
    match e with
    | k :: pw :: _ =>
      if pwSectionEvent e pw then
        let ok : Bool := match e with
          | ["PW.Detach", _, b, "timer", _] => (last.find? (·.1 == pw)).map (·.2) == some ["B.TimerFire", pw, b, "true"]
          | _ => true
        ok && timerDetachGo rest ((pw, e) :: last.filter (·.1 != pw))
      else
        let _ := k
        timerDetachGo rest last
    | _ => timerDetachGo rest last

def timerDetachOk (evs : List TEv) : Bool := timerDetachGo evs []

/-- C08 "a batch is closed once BatchTimeout has elapsed since it was OPENED" on a timed trace (clock ticks `T.Tick µs`
before every PW.NewBatch / PW.Add / B.TimerFire): whenever the clock is read, no batch that is still attached and whose
timer has not fired is older than `linger` = BatchTimeout + scheduling slack.  State: the clock and the attached,
not-yet-fired batches with their opening times.  (Same bound as the model's `tick` guard, evaluated on the trace alone.) -/
def lingerGo (linger : Nat) : Nat → List (String × String × Nat) → List TEv → Bool
  | _, _, [] => true
  | now, att, e :: rest =>
    match e with
    | ["T.Tick", t] =>
      let t' := t.toNat!
      att.all (fun x => decide (t' ≤ x.2.2 + linger)) && lingerGo linger t' att rest
    | ["PW.NewBatch", pw, b] => lingerGo linger now ((pw, b, now) :: att.filter (fun x => x.1 != pw)) rest
    | ["B.TimerFire", _, b, _] => lingerGo linger now (att.filter (fun x => x.2.1 != b)) rest
    | ["PW.Detach", _, b, _, _] => lingerGo linger now (att.filter (fun x => x.2.1 != b)) rest
    | _ => lingerGo linger now att rest

def lingerOk (linger : Nat) (evs : List TEv) : Bool := linger == 0 || lingerGo linger 0 [] evs

/-- C08 / C01 "a batch handed to the queue is closed": nothing is appended to a batch after its `PW.Detach` (the
append loop of writeMessages and the timer goroutine exclude each other through ptw.mutex; the model's `add` requires
`detached = none`) -/
def noAddAfterDetach : List TEv → Bool
  | [] => true
  | e :: rest =>
    (match e with
     | ["PW.Detach", _, b, _, _] => rest.all (fun x => match x with | ["PW.Add", _, b', _, _, _] => b' != b | _ => true)
     | _ => true) && noAddAfterDetach rest

end KV.WriterSpec
