/-
Spec/Partitioners.lean — reference partitioner formulas, written from the published algorithms over
plain `Nat`/`Int` arithmetic (independent of the shape of the Go code).  No Sarama / librdkafka / Java
sources exist in the sandbox; these are transcriptions (trusted base, see DESIGN.md §3).

  * MurmurHash2 (32-bit, little-endian 4-byte blocks, Kafka's `Utils.murmur2`, seed 0x9747b28c)
  * Java `DefaultPartitioner`: `toPositive(murmur2(key)) % numPartitions`, `toPositive(x) = x & 0x7fffffff`
  * Sarama `hashPartitioner`: `p := int32(h) % n; if p < 0 { p = -p }`
  * Sarama `referenceHashPartitioner`: `(int32(h) & 0x7fffffff) % n`
  * librdkafka `consistent`: `crc32(key) % cnt`; `consistent_random`: NULL or empty key → random
-/
import KafkaVerif.Base.Bytes

namespace KV.Spec

def two31 : Nat := 2147483648
def two32 : Nat := 4294967296

/-! MurmurHash2 by recursion on 4-byte blocks; constants as a parameter (see Model/Balancer.lean) -/

structure MMConsts where
  seed : UInt32
  m : UInt32
  r : UInt32
  deriving Repr, DecidableEq

/-- the published constants of Kafka's `Utils.murmur2` -/
def javaConsts : MMConsts := { seed := 0x9747b28c, m := 0x5bd1e995, r := 24 }

def mmBlock (c : MMConsts) (h : UInt32) (b0 b1 b2 b3 : UInt8) : UInt32 :=
  let k : UInt32 := b0.toUInt32 + (b1.toUInt32 <<< 8) + (b2.toUInt32 <<< 16) + (b3.toUInt32 <<< 24)
  let k := k * c.m
  let k := k ^^^ (k >>> c.r)
  let k := k * c.m
  (h * c.m) ^^^ k

def mmBody (c : MMConsts) : Bytes → UInt32 → UInt32
  | b0 :: b1 :: b2 :: b3 :: rest, h => mmBody c rest (mmBlock c h b0 b1 b2 b3)
  | [b0, b1, b2], h => (h ^^^ (b2.toUInt32 <<< 16) ^^^ (b1.toUInt32 <<< 8) ^^^ b0.toUInt32) * c.m
  | [b0, b1], h => (h ^^^ (b1.toUInt32 <<< 8) ^^^ b0.toUInt32) * c.m
  | [b0], h => (h ^^^ b0.toUInt32) * c.m
  | [], h => h

def murmur2With (c : MMConsts) (data : Bytes) : UInt32 :=
  let h := mmBody c data (c.seed ^^^ UInt32.ofNat data.length)
  let h := h ^^^ (h >>> 13)
  let h := h * c.m
  h ^^^ (h >>> 15)

def murmur2 (data : Bytes) : UInt32 := murmur2With javaConsts data

/-! Partition formulas over naturals: `h` is the 32-bit hash as a natural number, `n` the partition count -/

/-- `int32(h)` as an integer -/
def asInt32 (h : Nat) : Int := if h < two31 then (h : Int) else (h : Int) - (two32 : Int)

def saramaHash (h n : Nat) : Int :=
  let p := (asInt32 h).tmod (n : Int)
  if p < 0 then -p else p

def saramaRefHash (h n : Nat) : Nat := (h % two31) % n

def javaPartition (h n : Nat) : Nat := (h % two31) % n

def rdkafkaConsistent (crc n : Nat) : Nat := crc % n

end KV.Spec
