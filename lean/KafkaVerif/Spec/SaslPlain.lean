/-
Spec/SaslPlain.lean — reference side for C18 (core Lean only), independent of Model/Auth.lean.

1. RFC 4616 (The PLAIN SASL Mechanism), section 2:

       message   = [authzid] NUL authcid NUL passwd

   `authzid`, `authcid`, `passwd` are UTF-8 strings without NUL.  A server splits at the first two NULs.

2. The ordering monitor of the property: reading the chronological journal of one connection
   (requests the broker received, and the point where the broker gave its final positive answer of the
   authentication exchange), no request other than ApiVersions / SaslHandshake / SaslAuthenticate
   (framed, or the raw token of a v0 handshake) occurs before the verdict.
-/
import KafkaVerif.Base.Bytes

namespace KV.Spec.Sasl

/-- RFC 4616 message -/
def plainMessage (authzid authcid passwd : Bytes) : Bytes :=
  authzid ++ [0] ++ authcid ++ [0] ++ passwd

/-- split at the first NUL: (before, after); none if there is no NUL -/
def splitNul : Bytes → Option (Bytes × Bytes)
  | [] => none
  | b :: rest =>
    if b = 0 then some ([], rest)
    else match splitNul rest with
      | none => none
      | some (x, y) => some (b :: x, y)

/-- what an RFC 4616 server extracts: (authzid, authcid, passwd); none if malformed (fewer than two NULs,
or a NUL inside the password) -/
def parsePlain (m : Bytes) : Option (Bytes × Bytes × Bytes) :=
  match splitNul m with
  | none => none
  | some (z, rest) =>
    match splitNul rest with
    | none => none
    | some (c, p) => if p.contains 0 then none else some (z, c, p)

/-- request kinds as the broker's journal sees them -/
inductive Seen
  | apiVersions | saslHandshake | saslAuthenticate | rawToken
  | other (apiKey : Nat)
  | verdict
  deriving DecidableEq, Repr

def Seen.allowedBeforeVerdict : Seen → Bool
  | .other _ => false
  | _ => true

/-- the monitor: every `other` request is preceded by the verdict -/
def orderHolds : List Seen → Bool
  | [] => true
  | .verdict :: _ => true
  | x :: rest => x.allowedBeforeVerdict && orderHolds rest

end KV.Spec.Sasl
