/-
Spec/GroupWire.lean — reference encoders (Kafka protocol layouts, core Lean only) of the consumer-group RESPONSES the
byte-level coordinator path of the harness writes: FindCoordinator v0, JoinGroup v1, SyncGroup v0, Heartbeat v0,
LeaveGroup v0, OffsetFetch v1, OffsetCommit v2, and the consumer-protocol subscription / assignment blobs.
Used by the oracle to check the bytes of the harness peer (so that the reference side of "acked on the wire" is Lean),
independent of the library's own writeTo/readFrom.
-/
import KafkaVerif.Base.Wire

namespace KV.Spec.GroupWire
open KV KV.Wire

def i16 (i : Int) : Bytes := encInt 2 i
def i32 (i : Int) : Bytes := encInt 4 i
def i64 (i : Int) : Bytes := encInt 8 i
def str (s : String) : Bytes := let b := s.toUTF8.toList; i16 b.length ++ b
def bytes (b : Bytes) : Bytes := i32 b.length ++ b
def arr {α} (l : List α) (f : α → Bytes) : Bytes := i32 l.length ++ (l.map f).flatten

/-- OffsetCommit v2 response: [topic [partition error_code]] -/
def offsetCommitResp (ts : List (String × List (Int × Int))) : Bytes :=
  arr ts fun (t, ps) => str t ++ arr ps fun (p, c) => i32 p ++ i16 c

/-- OffsetFetch v1 response: [topic [partition offset metadata error_code]] -/
def offsetFetchResp (ts : List (String × List (Int × Int × Int))) : Bytes :=
  arr ts fun (t, ps) => str t ++ arr ps fun (p, o, c) => i32 p ++ i64 o ++ str "" ++ i16 c

def errOnly (c : Int) : Bytes := i16 c

/-- FindCoordinator v0 response: error_code node_id host port -/
def findCoordinatorResp (c : Int) (host : String) (port : Int) : Bytes := i16 c ++ i32 1 ++ str host ++ i32 port

/-- consumer protocol assignment: version [topic [partition]] user_data -/
def assignment (ts : List (String × List Int)) : Bytes :=
  i16 1 ++ arr ts (fun (t, ps) => str t ++ arr ps i32) ++ bytes []

/-- consumer protocol subscription: version [topic] user_data -/
def subscription (topics : List String) : Bytes := i16 1 ++ arr topics str ++ bytes []

/-- SyncGroup v0 response: error_code assignment -/
def syncGroupResp (c : Int) (assign : Bytes) : Bytes := i16 c ++ bytes assign

/-- JoinGroup v1 response: error_code generation_id protocol leader member [member_id metadata] -/
def joinGroupResp (c gen : Int) (protocol leader member : String) (members : List (String × List String)) : Bytes :=
  i16 c ++ i32 gen ++ str protocol ++ str leader ++ str member ++
    arr members fun (m, ts) => str m ++ bytes (subscription ts)

/-- what `Conn.offsetCommit` / `Conn.offsetFetch` conclude from the per-partition codes: the first non-zero one -/
def firstError (codes : List Int) : Int := (codes.find? (· != 0)).getD 0


/-! ### the group REQUESTS as the legacy Conn writes them (Kafka protocol guide, the versions conn.go uses) -/
namespace Req

def wstr (b : Bytes) : Bytes := i16 b.length ++ b
def wbytes (b : Bytes) : Bytes := i32 b.length ++ b

/-- FindCoordinator v0: coordinator_key -/
def findCoordinator (key : Bytes) : Bytes := wstr key
/-- Heartbeat v0: group_id generation_id member_id -/
def heartbeat (group : Bytes) (gen : Int) (member : Bytes) : Bytes := wstr group ++ i32 gen ++ wstr member
/-- LeaveGroup v0: group_id member_id -/
def leaveGroup (group member : Bytes) : Bytes := wstr group ++ wstr member
/-- JoinGroup v1: group_id session_timeout rebalance_timeout member_id protocol_type [name metadata] -/
def joinGroup (group : Bytes) (session rebalance : Int) (member ptype : Bytes) (protos : List (Bytes × Bytes)) : Bytes :=
  wstr group ++ i32 session ++ i32 rebalance ++ wstr member ++ wstr ptype ++ arr protos (fun p => wstr p.1 ++ wbytes p.2)
/-- SyncGroup v0: group_id generation_id member_id [member_id assignment] -/
def syncGroup (group : Bytes) (gen : Int) (member : Bytes) (assigns : List (Bytes × Bytes)) : Bytes :=
  wstr group ++ i32 gen ++ wstr member ++ arr assigns (fun a => wstr a.1 ++ wbytes a.2)
/-- OffsetCommit v2: group_id generation_id member_id retention_time [topic [partition offset metadata]] -/
def offsetCommit (group : Bytes) (gen : Int) (member : Bytes) (retention : Int)
    (topics : List (Bytes × List (Int × Int × Bytes))) : Bytes :=
  wstr group ++ i32 gen ++ wstr member ++ i64 retention ++
    arr topics (fun t => wstr t.1 ++ arr t.2 (fun p => i32 p.1 ++ i64 p.2.1 ++ wstr p.2.2))
/-- OffsetFetch v1: group_id [topic [partition]] -/
def offsetFetch (group : Bytes) (topics : List (Bytes × List Int)) : Bytes :=
  wstr group ++ arr topics (fun t => wstr t.1 ++ arr t.2 i32)

end Req

end KV.Spec.GroupWire
