/-
Spec/KafkaSchemas.lean — the audited golden schema table (core Lean only).

Transcribed, in the shape of Apache Kafka's message definition files (`clients/src/main/resources/common/message/*.json`:
name, type, versions, nullableVersions, flexibleVersions), from the published Kafka protocol for the APIs
on the Reader / Writer / Client / ConsumerGroup paths, for the version range the pinned tree registers.
There is no Kafka source in the sandbox: every item was written from knowledge of the protocol and then
audited field by field.  Items whose published layout leaves room for doubt carry `unsure` — there the
reference FOLLOWS THE TREE (the nullable flag is copied from the tree's resolved schema) so that an
unsure item can never raise an alarm; they are listed as audit notes in the evidence.  APIs not in this
table are `snapshot-unaudited`: the reference schema is the tree's own.
-/
import KafkaVerif.Model.Schema

namespace KV.Spec
open KV.Codec

mutual
inductive KTy where
  | bool | int8 | int16 | int32 | int64 | float64 | string | bytes | records
  | array (e : KTy)
  | struct (fs : List KField)
/-- `versions lo..hi` (`hi = none`: "lo+"), `nullFrom`: first nullable version, `unsure`: nullable flag follows the tree -/
inductive KField where
  | mk (name : String) (ty : KTy) (lo : Nat) (hi : Option Nat) (nullFrom : Option Nat) (unsure : Bool)
end

structure KMsg where
  apiKey : Nat
  isRequest : Bool
  /-- versions of the message covered by the audit (inclusive) -/
  lo : Nat
  hi : Nat
  flexFrom : Option Nat
  fields : List KField

def f (name : String) (ty : KTy) (lo : Nat) : KField := .mk name ty lo none none false
def fr (name : String) (ty : KTy) (lo hi : Nat) : KField := .mk name ty lo (some hi) none false
def fn (name : String) (ty : KTy) (lo nullFrom : Nat) : KField := .mk name ty lo none (some nullFrom) false
def fu (name : String) (ty : KTy) (lo : Nat) : KField := .mk name ty lo none none true
def arr (fs : List KField) : KTy := .array (.struct fs)

/-- ids of the tagged fields that `stripTagged` keeps -/
def stripIds : List Int → List Ty → List Int
  | i :: is, t :: ts => if t.zeroSize then stripIds is ts else i :: stripIds is ts
  | _, _ => []

mutual
/-- drop the zero-size marker fields (`_ struct{}`) of a resolved tree schema -/
def strip : Ty → Ty
  | .array c n e => .array c n (strip e)
  | .struct fl fs ids ts => .struct fl (stripList fs) (stripIds ids ts) (stripTagged ts)
  | t => t
def stripList : List Ty → List Ty
  | [] => []
  | t :: ts => if t.zeroSize then stripList ts else strip t :: stripList ts
def stripTagged : List Ty → List Ty
  | [] => []
  | t :: ts => if t.zeroSize then stripTagged ts else strip t :: stripTagged ts
end

mutual
/-- the same schema with every STRING made non-nullable.  A nullable string field may always carry a non-null
string; the hand-written Conn codec writes every string non-null (an empty Go string as length 0, where the
reflection codec writes null): its encoding is the reference encoding under `denull` of the golden schema. -/
def denull : Ty → Ty
  | .string c _ => .string c false
  | .array c n e => .array c n (denull e)
  | .struct f fs ids ts => .struct f (denullList fs) ids (denullList ts)
  | t => t
def denullList : List Ty → List Ty
  | [] => []
  | t :: ts => denull t :: denullList ts
end

def hintNullable : Option Ty → Bool
  | some (.string _ n) | some (.bytes _ n) | some (.array _ n _) => n
  | _ => false

def KField.live (v : Nat) : KField → Bool
  | .mk _ _ lo hi _ _ => lo ≤ v && (match hi with | some h => v ≤ h | none => true)

def liveCount (v : Nat) : List KField → Nat
  | [] => 0
  | f :: fs => (if f.live v then 1 else 0) + liveCount v fs

mutual
def kResolve (flex : Bool) (v : Nat) (nullable : Bool) (hint : Option Ty) (unsure : Bool) : KTy → Ty
  | .bool => .bool | .int8 => .int8 | .int16 => .int16 | .int32 => .int32 | .int64 => .int64
  | .float64 => .float64
  | .string => .string flex nullable
  | .bytes => .bytes flex nullable
  | .records => .records
  | .array e =>
    let eh := match hint with | some (.array _ _ h) => some h | _ => none
    .array flex nullable (kResolve flex v (unsure && hintNullable eh) eh unsure e)
  | .struct fs =>
    let n := liveCount v fs
    let hints : List (Option Ty) := match hint with
      | some (.struct _ hs _ _) => if hs.length == n then hs.map some else List.replicate n none
      | _ => List.replicate n none
    .struct flex (kResolveFields flex v hints fs) [] []
/-- the live fields in order; `hints` is aligned with the live fields -/
def kResolveFields (flex : Bool) (v : Nat) : List (Option Ty) → List KField → List Ty
  | _, [] => []
  | hints, (.mk name ty lo hi nullFrom unsure) :: rest =>
    if (KField.mk name ty lo hi nullFrom unsure).live v then
      let hint := hints.headD none
      let nullable := if unsure then hintNullable hint else match nullFrom with | some n => n ≤ v | none => false
      kResolve flex v nullable hint unsure ty :: kResolveFields flex v hints.tail rest
    else kResolveFields flex v hints rest
end

/-! ### the table -/

def topicPartitionsI32 (topic parts : String) (lo : Nat) : KTy :=
  arr [f topic .string lo, f parts (.array .int32) lo]

def golden : List KMsg := [
  -- Produce (0) v0–v8
  { apiKey := 0, isRequest := true, lo := 0, hi := 8, flexFrom := none, fields := [
      fn "TransactionalId" .string 3 3, f "Acks" .int16 0, f "TimeoutMs" .int32 0,
      f "TopicData" (arr [f "Name" .string 0,
        f "PartitionData" (arr [f "Index" .int32 0, f "Records" .records 0]) 0]) 0] },
  { apiKey := 0, isRequest := false, lo := 0, hi := 8, flexFrom := none, fields := [
      f "Responses" (arr [f "Name" .string 0,
        f "PartitionResponses" (arr [f "Index" .int32 0, f "ErrorCode" .int16 0, f "BaseOffset" .int64 0,
          f "LogAppendTimeMs" .int64 2, f "LogStartOffset" .int64 5,
          f "RecordErrors" (arr [f "BatchIndex" .int32 8, fn "BatchIndexErrorMessage" .string 8 8]) 8,
          fn "ErrorMessage" .string 8 8]) 0]) 0,
      f "ThrottleTimeMs" .int32 1] },
  -- Fetch (1) v0–v11
  { apiKey := 1, isRequest := true, lo := 0, hi := 11, flexFrom := none, fields := [
      f "ReplicaId" .int32 0, f "MaxWaitMs" .int32 0, f "MinBytes" .int32 0, f "MaxBytes" .int32 3,
      f "IsolationLevel" .int8 4, f "SessionId" .int32 7, f "SessionEpoch" .int32 7,
      f "Topics" (arr [f "Topic" .string 0,
        f "Partitions" (arr [f "Partition" .int32 0, f "CurrentLeaderEpoch" .int32 9, f "FetchOffset" .int64 0,
          f "LogStartOffset" .int64 5, f "PartitionMaxBytes" .int32 0]) 0]) 0,
      f "ForgottenTopicsData" (topicPartitionsI32 "Topic" "Partitions" 7) 7,
      f "RackId" .string 11] },
  { apiKey := 1, isRequest := false, lo := 0, hi := 11, flexFrom := none, fields := [
      f "ThrottleTimeMs" .int32 1, f "ErrorCode" .int16 7, f "SessionId" .int32 7,
      f "Responses" (arr [f "Topic" .string 0,
        f "Partitions" (arr [f "PartitionIndex" .int32 0, f "ErrorCode" .int16 0, f "HighWatermark" .int64 0,
          f "LastStableOffset" .int64 4, f "LogStartOffset" .int64 5,
          -- Kafka: nullableVersions 4+; the tree never writes null here (audit note)
          fu "AbortedTransactions" (arr [f "ProducerId" .int64 4, f "FirstOffset" .int64 4]) 4,
          f "PreferredReadReplica" .int32 11, f "Records" .records 0]) 0]) 0] },
  -- ListOffsets (2) v1–v5 (the tree does not register v0)
  { apiKey := 2, isRequest := true, lo := 1, hi := 5, flexFrom := none, fields := [
      f "ReplicaId" .int32 0, f "IsolationLevel" .int8 2,
      f "Topics" (arr [f "Name" .string 0,
        f "Partitions" (arr [f "PartitionIndex" .int32 0, f "CurrentLeaderEpoch" .int32 4, f "Timestamp" .int64 0]) 0]) 0] },
  { apiKey := 2, isRequest := false, lo := 1, hi := 5, flexFrom := none, fields := [
      f "ThrottleTimeMs" .int32 2,
      f "Topics" (arr [f "Name" .string 0,
        f "Partitions" (arr [f "PartitionIndex" .int32 0, f "ErrorCode" .int16 0, f "Timestamp" .int64 1,
          f "Offset" .int64 1, f "LeaderEpoch" .int32 4]) 0]) 0] },
  -- Metadata (3) v0–v8
  { apiKey := 3, isRequest := true, lo := 0, hi := 8, flexFrom := none, fields := [
      -- Kafka: []MetadataRequestTopic{Name} (wire-identical to an array of strings), nullable from v1; the tree
      -- declares []string nullable from v0 and its elements inherit the flag (audit note)
      fu "Topics" (.array .string) 0,
      f "AllowAutoTopicCreation" .bool 4,
      f "IncludeClusterAuthorizedOperations" .bool 8, f "IncludeTopicAuthorizedOperations" .bool 8] },
  { apiKey := 3, isRequest := false, lo := 0, hi := 8, flexFrom := none, fields := [
      f "ThrottleTimeMs" .int32 3,
      f "Brokers" (arr [f "NodeId" .int32 0, f "Host" .string 0, f "Port" .int32 0, fn "Rack" .string 1 1]) 0,
      fn "ClusterId" .string 2 2, f "ControllerId" .int32 1,
      f "Topics" (arr [f "ErrorCode" .int16 0, f "Name" .string 0, f "IsInternal" .bool 1,
        f "Partitions" (arr [f "ErrorCode" .int16 0, f "PartitionIndex" .int32 0, f "LeaderId" .int32 0,
          f "LeaderEpoch" .int32 7, f "ReplicaNodes" (.array .int32) 0, f "IsrNodes" (.array .int32) 0,
          f "OfflineReplicas" (.array .int32) 5]) 0,
        f "TopicAuthorizedOperations" .int32 8]) 0,
      f "ClusterAuthorizedOperations" .int32 8] },
  -- OffsetCommit (8) v0–v7
  { apiKey := 8, isRequest := true, lo := 0, hi := 7, flexFrom := none, fields := [
      f "GroupId" .string 0, f "GenerationId" .int32 1, f "MemberId" .string 1,
      fn "GroupInstanceId" .string 7 7, fr "RetentionTimeMs" .int64 2 4,
      f "Topics" (arr [f "Name" .string 0,
        f "Partitions" (arr [f "PartitionIndex" .int32 0, f "CommittedOffset" .int64 0,
          f "CommittedLeaderEpoch" .int32 6, fr "CommitTimestamp" .int64 1 1,
          fn "CommittedMetadata" .string 0 0]) 0]) 0] },
  { apiKey := 8, isRequest := false, lo := 0, hi := 7, flexFrom := none, fields := [
      f "ThrottleTimeMs" .int32 3,
      f "Topics" (arr [f "Name" .string 0,
        f "Partitions" (arr [f "PartitionIndex" .int32 0, f "ErrorCode" .int16 0]) 0]) 0] },
  -- OffsetFetch (9) v0–v5
  { apiKey := 9, isRequest := true, lo := 0, hi := 5, flexFrom := none, fields := [
      f "GroupId" .string 0,
      -- Kafka: nullableVersions 2+ ("all topics"); the tree allows a nil slice in v0/v1 too (audit note)
      fu "Topics" (topicPartitionsI32 "Name" "PartitionIndexes" 0) 0] },
  { apiKey := 9, isRequest := false, lo := 0, hi := 5, flexFrom := none, fields := [
      f "ThrottleTimeMs" .int32 3,
      f "Topics" (arr [f "Name" .string 0,
        f "Partitions" (arr [f "PartitionIndex" .int32 0, f "CommittedOffset" .int64 0,
          f "CommittedLeaderEpoch" .int32 5, fn "Metadata" .string 0 0, f "ErrorCode" .int16 0]) 0]) 0,
      f "ErrorCode" .int16 2] },
  -- FindCoordinator (10) v0–v2
  { apiKey := 10, isRequest := true, lo := 0, hi := 2, flexFrom := none, fields := [
      f "Key" .string 0, f "KeyType" .int8 1] },
  { apiKey := 10, isRequest := false, lo := 0, hi := 2, flexFrom := none, fields := [
      f "ThrottleTimeMs" .int32 1, f "ErrorCode" .int16 0, fn "ErrorMessage" .string 1 1,
      f "NodeId" .int32 0, f "Host" .string 0, f "Port" .int32 0] },
  -- JoinGroup (11) v0–v7
  { apiKey := 11, isRequest := true, lo := 0, hi := 7, flexFrom := some 6, fields := [
      f "GroupId" .string 0, f "SessionTimeoutMs" .int32 0, f "RebalanceTimeoutMs" .int32 1,
      f "MemberId" .string 0, fn "GroupInstanceId" .string 5 5, f "ProtocolType" .string 0,
      f "Protocols" (arr [f "Name" .string 0, f "Metadata" .bytes 0]) 0] },
  { apiKey := 11, isRequest := false, lo := 0, hi := 7, flexFrom := some 6, fields := [
      f "ThrottleTimeMs" .int32 2, f "ErrorCode" .int16 0, f "GenerationId" .int32 0,
      fu "ProtocolType" .string 7, fu "ProtocolName" .string 0,
      f "Leader" .string 0, f "MemberId" .string 0,
      f "Members" (arr [f "MemberId" .string 0, fn "GroupInstanceId" .string 5 5, f "Metadata" .bytes 0]) 0] },
  -- Heartbeat (12) v0–v4
  { apiKey := 12, isRequest := true, lo := 0, hi := 4, flexFrom := some 4, fields := [
      f "GroupId" .string 0, f "GenerationId" .int32 0, f "MemberId" .string 0, fn "GroupInstanceId" .string 3 3] },
  { apiKey := 12, isRequest := false, lo := 0, hi := 4, flexFrom := some 4, fields := [
      f "ThrottleTimeMs" .int32 1, f "ErrorCode" .int16 0] },
  -- LeaveGroup (13) v0–v4
  { apiKey := 13, isRequest := true, lo := 0, hi := 4, flexFrom := some 4, fields := [
      f "GroupId" .string 0, fr "MemberId" .string 0 2,
      f "Members" (arr [f "MemberId" .string 3, fn "GroupInstanceId" .string 3 3]) 3] },
  { apiKey := 13, isRequest := false, lo := 0, hi := 4, flexFrom := some 4, fields := [
      f "ThrottleTimeMs" .int32 1, f "ErrorCode" .int16 0,
      f "Members" (arr [f "MemberId" .string 3, fn "GroupInstanceId" .string 3 3, f "ErrorCode" .int16 3]) 3] },
  -- SyncGroup (14) v0–v5
  { apiKey := 14, isRequest := true, lo := 0, hi := 5, flexFrom := some 4, fields := [
      f "GroupId" .string 0, f "GenerationId" .int32 0, f "MemberId" .string 0,
      fn "GroupInstanceId" .string 3 3, fu "ProtocolType" .string 5, fu "ProtocolName" .string 5,
      f "Assignments" (arr [f "MemberId" .string 0, f "Assignment" .bytes 0]) 0] },
  { apiKey := 14, isRequest := false, lo := 0, hi := 5, flexFrom := some 4, fields := [
      f "ThrottleTimeMs" .int32 1, f "ErrorCode" .int16 0,
      fu "ProtocolType" .string 5, fu "ProtocolName" .string 5, f "Assignment" .bytes 0] },
  -- ListGroups (16) v0–v2
  { apiKey := 16, isRequest := true, lo := 0, hi := 2, flexFrom := none, fields := [] },
  { apiKey := 16, isRequest := false, lo := 0, hi := 2, flexFrom := none, fields := [
      f "ThrottleTimeMs" .int32 1, f "ErrorCode" .int16 0,
      f "Groups" (arr [f "GroupId" .string 0, f "ProtocolType" .string 0]) 0] },
  -- SaslHandshake (17) v0–v1
  { apiKey := 17, isRequest := true, lo := 0, hi := 1, flexFrom := none, fields := [f "Mechanism" .string 0] },
  { apiKey := 17, isRequest := false, lo := 0, hi := 1, flexFrom := none, fields := [
      f "ErrorCode" .int16 0, f "Mechanisms" (.array .string) 0] },
  -- CreateTopics (19) v0–v4 (v5 of the tree — flexible, extra response fields — is unaudited)
  { apiKey := 19, isRequest := true, lo := 0, hi := 4, flexFrom := none, fields := [
      f "Topics" (arr [f "Name" .string 0, f "NumPartitions" .int32 0, f "ReplicationFactor" .int16 0,
        f "Assignments" (arr [f "PartitionIndex" .int32 0, f "BrokerIds" (.array .int32) 0]) 0,
        f "Configs" (arr [f "Name" .string 0, fn "Value" .string 0 0]) 0]) 0,
      f "timeoutMs" .int32 0, f "validateOnly" .bool 1] },
  { apiKey := 19, isRequest := false, lo := 0, hi := 4, flexFrom := none, fields := [
      f "ThrottleTimeMs" .int32 2,
      f "Topics" (arr [f "Name" .string 0, f "ErrorCode" .int16 0, fn "ErrorMessage" .string 1 1]) 0] },
  -- DeleteTopics (20) v0–v3
  { apiKey := 20, isRequest := true, lo := 0, hi := 3, flexFrom := none, fields := [
      f "TopicNames" (.array .string) 0, f "TimeoutMs" .int32 0] },
  { apiKey := 20, isRequest := false, lo := 0, hi := 3, flexFrom := none, fields := [
      f "ThrottleTimeMs" .int32 1, f "Responses" (arr [f "Name" .string 0, f "ErrorCode" .int16 0]) 0] },
  -- InitProducerId (22) v0–v4
  { apiKey := 22, isRequest := true, lo := 0, hi := 4, flexFrom := some 2, fields := [
      fn "TransactionalId" .string 0 0, f "TransactionTimeoutMs" .int32 0,
      f "ProducerId" .int64 3, f "ProducerEpoch" .int16 3] },
  { apiKey := 22, isRequest := false, lo := 0, hi := 4, flexFrom := some 2, fields := [
      f "ThrottleTimeMs" .int32 0, f "ErrorCode" .int16 0, f "ProducerId" .int64 0, f "ProducerEpoch" .int16 0] },
  -- DescribeGroups (15) v0–v5
  { apiKey := 15, isRequest := true, lo := 0, hi := 5, flexFrom := some 5, fields := [
      f "Groups" (.array .string) 0, f "IncludeAuthorizedOperations" .bool 3] },
  { apiKey := 15, isRequest := false, lo := 0, hi := 5, flexFrom := some 5, fields := [
      f "ThrottleTimeMs" .int32 1,
      f "Groups" (arr [f "ErrorCode" .int16 0, f "GroupId" .string 0, f "GroupState" .string 0,
        f "ProtocolType" .string 0, f "ProtocolData" .string 0,
        f "Members" (arr [f "MemberId" .string 0, fn "GroupInstanceId" .string 4 4, f "ClientId" .string 0,
          f "ClientHost" .string 0, f "MemberMetadata" .bytes 0, f "MemberAssignment" .bytes 0]) 0,
        f "AuthorizedOperations" .int32 3]) 0] },
  -- AddPartitionsToTxn (24) v0–v3
  { apiKey := 24, isRequest := true, lo := 0, hi := 3, flexFrom := some 3, fields := [
      f "TransactionalId" .string 0, f "ProducerId" .int64 0, f "ProducerEpoch" .int16 0,
      f "Topics" (arr [f "Name" .string 0, f "Partitions" (.array .int32) 0]) 0] },
  { apiKey := 24, isRequest := false, lo := 0, hi := 3, flexFrom := some 3, fields := [
      f "ThrottleTimeMs" .int32 0,
      f "Results" (arr [f "Name" .string 0,
        f "Results" (arr [f "PartitionIndex" .int32 0, f "ErrorCode" .int16 0]) 0]) 0] },
  -- AddOffsetsToTxn (25) v0–v3
  { apiKey := 25, isRequest := true, lo := 0, hi := 3, flexFrom := some 3, fields := [
      f "TransactionalId" .string 0, f "ProducerId" .int64 0, f "ProducerEpoch" .int16 0, f "GroupId" .string 0] },
  { apiKey := 25, isRequest := false, lo := 0, hi := 3, flexFrom := some 3, fields := [
      f "ThrottleTimeMs" .int32 0, f "ErrorCode" .int16 0] },
  -- EndTxn (26) v0–v3
  { apiKey := 26, isRequest := true, lo := 0, hi := 3, flexFrom := some 3, fields := [
      f "TransactionalId" .string 0, f "ProducerId" .int64 0, f "ProducerEpoch" .int16 0, f "Committed" .bool 0] },
  { apiKey := 26, isRequest := false, lo := 0, hi := 3, flexFrom := some 3, fields := [
      f "ThrottleTimeMs" .int32 0, f "ErrorCode" .int16 0] },
  -- TxnOffsetCommit (28) v0–v3
  { apiKey := 28, isRequest := true, lo := 0, hi := 3, flexFrom := some 3, fields := [
      f "TransactionalId" .string 0, f "GroupId" .string 0, f "ProducerId" .int64 0, f "ProducerEpoch" .int16 0,
      f "GenerationId" .int32 3, f "MemberId" .string 3, fn "GroupInstanceId" .string 3 3,
      f "Topics" (arr [f "Name" .string 0,
        f "Partitions" (arr [f "PartitionIndex" .int32 0, f "CommittedOffset" .int64 0,
          -- Kafka: nullableVersions 0+; the tree marks it nullable only in v3 (an empty string is written as
          -- length 0 instead of null in v0–v2: both denote "no metadata") — reference follows the tree (audit note)
          f "CommittedLeaderEpoch" .int32 2, fu "CommittedMetadata" .string 0]) 0]) 0] },
  { apiKey := 28, isRequest := false, lo := 0, hi := 3, flexFrom := some 3, fields := [
      f "ThrottleTimeMs" .int32 0,
      f "Topics" (arr [f "Name" .string 0,
        f "Partitions" (arr [f "PartitionIndex" .int32 0, f "ErrorCode" .int16 0]) 0]) 0] },
  -- SaslAuthenticate (36) v0–v1
  { apiKey := 36, isRequest := true, lo := 0, hi := 1, flexFrom := none, fields := [f "AuthBytes" .bytes 0] },
  { apiKey := 36, isRequest := false, lo := 0, hi := 1, flexFrom := none, fields := [
      f "ErrorCode" .int16 0, fn "ErrorMessage" .string 0 0, f "AuthBytes" .bytes 0, f "SessionLifetimeMs" .int64 1] },
  -- ApiVersions (18) v0–v2
  { apiKey := 18, isRequest := true, lo := 0, hi := 2, flexFrom := none, fields := [] },
  { apiKey := 18, isRequest := false, lo := 0, hi := 2, flexFrom := none, fields := [
      f "ErrorCode" .int16 0,
      f "ApiKeys" (arr [f "ApiKey" .int16 0, f "MinVersion" .int16 0, f "MaxVersion" .int16 0]) 0,
      f "ThrottleTimeMs" .int32 1] },
  -- DescribeConfigs (32) v0–v3
  { apiKey := 32, isRequest := true, lo := 0, hi := 3, flexFrom := none, fields := [
      f "Resources" (arr [f "ResourceType" .int8 0, f "ResourceName" .string 0,
        -- Kafka: nullable array of (non-null) strings; in the tree the element strings inherit `nullable` like Metadata's Topics
        fu "ConfigurationKeys" (.array .string) 0]) 0,
      f "IncludeSynonyms" .bool 1, f "IncludeDocumentation" .bool 3] },
  { apiKey := 32, isRequest := false, lo := 0, hi := 3, flexFrom := none, fields := [
      f "ThrottleTimeMs" .int32 0,
      f "Results" (arr [f "ErrorCode" .int16 0, fn "ErrorMessage" .string 0 0, f "ResourceType" .int8 0, f "ResourceName" .string 0,
        f "Configs" (arr [f "Name" .string 0, fn "Value" .string 0 0, f "ReadOnly" .bool 0, fr "IsDefault" .bool 0 0,
          f "ConfigSource" .int8 1, f "IsSensitive" .bool 0,
          f "Synonyms" (arr [f "Name" .string 1, fn "Value" .string 1 1, f "Source" .int8 1]) 1,
          f "ConfigType" .int8 3, fn "Documentation" .string 3 3]) 0]) 0] },
  -- AlterConfigs (33) v0–v1
  { apiKey := 33, isRequest := true, lo := 0, hi := 1, flexFrom := none, fields := [
      f "Resources" (arr [f "ResourceType" .int8 0, f "ResourceName" .string 0,
        f "Configs" (arr [f "Name" .string 0, fn "Value" .string 0 0]) 0]) 0,
      f "ValidateOnly" .bool 0] },
  { apiKey := 33, isRequest := false, lo := 0, hi := 1, flexFrom := none, fields := [
      f "ThrottleTimeMs" .int32 0,
      f "Responses" (arr [f "ErrorCode" .int16 0, fn "ErrorMessage" .string 0 0, f "ResourceType" .int8 0,
        f "ResourceName" .string 0]) 0] },
  -- CreatePartitions (37) v0–v1
  { apiKey := 37, isRequest := true, lo := 0, hi := 1, flexFrom := none, fields := [
      f "Topics" (arr [f "Name" .string 0, f "Count" .int32 0,
        fn "Assignments" (arr [f "BrokerIds" (.array .int32) 0]) 0 0]) 0,
      f "TimeoutMs" .int32 0, f "ValidateOnly" .bool 0] },
  { apiKey := 37, isRequest := false, lo := 0, hi := 1, flexFrom := none, fields := [
      f "ThrottleTimeMs" .int32 0,
      f "Results" (arr [f "Name" .string 0, f "ErrorCode" .int16 0, fn "ErrorMessage" .string 0 0]) 0] },
  -- DeleteGroups (42) v0–v2 (flexible from v2)
  { apiKey := 42, isRequest := true, lo := 0, hi := 2, flexFrom := some 2, fields := [f "GroupsNames" (.array .string) 0] },
  { apiKey := 42, isRequest := false, lo := 0, hi := 2, flexFrom := some 2, fields := [
      f "ThrottleTimeMs" .int32 0, f "Results" (arr [f "GroupId" .string 0, f "ErrorCode" .int16 0]) 0] },
  -- ElectLeaders (43) v0–v1
  { apiKey := 43, isRequest := true, lo := 0, hi := 1, flexFrom := none, fields := [
      f "ElectionType" .int8 1,
      -- Kafka: nullableVersions 0+ (null = every partition); the tree never writes null — reference follows the tree (audit note)
      fu "TopicPartitions" (arr [f "Topic" .string 0, f "Partitions" (.array .int32) 0]) 0,
      f "TimeoutMs" .int32 0] },
  { apiKey := 43, isRequest := false, lo := 0, hi := 1, flexFrom := none, fields := [
      f "ThrottleTimeMs" .int32 0, f "ErrorCode" .int16 1,
      f "ReplicaElectionResults" (arr [f "Topic" .string 0,
        f "PartitionResult" (arr [f "PartitionId" .int32 0, f "ErrorCode" .int16 0, fn "ErrorMessage" .string 0 0]) 0]) 0] },
  -- IncrementalAlterConfigs (44) v0
  { apiKey := 44, isRequest := true, lo := 0, hi := 0, flexFrom := none, fields := [
      f "Resources" (arr [f "ResourceType" .int8 0, f "ResourceName" .string 0,
        f "Configs" (arr [f "Name" .string 0, f "ConfigOperation" .int8 0, fn "Value" .string 0 0]) 0]) 0,
      f "ValidateOnly" .bool 0] },
  { apiKey := 44, isRequest := false, lo := 0, hi := 0, flexFrom := none, fields := [
      f "ThrottleTimeMs" .int32 0,
      f "Responses" (arr [f "ErrorCode" .int16 0, fn "ErrorMessage" .string 0 0, f "ResourceType" .int8 0,
        f "ResourceName" .string 0]) 0] },
  -- OffsetDelete (47) v0
  { apiKey := 47, isRequest := true, lo := 0, hi := 0, flexFrom := none, fields := [
      f "GroupId" .string 0,
      f "Topics" (arr [f "Name" .string 0, f "Partitions" (arr [f "PartitionIndex" .int32 0]) 0]) 0] },
  { apiKey := 47, isRequest := false, lo := 0, hi := 0, flexFrom := none, fields := [
      f "ErrorCode" .int16 0, f "ThrottleTimeMs" .int32 0,
      f "Topics" (arr [f "Name" .string 0,
        f "Partitions" (arr [f "PartitionIndex" .int32 0, f "ErrorCode" .int16 0]) 0]) 0] },
  -- DescribeAcls (29) v0–v3 (flexible from v2)
  { apiKey := 29, isRequest := true, lo := 0, hi := 3, flexFrom := some 2, fields := [
      f "ResourceTypeFilter" .int8 0, fn "ResourceNameFilter" .string 0 0, f "PatternTypeFilter" .int8 1,
      fn "PrincipalFilter" .string 0 0, fn "HostFilter" .string 0 0, f "Operation" .int8 0, f "PermissionType" .int8 0] },
  { apiKey := 29, isRequest := false, lo := 0, hi := 3, flexFrom := some 2, fields := [
      f "ThrottleTimeMs" .int32 0, f "ErrorCode" .int16 0, fn "ErrorMessage" .string 0 0,
      f "Resources" (arr [f "ResourceType" .int8 0, f "ResourceName" .string 0, f "PatternType" .int8 1,
        f "Acls" (arr [f "Principal" .string 0, f "Host" .string 0, f "Operation" .int8 0, f "PermissionType" .int8 0]) 0]) 0] },
  -- CreateAcls (30) v0–v3 (flexible from v2)
  { apiKey := 30, isRequest := true, lo := 0, hi := 3, flexFrom := some 2, fields := [
      f "Creations" (arr [f "ResourceType" .int8 0, f "ResourceName" .string 0, f "ResourcePatternType" .int8 1,
        f "Principal" .string 0, f "Host" .string 0, f "Operation" .int8 0, f "PermissionType" .int8 0]) 0] },
  { apiKey := 30, isRequest := false, lo := 0, hi := 3, flexFrom := some 2, fields := [
      f "ThrottleTimeMs" .int32 0, f "Results" (arr [f "ErrorCode" .int16 0, fn "ErrorMessage" .string 0 0]) 0] },
  -- DeleteAcls (31) v0–v3 (flexible from v2)
  { apiKey := 31, isRequest := true, lo := 0, hi := 3, flexFrom := some 2, fields := [
      f "Filters" (arr [f "ResourceTypeFilter" .int8 0, fn "ResourceNameFilter" .string 0 0, f "PatternTypeFilter" .int8 1,
        fn "PrincipalFilter" .string 0 0, fn "HostFilter" .string 0 0, f "Operation" .int8 0, f "PermissionType" .int8 0]) 0] },
  { apiKey := 31, isRequest := false, lo := 0, hi := 3, flexFrom := some 2, fields := [
      f "ThrottleTimeMs" .int32 0,
      f "FilterResults" (arr [f "ErrorCode" .int16 0, fn "ErrorMessage" .string 0 0,
        f "MatchingAcls" (arr [f "ErrorCode" .int16 0, fn "ErrorMessage" .string 0 0, f "ResourceType" .int8 0,
          f "ResourceName" .string 0, f "PatternType" .int8 1, f "Principal" .string 0, f "Host" .string 0,
          f "Operation" .int8 0, f "PermissionType" .int8 0]) 0]) 0] },
  -- AlterPartitionReassignments (45) v0 (flexible)
  { apiKey := 45, isRequest := true, lo := 0, hi := 0, flexFrom := some 0, fields := [
      f "TimeoutMs" .int32 0,
      f "Topics" (arr [f "Name" .string 0,
        f "Partitions" (arr [f "PartitionIndex" .int32 0, fn "Replicas" (.array .int32) 0 0]) 0]) 0] },
  { apiKey := 45, isRequest := false, lo := 0, hi := 0, flexFrom := some 0, fields := [
      f "ThrottleTimeMs" .int32 0, f "ErrorCode" .int16 0, fn "ErrorMessage" .string 0 0,
      f "Responses" (arr [f "Name" .string 0,
        f "Partitions" (arr [f "PartitionIndex" .int32 0, f "ErrorCode" .int16 0, fn "ErrorMessage" .string 0 0]) 0]) 0] },
  -- ListPartitionReassignments (46) v0 (flexible)
  { apiKey := 46, isRequest := true, lo := 0, hi := 0, flexFrom := some 0, fields := [
      f "TimeoutMs" .int32 0,
      fn "Topics" (arr [f "Name" .string 0, f "PartitionIndexes" (.array .int32) 0]) 0 0] },
  { apiKey := 46, isRequest := false, lo := 0, hi := 0, flexFrom := some 0, fields := [
      f "ThrottleTimeMs" .int32 0, f "ErrorCode" .int16 0, fn "ErrorMessage" .string 0 0,
      f "Topics" (arr [f "Name" .string 0,
        f "Partitions" (arr [f "PartitionIndex" .int32 0, f "Replicas" (.array .int32) 0,
          f "AddingReplicas" (.array .int32) 0, f "RemovingReplicas" (.array .int32) 0]) 0]) 0] },
  -- DescribeClientQuotas (48) v0–v1 (flexible from v1)
  { apiKey := 48, isRequest := true, lo := 0, hi := 1, flexFrom := some 1, fields := [
      f "Components" (arr [f "EntityType" .string 0, f "MatchType" .int8 0, fn "Match" .string 0 0]) 0,
      f "Strict" .bool 0] },
  { apiKey := 48, isRequest := false, lo := 0, hi := 1, flexFrom := some 1, fields := [
      f "ThrottleTimeMs" .int32 0, f "ErrorCode" .int16 0, fn "ErrorMessage" .string 0 0,
      -- Kafka: nullableVersions 0+ (null when the request fails); the tree never writes null (audit note)
      fu "Entries" (arr [f "Entity" (arr [f "EntityType" .string 0, fn "EntityName" .string 0 0]) 0,
        f "Values" (arr [f "Key" .string 0, f "Value" .float64 0]) 0]) 0] },
  -- AlterClientQuotas (49) v0–v1 (flexible from v1)
  { apiKey := 49, isRequest := true, lo := 0, hi := 1, flexFrom := some 1, fields := [
      f "Entries" (arr [f "Entity" (arr [f "EntityType" .string 0, fn "EntityName" .string 0 0]) 0,
        f "Ops" (arr [f "Key" .string 0, f "Value" .float64 0, f "Remove" .bool 0]) 0]) 0,
      f "ValidateOnly" .bool 0] },
  { apiKey := 49, isRequest := false, lo := 0, hi := 1, flexFrom := some 1, fields := [
      f "ThrottleTimeMs" .int32 0,
      f "Entries" (arr [f "ErrorCode" .int16 0, fn "ErrorMessage" .string 0 0,
        f "Entity" (arr [f "EntityType" .string 0, fn "EntityName" .string 0 0]) 0]) 0] },
  -- DescribeUserScramCredentials (50) v0 (flexible)
  { apiKey := 50, isRequest := true, lo := 0, hi := 0, flexFrom := some 0, fields := [
      -- Kafka: nullableVersions 0+ (null = all users); the tree never writes null (audit note)
      fu "Users" (arr [f "Name" .string 0]) 0] },
  { apiKey := 50, isRequest := false, lo := 0, hi := 0, flexFrom := some 0, fields := [
      f "ThrottleTimeMs" .int32 0, f "ErrorCode" .int16 0, fn "ErrorMessage" .string 0 0,
      f "Results" (arr [f "User" .string 0, f "ErrorCode" .int16 0, fn "ErrorMessage" .string 0 0,
        f "CredentialInfos" (arr [f "Mechanism" .int8 0, f "Iterations" .int32 0]) 0]) 0] },
  -- AlterUserScramCredentials (51) v0 (flexible)
  { apiKey := 51, isRequest := true, lo := 0, hi := 0, flexFrom := some 0, fields := [
      f "Deletions" (arr [f "Name" .string 0, f "Mechanism" .int8 0]) 0,
      f "Upsertions" (arr [f "Name" .string 0, f "Mechanism" .int8 0, f "Iterations" .int32 0, f "Salt" .bytes 0,
        f "SaltedPassword" .bytes 0]) 0] },
  { apiKey := 51, isRequest := false, lo := 0, hi := 0, flexFrom := some 0, fields := [
      f "ThrottleTimeMs" .int32 0,
      f "Results" (arr [f "User" .string 0, f "ErrorCode" .int16 0, fn "ErrorMessage" .string 0 0]) 0] }
]

def auditNotes : List String := [
  "TxnOffsetCommit request CommittedMetadata: nullable 0+ in Kafka, the tree marks it nullable only in v3 (v0-v2 write \"\" as an empty string, not null) — reference follows the tree",
  "Metadata request Topics: nullable from v1 in Kafka (v0 uses the empty array for 'all topics'); the tree declares []string nullable from v0 and the element strings inherit `nullable` (an empty topic name is written as null) — reference follows the tree",
  "Fetch response AbortedTransactions: nullable (4+) in Kafka, never null in the tree — reference follows the tree",
  "OffsetFetch request Topics: nullable from v2 in Kafka, tree marks it nullable from v0 — reference follows the tree",
  "JoinGroup response v7 ProtocolType/ProtocolName, SyncGroup v5 ProtocolType/ProtocolName: nullable in Kafka — reference follows the tree's flag",
  "request header client_id: NULLABLE_STRING in Kafka; the library always writes a non-null string in non-flexible versions (Kafka 0.10 compatibility) — accepted as canonical",
  "DescribeConfigs request ConfigurationKeys: []string nullable in the tree, the element strings inherit the flag (an empty config name is written as a null string, which Kafka's schema does not allow) — reference follows the tree",
  "DescribeClientQuotas response Entries, DescribeUserScramCredentials request Users: nullable 0+ in Kafka, never null in the tree — reference follows the tree",
  "DescribeAcls request: Kafka's message is FLAT; the tree nests the seven filter fields in a struct `Filter ACLFilter` — same bytes in v0-v1, but in the flexible versions v2-v3 the nested struct brings its own (empty) tagged-field buffer: one extra 00 byte before the request's own tag buffer (finding C04-D30)",
  "LeaveGroup request GroupID is tagged `compact` for v3 although the message is flexible from v4 only: the codec never reads the `compact` option (compactness follows the message's flexibility), the v3 bytes are the canonical non-compact ones — dead metadata (oracle op `lint compact` lists every such field: this one only)",
  "ElectLeaders request TopicPartitions: nullable 0+ in Kafka (null = all partitions), never null in the tree — reference follows the tree",
  "Go has no null string: the empty string stands for null in nullable fields (library convention, part of the reference)"
]

/-- the golden entry covering (api, direction, version) -/
def goldenMsg (apiKey : Nat) (isRequest : Bool) (version : Int) : Option KMsg :=
  golden.find? fun m => m.apiKey == apiKey && m.isRequest == isRequest && (m.lo : Int) ≤ version && version ≤ (m.hi : Int)

/-- the reference resolved schema for (api, direction, version); `hint` is the tree's stripped schema and
is consulted only for `unsure` nullable flags -/
def goldenTy (apiKey : Nat) (isRequest : Bool) (version : Int) (hint : Ty) : Option Ty :=
  (goldenMsg apiKey isRequest version).map fun m =>
    let flex := match m.flexFrom with | some fv => (fv : Int) ≤ version | none => false
    kResolve flex version.toNat false (some hint) false (.struct m.fields)

def auditedApis : List Nat := (golden.map (·.apiKey)).eraseDups

end KV.Spec
