/-
Spec/ByteLayout.lean — bytes ↔ tokens (core Lean only).

`encSetV2` … are the reference encoders (Spec/RecordBatch.lean: the published record-batch / message-set formats);
`tokenize` reads a possibly truncated byte string back into the token stream of Model/MessageSetReader.lean the way
the Go decoder walks it: fixed-size headers are read when all their bytes are there, a record when its length prefix
and body are there, otherwise the rest is `cut`.  Checksums are not looked at (the Go decoder does not either).
`Lemmas/ByteLayout.lean` proves `tokenize (take n (enc layout)) = truncate (tokens layout) n`, so that
`single_fetch` can be stated about bytes (Props/C02 `single_fetch_bytes`).
-/
import KafkaVerif.Spec.RecordBatch
import KafkaVerif.Spec.Layout

namespace KV.C02
open KV KV.RW KV.Spec.RB

/-- the fields of a v2 batch header the decoder uses -/
structure H2 where
  base : Int
  lod : Int
  firstTs : Int
  count : Int
  attrs : Int
  plen : Nat
  deriving DecidableEq, Repr

/-- the 61 header bytes of a v2 batch: everything of `encFrame` before the payload; `crcv` is the checksum field -/
def encH2 (crcv : Nat) (f : FrameV2) : Bytes :=
  i64 f.baseOffset ++ (i32 ((9 + (frameBody f).length : Nat) : Int) ++ (i32 f.leaderEpoch ++ (i8 2 ++ (u32 crcv ++
    (i16 f.attributes ++ (i32 f.lastOffsetDelta ++ (i64 f.firstTs ++ (i64 f.maxTs ++ (i64 f.producerId ++
    (i16 f.producerEpoch ++ (i32 f.baseSeq ++ i32 f.count)))))))))))

/-- message_reader.go readHeader, `case 2` -/
def readH2 (bs : Bytes) : Option (H2 × Bytes) :=
  match readI64 bs with
  | none => none
  | some (base, r1) =>
  match readI32 r1 with
  | none => none
  | some (len, r2) =>
  match readI32 r2 with
  | none => none
  | some (_, r3) =>
  match readI8 r3 with
  | none => none
  | some (magic, r4) =>
  match readU32 r4 with
  | none => none
  | some (_, r5) =>
  match readI16 r5 with
  | none => none
  | some (attrs, r6) =>
  match readI32 r6 with
  | none => none
  | some (lod, r7) =>
  match readI64 r7 with
  | none => none
  | some (fts, r8) =>
  match readI64 r8 with
  | none => none
  | some (_, r9) =>
  match readI64 r9 with
  | none => none
  | some (_, r10) =>
  match readI16 r10 with
  | none => none
  | some (_, r11) =>
  match readI32 r11 with
  | none => none
  | some (_, r12) =>
  match readI32 r12 with
  | none => none
  | some (cnt, r13) =>
    if magic ≠ 2 then none else some (⟨base, lod, fts, cnt, attrs, (len - 49).toNat⟩, r13)

/-- the fields of a v0/v1 message header the decoder uses; `bodyLen` = bytes of key and value that follow -/
structure H1 where
  off : Int
  magic : Int
  attrs : Int
  bodyLen : Nat
  deriving DecidableEq, Repr

/-- the 18 / 26 header bytes of a v0/v1 message: everything of `encMsg` before the key -/
def encH1 (crcv : Nat) (m : Msg) : Bytes :=
  i64 m.offset ++ (i32 ((4 + (msgBody m).length : Nat) : Int) ++ (u32 crcv ++ (i8 m.magic ++ (i8 m.attributes ++
    (if m.magic = 0 then [] else i64 m.ts)))))

/-- key and value of a v0/v1 message -/
def encB1 (m : Msg) : Bytes := nbytes m.key ++ nbytes m.value

/-- message_reader.go readHeader, `case 0` / `case 1` -/
def readH1 (bs : Bytes) : Option (H1 × Bytes) :=
  match readI64 bs with
  | none => none
  | some (off, r1) =>
  match readI32 r1 with
  | none => none
  | some (size, r2) =>
  match readU32 r2 with
  | none => none
  | some (_, r3) =>
  match readI8 r3 with
  | none => none
  | some (magic, r4) =>
  match readI8 r4 with
  | none => none
  | some (attrs, r5) =>
    if magic = 0 then some (⟨off, 0, attrs, (size - 6).toNat⟩, r5)
    else if magic = 1 then
      match readI64 r5 with
      | none => none
      | some (_, r6) => some (⟨off, 1, attrs, (size - 14).toNat⟩, r6)
    else none

/-- inner messages of a wrapper: all entries must be v0/v1 messages -/
def msgsOf : List Entry → Option (List Msg)
  | [] => some []
  | .msg m :: es => (msgsOf es).map (m :: ·)
  | .batch _ :: _ => none

/-- what the pending read of the decoder expects next -/
inductive TS
  | hdr
  | recs (h : H2) (k : Nat)
  | payload (h : H2)
  | body (hb : Bytes) (h : H1)
  deriving Repr

/-- parameters of the tokenizer: checksum of v0/v1 messages (only used to re-read complete messages with the reference
reader), decompression by codec number, digests of the observable fields of a v2 record (given the batch's first
timestamp) and of a v0/v1 message -/
structure TokCfg where
  crcs : Crcs
  dec : Int → Bytes → Option Bytes
  dg2 : Int → RecV2 → Nat
  dg1 : Msg → Nat

/-- bytes → tokens -/
def tokenize (c : TokCfg) : Nat → TS → Bytes → List Tok
  | 0, _, _ => []
  | fuel + 1, st, bs =>
    if bs.isEmpty then []
    else match st with
      | .hdr =>
        match magicOf bs with
        | none => [.cut]
        | some mg =>
          if mg = 2 then
            if bs.length < 61 then [.cut]
            else match readH2 bs with
              | none => [.cut]
              | some (h, rest) =>
                Tok.h2 h.base h.lod h.count.toNat (h.attrs % 8 != 0) h.plen ::
                  tokenize c fuel (if h.attrs % 8 != 0 then .payload h
                                   else if h.count.toNat = 0 then .hdr else .recs h h.count.toNat) rest
          else
            if bs.length < (if mg = 1 then 26 else 18) then [.cut]
            else match readH1 bs with
              | none => [.cut]
              | some (h, rest) =>
                Tok.h1 h.magic.toNat h.off (h.attrs % 8 != 0) ::
                  tokenize c fuel (.body (bs.take (bs.length - rest.length)) h) rest
      | .recs h k =>
        match readRec bs with
        | none => [.cut]
        | some (r, rest) =>
          Tok.r2 r.offDelta (c.dg2 h.firstTs r) (bs.length - rest.length) ::
            tokenize c fuel (if k ≤ 1 then .hdr else .recs h (k - 1)) rest
      | .payload h =>
        -- readMessageV2: `batchRemain > r.remain` → errShortRead; else decompress the whole payload
        if bs.length < h.plen then [.cut]
        else match (c.dec (h.attrs % 8) (bs.take h.plen)).bind (decodeRecs h.count) with
          | none => [.cut]
          | some recs =>
            Tok.z2 h.plen (recs.map fun r => (r.offDelta, c.dg2 h.firstTs r, (encRec r).length)) ::
              tokenize c fuel .hdr (bs.drop h.plen)
      | .body hb h =>
        if bs.length < h.bodyLen then [.cut]
        else match readMsg c.crcs.ieee (hb ++ bs.take h.bodyLen) with
          | some (m, []) =>
            if h.attrs % 8 = 0 then Tok.kv (c.dg1 m) h.bodyLen :: tokenize c fuel .hdr (bs.drop h.bodyLen)
            else match ((m.value.bind (c.dec (h.attrs % 8))).bind (decodeSet c.crcs)).bind msgsOf with
              | none => [.cut]
              | some inner =>
                Tok.zv h.bodyLen (inner.map fun x => (x.offset, c.dg1 x)) :: tokenize c fuel .hdr (bs.drop h.bodyLen)
          | _ => [.cut]

/-! ### the layouts the reference encoder can emit -/

/-- an uncompressed v2 batch at byte level: header fields (attributes/count/payload of `hdr` are ignored) and records -/
structure BBatch where
  hdr : FrameV2
  recs : List RecV2

def BBatch.frame (b : BBatch) : FrameV2 :=
  { b.hdr with attributes := 0, count := (b.recs.length : Int), payload := encRecs b.recs }

/-- the item of Spec/Layout.lean a batch stands for -/
def BBatch.item (dg2 : Int → RecV2 → Nat) (b : BBatch) : Item :=
  .b2 b.hdr.baseOffset (b.hdr.baseOffset + b.hdr.lastOffsetDelta) false (encRecs b.recs).length
    (b.recs.map fun r => (r.offDelta, dg2 b.hdr.firstTs r, (encRec r).length))

def encSetV2 (crc : Bytes → Nat) : List BBatch → Bytes
  | [] => []
  | b :: bs => encFrame crc b.frame ++ encSetV2 crc bs

def layoutOf (dg2 : Int → RecV2 → Nat) (bs : List BBatch) : List Item := bs.map (BBatch.item dg2)

/-- everything the reference encoder can emit into a message set -/
inductive BItem
  /-- uncompressed v2 batch -/
  | plain2 (b : BBatch)
  /-- v2 batch whose records are compressed with `codec` -/
  | comp2 (hdr : FrameV2) (codec : Int) (recs : List RecV2)
  /-- uncompressed v0/v1 message -/
  | msg (m : Msg)
  /-- v0/v1 wrapper message: value = the inner message set compressed with `codec`; the key is `m`'s — producers write
  null, the format allows any, `readMessageV1` passes over it with `discardBytes` (C05-D31) -/
  | wrap (m : Msg) (codec : Int) (inner : List Msg)

def encMsgs (crc : Bytes → Nat) : List Msg → Bytes
  | [] => []
  | m :: ms => encMsg crc m ++ encMsgs crc ms

def comp2Frame (enc : Int → Bytes → Bytes) (hdr : FrameV2) (codec : Int) (recs : List RecV2) : FrameV2 :=
  { hdr with attributes := codec, count := (recs.length : Int), payload := enc codec (encRecs recs) }

def wrapMsg (enc : Int → Bytes → Bytes) (crc : Bytes → Nat) (m : Msg) (codec : Int) (inner : List Msg) : Msg :=
  { m with attributes := codec, value := some (enc codec (encMsgs crc inner)) }

def BItem.bytes (c : TokCfg) (enc : Int → Bytes → Bytes) : BItem → Bytes
  | .plain2 b => encFrame c.crcs.castagnoli b.frame
  | .comp2 hdr codec recs => encFrame c.crcs.castagnoli (comp2Frame enc hdr codec recs)
  | .msg m => encMsg c.crcs.ieee m
  | .wrap m codec inner => encMsg c.crcs.ieee (wrapMsg enc c.crcs.ieee m codec inner)

def BItem.item (c : TokCfg) (enc : Int → Bytes → Bytes) : BItem → Item
  | .plain2 b => b.item c.dg2
  | .comp2 hdr codec recs =>
    .b2 hdr.baseOffset (hdr.baseOffset + hdr.lastOffsetDelta) true (enc codec (encRecs recs)).length
      (recs.map fun r => (r.offDelta, c.dg2 hdr.firstTs r, (encRec r).length))
  | .msg m => .m m.magic.toNat m.offset (c.dg1 m) (encMsg c.crcs.ieee m).length
  | .wrap m codec inner =>
    .w m.magic.toNat m.offset (encMsg c.crcs.ieee (wrapMsg enc c.crcs.ieee m codec inner)).length
      (inner.map fun x => (x.offset, c.dg1 x))

def BItem.WF (c : TokCfg) (enc : Int → Bytes → Bytes) : BItem → Prop
  | .plain2 b => b.frame.WF
  | .comp2 hdr codec recs => (comp2Frame enc hdr codec recs).WF ∧ 0 < codec ∧ codec < 8 ∧ recs ≠ []
  | .msg m => m.WF ∧ m.attributes % 8 = 0
  | .wrap m codec inner =>
    (wrapMsg enc c.crcs.ieee m codec inner).WF ∧ 0 < codec ∧ codec < 8 ∧ (∀ x ∈ inner, x.WF)

def encItems (c : TokCfg) (enc : Int → Bytes → Bytes) : List BItem → Bytes
  | [] => []
  | it :: its => it.bytes c enc ++ encItems c enc its

def layoutOfItems (c : TokCfg) (enc : Int → Bytes → Bytes) (its : List BItem) : List Item := its.map (BItem.item c enc)

end KV.C02
