/-
Spec/ByteLayout.lean — bytes ↔ tokens (core Lean only).

`encSetV2` … are the reference encoders (Spec/RecordBatch.lean: the published record-batch / message-set formats);
`tokenize` reads a possibly truncated byte string back into the token stream of Model/MessageSetReader.lean the way
the Go decoder walks it: fixed-size headers are read when all their bytes are there, a record when its length prefix
and body are there, otherwise the rest is `cut`.  Checksums are not looked at (the Go decoder does not either).
`Lemmas/ByteLayout.lean` proves `tokenize (take n (enc layout)) = truncate (tokens layout) n`, so that
`single_fetch` can be stated about bytes (Props/C02 `single_fetch_bytes`).
-/
import KafkaVerif.Spec.RecordBatch
import KafkaVerif.Spec.Layout

namespace KV.C02
open KV KV.RW KV.Spec.RB

/-- the fields of a v2 batch header the decoder uses -/
structure H2 where
  base : Int
  lod : Int
  firstTs : Int
  count : Int
  attrs : Int
  plen : Nat
  deriving DecidableEq, Repr

/-- the 61 header bytes of a v2 batch: everything of `encFrame` before the payload; `crcv` is the checksum field -/
def encH2 (crcv : Nat) (f : FrameV2) : Bytes :=
  i64 f.baseOffset ++ (i32 ((9 + (frameBody f).length : Nat) : Int) ++ (i32 f.leaderEpoch ++ (i8 2 ++ (u32 crcv ++
    (i16 f.attributes ++ (i32 f.lastOffsetDelta ++ (i64 f.firstTs ++ (i64 f.maxTs ++ (i64 f.producerId ++
    (i16 f.producerEpoch ++ (i32 f.baseSeq ++ i32 f.count)))))))))))

/-- message_reader.go readHeader, `case 2` -/
def readH2 (bs : Bytes) : Option (H2 × Bytes) :=
  match readI64 bs with
  | none => none
  | some (base, r1) =>
  match readI32 r1 with
  | none => none
  | some (len, r2) =>
  match readI32 r2 with
  | none => none
  | some (_, r3) =>
  match readI8 r3 with
  | none => none
  | some (magic, r4) =>
  match readU32 r4 with
  | none => none
  | some (_, r5) =>
  match readI16 r5 with
  | none => none
  | some (attrs, r6) =>
  match readI32 r6 with
  | none => none
  | some (lod, r7) =>
  match readI64 r7 with
  | none => none
  | some (fts, r8) =>
  match readI64 r8 with
  | none => none
  | some (_, r9) =>
  match readI64 r9 with
  | none => none
  | some (_, r10) =>
  match readI16 r10 with
  | none => none
  | some (_, r11) =>
  match readI32 r11 with
  | none => none
  | some (_, r12) =>
  match readI32 r12 with
  | none => none
  | some (cnt, r13) =>
    if magic ≠ 2 then none else some (⟨base, lod, fts, cnt, attrs, (len - 49).toNat⟩, r13)

/-- what the pending read of the decoder expects next -/
inductive TS
  | hdr
  | recs (h : H2) (k : Nat)
  deriving Repr

/-- bytes → tokens; `dg2 firstTimestamp record` digests the observable fields of a v2 record -/
def tokenize (dg2 : Int → RecV2 → Nat) : Nat → TS → Bytes → List Tok
  | 0, _, _ => []
  | fuel + 1, st, bs =>
    if bs.isEmpty then []
    else match st with
      | .hdr =>
        if bs.length < 61 then [.cut]
        else match readH2 bs with
          | none => [.cut]
          | some (h, rest) =>
            Tok.h2 h.base h.lod h.count.toNat (h.attrs % 8 != 0) h.plen ::
              tokenize dg2 fuel (if h.count.toNat = 0 then .hdr else .recs h h.count.toNat) rest
      | .recs h k =>
        match readRec bs with
        | none => [.cut]
        | some (r, rest) =>
          Tok.r2 r.offDelta (dg2 h.firstTs r) (bs.length - rest.length) ::
            tokenize dg2 fuel (if k ≤ 1 then .hdr else .recs h (k - 1)) rest

/-! ### the layouts the reference encoder can emit -/

/-- an uncompressed v2 batch at byte level: header fields (attributes/count/payload of `hdr` are ignored) and records -/
structure BBatch where
  hdr : FrameV2
  recs : List RecV2

def BBatch.frame (b : BBatch) : FrameV2 :=
  { b.hdr with attributes := 0, count := (b.recs.length : Int), payload := encRecs b.recs }

/-- the item of Spec/Layout.lean a batch stands for -/
def BBatch.item (dg2 : Int → RecV2 → Nat) (b : BBatch) : Item :=
  .b2 b.hdr.baseOffset (b.hdr.baseOffset + b.hdr.lastOffsetDelta) false (encRecs b.recs).length
    (b.recs.map fun r => (r.offDelta, dg2 b.hdr.firstTs r, (encRec r).length))

def encSetV2 (crc : Bytes → Nat) : List BBatch → Bytes
  | [] => []
  | b :: bs => encFrame crc b.frame ++ encSetV2 crc bs

def layoutOf (dg2 : Int → RecV2 → Nat) (bs : List BBatch) : List Item := bs.map (BBatch.item dg2)

end KV.C02
