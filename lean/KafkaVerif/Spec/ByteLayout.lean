/-
Spec/ByteLayout.lean — bytes ↔ tokens for the sublanguage "message set of uncompressed v2 record batches, not
truncated" (core Lean only).

`encSetV2` is the reference encoder (Spec/RecordBatch.lean `encFrame`, `encRecs`: the published record-batch format);
`tokenizeSet` reads bytes back into the token stream of Model/MessageSetReader.lean.  `Lemmas/ByteLayout.lean` proves
`tokenizeSet (encSetV2 bs) = allTokens (layoutOf bs)`, so `single_fetch` can be stated about bytes for this
sublanguage (Props/C02 `single_fetch_bytes`).  Truncated sets, compressed payloads and v0/v1 stay tied by the
byte-level correspondence of the driver only.
-/
import KafkaVerif.Spec.RecordBatch
import KafkaVerif.Spec.Layout

namespace KV.C02
open KV KV.RW KV.Spec.RB

/-- an uncompressed v2 batch at byte level: header fields (payload/count fields of `hdr` are ignored) and records -/
structure BBatch where
  hdr : FrameV2
  recs : List RecV2

def BBatch.frame (b : BBatch) : FrameV2 :=
  { b.hdr with attributes := 0, count := (b.recs.length : Int), payload := encRecs b.recs }

/-- the item of Spec/Layout.lean a batch stands for; `dg` digests the observable fields of a record -/
def BBatch.item (dg : FrameV2 → RecV2 → Nat) (b : BBatch) : Item :=
  .b2 b.hdr.baseOffset (b.hdr.baseOffset + b.hdr.lastOffsetDelta) false (encRecs b.recs).length
    (b.recs.map fun r => (r.offDelta, dg b.frame r, (encRec r).length))

def encSetV2 (crc : Bytes → Nat) : List BBatch → Bytes
  | [] => []
  | b :: bs => encFrame crc b.frame ++ encSetV2 crc bs

def layoutOf (dg : FrameV2 → RecV2 → Nat) (bs : List BBatch) : List Item := bs.map (BBatch.item dg)

/-- one batch from bytes: the header token and one token per record -/
def tokenizeFrame (crc : Bytes → Nat) (dg : FrameV2 → RecV2 → Nat) (bs : Bytes) : Option (List Tok × Bytes) :=
  match readFrame crc bs with
  | none => none
  | some (f, rest) =>
    if codecOf f.attributes ≠ 0 then none
    else match decodeRecs f.count f.payload with
      | none => none
      | some recs =>
        some (Tok.h2 f.baseOffset f.lastOffsetDelta recs.length false f.payload.length ::
              recs.map (fun r => Tok.r2 r.offDelta (dg f r) (encRec r).length), rest)

def tokenizeSet (crc : Bytes → Nat) (dg : FrameV2 → RecV2 → Nat) : Nat → Bytes → Option (List Tok)
  | _, [] => some []
  | 0, _ :: _ => none
  | fuel + 1, bs =>
    match tokenizeFrame crc dg bs with
    | none => none
    | some (ts, rest) =>
      match tokenizeSet crc dg fuel rest with
      | none => none
      | some ts' => some (ts ++ ts')

end KV.C02
