/-
Spec/ByteTokens.lean — bytes → tokens of Model/MessageSetReader.lean for EVERY entry kind of a record set
(core Lean only): plain and compressed v2 batches, plain v0/v1 messages, compressed v0/v1 wrappers.
Extends Spec/ByteLayout.lean (uncompressed v2 only).  The reference reader of Spec/RecordBatch.lean does the byte
work (`readFrame`, `decodeRecs`, `readMsg`, `readSet`); `dec` is the decompressor; `tagOf` any digest of a record.

`Desc` describes one stored entry with its logical content; `Desc.item` is the layout item of Spec/Layout.lean it
stands for, `Desc.entry` its wire form, `Desc.group` its logical records.
-/
import KafkaVerif.Spec.RecordBatch
import KafkaVerif.Spec.Layout

namespace KV.Spec.RB
open KV KV.RW KV.C02

inductive Desc where
  | batch (f : FrameV2) (xs : List RecV2)
  | msg (m : Msg)
  | wrapper (m : Msg) (inner : List Msg)

def Desc.entry : Desc → Entry
  | .batch f _ => .batch f
  | .msg m => .msg m
  | .wrapper m _ => .msg m

/-- absolute records of a wrapper's inner messages -/
def wrapRecs (m : Msg) (inner : List Msg) : List Rec :=
  inner.map fun x => stamp (logAppend m.attributes) m.ts { recOfMsg x with offset := (m.offset - lastOffset inner) + x.offset }

def Desc.group : Desc → Bool × List Rec
  | .batch f xs => (isControl f.attributes, xs.map (recOfV2 f))
  | .msg m => (false, [recOfMsg m])
  | .wrapper m inner => (false, wrapRecs m inner)

def recToks (tagOf : Rec → Nat) (f : FrameV2) (xs : List RecV2) : List (Int × Nat × Nat) :=
  xs.map fun r => (r.offDelta, tagOf (recOfV2 f r), (encRec r).length)

def innerToks (tagOf : Rec → Nat) (m : Msg) (inner : List Msg) : List (Int × Nat) :=
  inner.map fun x => (x.offset, tagOf (stamp (logAppend m.attributes) m.ts { recOfMsg x with offset := (m.offset - lastOffset inner) + x.offset }))

def Desc.item (c : Crcs) (tagOf : Rec → Nat) : Desc → Item
  | .batch f xs => .b2 f.baseOffset (f.baseOffset + f.lastOffsetDelta) (decide (codecOf f.attributes ≠ 0)) f.payload.length
      (recToks tagOf f xs)
  | .msg m => .m m.magic.toNat m.offset (tagOf (recOfMsg m)) (encMsg c.ieee m).length
  | .wrapper m inner => .w m.magic.toNat m.offset (encMsg c.ieee m).length (innerToks tagOf m inner)

/-- tokens of one entry read off the bytes -/
def tokenizeEntry (c : Crcs) (dec : Int → Bytes → Option Bytes) (tagOf : Rec → Nat) (bs : Bytes) :
    Option (List Tok × Bytes) :=
  match magicOf bs with
  | none => none
  | some magic =>
    if magic = 2 then
      match readFrame c.castagnoli bs with
      | none => none
      | some (f, rest) =>
        if codecOf f.attributes = 0 then
          match decodeRecs f.count f.payload with
          | none => none
          | some xs =>
            some (Tok.h2 f.baseOffset f.lastOffsetDelta xs.length false f.payload.length ::
                  (recToks tagOf f xs).map (fun (d, t, z) => Tok.r2 d t z), rest)
        else
          match dec (codecOf f.attributes) f.payload with
          | none => none
          | some p =>
            match decodeRecs f.count p with
            | none => none
            | some xs =>
              some ([Tok.h2 f.baseOffset f.lastOffsetDelta xs.length true f.payload.length,
                     Tok.z2 f.payload.length (recToks tagOf f xs)], rest)
    else
      match readMsg c.ieee bs with
      | none => none
      | some (m, rest) =>
        let size := bs.length - rest.length
        if codecOf m.attributes = 0 then
          some ([Tok.h1 m.magic.toNat m.offset false, Tok.kv (tagOf (recOfMsg m)) (size - hdr1Size m.magic.toNat)], rest)
        else
          match m.value with
          | none => none
          | some v =>
            match dec (codecOf m.attributes) v with
            | none => none
            | some innerBytes =>
              match readSet c innerBytes.length innerBytes with
              | none => none
              | some es =>
                let ms := es.filterMap (fun e => match e with | .msg x => some x | .batch _ => none)
                if ms.length ≠ es.length then none
                else some ([Tok.h1 m.magic.toNat m.offset true,
                            Tok.zv (size - hdr1Size m.magic.toNat) (innerToks tagOf m ms)], rest)

def tokenizeAll (c : Crcs) (dec : Int → Bytes → Option Bytes) (tagOf : Rec → Nat) : Nat → Bytes → Option (List Tok)
  | _, [] => some []
  | 0, _ :: _ => none
  | fuel + 1, bs =>
    match tokenizeEntry c dec tagOf bs with
    | none => none
    | some (ts, rest) =>
      match tokenizeAll c dec tagOf fuel rest with
      | none => none
      | some ts' => some (ts ++ ts')

end KV.Spec.RB
