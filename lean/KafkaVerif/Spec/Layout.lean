/-
Spec/Layout.lean — reference side of property C02 (core Lean only).

A *layout* says how a broker packages a log suffix physically: a list of items, each a v2 record batch
(plain or compressed, possibly with offsets compacted away at the head, inside, at the tail, or entirely),
a plain v0/v1 message, or a compressed v0/v1 wrapper (relative inner offsets for v1).  `records` are the
stored records; `tokensOf` / `truncate` give the token stream the decoder model consumes for a response
cut at a byte limit; `contained` is the independent statement of which records are completely inside such
a response; `serve` is the broker side of the fetch contract.
-/
import KafkaVerif.Model.MessageSetReader

namespace KV.C02

/-- a stored record as far as this property can tell records apart: offset and a digest of
key, value, headers and millisecond timestamp -/
abbrev Rec := Int × Nat

inductive Item
  /-- v2 batch [base, last]; retained records as (offsetDelta, digest, encoded size); `plen` payload bytes on the wire -/
  | b2 (base last : Int) (codec : Bool) (plen : Nat) (recs : List (Int × Nat × Nat))
  /-- plain v0/v1 message; `size` total bytes -/
  | m (magic : Nat) (off : Int) (tag : Nat) (size : Nat)
  /-- v0/v1 wrapper with offset `woff` (that of its last inner message), inner (offset field, digest); `size` total bytes -/
  | w (magic : Nat) (woff : Int) (size : Nat) (inner : List (Int × Nat))
  deriving DecidableEq, Repr

def hdr1Size (magic : Nat) : Nat := if magic = 1 then 26 else 18

def Item.size : Item → Nat
  | .b2 _ _ _ plen _ => 61 + plen
  | .m _ _ _ sz => sz
  | .w _ _ sz _ => sz

/-- the stored records of an item, absolute offsets -/
def Item.records : Item → List Rec
  | .b2 base _ _ _ recs => recs.map fun (d, t, _) => (base + d, t)
  | .m _ off tag _ => [(off, tag)]
  | .w _ woff _ inner => inner.map fun (f, t) => (f + wrapperBase woff inner, t)

/-- last offset covered by an item (what the broker compares the fetch offset with) -/
def Item.last : Item → Int
  | .b2 _ last _ _ _ => last
  | .m _ off _ _ => off
  | .w _ woff _ _ => woff

def Item.first : Item → Int
  | .b2 base _ _ _ _ => base
  | .m _ off _ _ => off
  | .w _ woff _ inner => wrapperBase woff inner + ((inner.head?.map (·.1)).getD 0)

def tokensOf : Item → List Tok
  | .b2 base last codec plen recs =>
    if codec then [.h2 base (last - base) recs.length true plen, .z2 plen recs]
    else .h2 base (last - base) recs.length false plen :: recs.map fun (d, t, z) => .r2 d t z
  | .m magic off tag size => [.h1 magic off false, .kv tag (size - hdr1Size magic)]
  | .w magic woff size inner => [.h1 magic woff true, .zv (size - hdr1Size magic) inner]

def allTokens (items : List Item) : List Tok := items.flatMap tokensOf

def allRecords (items : List Item) : List Rec := items.flatMap Item.records

/-- keep the first `n` bytes of a token stream: complete tokens, then `cut` if bytes of a further token remain -/
def truncate : List Tok → Nat → List Tok
  | [], _ => []
  | t :: ts, n => if t.size ≤ n then t :: truncate ts (n - t.size) else if n = 0 then [] else [.cut]

/-- records of a plain v2 batch that fit completely into `n` payload bytes -/
def fitRecs (base : Int) : List (Int × Nat × Nat) → Nat → List Rec
  | [], _ => []
  | (d, t, z) :: rs, n => if z ≤ n then (base + d, t) :: fitRecs base rs (n - z) else []

/-- the records completely contained in the first `n` bytes of the layout (independent of the decoder model):
whole items, then — for a plain v2 batch whose header fits — its leading records that fit; a partial compressed
payload, a partial v0/v1 message or wrapper yields nothing. -/
def contained : List Item → Nat → List Rec
  | [], _ => []
  | it :: rest, n =>
    if it.size ≤ n then it.records ++ contained rest (n - it.size)
    else match it with
      | .b2 base _ false _ recs => if 61 ≤ n then fitRecs base recs (n - 61) else []
      | _ => []

/-- `cut < 0`: no truncation -/
def responseTokens (items : List Item) (cut : Int) : List Tok :=
  if cut < 0 then allTokens items else truncate (allTokens items) cut.toNat

def containedRecords (items : List Item) (cut : Int) : List Rec :=
  if cut < 0 then allRecords items else contained items cut.toNat

/-- broker side of the fetch contract: drop the items that end before `q`; the first remaining item is always
sent whole, the following ones as far as the byte budget reaches -/
def dropBefore (q : Int) : List Item → List Item
  | [] => []
  | it :: rest => if it.last < q then dropBefore q rest else it :: rest

def serveBudget (items : List Item) (budget : Nat) : Nat :=
  match items with
  | [] => 0
  | it :: _ => max budget it.size

def serve (items : List Item) (q : Int) (budget : Nat) : List Tok :=
  let sub := dropBefore q items
  truncate (allTokens sub) (serveBudget sub budget)

def serveContained (items : List Item) (q : Int) (budget : Nat) : List Rec :=
  let sub := dropBefore q items
  contained sub (serveBudget sub budget)

end KV.C02
