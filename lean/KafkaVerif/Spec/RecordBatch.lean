/-
Spec/RecordBatch.lean — INDEPENDENT reference encoder/decoder for the Kafka on-disk/on-wire record formats
(core Lean only).  Transcribed from the Kafka protocol guide / KIP-98 message format description, not from
kafka-go:

  message set (magic 0 and 1):  [ offset:int64 size:int32 crc:uint32 magic:int8 attributes:int8
                                  (timestamp:int64 if magic = 1) key:bytes(int32, -1 = null) value:bytes ]*
      crc = CRC-32 (IEEE) of magic..end; size = number of bytes after the size field;
      attributes & 7 ≠ 0: `value` is a compressed message set ("wrapper"); for magic 1 the inner offsets are
      relative (0..n-1 unless compacted) and the wrapper carries the absolute offset of the LAST inner message.
  record batch (magic 2):       baseOffset:int64 batchLength:int32 partitionLeaderEpoch:int32 magic:int8 crc:uint32
                                attributes:int16 lastOffsetDelta:int32 firstTimestamp:int64 maxTimestamp:int64
                                producerId:int64 producerEpoch:int16 baseSequence:int32 count:int32 records
      crc = CRC-32C (Castagnoli) of attributes..end; batchLength = bytes after the length field;
      attributes & 7 = compression of `records`, bit 4 transactional, bit 5 control batch
      record: length:varint attributes:int8 timestampDelta:varlong offsetDelta:varint
              key:varbytes(-1 = null) value:varbytes headerCount:varint [ key:varstring value:varbytes ]*

The decoder is strict: every length field must be consistent with the bytes present, checksums must match,
the record count must match, a record's declared length must be consumed exactly, null is only -1.
`crc` (and for flattening, the decompressor) are parameters: the oracle instantiates them with `Spec/Crc.lean`
and with bytes decompressed by the harness.
-/
import KafkaVerif.Base.RecWire

namespace KV.Spec.RB
open KV KV.RW

/-! ## magic 2 -/

structure Hdr where
  key : Bytes
  value : Option Bytes
  deriving DecidableEq, Repr

structure RecV2 where
  attrs : UInt8
  tsDelta : Int
  offDelta : Int
  key : Option Bytes
  value : Option Bytes
  headers : List Hdr
  deriving DecidableEq, Repr

def varbytes : Option Bytes → Bytes
  | none => varint (-1)
  | some b => varint (b.length : Int) ++ b

def readVarbytes (bs : Bytes) : Option (Option Bytes × Bytes) :=
  match readVarint bs with
  | none => none
  | some (n, r) =>
    if n = -1 then some (none, r)
    else if n < 0 then none
    else match takeN n.toNat r with
      | some (b, r') => some (some b, r')
      | none => none

def encHdr (h : Hdr) : Bytes := varint (h.key.length : Int) ++ (h.key ++ varbytes h.value)

def readHdr (bs : Bytes) : Option (Hdr × Bytes) :=
  match readVarint bs with
  | none => none
  | some (n, r) =>
    if n < 0 then none
    else match takeN n.toNat r with
      | none => none
      | some (k, r') =>
        match readVarbytes r' with
        | none => none
        | some (v, r'') => some (⟨k, v⟩, r'')

def encHdrs : List Hdr → Bytes
  | [] => []
  | h :: hs => encHdr h ++ encHdrs hs

def readHdrs : Nat → Bytes → Option (List Hdr × Bytes)
  | 0, bs => some ([], bs)
  | n + 1, bs =>
    match readHdr bs with
    | none => none
    | some (h, r) =>
      match readHdrs n r with
      | none => none
      | some (hs, r') => some (h :: hs, r')

def recBody (r : RecV2) : Bytes :=
  r.attrs :: (varint r.tsDelta ++ (varint r.offDelta ++ (varbytes r.key ++ (varbytes r.value ++
    (varint (r.headers.length : Int) ++ encHdrs r.headers)))))

def encRec (r : RecV2) : Bytes := varint ((recBody r).length : Int) ++ recBody r

/-- parse a record body; the body must be consumed exactly -/
def readRecBody : Bytes → Option RecV2
  | [] => none
  | a :: bs =>
    match readVarint bs with
    | none => none
    | some (ts, r1) =>
      match readVarint r1 with
      | none => none
      | some (od, r2) =>
        match readVarbytes r2 with
        | none => none
        | some (k, r3) =>
          match readVarbytes r3 with
          | none => none
          | some (v, r4) =>
            match readVarint r4 with
            | none => none
            | some (nh, r5) =>
              if nh < 0 then none
              else match readHdrs nh.toNat r5 with
                | some (hs, []) => some ⟨a, ts, od, k, v, hs⟩
                | _ => none

def readRec (bs : Bytes) : Option (RecV2 × Bytes) :=
  match readVarint bs with
  | none => none
  | some (n, r) =>
    if n < 0 then none
    else match takeN n.toNat r with
      | none => none
      | some (body, r') =>
        match readRecBody body with
        | none => none
        | some rec => some (rec, r')

def encRecs : List RecV2 → Bytes
  | [] => []
  | r :: rs => encRec r ++ encRecs rs

def readRecs : Nat → Bytes → Option (List RecV2 × Bytes)
  | 0, bs => some ([], bs)
  | n + 1, bs =>
    match readRec bs with
    | none => none
    | some (r, rest) =>
      match readRecs n rest with
      | none => none
      | some (rs, rest') => some (r :: rs, rest')

/-- exactly `count` records and nothing else -/
def decodeRecs (count : Int) (payload : Bytes) : Option (List RecV2) :=
  if count < 0 then none
  else match readRecs count.toNat payload with
    | some (rs, []) => some rs
    | _ => none

/-- the batch header and its (possibly compressed) record payload -/
structure FrameV2 where
  baseOffset : Int
  leaderEpoch : Int
  attributes : Int
  lastOffsetDelta : Int
  firstTs : Int
  maxTs : Int
  producerId : Int
  producerEpoch : Int
  baseSeq : Int
  count : Int
  payload : Bytes
  deriving DecidableEq, Repr

def FrameV2.WF (f : FrameV2) : Prop :=
  InRange M64 f.baseOffset ∧ InRange M32 f.leaderEpoch ∧ InRange M16 f.attributes ∧
  InRange M32 f.lastOffsetDelta ∧ InRange M64 f.firstTs ∧ InRange M64 f.maxTs ∧ InRange M64 f.producerId ∧
  InRange M16 f.producerEpoch ∧ InRange M32 f.baseSeq ∧ InRange M32 f.count ∧ 2 * (49 + f.payload.length) < M32

/-- attributes..end: the part covered by the checksum -/
def frameBody (f : FrameV2) : Bytes :=
  i16 f.attributes ++ (i32 f.lastOffsetDelta ++ (i64 f.firstTs ++ (i64 f.maxTs ++ (i64 f.producerId ++
    (i16 f.producerEpoch ++ (i32 f.baseSeq ++ (i32 f.count ++ f.payload)))))))

def encFrame (crc : Bytes → Nat) (f : FrameV2) : Bytes :=
  let body := frameBody f
  i64 f.baseOffset ++ (i32 ((9 + body.length : Nat) : Int) ++ (i32 f.leaderEpoch ++ (i8 2 ++ (u32 (crc body) ++ body))))

def readFrameBody (base epoch : Int) (body : Bytes) : Option FrameV2 :=
  match readI16 body with
  | none => none
  | some (attrs, r1) =>
    match readI32 r1 with
    | none => none
    | some (lod, r2) =>
      match readI64 r2 with
      | none => none
      | some (fts, r3) =>
        match readI64 r3 with
        | none => none
        | some (mts, r4) =>
          match readI64 r4 with
          | none => none
          | some (pid, r5) =>
            match readI16 r5 with
            | none => none
            | some (pe, r6) =>
              match readI32 r6 with
              | none => none
              | some (bseq, r7) =>
                match readI32 r7 with
                | none => none
                | some (cnt, payload) => some ⟨base, epoch, attrs, lod, fts, mts, pid, pe, bseq, cnt, payload⟩

def readFrame (crc : Bytes → Nat) (bs : Bytes) : Option (FrameV2 × Bytes) :=
  match readI64 bs with
  | none => none
  | some (base, r1) =>
    match readI32 r1 with
    | none => none
    | some (len, r2) =>
      if len < 9 then none
      else match takeN len.toNat r2 with
        | none => none
        | some (blk, rest) =>
          match readI32 blk with
          | none => none
          | some (epoch, b1) =>
            match readI8 b1 with
            | none => none
            | some (magic, b2) =>
              if magic ≠ 2 then none
              else match readU32 b2 with
                | none => none
                | some (c, body) =>
                  if crc body ≠ c then none
                  else match readFrameBody base epoch body with
                    | none => none
                    | some f => some (f, rest)

/-! ## magic 0 / 1 -/

structure Msg where
  offset : Int
  magic : Int
  attributes : Int
  ts : Int
  key : Option Bytes
  value : Option Bytes
  deriving DecidableEq, Repr

def optLen : Option Bytes → Nat
  | none => 0
  | some b => b.length

def Msg.WF (m : Msg) : Prop :=
  InRange M64 m.offset ∧ (m.magic = 0 ∨ m.magic = 1) ∧ InRange M8 m.attributes ∧ InRange M64 m.ts ∧
  (m.magic = 0 → m.ts = 0) ∧ 2 * (30 + optLen m.key + optLen m.value) < M32

def nbytes : Option Bytes → Bytes
  | none => i32 (-1)
  | some b => i32 (b.length : Int) ++ b

def readNbytes (bs : Bytes) : Option (Option Bytes × Bytes) :=
  match readI32 bs with
  | none => none
  | some (n, r) =>
    if n = -1 then some (none, r)
    else if n < 0 then none
    else match takeN n.toNat r with
      | some (b, r') => some (some b, r')
      | none => none

/-- magic..end: the part covered by the checksum -/
def msgBody (m : Msg) : Bytes :=
  i8 m.magic ++ (i8 m.attributes ++ ((if m.magic = 0 then [] else i64 m.ts) ++ (nbytes m.key ++ nbytes m.value)))

def encMsg (crc : Bytes → Nat) (m : Msg) : Bytes :=
  let body := msgBody m
  i64 m.offset ++ (i32 ((4 + body.length : Nat) : Int) ++ (u32 (crc body) ++ body))

/-- the body must be consumed exactly -/
def readMsgBody (offset : Int) (body : Bytes) : Option Msg :=
  match readI8 body with
  | none => none
  | some (magic, r1) =>
    match readI8 r1 with
    | none => none
    | some (attrs, r2) =>
      if magic = 0 then
        match readNbytes r2 with
        | none => none
        | some (k, r4) =>
          match readNbytes r4 with
          | some (v, []) => some ⟨offset, 0, attrs, 0, k, v⟩
          | _ => none
      else if magic = 1 then
        match readI64 r2 with
        | none => none
        | some (ts, r3) =>
          match readNbytes r3 with
          | none => none
          | some (k, r4) =>
            match readNbytes r4 with
            | some (v, []) => some ⟨offset, 1, attrs, ts, k, v⟩
            | _ => none
      else none

def readMsg (crc : Bytes → Nat) (bs : Bytes) : Option (Msg × Bytes) :=
  match readI64 bs with
  | none => none
  | some (off, r1) =>
    match readI32 r1 with
    | none => none
    | some (size, r2) =>
      if size < 4 then none
      else match takeN size.toNat r2 with
        | none => none
        | some (blk, rest) =>
          match readU32 blk with
          | none => none
          | some (c, body) =>
            if crc body ≠ c then none
            else match readMsgBody off body with
              | none => none
              | some m => some (m, rest)

/-! ## a record set = any sequence of message-set entries and record batches -/

inductive Entry where
  | msg (m : Msg)
  | batch (f : FrameV2)
  deriving DecidableEq, Repr

structure Crcs where
  ieee : Bytes → Nat
  castagnoli : Bytes → Nat

def encEntry (c : Crcs) : Entry → Bytes
  | .msg m => encMsg c.ieee m
  | .batch f => encFrame c.castagnoli f

def encSet (c : Crcs) : List Entry → Bytes
  | [] => []
  | e :: es => encEntry c e ++ encSet c es

/-- the magic byte sits at offset 16 in every format -/
def magicOf (bs : Bytes) : Option UInt8 := bs[16]?

def readEntry (c : Crcs) (bs : Bytes) : Option (Entry × Bytes) :=
  match magicOf bs with
  | none => none
  | some m =>
    if m = 2 then
      match readFrame c.castagnoli bs with
      | some (f, r) => some (.batch f, r)
      | none => none
    else
      match readMsg c.ieee bs with
      | some (m, r) => some (.msg m, r)
      | none => none

/-- decode a whole set; `fuel` bounds the number of entries (any value ≥ the number of entries works;
callers use `bs.length`) -/
def readSet (c : Crcs) : Nat → Bytes → Option (List Entry)
  | _, [] => some []
  | 0, _ :: _ => none
  | fuel + 1, bs =>
    match readEntry c bs with
    | none => none
    | some (e, rest) =>
      match readSet c fuel rest with
      | none => none
      | some es => some (e :: es)

def decodeSet (c : Crcs) (bs : Bytes) : Option (List Entry) := readSet c bs.length bs

/-! ## logical records -/

structure Rec where
  offset : Int
  ts : Int
  key : Option Bytes
  value : Option Bytes
  headers : List Hdr
  deriving DecidableEq, Repr

def codecOf (attributes : Int) : Int := attributes % 8
def isControl (attributes : Int) : Bool := (attributes / 32) % 2 = 1

/-- attributes bit 3, the timestamp type: set by the broker for a topic with `message.timestamp.type=LogAppendTime`.
The batch header then carries the append time (`maxTimestamp` of a v2 batch, the timestamp of a v1 wrapper) and THAT is
the timestamp of every record of the batch; the deltas / inner timestamps still hold what the producer wrote
(Kafka protocol guide; `DefaultRecordBatch`, `AbstractLegacyRecordBatch` of the Java client). -/
def logAppend (attributes : Int) : Bool := (attributes / 8) % 2 = 1

/-- the timestamp of a record of a LogAppendTime batch is the batch's -/
def stamp (on : Bool) (t : Int) (x : Rec) : Rec := if on then { x with ts := t } else x

@[simp] theorem stamp_offset (on : Bool) (t : Int) (x : Rec) : (stamp on t x).offset = x.offset := by
  cases on <;> rfl

/-- the record as the producer wrote it (CreateTime) -/
def recOfV2c (f : FrameV2) (r : RecV2) : Rec :=
  ⟨f.baseOffset + r.offDelta, f.firstTs + r.tsDelta, r.key, r.value, r.headers⟩

def recOfV2 (f : FrameV2) (r : RecV2) : Rec := stamp (logAppend f.attributes) f.maxTs (recOfV2c f r)

def recOfMsg (m : Msg) : Rec := ⟨m.offset, m.ts, m.key, m.value, []⟩

/-- the last element's offset -/
def lastOffset : List Msg → Int
  | [] => 0
  | [m] => m.offset
  | _ :: ms => lastOffset ms

/-- Logical records of one entry.  `dec codec bytes` is the decompressor (supplied by the caller).
Returns `(isControl, records)`. -/
def flattenEntry (c : Crcs) (dec : Int → Bytes → Option Bytes) : Entry → Option (Bool × List Rec)
  | .batch f =>
    let payload := if codecOf f.attributes = 0 then some f.payload else dec (codecOf f.attributes) f.payload
    match payload with
    | none => none
    | some p =>
      match decodeRecs f.count p with
      | none => none
      | some rs => some (isControl f.attributes, rs.map (recOfV2 f))
  | .msg m =>
    if codecOf m.attributes = 0 then some (false, [recOfMsg m])
    else match m.value with
      | none => none
      | some v =>
        match dec (codecOf m.attributes) v with
        | none => none
        | some inner =>
          match readSet c inner.length inner with
          | none => none
          | some es =>
            let ms := es.filterMap (fun e => match e with | .msg x => some x | .batch _ => none)
            if ms.length ≠ es.length then none
            else if ms.any (fun x => codecOf x.attributes ≠ 0) then none
            else if m.magic = 0 then some (false, ms.map recOfMsg)
            else
              let base := m.offset - lastOffset ms
              some (false, ms.map (fun x => stamp (logAppend m.attributes) m.ts { recOfMsg x with offset := base + x.offset }))

def flattenAll (c : Crcs) (dec : Int → Bytes → Option Bytes) : List Entry → Option (List (Bool × List Rec))
  | [] => some []
  | e :: es =>
    match flattenEntry c dec e with
    | none => none
    | some x =>
      match flattenAll c dec es with
      | none => none
      | some xs => some (x :: xs)

end KV.Spec.RB
