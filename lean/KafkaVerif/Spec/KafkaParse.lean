/-
Spec/KafkaParse.lean — reference *parser* for well-formed Kafka frames (protocol guide; see KafkaWire.lean).
Used by the oracle only, as the monitor of the decode direction: it is strict (`none` on anything that is
not a complete well-formed frame) and knows nothing of the Go decoder's `remain` / sticky-error mechanics.
Unknown tagged fields are skipped, known ones are parsed from their own `size` bytes.
-/
import KafkaVerif.Spec.KafkaWire

namespace KV.Spec
open KV KV.Codec

abbrev P (α : Type) := Bytes → Option (α × Bytes)

def takeN (n : Nat) : P Bytes := fun bs => if n ≤ bs.length then some (bs.take n, bs.drop n) else none

def natOf (bs : Bytes) : Nat := bs.foldl (fun a b => 256 * a + b.toNat) 0

def pInt (k : Nat) : P Int := fun bs =>
  match takeN k bs with
  | some (h, r) => let u := natOf h
    some (if u ≥ 2 ^ (8 * k - 1) then (u : Int) - (2 ^ (8 * k) : Nat) else u, r)
  | none => none

partial def pUvar : P Nat := fun bs =>
  match bs with
  | [] => none
  | b :: r => if b.toNat < 128 then some (b.toNat, r)
    else match pUvar r with
      | some (v, r') => some (b.toNat - 128 + 128 * v, r')
      | none => none

/-- length prefix: `none` = null -/
def pLen (compact : Bool) : P (Option Nat) := fun bs =>
  if compact then
    match pUvar bs with
    | some (0, r) => some (none, r)
    | some (n + 1, r) => some (some n, r)
    | none => none
  else none

def pLenFixed (k : Nat) : P (Option Nat) := fun bs =>
  match pInt k bs with
  | some (n, r) => if n == -1 then some (none, r) else if n ≥ 0 then some (some n.toNat, r) else none
  | none => none

def repeatP {α} (p : P α) : Nat → P (List α)
  | 0 => fun bs => some ([], bs)
  | n + 1 => fun bs => match p bs with
    | some (a, r) => match repeatP p n r with
      | some (as, r') => some (a :: as, r')
      | none => none
    | none => none

mutual
partial def parse : Ty → P Val
  | .bool => fun bs => (takeN 1 bs).map fun (h, r) => (.bool (natOf h != 0), r)
  | .int8 => fun bs => (pInt 1 bs).map fun (i, r) => (.int i, r)
  | .int16 => fun bs => (pInt 2 bs).map fun (i, r) => (.int i, r)
  | .int32 => fun bs => (pInt 4 bs).map fun (i, r) => (.int i, r)
  | .int64 => fun bs => (pInt 8 bs).map fun (i, r) => (.int i, r)
  | .float64 => fun bs => (takeN 8 bs).map fun (h, r) => (.int (natOf h), r)
  | .string c _ => fun bs =>
    match (if c then pLen true bs else pLenFixed 2 bs) with
    | some (none, r) => some (.str [], r)
    | some (some n, r) => (takeN n r).map fun (s, r') => (.str s, r')
    | none => none
  | .bytes c _ => fun bs =>
    match (if c then pLen true bs else pLenFixed 4 bs) with
    | some (none, r) => some (.bytes none, r)
    | some (some n, r) => (takeN n r).map fun (s, r') => (.bytes (some s), r')
    | none => none
  | .array c _ t => fun bs =>
    match (if c then pLen true bs else pLenFixed 4 bs) with
    | some (none, r) => some (.arr none, r)
    | some (some n, r) => (repeatP (parse t) n r).map fun (l, r') => (.arr (some l), r')
    | none => none
  | .struct flex fs ids ts => fun bs =>
    match parseFields fs bs with
    | none => none
    | some (vs, r) =>
      if flex then
        match pUvar r with
        | none => none
        | some (n, r) => (parseTags ids ts n (ts.map zeroOf) r).map fun (tvs, r') => (.struct vs tvs, r')
      else some (.struct vs (ts.map zeroOf), r)
  | .unit flex => fun bs =>
    if flex then
      match pUvar bs with
      | none => none
      | some (n, r) => (parseTags [] [] n [] r).map fun (_, r') => (.struct [] [], r')
    else some (.struct [] [], bs)
  | .records => fun bs =>
    match pLenFixed 4 bs with
    | some (none, r) => some (.records none, r)
    | some (some 0, r) => some (.records none, r)
    | some (some n, r) => (takeN n r).map fun (s, r') => (.records (some s), r')
    | none => none
partial def parseFields : List Ty → P (List Val)
  | [] => fun bs => some ([], bs)
  | t :: ts => fun bs => match parse t bs with
    | some (v, r) => (parseFields ts r).map fun (vs, r') => (v :: vs, r')
    | none => none
partial def parseTags (ids : List Int) (ts : List Ty) : Nat → List Val → P (List Val)
  | 0, slots => fun bs => some (slots, bs)
  | n + 1, slots => fun bs =>
    match pUvar bs with
    | none => none
    | some (tag, r) => match pUvar r with
      | none => none
      | some (size, r) => match takeN size r with
        | none => none
        | some (payload, r') =>
          match (ids.zip (ts.zipIdx)).find? (fun (i, _) => i == (tag : Int)) with
          | some (_, t, idx) => match parse t payload with
            | some (v, []) => parseTags ids ts n (slots.set idx v) r'
            | _ => none
          | none => parseTags ids ts n slots r'
partial def zeroOf : Ty → Val
  | .bool => .bool false
  | .int8 | .int16 | .int32 | .int64 | .float64 => .int 0
  | .string _ _ => .str []
  | .bytes _ _ => .bytes none
  | .array _ _ _ => .arr none
  | .struct _ fs _ ts => .struct (fs.map zeroOf) (ts.map zeroOf)
  | .unit _ => .struct [] []
  | .records => .records none
end

/-- skip a header tag buffer -/
def pSkipTags : P Unit := fun bs =>
  match pUvar bs with
  | none => none
  | some (n, r) => (repeatP (fun b => match pUvar b with
      | some (_, r1) => match pUvar r1 with
        | some (sz, r2) => (takeN sz r2).map fun (_, r3) => ((), r3)
        | none => none
      | none => none) n r).map fun (_, r') => ((), r')

/-- one response frame: `(correlation id, body)`; bytes of the frame after the body are ignored -/
def parseResponse (flex : Bool) (t : Ty) (stream : Bytes) : Option (Int × Val) := do
  let (size, r) ← pInt 4 stream
  if size < 0 then none
  let (fr, _) ← takeN size.toNat r
  let (corr, r) ← pInt 4 fr
  let (_, r) ← if flex then pSkipTags r else some ((), r)
  let (v, _) ← parse t r
  pure (corr, v)

/-- one request frame: `(correlation id, client id, body)` -/
def parseRequest (flex : Bool) (t : Ty) (stream : Bytes) : Option (Int × Bytes × Val) := do
  let (size, r) ← pInt 4 stream
  if size < 0 then none
  let (fr, _) ← takeN size.toNat r
  let (_, r) ← pInt 2 fr
  let (_, r) ← pInt 2 r
  let (corr, r) ← pInt 4 r
  let (cid, r) ← parse (.string false true) r
  let (_, r) ← if flex then pSkipTags r else some ((), r)
  let (v, _) ← parse t r
  pure (corr, (match cid with | .str s => s | _ => []), v)

end KV.Spec
