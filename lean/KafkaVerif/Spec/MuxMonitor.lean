/-
Spec/MuxMonitor.lean — reference-side monitors for C06 over what the implementation did (core Lean only,
independent of Model/ConnMux.lean).

`idsUnique`: reading the recorded Conn events in order, no request is written with a correlation id that
an earlier call, still in flight (written, and neither finished nor failed yet), is using.
-/
namespace KV.Spec.Mux

inductive Ev
  | wrote (id : Nat) (ok : Bool)   -- a request went out with this correlation id
  | ended (id : Nat)               -- the call using this id returned (body read, or error)
  | other
  deriving DecidableEq, Repr

def idsUniqueFrom : List Nat → List Ev → Bool
  | _, [] => true
  | inflight, .wrote id ok :: rest =>
    !inflight.contains id && idsUniqueFrom (if ok then id :: inflight else inflight) rest
  | inflight, .ended id :: rest => idsUniqueFrom (inflight.erase id) rest
  | inflight, .other :: rest => idsUniqueFrom inflight rest

def idsUnique (evs : List Ev) : Bool := idsUniqueFrom [] evs

/-! `noProgressOnlyAlone`: `io.ErrNoProgress` is the library's verdict "the stream is corrupt: I am the only one
waiting and the response at the head is not mine".  Reading the recorded events in order, a call may get that verdict
only while no OTHER call is waiting for its response (written, and neither given its response nor failed yet): with
somebody else waiting, the response at the head may well be theirs (seed C06-m9: the in-flight counter lost the
requests that do not go through `do`, and with exactly two calls in flight a valid out-of-order answer closed the
connection). -/

inductive WEv
  | wrote (id : Nat) (ok : Bool)   -- a request went out: its caller now waits for the response
  | left (id : Nat)                -- the caller stopped waiting: it was given its response, or its wait failed
  | noProgress (id : Nat)          -- the caller was told io.ErrNoProgress
  | other
  deriving DecidableEq, Repr

def aloneFrom : List Nat → List WEv → Bool
  | _, [] => true
  | waiting, .wrote id ok :: rest => aloneFrom (if ok then id :: waiting else waiting) rest
  | waiting, .left id :: rest => aloneFrom (waiting.erase id) rest
  | waiting, .noProgress id :: rest => (waiting.erase id).isEmpty && aloneFrom (waiting.erase id) rest
  | waiting, .other :: rest => aloneFrom waiting rest

def noProgressOnlyAlone (evs : List WEv) : Bool := aloneFrom [] evs

end KV.Spec.Mux
