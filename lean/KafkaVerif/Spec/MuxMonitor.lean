/-
Spec/MuxMonitor.lean — reference-side monitors for C06 over what the implementation did (core Lean only,
independent of Model/ConnMux.lean).

`idsUnique`: reading the recorded Conn events in order, no request is written with a correlation id that
an earlier call, still in flight (written, and neither finished nor failed yet), is using.
-/
namespace KV.Spec.Mux

inductive Ev
  | wrote (id : Nat) (ok : Bool)   -- a request went out with this correlation id
  | ended (id : Nat)               -- the call using this id returned (body read, or error)
  | other
  deriving DecidableEq, Repr

def idsUniqueFrom : List Nat → List Ev → Bool
  | _, [] => true
  | inflight, .wrote id ok :: rest =>
    !inflight.contains id && idsUniqueFrom (if ok then id :: inflight else inflight) rest
  | inflight, .ended id :: rest => idsUniqueFrom (inflight.erase id) rest
  | inflight, .other :: rest => idsUniqueFrom inflight rest

def idsUnique (evs : List Ev) : Bool := idsUniqueFrom [] evs

end KV.Spec.Mux
