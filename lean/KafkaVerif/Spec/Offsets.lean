/-
Spec/Offsets.lean — reference side of property C19 (core only; independent of Model/).
* `seekTarget` / `seekSpec`: what Conn.Seek must compute from the partition's first/last offsets.
* `ClusterPart`, `listOffsetAnswer`: the state a fake broker holds for one partition and the answer the
  Kafka ListOffsets API gives for a timestamp (−2 first, −1 last, else first entry at or after the timestamp).
-/
namespace KV.Spec.Offsets

/-- absolute position designated by (offset, whence): 0 start-relative, 1 absolute, 2 end-relative
(subtracted), 3 relative to the current offset -/
def seekTarget (cur off whence first last : Int) : Int :=
  if whence == 0 then first + off
  else if whence == 1 then off
  else if whence == 2 then last - off
  else cur + off

inductive SeekResult where
  | ok (n : Int) | outOfRange | readError | badWhence
  deriving DecidableEq, Repr, Inhabited

/-- calls that by contract skip the bounds check: SeekDontCheck combined with SeekAbsolute / SeekCurrent, and an
absolute seek to the offset the connection already has -/
def unchecked (cur off whence : Int) (dontCheck : Bool) : Bool :=
  (dontCheck && (whence == 1 || whence == 3)) || (whence == 1 && off == cur)

/-- what Seek must do, given the partition's (first, last) as the broker reports them (`none` = the lookup failed) -/
def seekSpec (cur off whence : Int) (dontCheck : Bool) (offs : Option (Int × Int)) : SeekResult :=
  if !(whence == 0 || whence == 1 || whence == 2 || whence == 3) then .badWhence
  else if unchecked cur off whence dontCheck then .ok (seekTarget cur off whence 0 0)
  else match offs with
    | none => .readError
    | some (f, l) =>
      let n := seekTarget cur off whence f l
      if f ≤ n ∧ n ≤ l then .ok n else .outOfRange

structure ClusterPart where
  leader : Int
  first : Int
  last : Int
  times : List (Int × Int)   -- (timestamp, offset), ascending
  listErr : Int
  deriving Repr, Inhabited

/-- (error, timestamp, offset) the partition leader answers for a requested timestamp -/
def listOffsetAnswer (p : ClusterPart) (ts : Int) : Int × Int × Int :=
  if p.listErr != 0 then (p.listErr, -1, -1)
  else if ts == -2 then (0, -1, p.first)
  else if ts == -1 then (0, -1, p.last)
  else match p.times.find? (fun e => e.1 ≥ ts) with
    | some (t, o) => (0, t, o)
    | none => (0, -1, -1)

/-- first version that has the response field on the wire — transcribed from the Kafka protocol guide (OffsetFetch
v0–5, ListOffsets v1–5, OffsetCommit v0–7); the fake broker's hand-written encoders follow the same table -/
def wireSince : List (String × Int) := [
  ("offsetfetch.Response.ThrottleTimeMs", 3),
  ("offsetfetch.Response.Topics", 0),
  ("offsetfetch.Response.ErrorCode", 2),
  ("offsetfetch.ResponsePartition.CommittedOffset", 0),
  ("offsetfetch.ResponsePartition.ComittedLeaderEpoch", 5),
  ("offsetfetch.ResponsePartition.Metadata", 0),
  ("offsetfetch.ResponsePartition.ErrorCode", 0),
  ("listoffsets.Response.ThrottleTimeMs", 2),
  ("listoffsets.ResponsePartition.ErrorCode", 1),
  ("listoffsets.ResponsePartition.Timestamp", 1),
  ("listoffsets.ResponsePartition.Offset", 1),
  ("listoffsets.ResponsePartition.LeaderEpoch", 4),
  ("offsetcommit.Response.ThrottleTimeMs", 3),
  ("offsetcommit.ResponsePartition.ErrorCode", 0)
]

/-- is the group-level failure of an OffsetFetch visible at the top level of the answer at this version? -/
def offsetFetchTopLevelError (since : List (String × Int)) (apiVersion : Int) : Bool :=
  match since.lookup "offsetfetch.Response.ErrorCode" with
  | some v => decide (v ≤ apiVersion)
  | none => false

end KV.Spec.Offsets
