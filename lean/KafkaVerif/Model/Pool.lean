/-
Model/Pool.lean — the pool protocol of the codec wrappers (compress/*/*.go) as an LTS (core Lean only).

  objects      ↔ the recycled *xerialWriter / *xerialReader / *gzip.Writer / *lz4.Reader / *zstd.Decoder …
  pool         ↔ `sync.Pool` contents (the runtime may drop entries: `drop`)
  handles      ↔ the wrapper values returned by `NewReader`/`NewWriter` (`&writer{xerialWriter: x}` …): each
                 wraps an object until it is closed
  `acquire sel` ↔ `NewWriter`/`NewReader`: `pool.Get()` returned object `sel` (one occurrence is removed; or nothing → a new object), then Reset
  `close h`     ↔ `(*writer).Close`: `if x := w.xerialWriter; x != nil { w.xerialWriter = nil; Flush; Reset(nil); Put(x) }`
                 — idempotent because the wrapper forgets the object
                 The event is atomic w.r.t. the object because Reset precedes Put and Put is the LAST statement
                 that touches the object (extracted per codec on every run: Gen/CodecClose.lean, `gen_close_order`).
  `touch h`     ↔ any use of the object through a live wrapper (Read / Write / Reset)
  `closeKeep h` ↔ Close WITHOUT `w.xerialWriter = nil` (seeded defect C16-m2): used only for a counterexample
  `putKeep h`, `touchDangling x` ↔ Close that Puts first and Resets afterwards through a local variable (seeded
                 defect C16-m4): after `putKeep` the closer still holds a dangling reference; used only for a counterexample
-/
namespace KV.Model.Pool

structure PState where
  pool : List Nat
  handles : List (Option Nat)
  fresh : Nat
  dangling : List Nat := []
  deriving DecidableEq, Repr

inductive PEv where
  | acquire (sel : Option Nat)
  | close (h : Nat)
  | closeKeep (h : Nat)
  | drop (x : Nat)
  | touch (h : Nat)
  | putKeep (h : Nat)
  | touchDangling (x : Nat)
  deriving DecidableEq, Repr

def init : PState := ⟨[], [], 0, []⟩

def step (s : PState) : PEv → Option PState
  | .acquire none => some { s with handles := s.handles ++ [some s.fresh], fresh := s.fresh + 1 }
  | .acquire (some x) =>
    if x ∈ s.pool then some { s with pool := s.pool.erase x, handles := s.handles ++ [some x] } else none
  | .close h =>
    match s.handles[h]? with
    | none => none
    | some none => some s                       -- second Close: nothing happens
    | some (some x) => some { s with handles := s.handles.set h none, pool := x :: s.pool }
  | .closeKeep h =>
    match s.handles[h]? with
    | none => none
    | some none => some s
    | some (some x) => some { s with pool := x :: s.pool }
  | .drop x =>
    if x ∈ s.pool then some { s with pool := s.pool.erase x } else none
  | .touch h =>
    match s.handles[h]? with
    | some (some _) => some s
    | _ => none
  | .putKeep h =>
    match s.handles[h]? with
    | some (some x) => some { s with handles := s.handles.set h none, pool := x :: s.pool, dangling := x :: s.dangling }
    | _ => none
  | .touchDangling x => if x ∈ s.dangling then some s else none

def run (s : PState) : List PEv → Option PState
  | [] => some s
  | e :: es => match step s e with
    | none => none
    | some s' => run s' es

/-- objects wrapped by live (unclosed) handles -/
def live (s : PState) : List Nat := s.handles.filterMap id

/-- events of the code as it is (no `closeKeep`, no Put-before-Reset) -/
def faithfulEv : PEv → Bool
  | .closeKeep _ => false
  | .putKeep _ => false
  | .touchDangling _ => false
  | _ => true

def faithful (es : List PEv) : Bool := es.all faithfulEv

/-- number of places where object `x` currently is: pool entries + live handles wrapping it -/
def occ (s : PState) (x : Nat) : Nat := s.pool.count x + (live s).count x

/-- an object is in the pool at most once, never in the pool while in use, never wrapped by two live handles -/
def Inv (s : PState) : Prop := ∀ x, occ s x ≤ 1 ∧ (0 < occ s x → x < s.fresh)

end KV.Model.Pool

/-!
## Pools and configuration

A pooled object may keep options it was constructed with (`gzip.NewWriterLevel(w, level)`,
`zstd.WithEncoderLevel`): `baked`.  `acquire key cfg reuse reapply`: a wrapper for configuration `cfg` takes an object
from the pool named `key` (or constructs one, baking `cfg`); `reapply` = the options are assigned again after Get
(snappy: `x.framed`, `x.encode`).  `close h` puts the object back into the pool it was taken from.
The code is faithful to a POLICY when for every acquire `key = cfg ∨ reapply` — the pool key includes every option a
pooled object keeps — which is the regenerated fact `gen_pool_keys` (pool owned by the Codec value, or options re-applied).
-/
namespace KV.Model.CfgPool

structure Obj where
  id : Nat
  baked : Nat
  deriving DecidableEq, Repr

structure Handle where
  key : Nat
  cfg : Nat
  obj : Obj
  deriving DecidableEq, Repr

structure St where
  pool : List (Nat × Obj)
  handles : List Handle
  fresh : Nat
  deriving DecidableEq, Repr

inductive Ev where
  | acquire (key cfg : Nat) (reuse reapply : Bool)
  | close (h : Nat)
  deriving DecidableEq, Repr

def init : St := ⟨[], [], 0⟩

def takeKey (key : Nat) : List (Nat × Obj) → Option (Obj × List (Nat × Obj))
  | [] => none
  | (k, o) :: rest =>
    if k = key then some (o, rest)
    else match takeKey key rest with
      | some (o', rest') => some (o', (k, o) :: rest')
      | none => none

def step (s : St) : Ev → Option St
  | .acquire key cfg reuse reapply =>
    let fromPool := if reuse then takeKey key s.pool else none
    match fromPool with
    | some (o, rest) =>
      let o' := if reapply then { o with baked := cfg } else o
      some { s with pool := rest, handles := s.handles ++ [⟨key, cfg, o'⟩] }
    | none => some { s with handles := s.handles ++ [⟨key, cfg, ⟨s.fresh, cfg⟩⟩], fresh := s.fresh + 1 }
  | .close h =>
    match s.handles[h]? with
    | none => none
    | some hd => some { s with handles := s.handles.eraseIdx h, pool := (hd.key, hd.obj) :: s.pool }

def run (s : St) : List Ev → Option St
  | [] => some s
  | e :: es => match step s e with
    | none => none
    | some s' => run s' es

/-- the policy of a pool: either every user re-applies its options after Get (`reapplies key`), or the pool belongs
to one configuration (`cfg = key`) -/
def policyEv (reapplies : Nat → Bool) : Ev → Bool
  | .acquire key cfg _ reapply => (reapply == reapplies key) && (reapplies key || key == cfg)
  | .close _ => true

def policy (reapplies : Nat → Bool) (es : List Ev) : Bool := es.all (policyEv reapplies)

/-- every wrapper works with an object configured as requested; objects that are not re-configured at Get sit in
the pool of their own configuration -/
def Inv (reapplies : Nat → Bool) (s : St) : Prop :=
  (∀ hd ∈ s.handles, hd.obj.baked = hd.cfg ∧ (reapplies hd.key = false → hd.cfg = hd.key)) ∧
  (∀ e ∈ s.pool, reapplies e.1 = false → e.2.baked = e.1)

end KV.Model.CfgPool

/-!
## Wrappers around library objects (gzip, lz4, zstd)

compress/{gzip,lz4,zstd} only pool and `Reset` objects of third-party libraries.  `Lib` abstracts such an object:
its state, `fresh cfg`, `reset` and `run` (one whole stream: all Write/Read calls up to Close/EOF, the result may be
an error).  `ResetContract` is what the wrappers rely on — documented by the libraries, not verified here: a reset
object behaves like a fresh one of its configuration, whatever it processed before, also after a failed stream.
-/
namespace KV.Model.LibWrapper

structure Lib (σ ι ω : Type) where
  fresh : Nat → σ
  reset : σ → σ
  run : σ → ι → ω × σ

structure ResetContract {σ ι ω : Type} (L : Lib σ ι ω) (cfgOf : σ → Nat) : Prop where
  cfg_fresh : ∀ c, cfgOf (L.fresh c) = c
  cfg_reset : ∀ s, cfgOf (L.reset s) = cfgOf s
  cfg_run : ∀ s i, cfgOf (L.run s i).2 = cfgOf s
  reset_fresh : ∀ s i, (L.run (L.reset s) i).1 = (L.run (L.fresh (cfgOf s)) i).1

/-- one use of a pooled object by a wrapper: `NewWriter/NewReader` (Reset), the stream, `Close` (Reset), Put -/
def useOnce {σ ι ω : Type} (L : Lib σ ι ω) (s : σ) (i : ι) : σ := L.reset (L.run (L.reset s) i).2

/-- the object after a history of streams -/
def after {σ ι ω : Type} (L : Lib σ ι ω) (s : σ) (history : List ι) : σ := history.foldl (useOnce L) s

end KV.Model.LibWrapper
