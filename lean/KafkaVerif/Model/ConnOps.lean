/-
Model/ConnOps.lean — the response side of every kafka.Conn operation (conn.go, read.go, batch.go, protocol.go and the
`readFrom` methods of the root package), core Lean only.

A response parser is a *program* (`List Step`) run by `runSteps` over the reader of Base/Reader.lean.  The programs of
the `readFrom` methods and of the structs read through `read()`/reflection are REGENERATED from /repo by
go/extract/connlegacy.go into Gen/ConnLegacy.lean; the closures written inline in conn.go (`readOffset`,
`writeCompressedMessages`) and the fetch headers of read.go are transcribed by hand below, step by step.

  Go                                                        Lean
  --------------------------------------------------------  ------------------------------------------
  readInt8/16/32/64, readBool (read.go)                     Step.int n
  readInt16 into an `ErrorCode`-like field                  Step.err
  readString / readBytes                                    Step.str / Step.bytes
  discardString / discardBytes / discardN / discardInt32    Step.discStr / .discBytes / .disc n
  readArrayWith(cb) / readSlice / readStringArray           Step.arr body
  `if t.v >= vN { … }`                                      Step.ifGe N body
  `if p.ErrorCode != 0 { return size, Error(code) }`        Step.failIfErr
  `readInt32(&n); if n != 1 { err = fmt.Errorf(…) }`        Step.expect1
  fetch: HighwaterMarkOffset / MessageSetSize / aborted txs Step.hwm / .setSizeRead / .setSizeCheck / .abortedTxs
  conn.go (*Conn).do + expectZeroSize + error-after rules   opRead / OpSpec
  conn.go waitResponse, doRequest, Close                    connDo / Conn
  ReadBatchWith + Batch.readMessage + Batch.close           fetchRead / connFetch
-/
import KafkaVerif.Base.Reader

namespace KV.ConnOps
open KV KV.Reader

inductive Step where
  | int (n : Nat)
  | err
  | str
  | bytes
  | discStr
  | discBytes
  | disc (n : Nat)
  | arr (body : List Step)
  | arrB (elem : Nat) (body : List Step)   -- count checked first: `if n < 0 || n > size/elem { error }` (ApiVersions)
  | ifGe (v : Nat) (body : List Step)
  | failIfErr
  | expect1
  | hwm
  | setSizeRead
  | setSizeCheck
  | abortedTxs
  deriving Repr

/-- what a parser remembers of the values it read (enough for the error-after-parse rules of conn.go) -/
inductive Ev where
  | int (v : Int)
  | err (c : Int)
  | str (b : Bytes)
  deriving Repr, DecidableEq

structure Ctx where
  ver : Nat
  evs : List Ev := []        -- newest first
  lastErr : Int := 0
  hwm : Int := 0
  setSize : Int := 0
  deriving Repr

abbrev P := Ctx → RS → Except Err Ctx × RS

/-- lift a reader into a program step -/
def lift {α : Type} (m : R α) (f : Ctx → α → Ctx) : P := fun c s =>
  match m s with
  | (.ok a, s') => (.ok (f c a), s')
  | (.error e, s') => (.error e, s')

/-- `for n := int(len); n > 0; n-- { if sz, err = cb(r, sz); err != nil { break } }` -/
def iter : Nat → P → P
  | 0, _, c, s => (.ok c, s)
  | n + 1, f, c, s =>
    match f c s with
    | (.ok c', s') => iter n f c' s'
    | (.error e, s') => (.error e, s')

mutual
def runStep : Step → P
  | .int n => lift (readInt n) (fun c v => { c with evs := .int v :: c.evs })
  | .err => lift (readInt 2) (fun c v => { c with evs := .err v :: c.evs, lastErr := v })
  | .str => lift readString (fun c b => { c with evs := .str b :: c.evs })
  | .bytes => lift readBytes (fun c b => { c with evs := .int b.length :: c.evs })   -- remembers only the length
  | .discStr => lift (discardLen 2) (fun c _ => c)
  | .discBytes => lift (discardLen 4) (fun c _ => c)
  | .disc n => lift (discardN n) (fun c _ => c)
  | .arr body => fun c s =>
    match readInt 4 s with
    | (.error e, s') => (.error e, s')
    | (.ok n, s') => iter n.toNat (runSteps body) c s'
  | .arrB elem body => fun c s =>
    match readInt 4 s with
    | (.error e, s') => (.error e, s')
    | (.ok n, s') =>
      if n < 0 ∨ n > (s'.sz / elem : Nat) then (.error (.other "invalid element count"), s')
      else iter n.toNat (runSteps body) c s'
  | .ifGe v body => fun c s => if c.ver ≥ v then runSteps body c s else (.ok c, s)
  | .failIfErr => fun c s => if c.lastErr ≠ 0 then (.error (.kafka c.lastErr), s) else (.ok c, s)
  | .expect1 => fun c s =>
    match readInt 4 s with
    | (.error e, s') => (.error e, s')
    | (.ok n, s') => if n ≠ 1 then (.error (.other "1 topic/partition was expected"), s') else (.ok c, s')
  | .hwm => lift (readInt 8) (fun c v => { c with hwm := v })
  | .setSizeRead => lift (readInt 4) (fun c v => { c with setSize := v })
  | .setSizeCheck => fun c s =>
    if (s.sz : Int) ≠ c.setSize then (.error (.other "message set size mismatch"), s) else (.ok c, s)
  | .abortedTxs => fun c s =>
    -- readArrayLen; -1 → nil; a count < -1 or > remain/16 is rejected; else n × read(struct{int64;int64})
    match readInt 4 s with
    | (.error e, s') => (.error e, s')
    | (.ok n, s') =>
      if n = -1 then (.ok c, s')
      else if n < 0 then (.error .shortRead, s')   -- rejected with a wrapped errShortRead since the count is bounded (was: makeslice panic)
      else iter n.toNat (fun c s => match readInt 8 s with
                                    | (.error e, s') => (.error e, s')
                                    | (.ok _, s') => lift (readInt 8) (fun c _ => c) c s') c s'
def runSteps : List Step → P
  | [] => fun c s => (.ok c, s)
  | st :: rest => fun c s =>
    match runStep st c s with
    | (.ok c', s') => runSteps rest c' s'
    | (.error e, s') => (.error e, s')
end

-- does the program contain an early exit on a broker error code?
mutual
def Step.hasFail : Step → Bool
  | .failIfErr => true
  | .arr body => hasFailList body
  | .arrB _ body => hasFailList body
  | .ifGe _ body => hasFailList body
  | _ => false
def hasFailList : List Step → Bool
  | [] => false
  | s :: r => s.hasFail || hasFailList r
end

-- structural equality of parser programs (to compare the transcriptions below with what the translator regenerates)
mutual
def Step.eqv : Step → Step → Bool
  | .int a, .int b => a == b
  | .err, .err => true
  | .str, .str => true
  | .bytes, .bytes => true
  | .discStr, .discStr => true
  | .discBytes, .discBytes => true
  | .disc a, .disc b => a == b
  | .arr a, .arr b => stepsEq a b
  | .arrB e a, .arrB f b => e == f && stepsEq a b
  | .ifGe v a, .ifGe w b => v == w && stepsEq a b
  | .failIfErr, .failIfErr => true
  | .expect1, .expect1 => true
  | .hwm, .hwm => true
  | .setSizeRead, .setSizeRead => true
  | .setSizeCheck, .setSizeCheck => true
  | .abortedTxs, .abortedTxs => true
  | _, _ => false
def stepsEq : List Step → List Step → Bool
  | [], [] => true
  | a :: as, b :: bs => a.eqv b && stepsEq as bs
  | _, _ => false
end

/-! ### closures written inline in conn.go / read.go (transcription; `Props/C11.closures_regenerated` checks them against
the programs the translator regenerates from read.go / conn.go on every run) -/

/-- listoffset.go `partitionOffsetV1.readFrom` is generated; this is the closure of conn.go `readOffset`. -/
def readOffsetClosure (partitionOffsetV1 : List Step) : List Step :=
  [ .arr [ .discStr,                                   -- skip the topic name
           .arr (partitionOffsetV1 ++ [ .failIfErr ]) ] ]

/-- conn.go `writeCompressedMessages`, the read closure (`p` = produceResponsePartitionV2 resp. V7 `readFrom`). -/
def produceClosure (p : List Step) : List Step :=
  [ .arr [ .discStr,
           .arr (p ++ [ .failIfErr ]),
           .disc 4 ] ]                                 -- throttle time, inside the per-topic callback as in the code

/-- read.go readFetchResponseHeaderV2 -/
def fetchHeaderV2 : List Step :=
  [ .int 4, .expect1, .discStr, .expect1,
    .int 4, .err, .hwm, .setSizeRead,                  -- read(&p): Partition, ErrorCode, HighwaterMarkOffset, MessageSetSize
    .failIfErr, .setSizeCheck ]

/-- read.go readFetchResponseHeaderV5 -/
def fetchHeaderV5 : List Step :=
  [ .int 4, .expect1, .discStr, .expect1,
    .int 4, .err, .hwm, .int 8, .int 8,                -- read(&p)
    .abortedTxs, .failIfErr, .setSizeRead, .setSizeCheck ]

/-- read.go readFetchResponseHeaderV10 -/
def fetchHeaderV10 : List Step :=
  [ .int 4, .err, .failIfErr, .disc 4, .expect1, .discStr, .expect1,
    .int 4, .err, .hwm, .int 8, .int 8,
    .abortedTxs, .failIfErr, .setSizeRead, .setSizeCheck ]

def fetchHeader (v : Nat) : List Step :=
  if v ≥ 10 then fetchHeaderV10 else if v ≥ 5 then fetchHeaderV5 else fetchHeaderV2

/-- conn.go ApiVersions (v0): error code, int32 count (rejected if negative or larger than size/6), n × (int16 int16 int16) -/
def apiVersionsParse : List Step := [ .err, .arrB 6 [ .int 2, .int 2, .int 2 ] ]

/-! ### one request/response exchange: (*Conn).do and friends -/

inductive Post where
  | none
  | firstErr (skip : List Int)   -- first non-zero error code (not in `skip`) → Error(code)     [after the whole parse]
  | topicErr                     -- metadata: first topic whose error ≠ 0 and whose name is the conn's topic
  deriving Repr

/-- errors recorded by the parser, oldest first -/
def Ctx.errs (c : Ctx) : List Int := c.evs.reverse.filterMap (fun e => match e with | .err k => some k | _ => none)

/-- metadata: `(.err k, .str name)` adjacent in reading order = a topic entry (partition entries have an int after
their error code) -/
def topicErrs : List Ev → List (Int × Bytes)
  | .err k :: .str n :: rest => (k, n) :: topicErrs rest
  | _ :: rest => topicErrs rest
  | [] => []

def Post.eval (p : Post) (topic : Bytes) (c : Ctx) : Option Int :=
  match p with
  | .none => Option.none
  | .firstErr skip => c.errs.find? (fun k => k ≠ 0 && !skip.contains k)
  | .topicErr => ((topicErrs c.evs.reverse).find? (fun kn => kn.1 ≠ 0 && (topic.isEmpty || kn.2 == topic))).map (·.1)

structure OpSpec where
  parse : Nat → List Step
  drain : Bool         -- conn.go discardOnKafkaError wraps the parse (the D2 fix)
  expectZero : Bool    -- protocol.go expectZeroSize
  post : Post
  closeOnErr : Bool    -- (*Conn).do closes the connection on non-kafka errors (ApiVersions does not go through do)

inductive Outcome where
  | ok
  | kafka (c : Int)
  | fail (e : Err)
  deriving Repr, DecidableEq

def Outcome.isFail : Outcome → Bool
  | .fail _ => true
  | _ => false

/-- the `read` closure of one operation, run on the frame body (`s.sz` = size announced by the frame − 4) -/
def opRead (o : OpSpec) (v : Nat) (topic : Bytes) (s : RS) : Outcome × RS :=
  match runSteps (o.parse v) { ver := v } s with
  | (.error (.kafka k), s1) =>
    if o.drain && s1.sz > 0 then
      match discardN s1.sz s1 with
      | (.ok _, s2) => (.kafka k, s2)
      | (.error e, s2) => (.fail e, s2)
    else (.kafka k, s1)
  | (.error e, s1) => (.fail e, s1)
  | (.ok c, s1) =>
    if o.expectZero && s1.sz ≠ 0 then (.fail (.other "reading a response left unread bytes"), s1)
    else match o.post.eval topic c with
      | some k => (.kafka k, s1)
      | Option.none => (.ok, s1)

/-- the client side of one connection: what the broker will still send, the next correlation id, closed or not -/
structure Conn where
  stream : Bytes
  nextId : Int
  closed : Bool
  deriving Repr, DecidableEq

/-- conn.go waitResponse: Peek(8) → size, correlation id -/
def waitResponse (c : Conn) : Except Err (Nat × Bytes) :=
  if c.stream.length < 8 then .error .eof
  else
    let size := beInt (c.stream.take 4)
    let rid := beInt ((c.stream.drop 4).take 4)
    if rid ≠ c.nextId then .error (.other "io.ErrNoProgress")
    else .ok ((size - 4).toNat, c.stream.drop 8)

/-- (*Conn).do = doRequest; waitResponse; read; close on non-kafka errors -/
def connDo (o : OpSpec) (v : Nat) (topic : Bytes) (c : Conn) : Outcome × Conn :=
  if c.closed then (.fail (.other "use of closed connection"), c)
  else
    match waitResponse c with
    | .error e => (.fail e, { c with nextId := c.nextId + 1, closed := true })
      -- waitResponse closes the Conn on peek errors and — since the fix for C11-D30 — also when a lone waiter finds a
      -- foreign correlation id (io.ErrNoProgress): the stream is desynchronised for good
    | .ok (sz, rest) =>
      let (out, s') := opRead o v topic ⟨rest, sz⟩
      (out, { stream := s'.inp, nextId := c.nextId + 1, closed := out.isFail && o.closeOnErr })

/-! ### the un-framed exchange of saslAuthenticate after a v0 handshake

    readInt32(&c.rbuf, 4, &respLen); respLen < 0 → error; readNewBytes(&c.rbuf, int(respLen), int(respLen))

No size prefix of a frame, no correlation id; errors do not close the Conn (the dial that runs the exchange does). -/
def rawToken (inp : Bytes) : Outcome × Bytes :=
  match readInt 4 ⟨inp, 4⟩ with
  | (.error e, s) => (.fail e, s.inp)
  | (.ok n, s) =>
    if n < 0 then (.fail (.other "invalid negative length of sasl authentication response"), s.inp)
    else match readNewBytes n ⟨s.inp, n.toNat⟩ with
      | (.ok _, s') => (.ok, s'.inp)
      | (.error e, s') => (.fail e, s'.inp)

/-! ### the read lock (c.rlock)

waitResponse takes the lock; it is released on the peek-error and ErrNoProgress exits, when yielding to another waiter,
by (*Conn).do / ApiVersions after the body was read, and by Batch.close (ReadBatchWith hands it to the Batch).  WHICH of
these exits release it is a regenerated fact (`Gen.ConnLegacy.lockFacts`, go/extract/connlegacy: syntactic check of every
exit path); a leaked lock makes every later waiter block forever in `rlock.Lock()` (deadlines do not apply). -/
structure LockFacts where
  peekErr : Bool
  noProgress : Bool
  yield : Bool
  take : Bool          -- the matching-id exit keeps the lock and hands it to the caller
  desyncCloses : Bool  -- the lone-waiter / foreign-id exit (io.ErrNoProgress) closes the Conn (fix for C11-D30)
  leave : Bool         -- every exit of waitResponse passes through c.leave(): the in-flight count is given back;
                       -- otherwise a later foreign-id response is not recognised as a lone-waiter desync
                       -- (io.ErrNoProgress) and the waiter spins on the yield path forever
  doBody : Bool        -- (*Conn).do unlocks after the read closure, on every path
  apiVersions : Bool
  batchHandover : Bool -- ReadBatchWith puts the lock into the Batch it returns
  batchClose : Bool    -- (*Batch).close unlocks on every path
  dropsBuffer : Bool := true  -- closing after a response that could not be read drops what is left of it in the read
                       -- buffer (conn.go abortRead, /repo 248476c); not a lock fact and not part of `all`: without it a
                       -- caller already in flight is served the leftover as if it were the next response
  deriving Repr, DecidableEq

def LockFacts.all (f : LockFacts) : Bool :=
  f.peekErr && f.noProgress && f.desyncCloses && f.yield && f.take && f.leave && f.doBody && f.apiVersions && f.batchHandover && f.batchClose

inductive ExitPath where
  | notSent | peekErr | noProgress | body
  deriving Repr, DecidableEq

/-- which exit of the exchange is taken from state c (`inflight`: the request was already written when the Conn was
closed by another caller's failure, so the closed socket shows up as a peek error, not as a write error) -/
def exitPath (inflight : Bool) (c : Conn) : ExitPath :=
  if c.closed then (if inflight then .peekErr else .notSent)
  else match waitResponse c with
    | .error .eof => .peekErr
    | .error _ => .noProgress
    | .ok _ => .body

def blocked : Outcome := .fail (.other "blocked forever in rlock.Lock()")

/-- is the lock free again after the exchange? -/
def released (lf : LockFacts) (viaDo : Bool) : ExitPath → Bool
  | .notSent => true
  | .peekErr => lf.peekErr
  | .noProgress => lf.noProgress && lf.leave
  | .body => lf.take && (if viaDo then lf.doBody else lf.apiVersions)

/-- one exchange on a Conn with its read lock: `cl.2` = the Conn is wedged (the lock is held by nobody who will ever
release it, or the in-flight count leaked and a foreign response is waiting): a sent request never returns -/
def connDoL (lf : LockFacts) (inflight : Bool) (o : OpSpec) (v : Nat) (topic : Bytes) (cl : Conn × Bool) : Outcome × (Conn × Bool) :=
  -- a caller already in flight when the Conn was closed finds the network connection closed — unless the closing path
  -- left the rest of the broken response in the read buffer: then Peek serves it those bytes
  let served := inflight && cl.1.closed && !lf.dropsBuffer
  let c0 : Conn := if served then { cl.1 with closed := false } else cl.1
  if cl.2 && exitPath inflight c0 ≠ .notSent then (blocked, cl)
  else
    let r := if inflight && c0.closed then (Outcome.fail .eof, { c0 with nextId := c0.nextId + 1 }) else connDo o v topic c0
    -- code without the C11-D30 fix keeps the Conn open after io.ErrNoProgress
    let r := if exitPath inflight c0 = .noProgress && !lf.desyncCloses then (r.1, { r.2 with closed := false }) else r
    let r := if served then (r.1, { r.2 with closed := true }) else r
    (r.1, (r.2, cl.2 || !released lf o.closeOnErr (exitPath inflight c0)))

/-! ### fetch: ReadBatchWith, Batch.readMessage until an error, Batch.Close -/

/-- the message-set reader (message_reader.go) is abstract here: `first` = the `readHeader` call of
`newMessageSetReader`, `rest` = "ReadMessage until it returns an error".  Only conservation is assumed. -/
structure Body where
  first : RS → Except Err Unit × RS
  rest : RS → Err × RS

def Body.Conserves (b : Body) : Prop := (∀ s, Adv s (b.first s).2) ∧ (∀ s, Adv s (b.rest s).2)

/-- conn.go discardOnKafkaError -/
def drainKafka (fixed : Bool) (k : Int) (s1 : RS) : Outcome × RS :=
  if fixed && s1.sz > 0 then
    match discardN s1.sz s1 with
    | (.ok _, s2) => (.kafka k, s2)
    | (.error e, s2) => (.fail e, s2)
  else (.kafka k, s1)

/-- ReadBatchWith + reading the batch to its end + Close; `fixed` = with discardOnKafkaError (D2 fix), with the
skip of the message set at the high watermark (C11-D32) and with Batch.close minding the error of its final discard
(C02-D33).
Deadlines never expire in the model (checkTimeoutErr = io.EOF). -/
def fetchRead (fixed : Bool) (v : Nat) (offset : Int) (b : Body) (s : RS) : Outcome × RS :=
  match runSteps (fetchHeader v) { ver := v } s with
  | (.error (.kafka k), s1) => drainKafka fixed k s1
  | (.error .shortRead, s1) => (.fail .unexpectedEOF, s1)      -- checkTimeoutErr → io.EOF → dontExpectEOF
  | (.error e, s1) => (.fail e, s1)
  | (.ok c, s1) =>
    if c.hwm = offset then drainKafka fixed 7 s1                -- messageSetReader{empty: true}: RequestTimedOut; the set the
                                                                -- response nevertheless carries is skipped (fix C11-D32)
    else
      match b.first s1 with
      | (.error .shortRead, s2) => (.fail .unexpectedEOF, s2)   -- same mapping: an empty set below the watermark closes the Conn
      | (.error e, s2) => (.fail e, s2)
      | (.ok _, s2) =>
        match b.rest s2 with
        | (.shortRead, s3) =>                                   -- end of the set / truncated last message: msgs.discard()
          (match discardN s3.sz s3 with
           | (.ok _, s4) => (.ok, s4)                           -- remaining() == 0 → io.EOF: batch complete, Close() = nil
           | (.error e, s4) => (.fail (if e = .eof then .unexpectedEOF else e), s4))
        | (.kafka k, s3) =>                                     -- a kafka error out of ReadMessage: Close discards, Conn kept —
          (match discardN s3.sz s3 with                         -- unless the rest cannot be skipped (fix C02-D33; before it
           | (.ok _, s4) => (.kafka k, s4)                      -- Batch.close ignored the error of msgs.discard())
           | (.error e, s4) => if fixed then (.fail (if e = .eof then .unexpectedEOF else e), s4) else (.kafka k, s4))
        | (e, s3) => (.fail e, s3)

def connFetch (fixed : Bool) (v : Nat) (offset : Int) (b : Body) (c : Conn) : Outcome × Conn :=
  if c.closed then (.fail (.other "use of closed connection"), c)
  else
    match waitResponse c with
    | .error e => (.fail e, { c with nextId := c.nextId + 1, closed := true })
    | .ok (sz, rest) =>
      let (out, s') := fetchRead fixed v offset b ⟨rest, sz⟩
      (out, { stream := s'.inp, nextId := c.nextId + 1, closed := out.isFail })

def connFetchL (lf : LockFacts) (fixed : Bool) (v : Nat) (offset : Int) (b : Body) (cl : Conn × Bool) : Outcome × (Conn × Bool) :=
  if cl.2 && exitPath false cl.1 ≠ .notSent then (blocked, cl)
  else
    let r := connFetch fixed v offset b cl.1
    let r := if exitPath false cl.1 = .noProgress && !lf.desyncCloses then (r.1, { r.2 with closed := false }) else r
    let rel := match exitPath false cl.1 with
      | .body => lf.take && lf.batchHandover && lf.batchClose
      | p => released lf true p
    (r.1, (r.2, cl.2 || !rel))

/-- the reader the oracle uses for the message set: consumes the whole set when it is there (→ errShortRead at its
end), fails with io.ErrUnexpectedEOF when the stream ends first. -/
def idealBody : Body where
  first := fun s => if s.sz = 0 then (.error .shortRead, s) else (.ok (), s)
  rest := fun s =>
    if s.inp.length < s.sz then (.unexpectedEOF, ⟨[], s.sz - s.inp.length⟩)
    else (.shortRead, ⟨s.inp.drop s.sz, 0⟩)

/-- message_reader.go readHeader, as far as its SIZE goes: offset (8), length (4), crc / leader epoch (4), magic (1),
then what the format adds before the first message can be looked at — v0: attributes (1); v1: attributes, timestamp
(9); v2: the rest of the batch header (44).  A set that does not hold that much makes `newMessageSetReader` fail with
errShortRead (io.ErrUnexpectedEOF for the caller, Conn closed). -/
def headerNeed (magic : UInt8) : Nat :=
  if magic = 0 then 18 else if magic = 1 then 26 else if magic = 2 then 61 else 17

/-- `idealBody` with the header-size rule: the reader that reads a set to its end, and refuses a set too short for
one message/batch header (what the driver's oracle runs) -/
def headerBody : Body where
  first := fun s =>
    if s.sz < 17 then (.error .shortRead, s)
    else if s.inp.getD 16 0 > 2 then (.error (.other "unsupported message version"), s)   -- header.badMagic()
    else if s.sz < headerNeed (s.inp.getD 16 0) then (.error .shortRead, s)
    else (.ok (), s)
  rest := idealBody.rest

end KV.ConnOps
