/-
Model/BufVarInt.lean — read.go `readVarInt` as its loop is written, over a `bufio.Reader` that is refilled by reads of
the connection (core Lean only).

`Model/ByteReader.lean` knows a reader as *the bytes it can still deliver*; how the network cuts them into reads is
invisible there, and `BR.readVarInt` is the arithmetic meaning of the loop.  That is an abstraction of the one function
of read.go whose control flow depends on where the buffered bytes end:

    input, _ := r.Peek(r.Buffered())
    x, s := uint64(0), uint(0)
    for {
        if len(input) > sz { input = input[:sz] }
        for i, b := range input {
            if b < 0x80 { x |= uint64(b) << s; *v = unzigzag x; n, err := r.Discard(i + 1); return sz - n, err }
            x |= uint64(b&0x7f) << s; s += 7
        }
        n, _ := r.Discard(len(input)); sz -= n
        if sz == 0 { return 0, errShortRead }
        if _, err := r.Peek(1); err != nil { if EOF { err = errShortRead }; return sz, err }
        input, _ = r.Peek(r.Buffered())
    }

(the fixed-width readers go through `Peek(n)`, which bufio itself completes across refills).  Here the reader is

  * `buf`    — what the bufio.Reader holds;
  * `chunks` — what the following reads of the connection return, one element per read, then EOF

and `varLoop` is the loop: `scan` is the inner `for … range input`; `Discard(len(input))` empties the buffer unless
`input` was cut to `sz` — then `sz` becomes 0 and the loop returns — so `Peek(1)` always refills: it takes the next
chunk (a read of 0 bytes is retried by bufio: an empty chunk is skipped).  The accumulation is done in ℕ, as in
`BR.readVarInt` (equal for encodings of 64-bit values).

`Lemmas/BufVarInt.lean` proves `readVarIntBuf_eq`: for *every* way of cutting the stream into buffered bytes and reads,
the value, the error, the bytes consumed and the `remain` handed back are those of `BR.readVarInt` on the concatenation —
in particular `remain` always drops by exactly the number of bytes taken from the stream (seeded/C06-m7: a refill in
the middle of a varint forgot the bytes consumed before it).
-/
import KafkaVerif.Model.ByteReader

namespace KV.C02.BV
open KV KV.RW KV.Spec.RB KV.C02.BR

/-- a bufio.Reader on a connection -/
structure BufRd where
  buf : Bytes
  chunks : List Bytes
  deriving Repr, DecidableEq

/-- the bytes it can still deliver -/
def BufRd.stream (b : BufRd) : Bytes := b.buf ++ b.chunks.flatten

/-- outcome of the inner `for i, b := range input` -/
inductive Scan
  /-- a byte below 0x80 at index `k − 1`: the value of `x` after it, `k` bytes to discard -/
  | done (x : Nat) (k : Nat)
  /-- `input` exhausted: accumulator and shift -/
  | more (x s : Nat)
  deriving Repr, DecidableEq

def scan (x s k : Nat) : Bytes → Scan
  | [] => .more x s
  | b :: rest =>
    if b.toNat < 128 then .done (x + b.toNat * 2 ^ s) (k + 1)
    else scan (x + (b.toNat - 128) * 2 ^ s) (s + 7) (k + 1) rest

/-- value / error, the reader, the `remain` handed back -/
abbrev Res := Except (RErr × BufRd × Nat) (Int × BufRd × Nat)

/-- one round of the outer `for`, entered with `input` = everything buffered: the result, or — after
`Discard(len(input))` has emptied the buffer and `sz -= n` left it above 0 — accumulator, shift and `sz` for the round
after the refill -/
def round (x s sz : Nat) (buf : Bytes) (chunks : List Bytes) : Res ⊕ (Nat × Nat × Nat) :=
  if sz ≤ buf.length then
    -- `input = input[:sz]` (or all of it): a second round is impossible
    match scan x s 0 (buf.take sz) with
    | .done v k => .inl (.ok (unzigzag v, ⟨buf.drop k, chunks⟩, sz - k))
    | .more _ _ => .inl (.error (.short, ⟨buf.drop sz, chunks⟩, 0))
  else
    match scan x s 0 buf with
    | .done v k => .inl (.ok (unzigzag v, ⟨buf.drop k, chunks⟩, sz - k))
    | .more x' s' => .inr (x', s', sz - buf.length)

/-- the outer `for`: `Peek(1)` on the emptied buffer reads from the connection — EOF is errShortRead with the `sz`
reached so far, otherwise the next chunk is the new `input` -/
def varLoop (x s sz : Nat) (buf : Bytes) : List Bytes → Res
  | [] =>
    match round x s sz buf [] with
    | .inl r => r
    | .inr (_, _, sz') => .error (.short, ⟨[], []⟩, sz')
  | c :: cs =>
    match round x s sz buf (c :: cs) with
    | .inl r => r
    | .inr (x', s', sz') => varLoop x' s' sz' c cs

/-- read.go readVarInt -/
def readVarIntBuf (sz : Nat) (b : BufRd) : Res := varLoop 0 0 sz b.buf b.chunks

/-- forget how the stream is cut -/
def Res.abs : Res → Except (RErr × Rd) (Int × Rd)
  | .ok (v, b, n) => .ok (v, ⟨b.stream, n⟩)
  | .error (e, b, n) => .error (e, ⟨b.stream, n⟩)

end KV.C02.BV
