/-
Model/Pages.lean — the reference-counted pages of protocol/buffer.go as a labelled transition system
(core Lean only).

  refc p     ↔ `page.refc` (atomic counter)
  pool       ↔ `pagePool` (sync.Pool of *page; the runtime may drop entries: `poolDrop`)
  held       ↔ one entry per count held by a LIVE holder: a `pageBuffer` holds one count on each page of
               `pb.pages` (taken in `newPage`), a `pageRef` one count on each page of `ref.pages`
               (taken in `refTo` → `pages.ref()`)
  ver p      ↔ how many times page p was handed out again by `newPage` (its bytes are then overwritten)

Events are per page; the Go operations are sequences of them:
  `newPage`             = `allocPage` (pool empty) | `reusePage i` (pool.Get returned entry i)
  `pageBuffer.refTo/ref` = `ref p` for every page in the slice (the buffer is live, so p ∈ held)
  `pageRef.unref` (once), `pageBuffer.unref` at count 0, `Truncate` = `unref p` for every page released
-/
namespace KV.Model.Pages

structure PState where
  refc : Nat → Nat
  ver : Nat → Nat
  pool : List Nat
  held : List Nat
  fresh : Nat

inductive PEvent where
  | allocPage
  | reusePage (i : Nat)
  | ref (p : Nat)
  | unref (p : Nat)
  | poolDrop (i : Nat)
  deriving Repr, DecidableEq

def init : PState := ⟨fun _ => 0, fun _ => 0, [], [], 0⟩

def bump (f : Nat → Nat) (p : Nat) (g : Nat → Nat) : Nat → Nat := fun q => if q = p then g (f q) else f q

def step (s : PState) : PEvent → Option PState
  | .allocPage =>
    -- p = &page{refc: 1}
    some { s with refc := bump s.refc s.fresh (fun _ => 1), held := s.fresh :: s.held, fresh := s.fresh + 1 }
  | .reusePage i =>
    -- p := pagePool.Get(); p.length = 0; p.ref()
    match s.pool[i]? with
    | none => none
    | some p =>
      some { s with refc := bump s.refc p (· + 1), ver := bump s.ver p (· + 1), pool := s.pool.erase p, held := p :: s.held }
  | .ref p =>
    -- pages.ref() through a live holder
    if p ∈ s.held then some { s with refc := bump s.refc p (· + 1), held := p :: s.held } else none
  | .unref p =>
    -- p.unref(): decrement, at zero pagePool.Put(p)
    if p ∈ s.held then
      let r := s.refc p - 1
      some { s with refc := bump s.refc p (fun _ => r), held := s.held.erase p,
                    pool := if r = 0 then p :: s.pool else s.pool }
    else none
  | .poolDrop i =>
    match s.pool[i]? with
    | none => none
    | some p => some { s with pool := s.pool.erase p }

def run (s : PState) : List PEvent → Option PState
  | [] => some s
  | e :: es => match step s e with
    | none => none
    | some s' => run s' es

/-- "in pool ⇒ count 0; a live ref holds a count" -/
structure Inv (s : PState) : Prop where
  counts : ∀ p, s.refc p = s.held.count p
  poolFree : ∀ p ∈ s.pool, s.refc p = 0
  poolNodup : s.pool.Nodup
  bound : ∀ p, (p ∈ s.pool ∨ p ∈ s.held) → p < s.fresh

end KV.Model.Pages
