/-
Model/GroupRun.lean — `consumergroup.go` `(*ConsumerGroup).run / nextGeneration / Next / Close / leaveGroup`
as a labelled transition system (core Lean only).  The coordinator's answers, timer ticks and the application's
calls are environment events; every event is one hook point of Appendix A (or one mock-coordinator journal line).

Go ↔ Lean
* the `run` goroutine (`run`, `nextGeneration`, `coordinator`, `joinGroup`, `syncGroup`, `fetchOffsets`,
  `leaveGroup`)                                  ↔ `PC` (program counter) + `St.member/jm/jg`, events `Ev.connectRes … runExit`
* `cg.done` closed                                ↔ `St.closedCG`
* unbuffered `cg.next` / `cg.errs` hand-over      ↔ `St.inbox` (value handed to a waiting `Next`), `St.nextWaiting`
* the current `Generation`                        ↔ `St.cur : Gen` (`St.gens` = number created so far; generation `g` is
  current iff `g + 1 = gens`); older generations only keep the count of late functions (`oldLate`)
* ghost fields: `needBackoff`, `left` (member ids for which a LeaveGroup request was sent), `leaveFail`, `exitWith`

`Cfg.fixD9 = true` is the code after the `fix:` commit for D9 (leave the group when `run` exits from the
error-delivery select because the group was closed); `false` is the original code, kept for the counterexample.
-/
import KafkaVerif.Model.Generation

namespace KV.Group

/-- what `run` does after `leaveGroup` returns -/
inductive After
  | exit               -- `return`
  | deliver (e : Err)  -- default case: clear the member id, deliver `e`, back off
  deriving DecidableEq, Repr

inductive PC
  /-- inside `cg.coordinator()`: stage 0 = connect(brokers), 1 = findCoordinator, 2 = connect(coordinator);
  `lv = none`: called from `nextGeneration` (stage 0 = top of the `run` loop); `some a`: called from `leaveGroup` -/
  | coord (stage : Nat) (lv : Option After)
  | joining | assigning | syncing | fetching | created
  | starting (k : Nat)            -- generation created, `k` internal functions started
  | handing | running             -- the two selects of nextGeneration
  | closing (ret : Option Err)    -- about to call gen.close()
  | waiting (ret : Option Err) (r : Nat)  -- inside gen.close() after its critical section
  | retp (m : String) (e : Option Err)    -- nextGeneration returns (m, e)
  | leaveP (a : After)            -- about to call leaveGroup(member)
  | leaveCall (a : After)         -- LeaveGroup request outstanding
  | delivering (e : Err) (bk : Bool)
  | backoffP (begun : Bool)
  | exiting | exited
  deriving DecidableEq, Repr

inductive Msg | gen (g : Nat) | err (e : Err)
  deriving DecidableEq, Repr

structure Cfg where
  nWatch : Nat     -- number of partition watchers per generation (0 unless WatchPartitionChanges)
  fixD9 : Bool
  deriving Repr

/-- placeholder for "no generation yet": closed, nothing accounted -/
def noGen : Gen := { gid := 0, member := "", closed := true }

structure St where
  pc : PC := .coord 0 none
  member : String := ""
  jm : String := ""
  jg : Int := 0
  closedCG : Bool := false
  gens : Nat := 0
  cur : Gen := noGen
  oldLate : Nat := 0
  inbox : Option Msg := none
  nextWaiting : Nat := 0
  needBackoff : Bool := false
  left : List String := []
  leaveFail : Bool := false
  exitWith : Option (String × Bool) := none
  deriving Repr

inductive Ev
  -- run goroutine
  | connectRes (e : Option Err)
  | findRes (e : Option Err)
  | joinOk (memberIn : String) (m : String) (gid : Int) (leader : Bool)
  | joinErr (memberIn : String) (e : Err)
  | partsRes (e : Option Err)
  | syncRes (memberIn : String) (gidIn : Int) (e : Option Err)
  | fetchRes (e : Option Err)
  | gNew (g : Nat) (gid : Int) (m : String)
  | gStart (g : Nat) (acc : Bool)
  | sawClose (g : Nat) (running : Bool)
  | handed (g : Nat)
  | sawGenDone (g : Nat)
  | gClose (g : Nat) (was : Bool) (r : Nat)
  | gClosed (g : Nat)
  | nextGenRet (m : String) (e : Option Err)
  | leave (m : String)
  | leaveRes (memberIn : String) (ok : Bool)
  | errDeliver (e : Err) (delivered : Bool)
  | backoff (what : Nat)     -- 0 begin, 1 end (timer fired), 2 closed
  | runExit
  -- generation functions
  | hbCall (g : Nat) (gid : Int) (m : String)
  | hbRet (g : Nat) (e : Option Err)
  | hbExit (g : Nat)
  | watchCall (g : Nat) (t : Nat)
  | watchParts (g : Nat) (t : Nat) (n : Nat)
  | watchErr (g : Nat) (t : Nat) (e : Err)
  | watchExit (g : Nat) (t : Nat)
  | fnExit (g : Nat) (closedByMe : Bool) (left : Nat)
  | uRet (g : Nat) (acc : Bool)
  | uCtx (g : Nat)
  -- API calls of the application
  | closeCall | closeRet | nextCall
  | nextRet (r : Msg)
  deriving DecidableEq, Repr

def isCur (s : St) (g : Nat) : Bool := g + 1 == s.gens

/-- apply a generation-function step to the current generation -/
def onCur (s : St) (g : Nat) (f : Gen → Option Gen) : Option St :=
  if isCur s g then (f s.cur).map (fun c => { s with cur := c }) else none

/-- `run` after `leaveGroup` returned -/
def afterLeave (s : St) : After → St
  | .exit => { s with pc := .exiting, exitWith := some (s.member, true) }
  | .deliver e => { s with pc := .delivering e true, member := "" }

/-- `cg.coordinator()` failed with `e` -/
def coordFail (s : St) (lv : Option After) (e : Err) : St :=
  match lv with
  | none => { s with pc := .retp s.member (some e) }
  | some a => afterLeave { s with leaveFail := true } a

def guard (b : Bool) (s : St) : Option St := if b then some s else none

/-! generation-function steps (`Gen → Option Gen`) -/

def gUserStart (acc : Bool) (g : Gen) : Option Gen :=
  let (g', a) := g.start
  if a == acc then some (if a then { g' with users := g'.users + 1 } else { g' with late := g'.late + 1 }) else none

def gHbStart (acc : Bool) (g : Gen) : Option Gen :=
  let (g', a) := g.start
  if a == acc && a then some { g' with hb := some .idle } else none

def gWatchStart (acc : Bool) (g : Gen) : Option Gen :=
  let (g', a) := g.start
  if a == acc then some { g' with watchers := g'.watchers ++ [(.init, a)] } else none

def gHbCall (gid : Int) (m : String) (g : Gen) : Option Gen :=
  if g.hb == some .idle && gid == g.gid && m == g.member then some { g with hb := some .calling } else none

def gHbRet (e : Option Err) (g : Gen) : Option Gen :=
  if g.hb == some .calling then some { g with hb := some (if e.isNone then .idle else .failed) } else none

def gHbExit (g : Gen) : Option Gen :=
  if g.hb == some .failed || (g.hb == some .idle && g.closed) then
    some { g.bodyReturned true with hb := some .done }
  else none

def setW (g : Gen) (t : Nat) (w : WProc) : Gen :=
  { g with watchers := g.watchers.set t (w, (g.watchers.getD t (w, true)).2) }

def gWatchCall (t : Nat) (g : Gen) : Option Gen :=
  match g.watchers[t]? with
  | some (.init, _) => some (setW g t .calling0)
  | some (.idle n, _) => some (setW g t (.calling n))
  | _ => none

/-- `readPartitions` answered with `n` partitions, or with an error the watcher treats as an answer -/
def gWatchParts (t : Nat) (n : Nat) (g : Gen) : Option Gen :=
  match g.watchers[t]? with
  | some (.calling0, _) => some (setW g t (.idle n))
  | some (.calling n0, _) => some (setW g t (if n == n0 then .idle n0 else .failed))
  | _ => none

def gWatchErr (t : Nat) (e : Err) (g : Gen) : Option Gen :=
  match g.watchers[t]? with
  | some (.calling0, _) => some (setW g t .failed)
  | some (.calling n0, _) =>
    if e == .unknownTopic then some (setW g t (if n0 == 0 then .idle 0 else .failed))   -- len(nil) ≠ oParts
    else if e.isKafka then some (setW g t (.idle n0))                                    -- `continue`
    else some (setW g t .failed)
  | _ => none

def gWatchExit (t : Nat) (g : Gen) : Option Gen :=
  match g.watchers[t]? with
  | some (.failed, a) => some (setW (g.bodyReturned a) t .done)
  | some (.idle _, a) => if g.closed then some (setW (g.bodyReturned a) t .done) else none
  | _ => none

def gFnExit (cbm : Bool) (left : Nat) (g : Gen) : Option Gen :=
  if cbm == !g.closed && left + 1 == g.routines then g.fnExit else none

def gURet (acc : Bool) (g : Gen) : Option Gen :=
  if acc then (if g.users > 0 then some { g.bodyReturned true with users := g.users - 1 } else none)
  else (if g.late > 0 then some { g with late := g.late - 1 } else none)

def gUCtx (g : Gen) : Option Gen := if g.closed then some g else none

/-- `nextGeneration` is returning `(m, e)` now -/
def returnsNow (s : St) (m : String) (e : Option Err) : Bool :=
  s.pc == .retp m e || ((s.pc == .assigning || s.pc == .fetching) && m == s.jm && e == some .net)

def step (c : Cfg) (s : St) : Ev → Option St
  | .connectRes e =>
    match s.pc with
    | .coord 0 lv => (match e with
        | none => some { s with pc := .coord 1 lv }
        | some er => some (coordFail s lv er))
    | .coord 2 lv => (match e with
        | none => some { s with pc := (match lv with | none => .joining | some a => .leaveCall a) }
        | some er => some (coordFail s lv er))
    | _ => none
  | .findRes e =>
    match s.pc with
    | .coord 1 lv => (match e with
        | none => some { s with pc := .coord 2 lv }
        | some er => some (coordFail s lv er))
    | _ => none
  | .joinOk mi m gid leader =>
    if s.pc == .joining && mi == s.member then
      some { s with jm := m, jg := gid, pc := if leader then .assigning else .syncing }
    else none
  | .joinErr mi e =>
    if s.pc == .joining && mi == s.member then some { s with pc := .retp "" (some e) } else none
  | .partsRes e =>
    if s.pc == .assigning then
      match e with
      | none => some { s with pc := .syncing }
      | some .unknownTopic => some { s with pc := .syncing }
      | some er => some { s with pc := .retp s.jm (some er) }
    else none
  | .syncRes mi gi e =>
    if s.pc == .syncing && mi == s.jm && gi == s.jg then
      match e with
      | none => some { s with pc := .fetching }
      | some er => some { s with pc := .retp s.jm (some er) }
    else none
  | .fetchRes e =>
    if s.pc == .fetching then
      match e with
      | none => some { s with pc := .created }
      | some er => some { s with pc := .retp s.jm (some er) }
    else none
  | .gNew g gid m =>
    if s.pc == .created && g == s.gens && gid == s.jg && m == s.jm then
      some { s with pc := .starting 0, gens := s.gens + 1, oldLate := s.oldLate + s.cur.late,
                    cur := { gid := gid, member := m } }
    else none
  | .gStart g acc =>
    if isCur s g then
      match s.pc with
      | .starting k =>
        (if k == 0 then gHbStart acc s.cur else gWatchStart acc s.cur).map fun cg =>
          { s with cur := cg, pc := if k + 1 == 1 + c.nWatch then .handing else .starting (k + 1) }
      | _ => (gUserStart acc s.cur).map fun cg => { s with cur := cg }
    else if g + 1 < s.gens && !acc then some { s with oldLate := s.oldLate + 1 }
    else none
  | .sawClose g running =>
    if isCur s g && s.closedCG && s.pc == (if running then .running else .handing) then
      some { s with pc := .closing (some .closed) }
    else none
  | .handed g =>
    if isCur s g && s.pc == .handing && s.inbox.isNone && s.nextWaiting > 0 then
      some { s with pc := .running, inbox := some (.gen g), nextWaiting := s.nextWaiting - 1 }
    else none
  | .sawGenDone g =>
    if isCur s g && s.pc == .running && s.cur.closed then some { s with pc := .closing none } else none
  | .gClose g was r =>
    match s.pc with
    | .closing ret =>
      if isCur s g && was == s.cur.closed && r == s.cur.routines then
        some { s with cur := s.cur.closeBegin.1, pc := .waiting ret r }
      else none
    | _ => none
  | .gClosed g =>
    match s.pc with
    | .waiting ret r =>
      if isCur s g && s.cur.closeCanReturn r then some { s with pc := .retp s.jm ret } else none
    | _ => none
  | .nextGenRet m e =>
    -- besides the returns prepared by a coordinator answer (`retp`): the leader's assignment step can fail locally
    -- (selected balancer unknown, member metadata undecodable: `assigning`), and so can decoding the SyncGroup
    -- assignment (`fetching`, before the OffsetFetch is sent); both return (jm, a non-kafka error)
    if returnsNow s m e then
      match e with
      | none => some { s with member := m, pc := .coord 0 none }
      | some .closed => some { s with member := m, pc := .leaveP .exit }
      | some .rebalance => some { s with member := m, pc := .delivering .rebalance false }
      | some er => some { s with member := m, pc := .leaveP (.deliver er), needBackoff := true }
    else none
  | .leave m =>
    match s.pc with
    | .leaveP a =>
      if m == s.member then
        (if m == "" then some (afterLeave { s with leaveFail := false } a)
         else some { s with pc := .coord 0 (some a), leaveFail := false })
      else none
    | _ => none
  | .leaveRes mi _ =>
    match s.pc with
    | .leaveCall a => if mi == s.member then some (afterLeave { s with left := mi :: s.left } a) else none
    | _ => none
  | .errDeliver e delivered =>
    match s.pc with
    | .delivering e' bk =>
      if e == e' then
        if delivered then
          (if s.inbox.isNone && s.nextWaiting > 0 then
            some { s with inbox := some (.err e), nextWaiting := s.nextWaiting - 1,
                          pc := if bk then .backoffP false else .coord 0 none }
           else none)
        else if s.closedCG then
          (if c.fixD9 then some { s with pc := .leaveP .exit }
           else some { s with pc := .exiting, exitWith := some (s.member, false) })
        else none
      else none
    | _ => none
  | .backoff what =>
    match s.pc with
    | .backoffP false => if what == 0 then some { s with pc := .backoffP true } else none
    | .backoffP true =>
      if what == 1 then some { s with pc := .coord 0 none, needBackoff := false }
      else if what == 2 && s.closedCG then some { s with pc := .exiting, exitWith := some (s.member, false) }
      else none
    | _ => none
  | .runExit => if s.pc == .exiting then some { s with pc := .exited } else none
  | .hbCall g gid m => onCur s g (gHbCall gid m)
  | .hbRet g e => onCur s g (gHbRet e)
  | .hbExit g => onCur s g gHbExit
  | .watchCall g t => onCur s g (gWatchCall t)
  | .watchParts g t n => onCur s g (gWatchParts t n)
  | .watchErr g t e => onCur s g (gWatchErr t e)
  | .watchExit g t => onCur s g (gWatchExit t)
  | .fnExit g cbm left => onCur s g (gFnExit cbm left)
  | .uRet g acc =>
    if isCur s g then onCur s g (gURet acc)
    else if g + 1 < s.gens && !acc && s.oldLate > 0 then some { s with oldLate := s.oldLate - 1 }
    else none
  | .uCtx g => if isCur s g then onCur s g gUCtx else if g + 1 < s.gens then some s else none
  | .closeCall => some { s with closedCG := true }
  | .closeRet => if s.pc == .exited && s.closedCG then some s else none
  | .nextCall => some { s with nextWaiting := s.nextWaiting + 1 }
  | .nextRet r =>
    match r with
    | .err .closed => if s.closedCG && s.nextWaiting > 0 then some { s with nextWaiting := s.nextWaiting - 1 } else none
    | _ => if s.inbox == some r then some { s with inbox := none } else none

/-- run a whole trace; `none` when some event is not accepted -/
def run (c : Cfg) : St → List Ev → Option St
  | s, [] => some s
  | s, e :: es => match step c s e with
    | some s' => run c s' es
    | none => none

/-- index of the first rejected event and the state before it -/
def firstReject (c : Cfg) : St → List Ev → Nat → Option (Nat × St)
  | _, [], _ => none
  | s, e :: es, i => match step c s e with
    | some s' => firstReject c s' es (i + 1)
    | none => some (i, s)

/-- states reachable from the initial state -/
inductive Reachable (c : Cfg) : St → Prop
  | init : Reachable c {}
  | step {s s' : St} (e : Ev) : Reachable c s → step c s e = some s' → Reachable c s'

theorem reachable_of_run (c : Cfg) (s s' : St) (es : List Ev) (hs : Reachable c s) (h : run c s es = some s') :
    Reachable c s' := by
  induction es generalizing s with
  | nil => simp [run] at h; exact h ▸ hs
  | cons e es ih =>
    simp only [run] at h
    split at h
    · rename_i s1 h1; exact ih s1 (.step e hs h1) h
    · cases h

/-- what `coordinator()` dials after a successful FindCoordinator: host and port of the answer, joined the way
`net.JoinHostPort` does (a host with a colon — an IPv6 literal — goes in brackets) -/
def coordinatorAddress (host : String) (port : Int) : String :=
  if host.contains ':' then "[" ++ host ++ "]:" ++ toString port else host ++ ":" ++ toString port

/-- The documented defaults of `ConsumerGroupConfig` (field comments "Default: …"; durations in milliseconds): what
"the configured interval / back-off" means when the program configures nothing. -/
def documentedGroupDefaults : List (String × String) :=
  [("GroupBalancers", "RangeGroupBalancer,RoundRobinGroupBalancer"), ("HeartbeatInterval", "3000"),
   ("PartitionWatchInterval", "5000"), ("SessionTimeout", "30000"), ("RebalanceTimeout", "30000"),
   ("JoinGroupBackoff", "5000"), ("RetentionTime", "-1"), ("StartOffset", "FirstOffset"), ("Timeout", "5000")]

/-- the `defaults` observation of the driver, as the documentation wants it: the config `Validate` leaves behind, and what
a Reader that sets only Brokers/GroupID/Topic puts into JoinGroup / OffsetCommit and where it starts -/
def expectedDefaultsObservation : String :=
  "validate=true hb=3000 session=30000 rebalance=30000 backoff=5000 watchiv=5000 retention=-1 start=-2 timeout=5000 " ++
  "balancers=range,roundrobin watch=false r.protocols=range,roundrobin r.session=30000 r.rebalance=30000 " ++
  "r.retention=-1 r.start=t/0@-2 r.watchpolled=no"

end KV.Group
