/-
Model/ReaderClose.lean — Reader.Close / ConsumerGroup.Close as a coarse LTS over counters (core Lean only).

Go ↔ model
* `(*Reader).Close`: `closeBegin` (call) · `closeMark` (r.closed := true under r.mutex, r.cancel(), r.stop() — for a
  ConsumerGroup: close(cg.done)) · `closeMsgs` (after `r.join.Wait()` and `<-r.done`: close(r.msgs)) · `closeReturn`
* fetcher goroutines `(*reader).run` (accounted in `r.join`) ↔ `fetchers`; `fetcherStart` needs `¬closed`
  (`FetchMessage`/`subscribe` only start readers when `!r.closed`); `dial`/`connClose`/`fetchReq` are what the fake
  broker sees
* `(*Reader).run(cg)` + `(*ConsumerGroup).run` ↔ `loop` (1 = running); it holds `member` (the member id kept
  across generations); `genStart`/`genEnd` ↔ a `Generation`'s goroutines (heartbeat loop, commit loop);
  `leave m` ↔ `leaveGroup(memberID)`; `loopExit` ↔ return from `run` (every return path of `run` goes through
  `leaveGroup` while a member id is held — after the D9 repair, commit 51b798f — hence the guard `member = none`)
* `joinErr` ↔ `joinGroup` failing: `nextGeneration` then returns "" and the member id is forgotten without a
  LeaveGroup (the residue of D9: "left_group_on_close modulo D9")
* API calls: `callBegin`/`callRet`; `FetchMessage` on a reader already marked closed returns io.EOF (after the
  repair in this property's fix: commit, see docs/notes/C09.md) — guard `born` (invoked after the mark).
`conns` counts the fetchers' connections, `lconns` the coordinator connections of the group loop; a LeaveGroup that is
rejected or fails is the event `leave m` followed by `coordErr` (the member id is dropped either way: `_ = cg.leaveGroup`).
-/
namespace KV.ReaderClose

inductive Kind | fetch | read | commit | next | roundTrip   -- roundTrip: Transport.RoundTrip (async.await on a promise)
deriving Repr, DecidableEq, Hashable

inductive Res | msg | eof | ctx | closedPipe | groupClosed | gen | ok | err
deriving Repr, DecidableEq, Hashable

structure Call where
  id : Nat
  kind : Kind
  cancelled : Bool
  born : Bool        -- invoked after the closed mark
deriving Repr, DecidableEq, Hashable

structure State where
  group : Bool
  closed : Bool
  close : Nat           -- 0 not called, 1 called, 2 marked, 3 returned
  fetchers : Nat
  conns : Nat           -- open connections of the fetchers
  lconns : Nat          -- open coordinator connections of the group loop (`coordinator()`, `leaveGroup`)
  loop : Nat            -- 1 while the group loop goroutine runs
  member : Option Nat
  gen : Bool
  leaveFail : Bool      -- the coordinator lookup (connect / FindCoordinator) failed since the last successful join
  msgsClosed : Bool
  calls : List Call
deriving Repr, DecidableEq, Hashable

def State.init (group : Bool) : State := ⟨group, false, 0, 0, 0, 0, if group then 1 else 0, none, false, false, false, []⟩

inductive Event
  | callBegin (c : Nat) (k : Kind) | ctxCancel (c : Nat) | callRet (c : Nat) (r : Res)
  | closeBegin | closeMark | closeMsgs | closeReturn
  | fetcherStart | fetcherExit | dial | connClose | coordClose | fetchReq
  | coordOpen | join (m : Option Nat) | joinOk (m : Nat) | joinErr | coordErr | lookupFail | sync | offsetFetch
  | genStart | heartbeat (m : Nat) | commit | genEnd | leave (m : Nat) | loopExit
deriving Repr, DecidableEq

/-- requests that reach a broker or the coordinator, and new connections -/
def Event.sends : Event → Bool
  | .fetchReq | .heartbeat _ | .commit | .join _ | .sync | .offsetFetch | .leave _ | .dial | .coordOpen => true
  | _ => false

def retOk (s : State) (x : Call) (r : Res) : Bool :=
  match r with
  | .ctx => x.cancelled
  | .eof => (x.kind = .fetch || x.kind = .read) && s.closed
  | .msg => (x.kind = .fetch || x.kind = .read) && !x.born
  | .err => !x.born || x.kind = .commit || x.kind = .next || x.kind = .roundTrip
  | .closedPipe => x.kind = .commit && s.closed
  | .groupClosed => x.kind = .next && s.closed
  | .gen => x.kind = .next && !x.born
  | .ok => x.kind = .commit || x.kind = .roundTrip

def step (s : State) : Event → Option State
  | .callBegin c k =>
    if !s.calls.any (·.id = c) then some { s with calls := s.calls ++ [⟨c, k, false, s.closed⟩] } else none
  | .ctxCancel c =>
    if s.calls.any (·.id = c) then
      some { s with calls := s.calls.map fun x => if x.id = c then { x with cancelled := true } else x }
    else none
  | .callRet c r =>
    if s.calls.any (fun x => x.id = c && retOk s x r) then some { s with calls := s.calls.filter (·.id ≠ c) } else none
  | .closeBegin => if s.close = 0 then some { s with close := 1 } else none
  | .closeMark => if s.close = 1 then some { s with close := 2, closed := true } else none
  | .closeMsgs =>
    if s.close = 2 && s.fetchers = 0 && s.loop = 0 && !s.msgsClosed then some { s with msgsClosed := true } else none
  | .closeReturn =>
    if s.close = 2 && s.msgsClosed && s.conns = 0 && s.lconns = 0 then some { s with close := 3 } else none
  | .fetcherStart => if !s.closed && (!s.group || s.gen) then some { s with fetchers := s.fetchers + 1 } else none
  | .fetcherExit => if 0 < s.fetchers then some { s with fetchers := s.fetchers - 1 } else none
  | .dial => if 0 < s.fetchers then some { s with conns := s.conns + 1 } else none
  | .connClose => if 0 < s.conns then some { s with conns := s.conns - 1 } else none
  | .coordClose => if 0 < s.lconns then some { s with lconns := s.lconns - 1 } else none
  | .fetchReq => if 0 < s.fetchers && 0 < s.conns then some s else none
  | .coordOpen => if s.loop = 1 then some { s with lconns := s.lconns + 1 } else none
  | .join m => if s.loop = 1 && !s.gen && 0 < s.lconns && (m = none || m = s.member) then some s else none
  | .joinOk m => if s.loop = 1 && !s.gen then some { s with member := some m, leaveFail := false } else none
  | .joinErr => if s.loop = 1 && !s.gen then some { s with member := none } else none
  | .coordErr => if s.loop = 1 then some s else none
  | .lookupFail => if s.loop = 1 then some { s with leaveFail := true } else none
  | .sync => if s.loop = 1 && s.member.isSome && !s.gen then some s else none
  | .offsetFetch => if s.loop = 1 && s.member.isSome && !s.gen then some s else none
  | .genStart => if s.loop = 1 && s.member.isSome && !s.gen then some { s with gen := true } else none
  | .heartbeat m => if s.gen && s.member = some m then some s else none
  | .commit => if s.gen then some s else none
  | .genEnd => if s.gen then some { s with gen := false } else none
  | .leave m => if s.loop = 1 && !s.gen && s.member = some m && 0 < s.lconns then some { s with member := none } else none
  | .loopExit =>
    -- `run` returns only after `leaveGroup` returned, and `coordinator()` / `nextGeneration` / `leaveGroup` close the
    -- connections they opened on every path (answered, rejected, failed): no coordinator connection is left
    -- … and `leaveGroup` was called for the member id held, unless the coordinator could not be looked up
    if s.loop = 1 && s.closed && !s.gen && (s.member = none || s.leaveFail) && s.lconns = 0 then some { s with loop := 0 } else none

def run : State → List Event → Option State
  | s, [] => some s
  | s, e :: es => match step s e with
    | some s' => run s' es
    | none => none

def Reachable (group : Bool) (s : State) : Prop := ∃ es, run (State.init group) es = some s

/-- unobserved events (for the oracle's τ-closure) -/
def taus : List Event := [.closeMark, .closeMsgs, .fetcherStart, .fetcherExit, .genStart, .genEnd, .loopExit]

end KV.ReaderClose
