import KafkaVerif.Spec.GroupAssign
/-
Model/GroupGlue.lean — the leader glue of a consumer-group rebalance as pure functions (core Lean only).

Go ↔ Lean (consumergroup.go, joingroup.go, syncgroup.go, read.go)
  GroupMemberAssignments (map id → map topic → []int)   ↔ `Assignments` = association lists in *iteration order*
                                                           (a Go map: keys distinct; the order is whatever `range` yields)
  makeJoinGroupRequest / groupMetadata.bytes / makeMemberProtocolMetadata
                                                         ↔ `memberOfMetadata` ∘ `metadataOfConfig` (topics list and
                                                           UserData pass through unchanged, listing order kept)
  makeSyncGroupRequestV0                                 ↔ `syncRequest ρ A`: for every member in range order a FRESH
                                                           `topics32` map is filled (`toTopics32`) and encoded
  groupAssignment.writeTo (`for topic, partitions := range t.Topics`)
                                                         ↔ `encodeAssignment ρ` — `ρ` is the iteration order of the
                                                           `topics32` map (any function returning a permutation)
  coordinator                                            ↔ hands member `id` the bytes listed under `id`
  syncGroup / groupAssignment.readFrom / readMapStringInt32 (`content[key] = values`)
                                                         ↔ `decodeAssignment`
  what member `id` receives                              ↔ `received ρ A id`

The wire is modelled as the *sequence of (topic, int32 array) entries* in the order written; the primitive byte
codecs (int16/int32/string/array framing) are those of C04's legacy codec model and are exercised here by the
correspondence on the real code, not re-proved.
-/
namespace KV.GroupGlue
open KV.Spec.GroupAssign (Asg)

/-- a Go `map[string][]int` / `map[string][]int32` in some iteration order -/
abbrev TopicMap := List (Nat × List Int)
/-- `GroupMemberAssignments` in some iteration order -/
abbrev Assignments := List (Nat × TopicMap)
/-- the entries of an encoded `groupAssignment` in wire order -/
abbrev Wire := List (Nat × List Int)

/-- `int32(x)` -/
def toInt32 (x : Int) : Int := (x + 2147483648) % 4294967296 - 2147483648

/-- `m[k]` -/
def mapGet (k : Nat) (m : TopicMap) : Option (List Int) := (m.find? (fun e => e.1 == k)).map (·.2)

/-- `m[k] = v` -/
def mapInsert (k : Nat) (v : List Int) : TopicMap → TopicMap
  | [] => [(k, v)]
  | (k', v') :: r => if k' = k then (k, v) :: r else (k', v') :: mapInsert k v r

/-- `topics32 := make(map…); for topic, partitions := range topics { topics32[topic] = int32s(partitions) }` -/
def toTopics32 (topics : TopicMap) : TopicMap :=
  (topics.map (fun e => (e.1, e.2.map toInt32))).foldl (fun acc e => mapInsert e.1 e.2 acc) []

/-- `groupAssignment{Version: 1, Topics: topics32}.bytes()`: the entries in the map's iteration order `ρ` -/
def encodeAssignment (ρ : TopicMap → TopicMap) (m : TopicMap) : Wire := ρ m

/-- `readMapStringInt32`: `content[key] = values` for every entry in wire order -/
def decodeAssignment (w : Wire) : TopicMap := w.foldl (fun acc e => mapInsert e.1 e.2 acc) []

/-- `makeSyncGroupRequestV0(…).GroupAssignments`, in the range order of `memberAssignments` -/
def syncRequest (ρ : TopicMap → TopicMap) (A : Assignments) : List (Nat × Wire) :=
  A.map (fun e => (e.1, encodeAssignment ρ (toTopics32 e.2)))

/-- what `syncGroup` returns to member `id`: the coordinator answers with the bytes listed under `id`
(empty bytes if none: `readFrom` with size 0 gives the empty map) -/
def received (ρ : TopicMap → TopicMap) (A : Assignments) (id : Nat) : TopicMap :=
  match (syncRequest ρ A).find? (fun e => e.1 == id) with
  | some e => decodeAssignment e.2
  | none => []

/-- a member's JoinGroup metadata: `groupMetadata{Version: 1, Topics: config.Topics, UserData: balancer.UserData()}` -/
structure Metadata where
  topics : List Nat
  userData : Nat
deriving DecidableEq, Repr

def metadataOfConfig (topics : List Nat) (rack : Nat) : Metadata := ⟨topics, rack⟩

/-- `makeMemberProtocolMetadata`: `GroupMember{ID: item.MemberID, Topics: metadata.Topics, UserData: metadata.UserData}`
for every response member, in response order -/
def membersOfJoin (ms : List (Nat × Metadata)) : List (Nat × List Nat × Nat) :=
  ms.map (fun e => (e.1, e.2.topics, e.2.userData))

/-- partition ids fit the wire's int32 -/
def InInt32 (x : Int) : Prop := -2147483648 ≤ x ∧ x < 2147483648


/-- the map `AssignGroups` returns, restricted to the non-empty lists (the only ones that survive canonicalisation):
members `ids`, topics `ts`, each in some iteration order -/
def mapOf (a : Asg) (ids ts : List Nat) : Assignments :=
  ids.map fun id => (id, ts.filterMap fun t => if (a t id).isEmpty then none else some (t, a t id))

/-- what the members receive, as an assignment function -/
def delivered (ρ : TopicMap → TopicMap) (a : Asg) (ids ts : List Nat) : Asg :=
  fun t id => (mapGet t (received ρ (mapOf a ids ts) id)).getD []


/-- `makeAssignments(assignments, offsets)` (partition ids only): for every topic of the member's OWN configuration, in
listing order, `topicAssignments[topic] = make(…)` and then one entry per received partition of that topic — a topic
that was received but is not configured never reaches `Generation.Assignments` -/
def makeAssignments (topics : List Nat) (recv : TopicMap) : TopicMap :=
  topics.foldl (fun acc t => mapInsert t ((mapGet t recv).getD []) acc) []

/-- `Generation.Assignments` of a member configured with `topics`, as an assignment function -/
def generationView (ρ : TopicMap → TopicMap) (A : Assignments) (id : Nat) (topics : List Nat) (t : Nat) : List Int :=
  (mapGet t (makeAssignments topics (received ρ A id))).getD []

/-! ### which partitions the leader's balancer is given -/

def insertNat (x : Nat) : List Nat → List Nat
  | [] => [x]
  | y :: ys => if x ≤ y then x :: y :: ys else y :: insertNat x ys

/-- `sort.Strings` (on the topic keys) -/
def sortNat : List Nat → List Nat
  | [] => []
  | x :: xs => insertNat x (sortNat xs)

/-- `extractTopics(members)` (reader.go): every topic some member lists, first occurrences in listing order
(`visited`), then sorted -/
def extractTopics (ms : List KV.GroupBalancer.Member) : List Nat :=
  sortNat (KV.GroupBalancer.firstListings [] (ms.flatMap (·.topics)))

/-- what `conn.readPartitions(topics...)` may return when the cluster's partition listing is `cluster`: for every
requested topic exactly the cluster's partitions of that topic, in the cluster's order (anything about other topics) -/
def ReadsTopics (cluster : List KV.GroupBalancer.Part) (topics : List Nat) (got : List KV.GroupBalancer.Part) : Prop :=
  ∀ t ∈ topics, KV.Spec.GroupAssign.partsOf t got = KV.Spec.GroupAssign.partsOf t cluster ∧
    ∀ z, KV.Spec.GroupAssign.ledIn got t z = KV.Spec.GroupAssign.ledIn cluster t z

/-- the mock / a broker answering from one metadata snapshot: the requested topics' partitions -/
def readPartitions (cluster : List KV.GroupBalancer.Part) (topics : List Nat) : List KV.GroupBalancer.Part :=
  cluster.filter (fun p => topics.contains p.topic)

/-! ### a subscribed topic that does not exist (yet)

`assignTopicPartitions` treats `UnknownTopicOrPartition` from `conn.readPartitions` as "no assignments for the topic" and
goes on with the partitions it was given; any other error fails the join (no assignment is distributed).  What it is
given is decided by conn.go `readTopicMetadatav1/v6` on the coordinator connection, which has no topic of its own. -/

/-- the Metadata answer for the requested topics, in request order: `none` = the topic carries UnknownTopicOrPartition -/
def metadataAnswer (cluster : List KV.GroupBalancer.Part) (missing : List Nat) (topics : List Nat) :
    List (Nat × Option (List KV.GroupBalancer.Part)) :=
  topics.map fun t => (t, if missing.contains t then none else some (cluster.filter (fun p => p.topic == t)))

/-- conn.go `readTopicMetadatav1/v6` with `c.topic == ""` (after fix C14-D31): an unknown topic among several is
reported (`true`) together with the partitions of the others; asked for alone it ends the call with nothing -/
def readTopicMetadata (ans : List (Nat × Option (List KV.GroupBalancer.Part))) : List KV.GroupBalancer.Part × Bool :=
  go ans.length ans [] false
where
  go (n : Nat) : List (Nat × Option (List KV.GroupBalancer.Part)) → List KV.GroupBalancer.Part → Bool →
      List KV.GroupBalancer.Part × Bool
    | [], acc, err => (acc, err)
    | (_, none) :: rest, acc, _ => if n > 1 then go n rest acc true else ([], true)
    | (_, some ps) :: rest, acc, err => go n rest (acc ++ ps) err

/-- the same before the fix: the first unknown topic ends the call with no partitions at all -/
def readTopicMetadataPreFix : List (Nat × Option (List KV.GroupBalancer.Part)) → List KV.GroupBalancer.Part → List KV.GroupBalancer.Part × Bool
  | [], acc => (acc, false)
  | (_, none) :: _, _ => ([], true)
  | (_, some ps) :: rest, acc => readTopicMetadataPreFix rest (acc ++ ps)

/-- what the leader's balancer is given when the topics `missing` do not exist -/
def leaderPartitions (cluster : List KV.GroupBalancer.Part) (missing : List Nat) (ms : List KV.GroupBalancer.Member) :
    List KV.GroupBalancer.Part :=
  (readTopicMetadata (metadataAnswer cluster missing (extractTopics ms))).1

end KV.GroupGlue
