/-
Model/ByteReader.lean — the byte level of the legacy decoder (core Lean only):

  read.go     peekRead, readInt8/16/32/64, readVarInt, readNewBytes        ↔ `peekRead`, `readInt`, `readVarInt`, `readNewBytes`
  discard.go  discardN                                                     ↔ `discardN`
  message_reader.go  the `r.remain` wrappers (readInt8 … readVarInt, runFunc, readNewBytes/readNewString),
              readMessageHeader, and the part of readMessageV2 that parses one record
              (`remainBefore := r.remain` … `r.lengthRemain -= int(length) + lengthOfLength`)   ↔ `readRecordV2`

A reader is the bytes its bufio.Reader can still deliver and `remain`, the bytes of the current message set not yet
consumed.  Every function returns the value and the new reader, or an error with the reader as the call left it:
`short` = errShortRead, `io` = an error of the underlying reader (the connection ended below the announced size).
`readVarInt` is read.go's loop with its arithmetic done in ℕ (the Go code accumulates in a uint64: equal for the
encodings of 64-bit values, which is all `Spec/RecordBatch` emits).
-/
import KafkaVerif.Spec.RecordBatch

namespace KV.C02.BR
open KV KV.RW KV.Spec.RB

inductive RErr
  | short
  | io
  deriving DecidableEq, Repr

structure Rd where
  bs : Bytes
  remain : Nat
  deriving DecidableEq, Repr

abbrev M (α : Type) := Rd → Except (RErr × Rd) (α × Rd)

def M.bind {α β : Type} (p : M α) (q : α → M β) : M β := fun r =>
  match p r with
  | .error e => .error e
  | .ok (a, r') => q a r'

def M.pure {α : Type} (a : α) : M α := fun r => .ok (a, r)

instance : Monad M where
  pure := M.pure
  bind := M.bind

/-- discard.go discardN -/
def discardN (n : Nat) : M Unit := fun r =>
  if n ≤ r.remain then
    if n ≤ r.bs.length then .ok ((), ⟨r.bs.drop n, r.remain - n⟩)
    else .error (.io, ⟨[], r.remain - r.bs.length⟩)
  else if r.remain ≤ r.bs.length then .error (.short, ⟨r.bs.drop r.remain, 0⟩)
  else .error (.io, ⟨[], r.remain - r.bs.length⟩)

/-- read.go peekRead + the fixed-width readers: `k` bytes big endian, signed modulo `m` -/
def readInt (k m : Nat) : M Int := fun r =>
  if k > r.remain then .error (.short, r)
  else match readI k m r.bs with
    | none => .error (.io, r)
    | some (v, rest) => .ok (v, ⟨rest, r.remain - k⟩)

def readInt8 : M Int := readInt 1 M8
def readInt16 : M Int := readInt 2 M16
def readInt32 : M Int := readInt 4 M32
def readInt64 : M Int := readInt 8 M64

/-- read.go readVarInt: bytes are consumed while they carry the continuation bit, never more than `remain` of them;
running out of either is errShortRead -/
def readVarInt : M Int := fun r =>
  match readUvarint (r.bs.take r.remain) with
  | some (n, rest) =>
    let used := (r.bs.take r.remain).length - rest.length
    .ok (unzigzag n, ⟨r.bs.drop used, r.remain - used⟩)
  | none => .error (.short, ⟨r.bs.drop r.remain, r.remain - (r.bs.take r.remain).length⟩)

/-- read.go readNewBytes (message_reader.go readNewBytes / readNewString): `n ≤ 0` reads nothing -/
def readNewBytes (n : Int) : M Bytes := fun r =>
  if n ≤ 0 then .ok ([], r)
  else if r.remain < n.toNat then
    -- reads what is left of the set, then errShortRead
    if r.remain ≤ r.bs.length then .error (.short, ⟨r.bs.drop r.remain, 0⟩) else .error (.io, ⟨[], r.remain - r.bs.length⟩)
  else if r.bs.length < n.toNat then .error (.io, ⟨[], r.remain - r.bs.length⟩)
  else .ok (r.bs.take n.toNat, ⟨r.bs.drop n.toNat, r.remain - n.toNat⟩)

/-- batch.go readMessageBytes (the key / value closures of ReadMessage) and message_reader.go readNewBytes (header
values): a negative length is a null field, length 0 an empty one (fix for C02-D30: both used to come back nil) -/
def readMessageBytes (n : Int) : M (Option Bytes) := do
  let b ← readNewBytes n
  pure (if n < 0 then none else some b)

/-- message_reader.go runFunc with batch.go's key / value closures -/
def runFunc : M (Option Bytes) := do
  let length ← readVarInt
  readMessageBytes length

/-- message_reader.go readMessageHeader -/
def readMessageHeader : M (Bytes × Option Bytes) := do
  let keyLen ← readVarInt
  let k ← readNewBytes keyLen
  let valLen ← readVarInt
  let v ← readMessageBytes valLen
  pure (k, v)

def readMessageHeaders : Nat → M (List (Bytes × Option Bytes))
  | 0 => pure []
  | n + 1 => do
    let h ← readMessageHeader
    let hs ← readMessageHeaders n
    pure (h :: hs)

/-- what readMessageV2 takes from one record -/
structure RecView where
  offDelta : Int
  tsDelta : Int
  key : Option Bytes
  value : Option Bytes
  headers : List (Bytes × Option Bytes)
  consumed : Int        -- `int(length) + lengthOfLength`, what `r.lengthRemain` is decreased by
  deriving DecidableEq, Repr

/-- readMessageV2 after `lengthOfLength := remainBefore - r.remain` -/
def recTail (length lengthOfLength : Int) : M RecView := do
  let _attrs ← readInt8
  let timestampDelta ← readVarInt
  let offsetDelta ← readVarInt
  let key ← runFunc
  let val ← runFunc
  let headerCount ← readVarInt
  let headers ← (if headerCount > 0 then readMessageHeaders headerCount.toNat else pure [] : M (List (Bytes × Option Bytes)))
  pure { offDelta := offsetDelta, tsDelta := timestampDelta, key := key, value := val, headers := headers,
         consumed := length + lengthOfLength }

/-- message_reader.go readMessageV2 from `remainBefore := r.remain` to the `lengthRemain` update -/
def readRecordV2 : M RecView := fun r0 =>
  match readVarInt r0 with
  | .error e => .error e
  | .ok (length, r1) => recTail length ((r0.remain : Int) - (r1.remain : Int)) r1

/-! ### v0/v1: key and value of a message (readMessageV1: `readBytesWith(key)`, `readBytesWith(val)`, or
`discardBytes` twice below `min`) -/

/-- read.go readBytesWith with batch.go's key / value closure (readNewBytes): a 4-byte length, −1 = null -/
def readBytes32 : M (Option Bytes) := do
  let n ← readInt32
  (fun r => if n > (r.remain : Int) then .error (.short, r) else readMessageBytes n r : M (Option Bytes))

/-- discard.go discardBytes -/
def discardBytes32 : M Unit := do
  let n ← readInt32
  (fun r => if n > (r.remain : Int) then .error (.short, r)
            else if n < 0 then .ok ((), r) else discardN n.toNat r : M Unit)

/-- readMessageV1, a message at or above `min`: key, value -/
def readBodyV1 : M (Option Bytes × Option Bytes) := do
  let k ← readBytes32
  let v ← readBytes32
  pure (k, v)

/-- readMessageV1, a message below `min`: both discarded -/
def skipBodyV1 : M Unit := do
  discardBytes32
  discardBytes32

/-- readMessageV1, a compressed wrapper message: `discardBytes()` passes over the wrapper's key — null as producers write
it, or any key (C05-D31: the pinned code skipped exactly four bytes there) — then `readBytesWith(decompress)` takes the
value: the 4-byte length, `n > remain` → errShortRead, else exactly `n` bytes are handed to the codec -/
def readWrapV1 : M (Option Bytes) := do
  discardBytes32
  readBytes32

end KV.C02.BR
