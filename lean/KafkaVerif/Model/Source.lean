/-
Model/Source.lean — the underlying io.Reader of a codec reader as a PARAMETER (core Lean only).

A source is the bytes it will eventually deliver plus a script of answers: every `Read(buf)` call takes the
next answer `⟨n, eof⟩` and returns `min n (min len(buf) remaining)` bytes — `n = 0` is a `(0, nil)` answer, small
`n` a short read — and, when that call delivers the last byte and `eof` is set, io.EOF TOGETHER with the data
(iotest.DataErrReader, HTTP bodies).  After the script the source answers with as much as fits and reports EOF
on a later call (bytes.Reader).  Every behaviour io.Reader's contract allows for an error-free stream is some script.

  `readFull`  ↔ io.ReadFull / io.ReadAtLeast(r, buf, len(buf)): loop until the buffer is full or an error; data
               delivered together with EOF counts; 0 bytes + EOF → io.EOF, some bytes + EOF → io.ErrUnexpectedEOF
  `readToEOF` ↔ the unframed loop of compress/snappy/xerial.go readChunk: grow when full, read into the free
               space, EXTEND the input by n BEFORE looking at the error, stop at EOF
  `readToEOFLate` ↔ the same with the extension after the error check (seeded defect C16-m3): counterexample only
-/
import KafkaVerif.Base.Bytes

namespace KV.Model.Source
open KV

structure Ans where
  n : Nat
  eof : Bool
  deriving DecidableEq, Repr

structure Src where
  data : Bytes
  script : List Ans
  deriving DecidableEq, Repr

/-- one `Read(buf)`, `want = len(buf)`: (bytes, io.EOF returned?, source afterwards) -/
def Src.read (s : Src) (want : Nat) : Bytes × Bool × Src :=
  if s.data = [] then ([], true, s)
  else match s.script with
    | [] => (s.data.take want, false, { s with data := s.data.drop want })
    | a :: rest =>
      let k := min a.n want
      (s.data.take k, a.eof && decide (s.data.length ≤ k), ⟨s.data.drop k, rest⟩)

inductive RF where
  | ok | eof | unexpected
  deriving DecidableEq, Repr

def readFull : Nat → Src → Nat → Bytes → Bytes × RF × Src
  | 0, s, _, acc => (acc, .unexpected, s)
  | fuel + 1, s, want, acc =>
    if want ≤ acc.length then (acc, .ok, s)
    else
      match s.read (want - acc.length) with
      | (b, eof, s') =>
        if eof then
          (if want ≤ (acc ++ b).length then (acc ++ b, .ok, s')
           else if 0 < (acc ++ b).length then (acc ++ b, .unexpected, s') else (acc ++ b, .eof, s'))
        else readFull fuel s' want (acc ++ b)

/-- fuel that always suffices: every iteration consumes a script entry or at least one byte, plus the final EOF -/
def fuelFor (s : Src) : Nat := s.script.length + s.data.length + 2

/-- what `readFull` must return, independently of the script -/
def fullStatus (want : Nat) (acc data : Bytes) : RF :=
  if want ≤ acc.length + data.length then .ok else if 0 < acc.length + data.length then .unexpected else .eof

def readToEOF : Nat → Src → Nat → Bytes → Option Bytes × Src
  | 0, s, _, _ => (none, s)
  | fuel + 1, s, cap, input =>
    let cap := if input.length = cap then 2 * cap else cap          -- full() → grow()
    match s.read (cap - input.length) with
    | (b, eof, s') =>
      if eof then (if 0 < (input ++ b).length then (some (input ++ b), s') else (none, s'))
      else readToEOF fuel s' cap (input ++ b)

/-- C16-m3: `x.input = x.input[:len+n]` moved below the error check -/
def readToEOFLate : Nat → Src → Nat → Bytes → Option Bytes × Src
  | 0, s, _, _ => (none, s)
  | fuel + 1, s, cap, input =>
    let cap := if input.length = cap then 2 * cap else cap
    match s.read (cap - input.length) with
    | (b, eof, s') =>
      if eof then (if 0 < input.length then (some input, s') else (none, s'))
      else readToEOFLate fuel s' cap (input ++ b)

end KV.Model.Source
