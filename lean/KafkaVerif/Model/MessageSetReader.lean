/-
Model/MessageSetReader.lean — model of kafka-go's fetch-response decoder state machine
(message_reader.go: messageSetReader / readerStack, readHeader, readMessage, readMessageV1, readMessageV2,
markRead) together with the per-record bookkeeping of batch.go ((*Batch).readMessage, (*Batch).ReadMessage).
Core Lean only.

Level of the model.  The message set of a fetch response is modelled as a stream of *tokens*: the complete
syntactic units the Go code consumes with one group of `read*` calls (a v2 batch header, a v2 record, a
compressed v2 payload, a v0/v1 message header, its key+value, a compressed wrapper value) plus `cut` — the
partial bytes left by the broker's byte limit, on which every `read*` fails with `errShortRead`.  The byte
sizes travel with the tokens (`lengthRemain` accounting); the bytes ↔ tokens step is `Spec/Layout.lean`
(`tokensOf`, `truncate`) and is tied to the code by the byte-level correspondence of the driver.

The Go code is a pull parser (`Batch.ReadMessage` is called until it fails); the model is the same machine
turned inside out: `step` consumes one token and says what the pending `ReadMessage` call does with it.
Which Go statements a case stands for is written next to it.  The two code versions are both kept:
`Variant.legacy` is the pinned code before the `fix:` commits for D4/D14/D15 (kept for the counterexample
theorems and the regression mutants), `Variant.fixed` is the code as it is now.
-/
namespace KV.C02

inductive Variant
  | legacy | fixed
  deriving DecidableEq, Repr

inductive Tok
  /-- complete v2 record-batch header (61 bytes): baseOffset, lastOffsetDelta, count, compressed?, payload bytes (length-49) -/
  | h2 (base lastDelta : Int) (count : Nat) (codec : Bool) (plen : Nat)
  /-- complete uncompressed v2 record: offsetDelta, field digest, byte size -/
  | r2 (delta : Int) (tag : Nat) (size : Nat)
  /-- complete compressed v2 payload of `plen` bytes holding the records (delta, digest, uncompressed size) -/
  | z2 (plen : Nat) (recs : List (Int × Nat × Nat))
  /-- complete v0/v1 message header (offset, size, crc, magic, attributes[, timestamp]): 18 / 26 bytes -/
  | h1 (magic : Nat) (off : Int) (codec : Bool)
  /-- key and value of an uncompressed v0/v1 message -/
  | kv (tag : Nat) (size : Nat)
  /-- key (null or not) and compressed value of a v0/v1 wrapper message holding inner messages (offset field, digest) -/
  | zv (size : Nat) (inner : List (Int × Nat))
  /-- partial bytes: whatever the code tries to read next fails with errShortRead -/
  | cut
  deriving DecidableEq, Repr

def Tok.size : Tok → Nat
  | .h2 .. => 61
  | .r2 _ _ s => s
  | .z2 p _ => p
  | .h1 m _ _ => if m = 1 then 26 else 18
  | .kv _ s => s
  | .zv s _ => s
  | .cut => 1

/-- how a `Conn.ReadBatch` + `ReadMessage`* + `Close` round ends -/
inductive Outcome
  /-- `ReadMessage` returned io.EOF, `Close` returned nil -/
  | eof
  /-- RequestTimedOut: the broker had nothing (`highWaterMark == offset`) or the deadline had passed at the end of the batch -/
  | timedOut
  /-- the very first header could not be read: the Batch is born with io.ErrUnexpectedEOF and the Conn is closed -/
  | unexpectedEOF
  /-- the code parses bytes of one kind as another (garbage messages, `panic: markRead: negative count`, …) -/
  | desync
  deriving DecidableEq, Repr

/-- `messageSetReader` (top of the reader stack) + the fields of `Batch` that move -/
structure St where
  started  : Bool := false   -- newMessageSetReader's readHeader succeeded
  count    : Nat := 0        -- r.count
  magic    : Nat := 0        -- r.header.magic
  first    : Int := 0        -- r.header.firstOffset
  lastD    : Int := 0        -- r.header.v2.lastOffsetDelta
  hcount   : Nat := 0        -- r.header.v2.count
  codec    : Bool := false   -- r.header.compression() ≠ nil
  lenRem   : Int := 0        -- r.lengthRemain
  batchEnd : Int := 0        -- r.batchEnd (fixed code only)
  hr       : Nat := 3        -- legacy code: header reads still available before the next record is parsed
  inV1     : Bool := false   -- inside readMessageV1's loop after a message skipped there
  off      : Int             -- batch.offset
  lastOff  : Int := 0        -- batch.lastOffset (never initialised by ReadBatchWith: 0)
  out      : List (Int × Nat) := []   -- messages returned to the caller, in order
  deriving DecidableEq, Repr

inductive Res
  | cont (s : St)
  | stop (s : St) (o : Outcome)
  deriving DecidableEq, Repr

/-- batch.go `(*Batch).readMessage`, case `err == nil`, followed by the skip loop of `(*Batch).ReadMessage`
(`offset < batch.conn.offset`): a message with `offset`/`lastOffset` came back from the messageSetReader. -/
def onRecord (v : Variant) (o : Int) (s : St) (offset lastOffset : Int) (tag : Nat) : St :=
  let off1 := offset + 1                                              -- batch.offset = offset + 1
  let off2 := if v = .fixed ∧ s.batchEnd > off1 then s.batchEnd else off1   -- fixed: if end := msgs.batchEnd; end > batch.offset
  { s with off := off2, lastOff := lastOffset,                        -- batch.lastOffset = lastOffset
           out := if offset < o then s.out else s.out ++ [(offset, tag)],   -- ReadMessage: skip below conn.offset
           hr := 2, inV1 := false }                                   -- the next ReadMessage call starts afresh

/-- message_reader.go `readMessageV2` from `remainBefore := r.remain` on, for one record of the current batch
(uncompressed, or read from the decompressed child level), then `onRecord`. -/
def recordV2 (v : Variant) (o : Int) (s : St) (delta : Int) (tag size : Nat) : St :=
  let offset := s.first + delta                      -- offset = r.header.firstOffset + offsetDelta
  let lastOffset := s.first + s.lastD                -- lastOffset = firstOffset + lastOffsetDelta
  let s1 := { s with lenRem := s.lenRem - size,      -- r.lengthRemain -= length + lengthOfLength
                     batchEnd := if v = .fixed ∧ s.count = 1 then lastOffset + 1 else s.batchEnd,  -- fixed: last record of the batch
                     count := s.count - 1 }          -- markRead
  onRecord v o s1 offset lastOffset tag

def recordsV2 (v : Variant) (o : Int) : St → List (Int × Nat × Nat) → St
  | s, [] => s
  | s, (d, t, z) :: rs => recordsV2 v o (recordV2 v o s d t z) rs

/-- message_reader.go `readMessageV1`, the uncompressed branch, for a message whose absolute offset is `offset`:
`if offset < min { discard; markRead; continue }` (min = batch.offset) else read key and value, markRead, return. -/
def messageV1 (v : Variant) (o : Int) (s : St) (offset : Int) (tag : Nat) : St :=
  if offset < s.off then { s with inV1 := true }
  else onRecord v o s offset (-1) tag               -- readMessage: lastOffset = -1 for magic 0/1

def messagesV1 (v : Variant) (o : Int) (base : Int) : St → List (Int × Nat) → St
  | s, [] => s
  | s, (f, t) :: ms => messagesV1 v o base (messageV1 v o s (f + base) t) ms

/-- `extractOffset`: base = wrapper offset − offset field of the last inner message -/
def wrapperBase (woff : Int) (inner : List (Int × Nat)) : Int :=
  woff - (inner.getLast?.map (·.1)).getD 0

/-- The pending `ReadMessage` call fails with errShortRead (stream exhausted or cut): batch.go `(*Batch).readMessage`,
case `errors.Is(err, errShortRead)` → discard, `checkTimeoutErr` (`expired` = the adjusted deadline has passed),
the compaction jump, and (fixed) the final `batchEnd` adjustment.  When not even the first header was read the
Batch was created with io.ErrUnexpectedEOF by `ReadBatchWith` and nothing moves. -/
def finish (v : Variant) (expired : Bool) (s : St) : St × Outcome :=
  if !s.started then (s, .unexpectedEOF)
  else if expired then
    let off2 := if v = .fixed ∧ s.batchEnd > s.off then s.batchEnd else s.off
    ({ s with off := off2 }, .timedOut)
  else
    let jump := s.lenRem = 0 ∧ (if v = .legacy then s.lastOff ≠ -1 else s.lastOff ≥ s.off)
    let off1 := if jump then s.lastOff + 1 else s.off
    let off2 := if v = .fixed ∧ s.batchEnd > off1 then s.batchEnd else off1
    ({ s with off := off2 }, .eof)

/-- one token arrives while a `ReadMessage` call (or `newMessageSetReader`) is pending -/
def step (v : Variant) (expired : Bool) (o : Int) (s : St) : Tok → Res
  | .cut => let (s', r) := finish v expired s; .stop s' r
  | .h2 b ld c z pl =>
    -- readHeader, `case 2`.  It is only called with r.count == 0; a header where a record is expected is parsed as a record.
    if s.count > 0 ∨ s.inV1 then .stop s .desync
    -- legacy: readMessage calls readHeader once, readMessageV2 once more, then parses a record whatever the count
    else if v = .legacy ∧ s.hr = 0 then .stop s .desync
    else .cont { s with started := true, count := c, magic := 2, first := b, lastD := ld, hcount := c, codec := z,
                        lenRem := pl,                                       -- r.lengthRemain = int(length) - 49
                        batchEnd := if v = .fixed ∧ c = 0 then b + ld + 1 else s.batchEnd,   -- fixed: empty batch
                        hr := s.hr - 1 }
  | .r2 d t z =>
    if s.magic ≠ 2 ∨ s.count = 0 ∨ s.codec then .stop s .desync
    else .cont (recordV2 v o s d t z)
  | .z2 _ rs =>
    -- readMessageV2, `if r.count == int(r.header.v2.count)` / `codec != nil`: decompress, push, parent.count = 0;
    -- the records are then read from the child level until it is exhausted and popped by markRead/unwindStack
    if s.magic ≠ 2 ∨ s.count = 0 ∨ !s.codec ∨ s.count ≠ s.hcount ∨ rs.length ≠ s.count then .stop s .desync
    else .cont (recordsV2 v o s rs)
  | .h1 m f z =>
    -- readHeader, `case 0` / `case 1`: count = 1, lengthRemain = 1
    if s.count > 0 then .stop s .desync
    else .cont { s with started := true, count := 1, magic := m, first := f, codec := z, lenRem := 1 }
  | .kv t _ =>
    if (s.magic ≠ 0 ∧ s.magic ≠ 1) ∨ s.count = 0 ∨ s.codec then .stop s .desync
    else .cont (messageV1 v o { s with count := 0 } s.first t)          -- offset += r.base (0 at the top level); markRead
  | .zv _ inner =>
    -- readMessageV1, `if codec != nil`: decompress, extractOffset, markRead the wrapper, push, `continue`
    if (s.magic ≠ 0 ∧ s.magic ≠ 1) ∨ s.count = 0 ∨ !s.codec then .stop s .desync
    else .cont (messagesV1 v o (wrapperBase s.first inner) { s with count := 0, inV1 := true } inner)

/-- feed the token stream; at its end the pending read fails with errShortRead (`remain == 0`) -/
def run (v : Variant) (expired : Bool) (o : Int) : St → List Tok → St × Outcome
  | s, [] => finish v expired s
  | s, t :: ts =>
    match step v expired o s t with
    | .cont s' => run v expired o s' ts
    | .stop s' r => (s', r)

/-- Result of one `ReadBatch` round on a Conn positioned at `o`: delivered messages, the Conn's new offset, outcome.
`conn.go ReadBatchWith`: `highWaterMark == offset` gives the `empty` reader whose readMessage returns
RequestTimedOut; `Batch.close` stores batch.offset into conn.offset. -/
def readAll (v : Variant) (expired : Bool) (o hwm : Int) (toks : List Tok) : List (Int × Nat) × Int × Outcome :=
  if hwm = o then ([], o, .timedOut)
  else
    let (s, r) := run v expired o { off := o } toks
    (s.out, s.off, r)

end KV.C02
