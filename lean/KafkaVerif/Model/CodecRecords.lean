/-
Model/CodecRecords.lean — the record-set reader of Model/RecordScan.lean plugged into the frame decoder of
Model/Codec.lean through `Cfg.recs` (core Lean only).
-/
import KafkaVerif.Model.Codec
import KafkaVerif.Model.RecordScan

namespace KV.Codec
open KV

open KV.RecordScan in
/-- the record-set reader of Model/RecordScan.lean plugged into the frame decoder (`Cfg.recs`): the new
`decoder.remain` it leaves must not be negative (a negative one makes the next read fail — or, unguarded, panic) -/
def recsHandler (rc : RCfg) (crcI crcC : Bytes → Nat) (dcmp : Int → Bytes → Option Bytes) (d : Dec) : Res Val :=
  match readSet rc crcI crcC dcmp d.inp d.remain with
  | .ok newRemain s =>
    if newRemain < 0 then (if rc.readGuard then .error else .panic)
    else .ok (.records (some [])) ⟨s.inp, newRemain.toNat⟩
  | .error => .error
  | .panic => .panic
  | .balloon => .balloon

/-- the frame decoder with the detailed record-set reader -/
def withRecords (cfg : Cfg) (rc : KV.RecordScan.RCfg) (crcI crcC : Bytes → Nat) (dcmp : Int → Bytes → Option Bytes) : Cfg :=
  { cfg with recs := some (recsHandler rc crcI crcC dcmp) }


end KV.Codec
