/-
Model/ByteWalk.lean — the byte-level reads of the decoder strung together over a whole message set of uncompressed v2
batches (core Lean only): `readHeaderB` (message_reader.go readHeader, Model/ByteHeader.lean), then `count` times
`readRecordV2` (the record part of readMessageV2, Model/ByteReader.lean), each with `remain` = what is left of the set;
an error (errShortRead: the set ends inside the header / the record) ends the walk like it ends the batch.  The walk emits
the token the token machine of Model/MessageSetReader.lean consumes at that point.

`Lemmas/ByteWalk.lean`: on the reference encoding of any list of batches, cut at any byte, the walk emits exactly
`truncate (tokens of the layout) n` — what `tokenize` emits (`tokenize_items`) — so for these layouts the token stream the
general theorems are about is what the Go statements read.
-/
import KafkaVerif.Model.ByteHeader

namespace KV.C02.BR
open KV KV.RW KV.Spec.RB KV.C02

/-- `dgv`: digest of the observable fields of a record as the Go code holds them (given the batch's first timestamp) -/
def walk (dgv : Int → RecView → Nat) : Nat → Option (H2 × Nat) → Bytes → List Tok
  | 0, _, _ => []
  | fuel + 1, st, bs =>
    if bs.isEmpty then []
    else match st with
      | none =>
        match readHeaderB ⟨bs, bs.length⟩ with
        | .ok (.v2 h, r') =>
          Tok.h2 h.base h.lod h.count.toNat (h.attrs % 8 != 0) h.plen ::
            walk dgv fuel (if h.count.toNat = 0 then none else some (h, h.count.toNat)) r'.bs
        | _ => [.cut]
      | some (h, k) =>
        match readRecordV2 ⟨bs, bs.length⟩ with
        | .error _ => [.cut]
        | .ok (v, r') =>
          Tok.r2 v.offDelta (dgv h.firstTs v) v.consumed.toNat ::
            walk dgv fuel (if k ≤ 1 then none else some (h, k - 1)) r'.bs

end KV.C02.BR
