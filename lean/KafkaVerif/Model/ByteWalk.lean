/-
Model/ByteWalk.lean — the byte-level reads of the decoder strung together over a whole message set of uncompressed v2
batches and v0 / v1 messages (core Lean only): `readHeaderB` (message_reader.go readHeader, Model/ByteHeader.lean), then `count` times
`readRecordV2` (the record part of readMessageV2, Model/ByteReader.lean), resp. `readBodyV1` (key and value of a v0 / v1 message), each with `remain` = what is left of the set;
an error (errShortRead: the set ends inside the header / the record) ends the walk like it ends the batch.  The walk emits
the token the token machine of Model/MessageSetReader.lean consumes at that point.

`Lemmas/ByteWalk.lean`: on the reference encoding of any list of batches, cut at any byte, the walk emits exactly
`truncate (tokens of the layout) n` — what `tokenize` emits (`tokenize_items`) — so for these layouts the token stream the
general theorems are about is what the Go statements read.
-/
import KafkaVerif.Model.ByteHeader

namespace KV.C02.BR
open KV KV.RW KV.Spec.RB KV.C02

/-- where the walk is: in front of a header, inside a v2 batch with `k` records to go, or in front of key + value of
the v0 / v1 message whose header gave `h` and the timestamp `ts` -/
inductive WS
  | hdr
  | recs (h : H2) (k : Nat)
  | body (h : H1) (ts : Int)
  deriving Repr

/-- `dgv`: digest of the observable fields of a v2 record as the Go code holds them (given the batch's first timestamp);
`dgm`: of a v0 / v1 message (header fields, timestamp, key, value) -/
def walk (dgv : Int → RecView → Nat) (dgm : H1 → Int → Option Bytes → Option Bytes → Nat) : Nat → WS → Bytes → List Tok
  | 0, _, _ => []
  | fuel + 1, st, bs =>
    if bs.isEmpty then []
    else match st with
      | .hdr =>
        match readHeaderB ⟨bs, bs.length⟩ with
        | .ok (.v2 h, r') =>
          Tok.h2 h.base h.lod h.count.toNat (h.attrs % 8 != 0) h.plen ::
            walk dgv dgm fuel (if h.count.toNat = 0 then .hdr else .recs h h.count.toNat) r'.bs
        | .ok (.v1 h ts, r') =>
          -- readMessageV1 (uncompressed: `readBytesWith(key)`, `readBytesWith(val)`)
          Tok.h1 h.magic.toNat h.off (h.attrs % 8 != 0) :: walk dgv dgm fuel (.body h ts) r'.bs
        | _ => [.cut]
      | .recs h k =>
        match readRecordV2 ⟨bs, bs.length⟩ with
        | .error _ => [.cut]
        | .ok (v, r') =>
          Tok.r2 v.offDelta (dgv h.firstTs v) v.consumed.toNat ::
            walk dgv dgm fuel (if k ≤ 1 then .hdr else .recs h (k - 1)) r'.bs
      | .body h ts =>
        match readBodyV1 ⟨bs, bs.length⟩ with
        | .error _ => [.cut]
        | .ok ((k, v), r') => Tok.kv (dgm h ts k v) (bs.length - r'.bs.length) :: walk dgv dgm fuel .hdr r'.bs

end KV.C02.BR
