/-
Model/PoolDiscover.lean — the metadata refresh loop of a Transport's connection pool (core Lean only).

transport.go `(*connPool).discover`: a loop; each turn (a *refresh*) grabs the cluster connection, creates a promise
(`res := make(async, 1)`), hands `connRequest{ctx: deadline, req, res}` to the connection goroutine and awaits the promise
under a deadline of MetadataTTL; whatever comes out (the answer, an error, the deadline's error) goes to `p.update`,
which replaces the pool's cached cluster layout (or records the error).  The connection goroutine (`(*conn).run`,
Model/TransportConn.lean) puts the outcome of a request into the promise that travelled with THAT request
(`promisePairedWithRequest`, `runAnswersItsOwnRequest`) — possibly long after the loop has given up on it.

  * `Event.start`          ↔ a new turn of the loop: refresh k = started+1, its promise, its request
  * `Event.complete j ok`  ↔ the connection goroutine finishes request j: `res.resolve(r)` / `res.reject(err)` — a send on a
                             channel of capacity 1: blocks (is not enabled) while the channel is full
  * `Event.take`           ↔ `res.await` returns the value in the awaited promise → `p.update`
  * `Event.timeout`        ↔ `res.await` returns the deadline's error → `p.update(nil, err)`; the promise is abandoned

`fresh = true`: every refresh has a promise channel of its own (the code).  `fresh = false`: one channel for all of
them (seed C06-m8 hoisted the allocation out of the loop).
-/
namespace KV.PoolDiscover

/-- the outcome of request `req` -/
inductive Res
  | answer (req : Nat)
  | error (req : Nat)
  deriving DecidableEq, Repr

def Res.req : Res → Nat
  | .answer r => r
  | .error r => r

structure State where
  started : Nat                    -- refreshes (= requests) started so far: 1 … started
  waiting : Option Nat             -- the refresh whose promise the loop awaits
  finished : Nat → Bool            -- the connection goroutine is done with request j
  chan : Nat → Option Res          -- content of promise channel c (capacity 1)
  applied : List (Nat × Res)       -- (refresh, what it gave to p.update), latest last

def init : State := { started := 0, waiting := none, finished := fun _ => false, chan := fun _ => none, applied := [] }

/-- which channel refresh `k` uses -/
def chanOf (fresh : Bool) (k : Nat) : Nat := if fresh then k else 0

inductive Event
  | start
  | complete (j : Nat) (ok : Bool)
  | take
  | timeout
  deriving DecidableEq, Repr

def step (fresh : Bool) (s : State) : Event → Option State
  | .start =>
    match s.waiting with
    | none => some { s with started := s.started + 1, waiting := some (s.started + 1) }
    | some _ => none
  | .complete j ok =>
    if 1 ≤ j ∧ j ≤ s.started ∧ s.finished j = false ∧ s.chan (chanOf fresh j) = none then
      some { s with finished := fun i => if i = j then true else s.finished i,
                    chan := fun c => if c = chanOf fresh j then some (if ok then .answer j else .error j) else s.chan c }
    else none
  | .take =>
    match s.waiting with
    | some k =>
      match s.chan (chanOf fresh k) with
      | some r => some { s with waiting := none, applied := s.applied ++ [(k, r)],
                                chan := fun c => if c = chanOf fresh k then none else s.chan c }
      | none => none
    | none => none
  | .timeout =>
    match s.waiting with
    | some k => some { s with waiting := none, applied := s.applied ++ [(k, .error k)] }
    | none => none

def runFrom (fresh : Bool) : State → List Event → Option State
  | s, [] => some s
  | s, e :: es => match step fresh s e with
    | none => none
    | some s' => runFrom fresh s' es

def run (fresh : Bool) (es : List Event) : Option State := runFrom fresh init es

end KV.PoolDiscover
