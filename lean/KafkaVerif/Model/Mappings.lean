/-
Model/Mappings.lean — the field mappings between user-level and protocol-level structures (C19; core only).

Go ↔ Lean
  offsetfetch.go   (*Client).OffsetFetch       offsetFetchRequest / offsetFetchResponse
  offsetcommit.go  (*Client).OffsetCommit      offsetCommitRequest / offsetCommitResponse
  metadata.go      (*Client).Metadata          clientMetadata
  conn.go          ReadPartitions (readTopicMetadatav1/v6, readBrokerMetadata, makeBrokers)   readPartitions
  client.go        (*Client).ConsumerOffsets   consumerOffsets
Go maps are association lists with `Routing.ainsert` (assignment replaces); error values are Kafka codes (0 = nil).
-/
import KafkaVerif.Model.Routing
import KafkaVerif.Gen.Mappings

namespace KV.Mappings
open KV.Routing (ainsert lookupD MResponse MBroker MTopic MPartition)

/-- the Go map obtained by assigning the listed (key, value) pairs in order (`m[k] = v`; later pairs replace) -/
def goMap {κ ν : Type} [BEq κ] (l : List (κ × ν)) : List (κ × ν) :=
  l.foldl (fun m e => ainsert m e.1 e.2) []

/-! ### OffsetFetch -/

structure OFPart where
  index : Int
  offset : Int
  metadata : String
  error : Int
  deriving DecidableEq, Repr, Inhabited

structure OFResponse where
  throttle : Int
  topics : List (String × List OFPart)
  error : Int
  deriving DecidableEq, Repr, Inhabited

/-- kafka.OffsetFetchPartition -/
structure UOFPart where
  partition : Int
  committed : Int
  metadata : String
  error : Int
  deriving DecidableEq, Repr, Inhabited

structure UOFResponse where
  throttle : Int
  topics : List (String × List UOFPart)
  error : Int
  deriving DecidableEq, Repr, Inhabited

/-- request side: the user's map is listed in some order (Go map iteration) — `topics` is that listing; when it is
empty the slice handed to the protocol request keeps its initial value, which the source declares nil
(`Gen.Mappings.offsetFetchTopicsStartNil`, regenerated): `none` = NULL array = all topics of the group, `some []`
= an empty array = no topic -/
def offsetFetchRequest (group : String) (topics : List (String × List Int)) : String × Option (List (String × List Int)) :=
  (group, if topics.length > 0 then some (topics.map fun (t, ps) => (t, ps.map id))
          else if KV.Gen.Mappings.offsetFetchTopicsStartNil then none else some [])

def convOF (p : OFPart) : UOFPart := ⟨p.index, p.offset, p.metadata, p.error⟩

def offsetFetchResponse (res : OFResponse) : UOFResponse :=
  { throttle := res.throttle
    topics := goMap (res.topics.map fun (t, ps) => (t, ps.map convOF))
    error := res.error }

/-! ### OffsetCommit -/

structure OCReqPart where
  index : Int
  offset : Int
  timestamp : Int
  metadata : String
  deriving DecidableEq, Repr, Inhabited

structure OCRequest where
  group : String
  generation : Int
  member : String
  instance_ : String
  retentionMs : Int
  topics : List (String × List OCReqPart)
  deriving DecidableEq, Repr, Inhabited

/-- user commit: (partition, offset, metadata) -/
abbrev UCommit := Int × Int × String

def offsetCommitRequest (group : String) (generation : Int) (member inst : String)
    (topics : List (String × List UCommit)) (now : Int) : OCRequest :=
  { group := group, generation := generation, member := member, instance_ := inst
    retentionMs := 86400000
    topics := topics.map fun (t, cs) => (t, cs.map fun (p, o, m) => ⟨p, o, now, m⟩) }

def offsetCommitResponse (res : List (String × List (Int × Int))) : List (String × List (Int × Int)) :=
  goMap (res.map fun (t, ps) => (t, ps.map fun (p, e) => (p, e)))

/-! ### Metadata / ReadPartitions -/

structure UBroker where
  id : Int
  host : String
  port : Int
  rack : String
  deriving DecidableEq, Repr, Inhabited

def UBroker.zero : UBroker := ⟨0, "", 0, ""⟩

structure UPartition where
  topic : String
  id : Int
  leader : UBroker
  replicas : List UBroker
  isr : List UBroker
  error : Int
  deriving DecidableEq, Repr, Inhabited

structure UTopic where
  name : String
  internal : Bool
  partitions : List UPartition
  error : Int
  deriving DecidableEq, Repr, Inhabited

structure UMetadata where
  throttle : Int
  clusterID : String
  controller : UBroker
  brokers : List UBroker
  topics : List UTopic
  deriving DecidableEq, Repr, Inhabited

def convBroker (b : MBroker) : UBroker := ⟨b.nodeID, b.host, b.port, b.rack⟩

/-- the `brokers` map both Client.Metadata and readBrokerMetadata build -/
def brokerMap (bs : List MBroker) : List (Int × UBroker) :=
  goMap (bs.map fun b => (b.nodeID, convBroker b))

/-- conn.go makeBrokers: an id without a listed broker is reported as a placeholder carrying the id -/
def makeBrokers (bm : List (Int × UBroker)) (ids : List Int) : List UBroker :=
  ids.map fun id => match bm.lookup id with | some b => b | none => { UBroker.zero with id := id }

/-- one id through the same placeholder rule (`makeBrokers(brokers, id)[0]`) -/
def brokerOrPlaceholder (bm : List (Int × UBroker)) (id : Int) : UBroker :=
  match bm.lookup id with | some b => b | none => { UBroker.zero with id := id }

/-- (*Client).Metadata -/
def clientMetadata (res : MResponse) : UMetadata :=
  let bm := brokerMap res.brokers
  { throttle := res.throttle
    clusterID := res.clusterID
    controller := res.brokers.foldl (fun c b => if b.nodeID == res.controller then convBroker b else c) UBroker.zero
    brokers := res.brokers.map convBroker
    topics := res.topics.map fun t =>
      { name := t.name, internal := t.internal, error := t.error
        partitions := t.partitions.map fun p =>
          { topic := t.name, id := p.index, leader := brokerOrPlaceholder bm p.leader
            replicas := makeBrokers bm p.replicas
            isr := makeBrokers bm p.isr, error := p.error } } }

/-- conn.go ReadPartitions: which topics are asked for — the arguments, else the connection's topic, else all
(`none` = a NULL array on the wire) -/
def readPartitionsTopics (connTopic : String) (args : List String) : Option (List String) :=
  if args.length == 0 then (if connTopic.length != 0 then some [connTopic] else none) else some args

/-- the topic errors that concern a connection: its own topic's, or any topic's when it has none
(`t.TopicErrorCode != 0 && (c.topic == "" || t.TopicName == c.topic)`) -/
def concerns (connTopic : String) (t : MTopic) : Bool := t.error != 0 && (connTopic == "" || t.name == connTopic)

def convPartition (bm : List (Int × UBroker)) (t : MTopic) (p : MPartition) : UPartition :=
  { topic := t.name, id := p.index, leader := brokerOrPlaceholder bm p.leader
    replicas := makeBrokers bm p.replicas, isr := makeBrokers bm p.isr, error := p.error }

/-- conn.go readTopicMetadatav1/v6: a topic error is reported (and ends the call) only for the connection's own
topic, or for any topic when the connection has none; `Except.error` carries the Kafka error code -/
def readPartitions (connTopic : String) (res : MResponse) : Except Int (List UPartition) :=
  res.topics.foldlM (fun acc t =>
    if concerns connTopic t then .error t.error
    else .ok (acc ++ t.partitions.map (convPartition (brokerMap res.brokers) t))) []

/-! ### ConsumerOffsets -/

/-- client.go ConsumerOffsets: partition ids of the topic from Metadata, OffsetFetch for them, then
partition → committed offset -/
def consumerOffsetsRequest (topic : UTopic) : List Int := topic.partitions.map (·.id)

/-- last step of ConsumerOffsets on the user-level OffsetFetch response of the topic: a group-level error fails the
call; a partition with an error is left out and the first such error (its partition, its code) is returned together
with the offsets of the others (after fix C19-D31; before, errors were dropped and failed partitions read −1) -/
def consumerOffsets (groupErr : Int) (fetched : List UOFPart) : Except Int (List (Int × Int) × Option (Int × Int)) :=
  if groupErr != 0 then .error groupErr
  else .ok (goMap ((fetched.filter (·.error == 0)).map fun p => (p.partition, p.committed)),
            (fetched.find? (·.error != 0)).map fun p => (p.partition, p.error))

end KV.Mappings
