/-
Model/ReaderCloseSystem.lean — `Reader.Close` over its components: the partition fetchers (Model/FetcherLife.lean, one
state per `(*reader).run` goroutine accounted in `r.join`) and, for a group reader, the `ConsumerGroup.run` goroutine
(the group builder's Model/GroupRun.lean).  The glue follows `(*Reader).Close` (order extracted as fact
`readerCloseOrder`):

    closeBegin   Close is called
    closeMark    r.closed = true; r.cancel() — every fetcher's context is done; r.stop() — the group loop's `stctx`
                 is cancelled, `Reader.run` returns from `cg.Next` and its deferred `cg.Close()` closes `cg.done`
    (components) fetchers and the group's `run` goroutine wind down by their own steps
    closeMsgs    after `r.join.Wait()` (every fetcher returned) and `<-r.done` (run exited, `cg.Close()` returned): close(r.msgs)
    closeReturn

`fetcherStart` (a fetcher is spawned by `start`) needs `¬closed` (fact `startAccountsFetchersAndRefusesWhenClosed`).
After the mark the application-side events of GroupRun (`nextCall`, `closeCall`) do not occur any more: `Reader.run`
is the only caller of `Next` and it returns when `stctx` is done.
-/
import KafkaVerif.Model.FetcherLife
import KafkaVerif.Model.GroupRun

namespace KV.ReaderCloseSystem
open KV

structure State where
  close : Nat := 0                       -- 0 not called, 1 called, 2 marked, 3 returned
  closed : Bool := false
  msgsClosed : Bool := false
  fetchers : List FetcherLife.State := []
  group : Option Group.St := none        -- `some` for a group reader
deriving Repr

inductive Event
  | closeBegin | closeMark | closeMsgs | closeReturn
  | fetcherStart
  | fetcher (i : Nat) (e : FetcherLife.Event)
  | group (e : Group.Ev)
deriving Repr

def groupExited (s : State) : Bool :=
  match s.group with
  | none => true
  | some g => g.pc == .exited

def fetchersExited (s : State) : Bool := s.fetchers.all fun f => f.pc == .exited

def step (c : Group.Cfg) (s : State) : Event → Option State
  | .closeBegin => if s.close = 0 then some { s with close := 1 } else none
  | .closeMark =>
    if s.close = 1 then
      some { s with close := 2, closed := true,
                    fetchers := s.fetchers.map fun f => { f with cancelled := true },
                    group := s.group.map fun g => { g with closedCG := true } }
    else none
  | .closeMsgs =>
    if s.close = 2 && fetchersExited s && groupExited s && !s.msgsClosed then some { s with msgsClosed := true } else none
  | .closeReturn => if s.close = 2 && s.msgsClosed then some { s with close := 3 } else none
  | .fetcherStart => if !s.closed then some { s with fetchers := s.fetchers ++ [{}] } else none
  | .fetcher i e =>
    match s.fetchers[i]? with
    | none => none
    | some f =>
      -- the fetcher's context is cancelled by the Reader only (at the mark / by a newer start), not by itself
      if e = .ctxCancel then none
      else (FetcherLife.step f e).map fun f' => { s with fetchers := s.fetchers.set i f' }
  | .group e =>
    match s.group with
    | none => none
    | some g =>
      if s.closed && (e == .nextCall || e == .closeCall) then none
      else (Group.step c g e).map fun g' => { s with group := some g' }

end KV.ReaderCloseSystem
