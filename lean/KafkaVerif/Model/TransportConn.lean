/-
Model/TransportConn.lean — pooled connections of a `kafka.Transport` (core Lean only).

Follows transport.go / protocol/conn.go / protocol/roundtrip.go:
  * `Event.new`      ↔ `(*connGroup).connect` succeeded (ApiVersions and, if configured, the SASL
                       exchange — `idgen0` round trips — are over; C18 covers them); the new `*conn` goes to
                       the requester, not to the idle stack.
  * `Event.grab`     ↔ `grabConn` / `grabConnTo`: a conn is popped from `idleConns` (group mutex).
  * `Event.recv`     ↔ `(*conn).run`: a `connRequest` was received from the unbuffered `reqs` channel;
                       `protocol.(*Conn).RoundTrip` increments `idgen` and writes the request.
  * `Event.done`     ↔ `roundTrip` returned inside `run`:
                         `ok`      — `ReadResponse` consumed one whole frame (`discardAll`) and its
                                     correlation id equals the one written (`protocol.RoundTrip`);
                         `errKeep` — the exchange is over and NO response is due, the conn is kept: `protocol.ErrNoRecord` (the
                                     request could not be encoded, nothing was written), or a request that has no response
                                     (produce with RequiredAcks = 0) written WHOLE — `protocol.RoundTrip` returns (nil, nil)
                                     only after `WriteRequest` succeeded (a failed write is `err`; seed C06-m10 swapped the
                                     two tests and a connection left in the middle of a frame went back to the pool);
                         `err`     — anything else (timeout, EOF, malformed, id mismatch): the loop breaks.
  * `Event.release`  ↔ `(*connGroup).releaseConn` (group mutex): pushed on `idleConns` unless the group is closed.
  * `Event.exit`     ↔ `run` returns (deferred `pc.Close()`).
  * `Event.remove`   ↔ idle timer: `removeConn` found the conn in `idleConns`; `closeIdle` ↔ `closeIdleConns`.
  * `Event.abandon`  ↔ the caller's `await` returned `ctx.Err()`: it no longer listens; the exchange goes on.

Each connection has its own response stream (ANY list of frames).  A frame is consumed whole.
-/
import KafkaVerif.Model.ConnMux

namespace KV.TransportConn
open KV.ConnMux (Frame wire)

inductive CSt
  | absent
  | grabbed        -- owned by a requester that has not handed its request over yet
  | busy           -- inside roundTrip
  | finished (ok : Bool)   -- roundTrip returned; about to release (ok) or break (¬ok)
  | idle           -- in the group's idle stack
  | closing        -- not in the pool any more; the run loop is ending
  | gone           -- run returned, pc closed
  deriving DecidableEq, Repr

structure PConn where
  st : CSt
  group : Nat
  idgen : Nat             -- protocol.Conn.idgen
  stream : List Frame     -- frames not yet consumed
  written : Nat           -- requests written by the run loop
  consumed : Nat          -- response frames consumed by the run loop
  cur : Nat               -- tag of the request of the current / last exchange
  deriving DecidableEq, Repr

inductive Outcome | ok | errKeep | err
  deriving DecidableEq, Repr

inductive Event
  | new (cid group idgen0 : Nat) (stream : List Frame)
  | grab (cid : Nat)
  | recv (cid tag : Nat)
  | done (cid : Nat) (o : Outcome)
  | release (cid : Nat) (accepted : Bool)
  | exit (cid : Nat)
  | remove (cid : Nat)
  | closeIdle (group : Nat)
  | abandon (tag : Nat)
  deriving DecidableEq, Repr

/-- a response handed to a caller: which conn, the id written, the request's tag, the position of the
request among the conn's requests, the frame and its position among the conn's frames -/
structure Delivery where
  cid : Nat
  id : Nat
  tag : Nat
  reqPos : Nat
  frame : Frame
  framePos : Nat
  deriving DecidableEq, Repr

structure State where
  conns : Nat → PConn
  delivered : List Delivery
  abandoned : List Nat          -- tags whose callers gave up
  closedGroups : List Nat

def absent : PConn := { st := .absent, group := 0, idgen := 0, stream := [], written := 0, consumed := 0, cur := 0 }

def init : State := { conns := fun _ => absent, delivered := [], abandoned := [], closedGroups := [] }

def upd (m : Nat → PConn) (k : Nat) (v : PConn) : Nat → PConn := fun i => if i = k then v else m i

def step (s : State) : Event → Option State
  | .new cid g n0 stream =>
    if (s.conns cid).st = .absent then
      some { s with conns := upd s.conns cid { st := .grabbed, group := g, idgen := n0, stream := stream, written := 0, consumed := 0, cur := 0 } }
    else none
  | .grab cid =>
    let c := s.conns cid
    if c.st = .idle then some { s with conns := upd s.conns cid { c with st := .grabbed } } else none
  | .recv cid tag =>
    let c := s.conns cid
    if c.st = .grabbed then
      some { s with conns := upd s.conns cid { c with st := .busy, idgen := c.idgen + 1, written := c.written + 1, cur := tag } }
    else none
  | .done cid o =>
    let c := s.conns cid
    if c.st = .busy then
      match o, c.stream with
      | .ok, f :: rest =>
        if f.id = wire c.idgen then
          some { s with conns := upd s.conns cid { c with st := .finished true, stream := rest, consumed := c.consumed + 1 },
                        delivered := if s.abandoned.contains c.cur then s.delivered
                                     else s.delivered ++ [⟨cid, c.idgen, c.cur, c.written - 1, f, c.consumed⟩] }
        else none
      | .errKeep, _ =>
        -- protocol.ErrNoRecord comes from ENCODING the request (a produce request without records): nothing was
        -- written, no response is due, the conn is as good as before
        some { s with conns := upd s.conns cid { c with st := .finished true, written := c.written - 1 } }
      | .err, _ => some { s with conns := upd s.conns cid { c with st := .finished false } }
      | _, _ => none
    else none
  | .release cid accepted =>
    let c := s.conns cid
    -- after a completed exchange, or for a freshly connected conn whose requester went away (ctx done)
    if (c.st = .finished true ∨ c.st = .grabbed) ∧ accepted = !(s.closedGroups.contains c.group) then
      some { s with conns := upd s.conns cid { c with st := if accepted then .idle else .closing } }
    else none
  | .exit cid =>
    let c := s.conns cid
    if c.st = .finished false ∨ c.st = .closing then some { s with conns := upd s.conns cid { c with st := .gone } } else none
  | .remove cid =>
    let c := s.conns cid
    if c.st = .idle then some { s with conns := upd s.conns cid { c with st := .closing } } else none
  | .closeIdle g =>
    some { s with closedGroups := g :: s.closedGroups,
                  conns := fun i => let c := s.conns i; if c.st = .idle ∧ c.group = g then { c with st := .closing } else c }
  | .abandon tag => some { s with abandoned := tag :: s.abandoned }

def runFrom : State → List Event → Option State
  | s, [] => some s
  | s, e :: es => match step s e with
    | none => none
    | some s' => runFrom s' es

def run (es : List Event) : Option State := runFrom init es

def firstRejected : State → List Event → Nat → Option Nat
  | _, [], _ => none
  | s, e :: es, i => match step s e with
    | none => some i
    | some s' => firstRejected s' es (i + 1)

end KV.TransportConn
