/-
Model/GroupDeadlines.lean — the coordinator requests of the consumer-group `run` goroutine and of a generation's
functions, and what ends them when the coordinator has stopped answering (core Lean only).

`Model/GroupRun.lean` reports the answer of a coordinator request as an event.  A request that is blocked in the socket
does not observe `cg.done` / the generation's context: against a silent coordinator it returns only through the deadline
`timeoutCoordinator` arms on the connection before every request (Gen fact `coordinatorCallsHaveDeadline`), and then
as a local failure (`Err.net`), never as an answer.

`stepSilentG f` is `Group.step` against a coordinator that accepts connections and reads requests but never answers.
-/
import KafkaVerif.Model.GroupRun
namespace KV.Group

/-- `some true`: the event is an answer sent by the coordinator; `some false`: the request failed locally (deadline,
broken connection); `none`: not the return of a coordinator request -/
def Ev.coordAnswer : Ev → Option Bool
  | .findRes e => some (e != some .net)
  | .partsRes e => some (e != some .net)
  | .fetchRes e => some (e != some .net)
  | .joinOk _ _ _ _ => some true
  | .joinErr _ e => some (e != .net)
  | .syncRes _ _ e => some (e != some .net)
  | .leaveRes _ ok => some ok
  | .hbRet _ e => some (e != some .net)
  | .watchParts _ _ _ => some true
  | .watchErr _ _ e => some (e != .net)
  | _ => none

/-- one step against a coordinator that has stopped answering; `f` = every coordinator request is made under a
connection deadline -/
def stepSilentG (f : Bool) (c : Cfg) (s : St) (e : Ev) : Option St :=
  match e.coordAnswer with
  | some true => none
  | some false => if f then step c s e else none
  | none => step c s e

end KV.Group
