/-
Model/GroupDeadlines.lean — how long the group waits for each coordinator answer (consumergroup.go `timeoutCoordinator`,
`makeConnect`).  The coordinator may hold a JoinGroup answer for up to the rebalance time-out (it waits for the other
members) and a SyncGroup answer for up to the session time-out (it waits for the leader); every other answer is due
within `Timeout`.  An answer that does not arrive in time fails the call — for a heartbeat that is "a heartbeat fails",
which ends the generation.
-/
namespace KV.Group

inductive CoordCall
  | findCoordinator | joinGroup | syncGroup | heartbeat | leaveGroup | offsetFetch | offsetCommit | readPartitions
  deriving DecidableEq, Repr

def CoordCall.all : List CoordCall :=
  [.findCoordinator, .joinGroup, .syncGroup, .heartbeat, .leaveGroup, .offsetFetch, .offsetCommit, .readPartitions]

def CoordCall.name : CoordCall → String
  | .findCoordinator => "findCoordinator" | .joinGroup => "joinGroup" | .syncGroup => "syncGroup"
  | .heartbeat => "heartbeat" | .leaveGroup => "leaveGroup" | .offsetFetch => "offsetFetch"
  | .offsetCommit => "offsetCommit" | .readPartitions => "readPartitions"

/-- the three configured durations (ms): `Timeout`, `RebalanceTimeout`, `SessionTimeout` -/
structure Timeouts where
  timeout : Nat
  rebalance : Nat
  session : Nat

def callDeadline (t : Timeouts) : CoordCall → Nat
  | .joinGroup => t.timeout + t.rebalance
  | .syncGroup => t.timeout + t.session
  | _ => t.timeout

/-- an answer held for `held` ms is accepted iff it arrives before the call's deadline -/
def answered (t : Timeouts) (c : CoordCall) (held : Nat) : Bool := decide (held < callDeadline t c)

/-- the same table by field name of `timeoutCoordinator` (sorted), for the comparison with the source -/
def deadlineTerms : CoordCall → List String
  | .joinGroup => ["rebalanceTimeout", "timeout"]
  | .syncGroup => ["sessionTimeout", "timeout"]
  | _ => ["timeout"]

/-- which config field feeds which field of the `timeoutCoordinator` that `makeConnect` builds -/
def connectFields : List (String × String) :=
  [("rebalanceTimeout", "RebalanceTimeout"), ("sessionTimeout", "SessionTimeout"), ("timeout", "Timeout")]

/-- Requests needed to obtain the first generation when the FIRST JoinGroup answer is held `joinHeld` ms and the FIRST
SyncGroup answer `syncHeld` ms (every other answer is immediate): a call given up is followed by a fresh join. -/
def requestsForFirstGeneration (t : Timeouts) (joinHeld syncHeld : Nat) : Nat × Nat :=
  let j := if answered t .joinGroup joinHeld then 0 else 1
  let s := if answered t .syncGroup syncHeld then 0 else 1
  (1 + j + s, 1 + s)

end KV.Group
