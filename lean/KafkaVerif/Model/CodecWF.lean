/-
Model/CodecWF.lean — decidable side conditions of the codec theorems (core Lean only).

* `Ty.wf`   well-formed resolved schema (evaluated on every registered API × version on every run):
            array elements occupy at least one byte on the wire, zero-size regular fields only occur in
            non-flexible structs, and the only tagged fields are the zero-size `_ struct{}` markers (true of
            the whole pinned tree: no message declares a `tag=N` field).
* `wt`      well-typed value: shapes match, integers in range, lengths fit their prefix (int16 / int32).
-/
import KafkaVerif.Model.Codec

namespace KV.Codec

mutual
/-- every value of the type encodes to at least one byte -/
def posWidth : Ty → Bool
  | .struct flex fs _ _ => flex || posWidthAny fs
  | .unit flex => flex
  | _ => true
def posWidthAny : List Ty → Bool
  | [] => false
  | t :: ts => (!t.zeroSize && posWidth t) || posWidthAny ts
end

def isMarker : Ty → Bool
  | .unit _ => true
  | _ => false

/-- a zero-size regular field is decoded as `struct{}`: harmless only when that reads nothing -/
def regularOk : Ty → Bool
  | .unit flex => !flex
  | _ => true

mutual
def Ty.wf : Ty → Bool
  | .array _ _ t => posWidth t && !t.zeroSize && t.wf
  | .struct _ fs ids ts => wfList fs && fs.all regularOk && ts.all isMarker && ids.length == ts.length
  | _ => true
def wfList : List Ty → Bool
  | [] => true
  | t :: ts => t.wf && wfList ts
end

def inRange (bits : Nat) (i : Int) : Bool := -(2 ^ (bits - 1) : Nat) ≤ i && i < (2 ^ (bits - 1) : Nat)

mutual
def wt : Ty → Val → Bool
  | .bool, .bool _ => true
  | .int8, .int i => inRange 8 i
  | .int16, .int i => inRange 16 i
  | .int32, .int i => inRange 32 i
  | .int64, .int i => inRange 64 i
  | .float64, .int i => 0 ≤ i && i < (2 ^ 64 : Nat)
  | .string c _, .str s => if c then s.length < 2 ^ 31 - 1 else s.length < 2 ^ 15
  | .bytes _ _, .bytes b => (b.getD []).length < 2 ^ 31 - 1
  | .array _ _ t, .arr a => (a.getD []).length < 2 ^ 31 - 1 && wtElems t (a.getD [])
  | .struct _ fs _ ts, .struct vs tvs => wtFields fs vs && wtFields ts tvs
  | .unit _, .struct [] [] => true
  | .records, .records (some p) => 0 < p.length && p.length < 2 ^ 31
  | _, _ => false
def wtElems : Ty → List Val → Bool
  | _, [] => true
  | t, v :: vs => wt t v && wtElems t vs
def wtFields : List Ty → List Val → Bool
  | [], [] => true
  | t :: ts, v :: vs => wt t v && wtFields ts vs
  | _, _ => false
end

end KV.Codec
