/-
Model/Discover.lean — the metadata refresh loop of the transport as a labelled transition system (C12; core only).

Go ↔ Lean: transport.go (*connPool).discover.  One iteration of the loop is
  waiting --tick--> requesting      timer fired / refreshMetadata woke the loop, control connection grabbed, request sent
  waiting --connFail--> waiting     grabClusterConn failed: update(nil, err)
  requesting --answer m--> waiting  update(m, nil)
  requesting --reqError--> waiting  EOF, i/o timeout, broken pipe …: update(nil, err)
  requesting --timeout--> ?         the per-request deadline context (WithTimeout(ctx, metadataTTL)) expired first
  any --close--> ?                  the pool's context was cancelled (CloseIdleConnections / last unref)
Whether the `?` steps leave the loop is decided by the guards of the loop's `return` statements, which are
regenerated from the source (`Gen.Routing.discoverExits`).
-/
import KafkaVerif.Model.Routing

namespace KV.Discover
open KV.Routing
open KV.Gen.Routing (ExitGuard)

inductive Phase where
  | waiting | requesting
  deriving DecidableEq, Repr, Inhabited

structure DState where
  alive : Bool := true        -- the goroutine is still in the loop
  closed : Bool := false      -- the pool's context is cancelled
  phase : Phase := .waiting
  pool : PoolState := {}
  deriving Repr, Inhabited

inductive DEvent where
  | tick
  | connFail
  | answer (m : MResponse)
  | reqError
  | timeout
  | close
  deriving Repr, Inhabited

def DEvent.isClose : DEvent → Bool
  | .close => true
  | _ => false

/-- does the loop return when `res.await` yields an error, given which context errors the error `Is`?
`poolErr`: the pool's context is done and the error is its error; `reqErr`: the error is the per-request
deadline context's error (DeadlineExceeded) while the pool's context is still live. -/
def exitsOnError (guards : List ExitGuard) (poolErr reqErr : Bool) : Bool :=
  (guards.contains .errIsPoolCtx && poolErr) || (guards.contains .errIsOtherCtx && (poolErr || reqErr)) ||
  guards.contains .other

/-- does the loop return from its `select` when only the timer / a wake-up is ready? -/
def exitsOnWake (guards : List ExitGuard) : Bool := guards.contains .otherChan || guards.contains .other

def step (guards : List ExitGuard) (s : DState) : DEvent → Option DState
  | .close =>
    if !s.alive then none
    else some { s with closed := true,
                       alive := !(guards.contains .poolDone || guards.contains .errIsPoolCtx ||
                                  guards.contains .errIsOtherCtx || guards.contains .other) }
  | .tick =>
    if s.alive && !s.closed && s.phase == .waiting then
      some { s with phase := .requesting, alive := !exitsOnWake guards }
    else none
  | .connFail =>
    if s.alive && !s.closed && s.phase == .waiting then
      some { s with pool := update s.pool none true, alive := !exitsOnWake guards }
    else none
  | .answer m =>
    if s.alive && !s.closed && s.phase == .requesting then
      some { s with phase := .waiting, pool := update s.pool (some m) false }
    else none
  | .reqError =>
    if s.alive && !s.closed && s.phase == .requesting then
      some { s with phase := .waiting, pool := update s.pool none true, alive := !exitsOnError guards false false }
    else none
  | .timeout =>
    if s.alive && !s.closed && s.phase == .requesting then
      some { s with phase := .waiting, pool := update s.pool none true, alive := !exitsOnError guards false true }
    else none

def run (guards : List ExitGuard) (s : DState) : List DEvent → Option DState
  | [] => some s
  | e :: es => (step guards s e).bind fun s' => run guards s' es

/-- the loop can only be left through the pool's own context -/
def SafeGuards (guards : List ExitGuard) : Prop := ∀ g ∈ guards, g = .errIsPoolCtx ∨ g = .poolDone

end KV.Discover
