/-
Model/ConnSpecs.lean — the table of Conn operations: which parser program each one runs (generated `readFrom`
programs / struct layouts from Gen/ConnLegacy.lean, hand-transcribed closures from Model/ConnOps.lean) and the framing
decisions of its (*Conn) method.  The framing flags (`drain`, `expectZero`, `closeOnErr`) are computed from the
REGENERATED call table `Gen.ConnLegacy.calls`, so removing e.g. the `discardOnKafkaError` call from
`writeCompressedMessages` flips `drain` and the theorems of Props/C11.lean stop checking.
-/
import KafkaVerif.Model.ConnOps
import KafkaVerif.Gen.ConnLegacy

namespace KV.ConnOps
open KV.Gen.ConnLegacy

def has (method helper : String) : Bool :=
  (callsOf method).contains helper &&
  (helper != "expectZeroSize" || expectZeroSizeChecks) &&
  (helper != "discardOnKafkaError" || discardOnKafkaErrorDrains)

/-- operations whose read closure is `expectZeroSize((&response).readFrom(&c.rbuf, size))`, error codes checked after -/
def simpleOp (method : String) (prog : List Step) (skip : List Int := []) : OpSpec :=
  { parse := fun _ => prog, drain := has method "discardOnKafkaError", expectZero := has method "expectZeroSize",
    post := .firstErr skip, closeOnErr := has "do" "Close" && doClosesNonKafka }

def specOf : String → Option OpSpec
  | "listOffsets" => some { parse := fun _ => readOffsetClosure partitionOffsetV1,
                            drain := has "readOffset" "discardOnKafkaError", expectZero := has "readOffset" "expectZeroSize",
                            post := .none, closeOnErr := has "do" "Close" && doClosesNonKafka }
  | "produce" => some { parse := fun v => produceClosure (if v ≥ 7 then produceResponsePartitionV7 else produceResponsePartitionV2),
                        drain := has "writeCompressedMessages" "discardOnKafkaError",
                        expectZero := has "writeCompressedMessages" "expectZeroSize",
                        post := .none, closeOnErr := has "do" "Close" && doClosesNonKafka }
  | "metadata" => some { parse := fun v => if v ≥ 6 then metadataResponseV6 else metadataResponseV1,
                         drain := false, expectZero := has "readResponse" "expectZeroSize",
                         post := .topicErr, closeOnErr := has "do" "Close" && doClosesNonKafka }
  | "brokers" => some { parse := fun _ => metadataResponseV1, drain := false, expectZero := has "readResponse" "expectZeroSize",
                        post := .none, closeOnErr := has "do" "Close" && doClosesNonKafka }
  | "controller" => some { parse := fun _ => metadataResponseV1, drain := false, expectZero := has "readResponse" "expectZeroSize",
                           post := .none, closeOnErr := has "do" "Close" && doClosesNonKafka }
  | "findCoordinator" => some (simpleOp "findCoordinator" findCoordinatorResponseV0)
  | "heartbeat" => some (simpleOp "heartbeat" heartbeatResponseV0)
  | "joinGroup" => some (simpleOp "joinGroup" joinGroupResponse)
  | "leaveGroup" => some (simpleOp "leaveGroup" leaveGroupResponseV0)
  | "listGroups" => some (simpleOp "listGroups" listGroupsResponseV1)
  | "offsetCommit" => some (simpleOp "offsetCommit" offsetCommitResponseV2)
  | "offsetFetch" => some (simpleOp "offsetFetch" offsetFetchResponseV1)
  | "syncGroup" => some (simpleOp "syncGroup" syncGroupResponseV0)
  | "saslHandshake" => some (simpleOp "saslHandshake" saslHandshakeResponseV0)
  | "saslAuthenticate" => some (simpleOp "saslAuthenticate" saslAuthenticateResponseV0)
  | "createTopics" => some (simpleOp "createTopics" createTopicsResponse [36])     -- TopicAlreadyExists is skipped
  | "deleteTopics" => some (simpleOp "deleteTopics" deleteTopicsResponse)
  | "apiVersions" => some { parse := fun _ => apiVersionsParse, drain := false, expectZero := has "ApiVersions" "expectZeroSize",
                            post := .firstErr [], closeOnErr := has "ApiVersions" "Close" && apiVersionsClosesNonKafka }
  | _ => none

/-- every operation that goes through (*Conn).do, plus ApiVersions (its own waitResponse call; the same rules since
the fix C11-D33: expectZeroSize, close on non-kafka errors — both regenerated facts) -/
def doOps : List String :=
  ["apiVersions", "listOffsets", "produce", "metadata", "brokers", "controller", "findCoordinator", "heartbeat", "joinGroup", "leaveGroup",
   "listGroups", "offsetCommit", "offsetFetch", "syncGroup", "saslHandshake", "saslAuthenticate", "createTopics", "deleteTopics"]

/-- ReadBatchWith skips the rest of the frame on kafka errors and the message set of a response at the high watermark,
Batch.close minds the error of its final discard (regenerated facts) -/
def fetchFixed : Bool := has "ReadBatchWith" "discardOnKafkaError" && fetchSkipsAtWatermark && batchCloseMindsDiscard

/-- the syntactic condition under which `opRead` can only end non-failed with the frame fully consumed -/
def OpSpec.good (o : OpSpec) (v : Nat) : Bool :=
  o.expectZero && (o.drain || !hasFailList (o.parse v))

end KV.ConnOps
