/-
Model/XerialIO.lean — the xerial reader of Model/Xerial.lean with the UNDERLYING io.Reader as a parameter
(Model/Source.lean: any script of short reads, (0, nil) answers and data-with-EOF answers).

`ReaderIO` = the reader state + the source's remaining script; `r.rest` are the bytes the source has not delivered
yet.  Every access to the source goes through `Source.readFull` (↔ `x.readFull` = io.ReadFull) or
`Source.readToEOF` (↔ the unframed loop with `x.read`), exactly where xerial.go calls them.
`Lemmas/XerialIO.lean` proves that the result never depends on the script (refinement of Model/Xerial.readChunk).
-/
import KafkaVerif.Model.Xerial
import KafkaVerif.Model.Source

namespace KV.Model.Xerial
open KV KV.RW KV.Model.Source

structure ReaderIO where
  r : Reader
  script : List Ans

def ReaderIO.src (x : ReaderIO) : Src := ⟨x.r.rest, x.script⟩

def headerPhaseIO (x : ReaderIO) : Option (ReaderIO × Nat) :=
  if x.r.nbytes = 0 then
    match readFull (fuelFor x.src) x.src 16 [] with
    | (h, _, s') =>
      if h = [] then none      -- `err != nil && n == 0`
      else some (⟨{ x.r with header := h ++ x.r.header.drop h.length, rest := s'.data, nbytes := h.length }, s'.script⟩, h.length)
  else some (x, 0)

def framedBodyIO (c : Codec) (x : ReaderIO) (dstLen : Nat) : ReaderIO × Chunk :=
  match readFull (fuelFor x.src) x.src 4 [] with
  | (l, st, s1) =>
    match st with
    | .eof => (⟨x.r, s1.script⟩, .eof)
    | .unexpected => (⟨{ x.r with rest := s1.data, nbytes := x.r.nbytes + l.length }, s1.script⟩, .err)
    | .ok =>
      match readFull (fuelFor s1) s1 (deN l) [] with
      | (input, st2, s2) =>
        match st2 with
        | .ok =>
          let (r', ch) := decodeInto c { x.r with rest := s2.data, nbytes := x.r.nbytes + 4 + deN l } input dstLen
          (⟨r', s2.script⟩, ch)
        | .eof => (⟨{ x.r with rest := s2.data, nbytes := x.r.nbytes + 4 }, s2.script⟩, .eof)   -- io.EOF passed on: a clean end
        | .unexpected => (⟨{ x.r with rest := s2.data, nbytes := x.r.nbytes + 4 + input.length }, s2.script⟩, .err)

def unframedBodyIO (c : Codec) (x : ReaderIO) (pre : Nat) (dstLen : Nat) : ReaderIO × Chunk :=
  match readToEOF (fuelFor x.src) x.src blockCap (x.r.header.take pre) with
  | (none, s') => (⟨x.r, s'.script⟩, .eof)
  | (some input, s') =>
    let (r', ch) := decodeInto c { x.r with rest := s'.data, nbytes := x.r.nbytes + x.r.rest.length } input dstLen
    (⟨r', s'.script⟩, ch)

def readChunkIO (c : Codec) (x : ReaderIO) (dstLen : Nat) : ReaderIO × Chunk :=
  let x : ReaderIO := ⟨{ x.r with output := [], offset := 0 }, x.script⟩
  match headerPhaseIO x with
  | none => (x, .eof)
  | some (x', pre) =>
    if x'.r.header.take 8 = Spec.Xerial.magic then framedBodyIO c x' dstLen else unframedBodyIO c x' pre dstLen

def readIO (c : Codec) : Nat → ReaderIO → Nat → ReaderIO × ReadRes
  | 0, x, _ => (x, .err)
  | fuel + 1, x, k =>
    if x.r.offset < x.r.output.length then
      let d := (x.r.output.drop x.r.offset).take k
      (⟨{ x.r with offset := x.r.offset + d.length }, x.script⟩, .data d)
    else
      match readChunkIO c x k with
      | (x', .direct b) => if b.length > 0 then (x', .data b) else readIO c fuel x' k
      | (x', .buffered) => readIO c fuel x' k
      | (x', .eof) => (x', .eof)
      | (x', .err) => (x', .err)

def readAllWithIO (c : Codec) : ReaderIO → List Nat → Option Bytes
  | _, [] => none
  | x, k :: ks =>
    match readIO c (x.r.rest.length + 2) x k with
    | (x', .data b) => (readAllWithIO c x' ks).map (b ++ ·)
    | (_, .eof) => some []
    | (_, .err) => none

end KV.Model.Xerial

namespace KV.Model.Xerial
open KV KV.RW KV.Model.Source

/-- `(*xerialWriter).ReadFrom(r)` in framed mode (what `io.Copy(compressor, bytes)` calls — the protocol encoder's
`ReadFrom` for record keys and values): read into the free space of the 32 KiB buffer, extend the input by what
arrived BEFORE looking at the error, `fullEnough` → Flush, stop at EOF (`nil`) or at an error.  (`full()`/`grow()`
is dead code in framed mode, see Model/Xerial.) -/
def readFromLoop (c : Codec) : Nat → Writer → Src → Writer × Src
  | 0, w, s => (w, s)
  | fuel + 1, w, s =>
    match s.read (blockCap - w.input.length) with
    | (b, eof, s') =>
      let w1 : Writer := { w with input := w.input ++ b }
      let w2 := if blockCap - w1.input.length < slack then flush c w1 else w1
      if eof then (w2, s') else readFromLoop c fuel w2 s'

/-- unframed mode: the same loop never flushes and grows its buffer — the read-to-EOF loop of Model/Source -/
def readFromUnframed (w : Writer) (s : Src) : Writer :=
  match (readToEOF (fuelFor s) s blockCap w.input).1 with
  | some inp => { w with input := inp }
  | none => w

end KV.Model.Xerial
