/-
Model/ReaderSystem.lean — the whole Reader: the front of Model/ReaderFront.lean (FetchMessage / SetOffset / the version
tags / the `msgs` queue) with, instead of abstract fetchers, one reader loop (Model/ReaderRun.lean) per fetcher ever
started, each running against the world of Model/ReaderWorld.lean (broker under the fetch contract, lossy network,
clock, decoder as written).  What a loop pushes into `r.msgs` goes into the queue with the loop's tag.  Core Lean only.
-/
import KafkaVerif.Model.ReaderWorld
import KafkaVerif.Model.ReaderFront

namespace KV.C02

structure CS where
  fs : FS := {}
  loops : List (Nat × RR) := []     -- the loop of every fetcher ever started, by version tag

inductive CEv
  /-- `Reader.SetOffset(o)` (also the lazy start of the first fetcher at the configured offset) -/
  | setOffset (o : Int)
  /-- a blocking call of fetcher `t`'s loop returns: whatever the world does -/
  | env (t : Nat) (x : Env)
  /-- `Reader.FetchMessage` -/
  | fetch
  deriving Repr

def lookupLoop (t : Nat) : List (Nat × RR) → Option RR
  | [] => none
  | (t', s) :: rest => if t' = t then some s else lookupLoop t rest

def setLoop (t : Nat) (s' : RR) : List (Nat × RR) → List (Nat × RR)
  | [] => []
  | (t', s) :: rest => if t' = t then (t', s') :: rest else (t', s) :: setLoop t s' rest

/-- the loop with tag `t` has pushed the messages `d` (`sendMessage` once per message) -/
def pushQ (fs : FS) (t : Nat) (d : List Rec) : FS :=
  { fs with queue := fs.queue ++ d.map (fun r => (t, r)),
            fetchers := fs.fetchers.map fun g => if g.tag = t then { g with sent := g.sent + d.length } else g }

def cstep (cfg : RCfg) (items : List Item) (c : CS) : CEv → Option (CS × Option Rec)
  | .setOffset o =>
    match fstep (allRecords items) c.fs (.setOffset o) with
    | none => none
    | some (fs', m) => some ({ fs := fs', loops := (c.fs.version + 1, { offset := o }) :: c.loops }, m)
  | .env t x =>
    match lookupLoop t c.loops with
    | none => none
    | some s =>
      let s' := rstep cfg s (worldEvent items s x)
      some ({ fs := pushQ c.fs t (s'.msgs.drop s.msgs.length), loops := setLoop t s' c.loops }, none)
  | .fetch =>
    match fstep (allRecords items) c.fs .fetch with
    | none => none
    | some (fs', m) => some ({ c with fs := fs' }, m)

/-- run events, collecting what FetchMessage returned -/
def crun (cfg : RCfg) (items : List Item) : CS → List CEv → Option (CS × List Rec)
  | c, [] => some (c, [])
  | c, e :: es =>
    match cstep cfg items c e with
    | none => none
    | some (c', m) =>
      match crun cfg items c' es with
      | none => none
      | some (c'', ms) => some (c'', (match m with | some r => [r] | none => []) ++ ms)

def CEv.ok (items : List Item) : CEv → Prop
  | .setOffset o => -2 ≤ o ∧ o ≠ -1          -- an absolute offset or FirstOffset
  | .env _ x => x.ok items
  | .fetch => True

def CEv.notSet : CEv → Prop
  | .setOffset _ => False
  | _ => True

end KV.C02
