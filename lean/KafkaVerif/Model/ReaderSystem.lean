/-
Model/ReaderSystem.lean — the whole Reader: the front of Model/ReaderFront.lean (FetchMessage / SetOffset / the version
tags / the `msgs` queue) with, instead of abstract fetchers, one reader loop (Model/ReaderLoopLTS.lean) per fetcher ever
started, each running against the world of Model/ReaderWorld.lean (broker under the fetch contract, lossy network,
clock, decoder as written).  What a loop pushes into `r.msgs` goes into the queue with the loop's tag.  Core Lean only.
-/
import KafkaVerif.Model.ReaderWorld
import KafkaVerif.Model.ReaderFront

namespace KV.C02

structure CS where
  fs : FS := {}
  loops : List (Nat × RR) := []     -- the loop of every fetcher ever started, by version tag

inductive CEv
  /-- `Reader.SetOffset(o)` (also the lazy start of the first fetcher at the configured offset) -/
  | setOffset (o : Int)
  /-- `Reader.SetOffset(LastOffset)` (or the start of a Reader configured with it).  `l` is the log end the broker will
  report to this fetcher at its first successful `initialize` (see `CEv.okAt`): that is where it starts. -/
  | setOffsetLast (l : Int)
  /-- a blocking call of fetcher `t`'s loop returns: whatever the world does -/
  | env (t : Nat) (x : Env)
  /-- `Reader.FetchMessage` -/
  | fetch
  deriving Repr

def lookupLoop (t : Nat) : List (Nat × RR) → Option RR
  | [] => none
  | (t', s) :: rest => if t' = t then some s else lookupLoop t rest

def setLoop (t : Nat) (s' : RR) : List (Nat × RR) → List (Nat × RR)
  | [] => []
  | (t', s) :: rest => if t' = t then (t', s') :: rest else (t', s) :: setLoop t s' rest

/-- the loop with tag `t` has pushed the messages `d` (`sendMessage` once per message) -/
def pushQ (fs : FS) (t : Nat) (d : List Rec) : FS :=
  { fs with queue := fs.queue ++ d.map (fun r => (t, r)),
            fetchers := fs.fetchers.map fun g => if g.tag = t then { g with sent := g.sent + d.length } else g }

def cstep (cfg : RCfg) (items : List Item) (c : CS) : CEv → Option (CS × Option Rec)
  | .setOffset o =>
    match fstep (allRecords items) c.fs (.setOffset o) with
    | none => none
    | some (fs', m) => some ({ fs := fs', loops := (c.fs.version + 1, { offset := o }) :: c.loops }, m)
  | .setOffsetLast l =>
    match fstep (allRecords items) c.fs (.setOffset l) with
    | none => none
    | some (fs', m) => some ({ fs := fs', loops := (c.fs.version + 1, { offset := -1 }) :: c.loops }, m)
  | .env t x =>
    match lookupLoop t c.loops with
    | none => none
    | some s =>
      let s' := rstep cfg s (worldEvent items s x)
      some ({ fs := pushQ c.fs t (s'.msgs.drop s.msgs.length), loops := setLoop t s' c.loops }, none)
  | .fetch =>
    match fstep (allRecords items) c.fs .fetch with
    | none => none
    | some (fs', m) => some ({ c with fs := fs' }, m)

/-- run events, collecting what FetchMessage returned -/
def crun (cfg : RCfg) (items : List Item) : CS → List CEv → Option (CS × List Rec)
  | c, [] => some (c, [])
  | c, e :: es =>
    match cstep cfg items c e with
    | none => none
    | some (c', m) =>
      match crun cfg items c' es with
      | none => none
      | some (c'', ms) => some (c'', (match m with | some r => [r] | none => []) ++ ms)

def CEv.ok (items : List Item) : CEv → Prop
  | .setOffset o => -2 ≤ o ∧ o ≠ -1          -- an absolute offset or FirstOffset
  | .setOffsetLast _ => True
  | .env _ x => x.ok items
  | .fetch => True

/-- the meaning of `l` in `setOffsetLast l`: while a fetcher started at LastOffset has not yet connected, a successful
`initialize` of it reports `l` as the last offset -/
def CEv.okAt (c : CS) : CEv → Prop
  | .env t (.initOk _ l) =>
    ∀ s, lookupLoop t c.loops = some s → s.start = none → s.offset = -1 → ∀ g ∈ c.fs.fetchers, g.tag = t → l = g.start
  | _ => True

def OkRun (cfg : RCfg) (items : List Item) : CS → List CEv → Prop
  | _, [] => True
  | c, e :: es => e.ok items ∧ e.okAt c ∧ ∀ c' m, cstep cfg items c e = some (c', m) → OkRun cfg items c' es

def CEv.notSet : CEv → Prop
  | .setOffset _ => False
  | .setOffsetLast _ => False
  | _ => True


/-! ### the API as the application sees it: `Offset()`, the no-op rule of `SetOffset`, the lazy start

reader.go: `SetOffset(o)` does nothing when `o == r.offset`; otherwise `r.offset = o` and, if a fetcher was ever started
(`r.version != 0`), `r.start`.  `FetchMessage` starts the first fetcher at `r.offset` when `r.version == 0`, then receives;
a message of the current version sets `r.offset = m.Offset + 1`. -/

structure AS where
  c : CS := {}
  pos : Int            -- r.offset, what `Reader.Offset()` returns
  closed : Bool := false   -- r.closed

inductive AEv
  | setOffset (o : Int)
  | env (t : Nat) (x : Env)
  | fetch
  /-- `Reader.Close`: from now on SetOffset fails with io.ErrClosedPipe and FetchMessage returns io.EOF right away —
  nothing is handed out any more, whatever is still queued; the loops wind down (their steps stay possible) -/
  | close
  deriving Repr

def astep (cfg : RCfg) (items : List Item) (a : AS) : AEv → Option (AS × Option Rec)
  | .close => some ({ a with closed := true }, none)
  | .setOffset o =>
    if a.closed then some (a, none)          -- io.ErrClosedPipe
    else if o = a.pos then some (a, none)
    else if a.c.fs.version = 0 then some ({ a with pos := o }, none)
    else match cstep cfg items a.c (.setOffset o) with
      | none => none
      | some (c', _) => some ({ a with c := c', pos := o }, none)
  | .env t x =>
    match cstep cfg items a.c (.env t x) with
    | none => none
    | some (c', _) => some ({ a with c := c' }, none)
  | .fetch =>
    -- the locked section of FetchMessage (lazy start) and the receive from r.msgs are two steps
    if a.closed then some (a, none)          -- io.EOF
    else if a.c.fs.version = 0 then
      match cstep cfg items a.c (.setOffset a.pos) with
      | none => none
      | some (c', _) => some ({ a with c := c' }, none)
    else
      match cstep cfg items a.c .fetch with
      | none => none
      | some (c2, m) => some ({ a with c := c2, pos := match m with | some r => r.1 + 1 | none => a.pos }, m)

def arun (cfg : RCfg) (items : List Item) : AS → List AEv → Option (AS × List Rec)
  | a, [] => some (a, [])
  | a, e :: es =>
    match astep cfg items a e with
    | none => none
    | some (a', m) =>
      match arun cfg items a' es with
      | none => none
      | some (a'', ms) => some (a'', (match m with | some r => [r] | none => []) ++ ms)

def AEv.ok (items : List Item) : AEv → Prop
  | .setOffset o => -2 ≤ o ∧ o ≠ -1
  | .env _ x => x.ok items
  | .fetch => True
  | .close => True

end KV.C02
