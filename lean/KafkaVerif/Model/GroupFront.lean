/-
Model/GroupFront.lean — the front of a group Reader: `reader.go Reader.FetchMessage` with its SAMPLED version,
`Reader.subscribe/start` (version bump per generation) and the `msgs` queue (core Lean only).

Go ↔ Lean
* `FetchMessage`: `r.mutex.Lock(); version := r.version; r.mutex.Unlock(); select { case m := <-r.msgs: if m.version >= version
  { return m } }` and back to the top of the loop otherwise                       ↔ events `call` (sample), `recv`
  (take the head of the queue: return it iff `tag ≥ sampled`, else drop it and re-sample)
* `Reader.subscribe` → `start`: cancel the previous fetchers, `r.version++`, spawn fetchers tagged with the new version
  at the assignment's offset                                                     ↔ `subscribe st` (one partition)
* `(*reader).sendMessage` of the fetcher with tag `t`                              ↔ `enqueue t`: its next offset, in order
  (`start t + sent t`: the fetcher's own gap-free feed is C02's `iterated_fetch`, a hypothesis here); a cancelled
  fetcher may still enqueue (the select in sendMessage is a free choice)
`Cfg.strictEq = true` is the variant `m.version == version` (kept for the counterexample).
Differs from Model/ReaderFront.lean (C02) in modelling the version *sampled before blocking*, which is what matters
when a generation change happens while a FetchMessage is pending.
-/
namespace KV.GroupFront

def upd (f : Nat → Nat) (t v : Nat) : Nat → Nat := fun x => if x = t then v else f x

structure GF where
  version : Nat := 0
  queue : List (Nat × Nat) := []       -- (version tag, offset)
  start : Nat → Nat := fun _ => 0      -- per tag: where its fetcher started
  sent : Nat → Nat := fun _ => 0       -- per tag: messages enqueued
  taken : Nat → Nat := fun _ => 0      -- per tag: messages taken off the queue (returned or dropped)
  returned : Nat → Nat := fun _ => 0   -- per tag: messages returned to the application
  sampled : Option Nat := none         -- a FetchMessage call is pending with this sampled version
  out : List (Nat × Nat) := []         -- ghost: everything FetchMessage returned, in order

inductive GFEv
  | call
  | subscribe (st : Nat)
  | enqueue (t : Nat)
  | recv
  deriving Repr

def accept (strictEq : Bool) (tag sampled : Nat) : Bool := if strictEq then tag == sampled else sampled ≤ tag

def fstep (strictEq : Bool) (s : GF) : GFEv → Option GF
  | .call => if s.sampled.isNone then some { s with sampled := some s.version } else none
  | .subscribe st => some { s with version := s.version + 1, start := upd s.start (s.version + 1) st }
  | .enqueue t =>
    if 1 ≤ t ∧ t ≤ s.version then
      some { s with queue := s.queue ++ [(t, s.start t + s.sent t)], sent := upd s.sent t (s.sent t + 1) }
    else none
  | .recv =>
    match s.sampled, s.queue with
    | some v, (t, o) :: rest =>
      if accept strictEq t v then
        some { s with queue := rest, taken := upd s.taken t (s.taken t + 1), returned := upd s.returned t (s.returned t + 1),
                      sampled := none, out := s.out ++ [(t, o)] }
      else
        some { s with queue := rest, taken := upd s.taken t (s.taken t + 1), sampled := some s.version }
    | _, _ => none

def frun (strictEq : Bool) : GF → List GFEv → Option GF
  | s, [] => some s
  | s, e :: es => match fstep strictEq s e with
    | some s' => frun strictEq s' es
    | none => none

inductive FReachable (strictEq : Bool) : GF → Prop
  | init : FReachable strictEq {}
  | step {s s' : GF} (e : GFEv) : FReachable strictEq s → fstep strictEq s e = some s' → FReachable strictEq s'

end KV.GroupFront
