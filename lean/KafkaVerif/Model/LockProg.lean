/-
Model/LockProg.lean — a verified must-lockset analysis over program skeletons (C10).

go/extract/accesses emits, for every function of the analysed packages, a *skeleton* `Cmd`: the lock
operations, the access sites, the static calls and the control structure (sequence, branching, loops, return,
break/continue, goroutine/closure bodies) — nothing else.  This file defines

* a concrete semantics `Run` of skeletons: which locks the executing goroutine holds at each access site, for
  every path (all branch choices, any number of loop iterations, calls into the other skeletons);
* the analysis `an`: the lockset that is held on *every* path reaching a site (intersection at joins, a checked
  invariant at loop heads, callee effects through `relOf`, entry locksets of callees checked at call sites).

Lemmas/LockProg.lean proves `an` sound w.r.t. `Run`; Props/C10.lean evaluates it on the regenerated skeletons and
checks that every lockset the Go-side extractor wrote into the access table is justified by it — so the dataflow
part of the extractor (joins, loops, caller-holds propagation) is no longer trusted, only the translation of the
syntax into skeletons and the reviewed annotations (which appear in the skeleton as `acq` marked by the extractor).
-/
import KafkaVerif.Model.Lockset

namespace KV.LockProg
open KV.Lockset

abbrev LS := List Hold

inductive Cmd where
  | skip
  | acq (x : Hold)            -- m.Lock() / m.RLock()
  | asm (x : Hold)            -- annotated: from here on `x` is ASSUMED held (func_holds, call_acquires)
  | rel (m : Mutex)           -- m.Unlock() / m.RUnlock()
  | dfr (m : Mutex)           -- defer m.Unlock(): no effect until the function returns
  | acc (occ : Nat)           -- an access site (occurrence id = `Access.site` of its table rows)
  | call (f : Nat)            -- static call of skeleton number f
  | icall (f : Nat)           -- candidate target of an interface call: runs like `call f`, but is ASSUMED not to
                              --   change the caller's lock state (a dynamically dispatched method neither returns
                              --   holding a new lock of ours nor releases one the caller holds)
  | seq (a b : Cmd)
  | alt (a b : Cmd)           -- if / switch / select: either branch
  | loop (a : Cmd)            -- for / range: any number of iterations
  | ret                       -- return / panic
  | block (a : Cmd)           -- a jump target: `jump 0` inside ends this block normally
  | jump (n : Nat)            -- break / continue / labelled break: leave the n+1 innermost enclosing blocks
                              --   (for-loop = block (loop (block body)): break = jump 1, continue = jump 0;
                              --    switch/select = block (alt arms): break = jump 0)
  | spawn (a : Cmd)           -- `go`, deferred or stored closure: runs with no lock of ours assumed
deriving Repr, Inhabited

inductive Out where
  | normal | returned | exit (n : Nat)
deriving DecidableEq, Repr

/-! ## locksets -/

def Sub (a b : LS) : Prop := ∀ x, x ∈ a → x ∈ b
def subB (a b : LS) : Bool := a.all fun x => b.contains x
def meet (a b : LS) : LS := a.filter fun x => b.contains x
def meetO : Option LS → Option LS → Option LS
  | none, y => y
  | x, none => x
  | some a, some b => some (meet a b)
/-- meet with an optional set (none = no constraint) -/
def meetL (a : LS) : Option LS → LS
  | none => a
  | some b => meet a b
def dropM (m : Mutex) (h : LS) : LS := h.filter fun x => x.m != m
def dropAll (ms : List Mutex) (h : LS) : LS := h.filter fun x => !ms.contains x.m

/-! ## concrete semantics -/

/-- mutexes released by deferred unlocks of a body (applied when the call returns) -/
def dfrs : Cmd → List Mutex
  | .dfr m => [m]
  | .seq a b => dfrs a ++ dfrs b
  | .alt a b => dfrs a ++ dfrs b
  | .loop a => dfrs a
  | .block a => dfrs a
  | _ => []

/-- what the executing goroutine does, in order: lock operations, assumed holds, accesses (site, locks held there) -/
inductive LEv where
  | acq (x : Hold)
  | asm (x : Hold)
  | rel (m : Mutex)
  | acc (k : Nat) (h : LS)
deriving Repr

/-- `Run env c h evs h' t`: executing `c` with the locks `h` held performs the events `evs` (of THIS goroutine; what
    a spawned goroutine does is a run of its own), ends holding `h'`, with outcome `t`. -/
inductive Run (env : Nat → Option Cmd) : Cmd → LS → List LEv → LS → Out → Prop where
  | skip {h} : Run env .skip h [] h .normal
  | acq {x h} : Run env (.acq x) h [.acq x] (x :: h) .normal
  | asm {x h} : Run env (.asm x) h [.asm x] (x :: h) .normal
  | rel {m h} : Run env (.rel m) h [.rel m] (dropM m h) .normal
  | dfr {m h} : Run env (.dfr m) h [] h .normal
  | acc {k h} : Run env (.acc k) h [.acc k h] h .normal
  | ret {h} : Run env .ret h [] h .returned
  | jump {n h} : Run env (.jump n) h [] h (.exit n)
  | blockN {a h o h'} : Run env a h o h' .normal → Run env (.block a) h o h' .normal
  | blockR {a h o h'} : Run env a h o h' .returned → Run env (.block a) h o h' .returned
  | block0 {a h o h'} : Run env a h o h' (.exit 0) → Run env (.block a) h o h' .normal
  | blockS {a h o h' n} : Run env a h o h' (.exit (n + 1)) → Run env (.block a) h o h' (.exit n)
  | seqN {a b h o₁ h₁ o₂ h₂ t} : Run env a h o₁ h₁ .normal → Run env b h₁ o₂ h₂ t → Run env (.seq a b) h (o₁ ++ o₂) h₂ t
  | seqX {a b h o₁ h₁ t} : Run env a h o₁ h₁ t → t ≠ .normal → Run env (.seq a b) h o₁ h₁ t
  | altL {a b h o h' t} : Run env a h o h' t → Run env (.alt a b) h o h' t
  | altR {a b h o h' t} : Run env b h o h' t → Run env (.alt a b) h o h' t
  | loop0 {a h} : Run env (.loop a) h [] h .normal
  | loopS {a h o₁ h₁ o₂ h₂ t} : Run env a h o₁ h₁ .normal →
      Run env (.loop a) h₁ o₂ h₂ t → Run env (.loop a) h (o₁ ++ o₂) h₂ t
  | loopX {a h o₁ h₁ t} : Run env a h o₁ h₁ t → t ≠ .normal → Run env (.loop a) h o₁ h₁ t
  | spawn {a h} : Run env (.spawn a) h [] h .normal
  | call {f body h o h₁ t} : env f = some body → Run env body h o h₁ t →
      Run env (.call f) h (o ++ (dfrs body).map .rel) (dropAll (dfrs body) h₁) .normal
  /-- an interface-dispatched callee: like `call`, restricted to the runs in which it does not take away a lock its
      caller holds — THE ASSUMPTION about dynamically dispatched methods (Model header, `icall`) -/
  | icall {f body h o h₁ t} : env f = some body → Run env body h o h₁ t →
      (∀ x, x ∈ h → x ∈ dropAll (dfrs body) h₁) →
      Run env (.icall f) h (o ++ (dfrs body).map .rel) (dropAll (dfrs body) h₁) .normal

/-! ## the analysis -/

structure Res where
  rows : List (Nat × LS) := []
  calls : List (Nat × LS) := []
  out : Option LS := none
  exits : List (Option LS) := []   -- exits[n]: the lockset with which `jump n` may leave (none = no such path)
deriving Repr, Inhabited

def exitAt (l : List (Option LS)) (n : Nat) : Option LS := l.getD n none

def meetX : List (Option LS) → List (Option LS) → List (Option LS)
  | [], ys => ys
  | xs, [] => xs
  | x :: xs, y :: ys => meetO x y :: meetX xs ys

def loopOk (inv : LS) (r : Res) : Bool :=
  match r.out with | none => true | some o => subB inv o

/-- the loop-head invariant for a body analysis `f`: the candidate `L ∩ out(L)` if the body preserves it, else ∅ -/
def invOfWith (f : LS → Res) (L : LS) : LS :=
  let cand := meetL L (f L).out
  if loopOk cand (f cand) then cand else []

/-- the analysis: `an relOf c L` for a command reached with (at least) the locks `L` held -/
def an (relOf : Nat → List Mutex) : Cmd → LS → Res
  | .skip, L => { out := some L }
  | .acq x, L => { out := some (x :: L) }
  | .asm x, L => { out := some (x :: L) }
  | .rel m, L => { out := some (dropM m L) }
  | .dfr _, L => { out := some L }
  | .acc k, L => { rows := [(k, L)], out := some L }
  | .ret, _ => {}
  | .jump n, L => { exits := List.replicate n none ++ [some L] }
  | .call f, L => { calls := [(f, L)], out := some (dropAll (relOf f) L) }
  | .icall f, L => { calls := [(f, L)], out := some L }
  | .spawn a, L =>
      let r := an relOf a []
      { rows := r.rows, calls := r.calls, out := some L }
  | .block a, L =>
      let r := an relOf a L
      { rows := r.rows, calls := r.calls, out := meetO r.out (exitAt r.exits 0), exits := r.exits.drop 1 }
  | .seq a b, L =>
      let ra := an relOf a L
      match ra.out with
      | none => ra
      | some L₁ =>
        let rb := an relOf b L₁
        { rows := ra.rows ++ rb.rows, calls := ra.calls ++ rb.calls, out := rb.out, exits := meetX ra.exits rb.exits }
  | .alt a b, L =>
      let ra := an relOf a L
      let rb := an relOf b L
      { rows := ra.rows ++ rb.rows, calls := ra.calls ++ rb.calls, out := meetO ra.out rb.out, exits := meetX ra.exits rb.exits }
  | .loop a, L =>
      let inv := invOfWith (an relOf a) L
      let r := an relOf a inv
      { rows := r.rows, calls := r.calls, out := some inv, exits := r.exits }

/-! ## whole-program conditions (checked by evaluation on the generated skeletons) -/

/-- mutexes a command may release, callees through `relOf` -/
def relSet (relOf : Nat → List Mutex) : Cmd → List Mutex
  | .rel m => [m]
  | .dfr m => [m]
  | .call f => relOf f
  | .seq a b => relSet relOf a ++ relSet relOf b
  | .alt a b => relSet relOf a ++ relSet relOf b
  | .loop a => relSet relOf a
  | .block a => relSet relOf a
  | _ => []

/-! binary-heap indexed tries: table lookups that the kernel evaluates in O(log n) -/

inductive Trie (α : Type) where
  | nil
  | node (v : Option α) (z o : Trie α)
deriving Repr

def Trie.get {α : Type} : Trie α → Nat → Option α
  | .nil, _ => none
  | .node v z o, n => if n = 0 then v else if (n - 1) % 2 = 0 then z.get ((n - 1) / 2) else o.get ((n - 1) / 2)

def getL (t : Trie (List Mutex)) (i : Nat) : List Mutex := (t.get i).getD []
def getLS (t : Trie LS) (i : Nat) : LS := (t.get i).getD []

/-- the program: numbered bodies; `envOf` is its lookup function (used in statements, never evaluated) -/
def envOf (fs : List (Nat × Cmd)) : Nat → Option Cmd := fun f => (fs.find? fun p => p.1 == f).map (·.2)

/-- `rel` covers everything each body may release -/
def relOkB (fs : List (Nat × Cmd)) (rel : Trie (List Mutex)) : Bool :=
  fs.all fun p => (relSet (getL rel) p.2).all fun m => (getL rel p.1).contains m

/-- every call site (found when analysing each body from its entry lockset) holds the callee's entry lockset -/
def entryOkB (fs : List (Nat × Cmd)) (rel : Trie (List Mutex)) (entry : Trie LS) : Bool :=
  fs.all fun p => (an (getL rel) p.2 (getLS entry p.1)).calls.all fun c => subB (getLS entry c.1) c.2

/-- all (site, lockset) rows of the program -/
def allRows (fs : List (Nat × Cmd)) (rel : Trie (List Mutex)) (entry : Trie LS) : List (Nat × LS) :=
  fs.flatMap fun p => (an (getL rel) p.2 (getLS entry p.1)).rows

/-- the real locks of a table row: tokens (annotated ordering protocols) are not locks -/
def realLocks (tokens : List Mutex) (a : Access) : LS := a.locks.filter fun x => !tokens.contains x.m

/-- a table row is justified: at every row the analysis has for its site, its real locks are held — and there is one -/
def justifiedB (rows : List (Nat × LS)) (tokens : List Mutex) (a : Access) : Bool :=
  (realLocks tokens a).isEmpty ||
    ((rows.any fun r => r.1 == a.site) && (rows.all fun r => r.1 != a.site || subB (realLocks tokens a) r.2))

/-- the skeleton numbers a command calls -/
def targets : Cmd → List Nat
  | .call f => [f]
  | .icall f => [f]
  | .seq a b => targets a ++ targets b
  | .alt a b => targets a ++ targets b
  | .loop a => targets a
  | .block a => targets a
  | .spawn a => targets a
  | _ => []

/-- the bodies are numbered 0, 1, 2, … in order, and every call names one of them: no call is dangling (a dangling
    call would have no run at all and silently remove behaviours from the semantics) -/
def indexedB (fs : List (Nat × Cmd)) : Bool := fs.zipIdx.all fun q => q.1.1 == q.2
def targetsOkB (fs : List (Nat × Cmd)) : Bool := fs.all fun p => (targets p.2).all fun f => decide (f < fs.length)

/-- may a skeleton with this name inherit locks from its callers?  Only a function literal (`outer$n`: entered where it
    is written / where the parameter it is passed for is called) or a function whose own name (last segment) is not
    exported; an exported function or method can be entered from other packages with nothing held. -/
def lastSeg : List Char → List Char → List Char
  | [], acc => acc.reverse
  | c :: cs, acc => if c = '.' then lastSeg cs [] else lastSeg cs (c :: acc)

def inheritOk (name : String) : Bool :=
  let cs := name.toList
  cs.contains '$' ||
    (match lastSeg cs [] with
     | c :: _ => !(decide (65 ≤ c.toNat) && decide (c.toNat ≤ 90))
     | [] => false)

/-- every skeleton with a non-empty entry lockset may have one -/
def entryRootsOkB (names : List String) (entry : Trie LS) : Bool :=
  (names.zipIdx).all fun p => (getLS entry p.2).isEmpty || inheritOk p.1

/-- the analysis rows, indexed by site in a trie (an untrusted hint, checked against `allRows` by `rowsIndexedB`) -/
def rowsIndexedB (rows : List (Nat × LS)) (t : Trie LS) : Bool := rows.all fun r => decide (t.get r.1 = some r.2)

/-- both whole-program checks in one pass over the bodies (one evaluation of the analysis per body) -/
def checkAllB (fs : List (Nat × Cmd)) (rel : Trie (List Mutex)) (entry : Trie LS) (t : Trie LS) : Bool :=
  fs.all fun p =>
    let r := an (getL rel) p.2 (getLS entry p.1)
    (r.calls.all fun c => subB (getLS entry c.1) c.2) && (r.rows.all fun x => decide (t.get x.1 = some x.2))

def justT (t : Trie LS) (tokens : List Mutex) (a : Access) : Bool :=
  (realLocks tokens a).isEmpty || (match t.get a.site with | some L => subB (realLocks tokens a) L | none => false)

end KV.LockProg
