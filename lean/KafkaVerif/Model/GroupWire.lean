/-
Model/GroupWire.lean — the two client-side payloads of the group protocol at BYTE level (core Lean only):
`groupMetadata` (joingroup.go: what a member puts into JoinGroup, what the leader's `makeMemberProtocolMetadata`
reads) and `groupAssignment` (syncgroup.go: what `makeSyncGroupRequestV0` writes per member, what `syncGroup`
reads).  Writers are built from Base/LegacyWire.lean (`write.go`), readers from Base/Reader.lean (`read.go`).

Go ↔ Lean
  groupMetadata.writeTo                 ↔ `writeMetadata`      (int16 version, string array, bytes; nil bytes = length −1)
  groupMetadata.readFrom                ↔ `readMetadata`       (readInt16, readStringArray, readBytes)
  groupAssignment.writeTo               ↔ `writeAssignment`    (int16 version, int32 count, per entry string + int32 array, bytes)
  groupAssignment.readFrom              ↔ `readAssignment`     (size 0 ⇒ empty; readInt16, readMapStringInt32, readBytes)
  readArrayWith / readStringArray / readMapStringInt32 (the entry loop; `content[key] = values` is done by the caller
  of `readAssignment` on the returned entry list — Model/GroupGlue.lean `decodeAssignment`)
-/
import KafkaVerif.Base.Reader
import KafkaVerif.Base.LegacyWire

namespace KV.GroupWire
open KV KV.Reader KV.Legacy KV.Wire

/-- `for n := int(len); n > 0; n-- { cb }` collecting what the callbacks append -/
def readTimes {α : Type} (cb : R α) : Nat → R (List α)
  | 0 => rpure []
  | k + 1 => rbind cb (fun a => rbind (readTimes cb k) (fun as => rpure (a :: as)))

/-- read.go `readArrayWith` with a callback that appends one element -/
def readArrayWith {α : Type} (cb : R α) : R (List α) :=
  rbind (readInt 4) (fun n => readTimes cb n.toNat)

/-- read.go `readStringArray` -/
def readStringArray : R (List Bytes) := readArrayWith readString

/-- `[]byte` that may be nil: `writeBytes` writes length −1 for nil -/
def writeOptBytes : Option Bytes → Bytes
  | none => encInt 4 (-1)
  | some b => writeBytes b

structure Metadata where
  version : Int
  topics : List Bytes
  userData : Option Bytes
deriving Repr, DecidableEq

/-- joingroup.go `groupMetadata.writeTo` -/
def writeMetadata (m : Metadata) : Bytes :=
  writeInt16 m.version ++ writeStringArray m.topics ++ writeOptBytes m.userData

/-- joingroup.go `groupMetadata.readFrom`: (version, topics, user data — nil and empty both read as empty) -/
def readMetadata : R (Int × List Bytes × Bytes) :=
  rbind (readInt 2) fun v => rbind readStringArray fun ts => rbind readBytes fun u => rpure (v, ts, u)

structure Assignment where
  version : Int
  entries : List (Bytes × List Int)      -- the `Topics` map in the order `range` yields it
  userData : Option Bytes
deriving Repr, DecidableEq

def writeEntry (e : Bytes × List Int) : Bytes := writeString e.1 ++ writeInt32Array e.2

/-- syncgroup.go `groupAssignment.writeTo` -/
def writeAssignment (a : Assignment) : Bytes :=
  writeInt16 a.version ++ writeInt32 a.entries.length ++ writeEach a.entries writeEntry ++ writeOptBytes a.userData

/-- one iteration of `readMapStringInt32`: key, then `readArrayWith` of int32 values -/
def readEntry : R (Bytes × List Int) :=
  rbind readString fun k => rbind (readArrayWith (readInt 4)) fun vs => rpure (k, vs)

/-- read.go `readMapStringInt32` up to the map insertions: the entries in wire order -/
def readEntries : R (List (Bytes × List Int)) :=
  rbind (readInt 4) (fun n => readTimes readEntry n.toNat)

/-- syncgroup.go `groupAssignment.readFrom` -/
def readAssignment : R (Int × List (Bytes × List Int) × Bytes) := fun s =>
  if s.sz = 0 then (.ok (0, [], []), s)
  else (rbind (readInt 2) fun v => rbind readEntries fun es => rbind readBytes fun u => rpure (v, es, u)) s

end KV.GroupWire
