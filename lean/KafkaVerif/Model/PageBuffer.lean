/-
Model/PageBuffer.lean — the DATA path of protocol/buffer.go's `pageBuffer` / `contiguousPages` / `page` / `pageRef`
(core Lean only): bytes spread over fixed-size pages, addressed by absolute offsets through index arithmetic.

  `PB`            ↔ `pageBuffer.pages` as the list of the valid bytes of every page (`page.buffer[:page.length]`);
                    page k was created by `newPage(int64(pb.length))` when `pb.length = k·P`, so `page.offset = k·P`
  `P`             ↔ `pageSize` (a parameter: nothing below depends on 65536)
  `write`         ↔ `(*pageBuffer).Write`: fill the tail page (`fill`), append new pages (`chunk`: the loop unrolled)
  `indexOf`       ↔ `contiguousPages.indexOf`: `(offset - pages[0].offset) / pageSize`
  `slice`         ↔ `contiguousPages.slice(begin, end)`: pages `indexOf(begin) .. indexOf(end)` (inclusive when it exists)
  `pageSlice`     ↔ `(*page).slice(begin, end)`: clamp both ends into the page
  `scan`          ↔ `contiguousPages.scan`: concatenation of the page slices (what CRC and WriteTo see)
  `readAt`        ↔ `contiguousPages.ReadAt` over `(*page).ReadAt`
  `writeAt`       ↔ `contiguousPages.WriteAt` over `(*page).WriteAt` for ranges inside the written part
                    (how `writeToVersion1/2` and `RecordSet.WriteTo` back-patch sizes and checksums)
  `truncate`      ↔ `(*pageBuffer).Truncate`
  `refRead`       ↔ `pageRef` created by `refTo(begin, end)` and read with `ReadAt`/`Read`: `ref.pages = slice(begin,end)`,
                    reads go through `ref.pages.ReadAt` with absolute offsets (the first page of the ref is not page 0:
                    `indexOf` subtracts `pages[0].offset`)
-/
import KafkaVerif.Base.Bytes

namespace KV.Model.PageBuffer
open KV

/-- pages in order; `base` = absolute offset of the first page (0 for a buffer, `i·P` for the pages of a ref) -/
structure PB where
  base : Nat
  pages : List Bytes
  deriving DecidableEq, Repr

def flat (pb : PB) : Bytes := pb.pages.flatten

/-- all pages but the last are full; the last holds at most `P` bytes; the base is page aligned -/
def Contig (P : Nat) : List Bytes → Prop
  | [] => True
  | [pg] => pg.length ≤ P
  | pg :: rest => pg.length = P ∧ Contig P rest

/-- the iterations of `Write`'s loop after the tail page has been filled: every further page takes up to `P` bytes -/
def chunk (P : Nat) : Nat → Bytes → List Bytes
  | 0, b => [b]
  | fuel + 1, b => if b.length ≤ P then [b] else b.take P :: chunk P fuel (b.drop P)

/-- first iteration of the loop: `free := tail.Cap() - tail.Len()`; everything fits, or fill the tail and go on -/
def fill (P : Nat) (tail b : Bytes) : List Bytes :=
  let free := P - tail.length
  if b.length ≤ free then [tail ++ b] else (tail ++ b.take free) :: chunk P b.length (b.drop free)

/-- `Write(b)` for non-empty `b`: the pages before the tail are untouched -/
def writePages (P : Nat) : List Bytes → Bytes → List Bytes
  | [], b => fill P [] b                                  -- `if len(pb.pages) == 0 { append(newPage()) }`
  | [tail], b => fill P tail b
  | pg :: rest, b => pg :: writePages P rest b

def write (P : Nat) (pb : PB) (b : Bytes) : PB :=
  if b = [] then pb else { pb with pages := writePages P pb.pages b }

/-- the pages with their absolute offsets (`page.offset`): base, base+P, base+2P, … -/
def withOffs (P : Nat) : Nat → List Bytes → List (Nat × Bytes)
  | _, [] => []
  | base, pg :: rest => (base, pg) :: withOffs P (base + P) rest

def indexOf (P : Nat) (pb : PB) (off : Nat) : Nat := (off - pb.base) / P

/-- `pages[i:j]` with `j++` when `j < len(pages)`; returns the pages with their absolute offsets -/
def slice (P : Nat) (pb : PB) (b e : Nat) : List (Nat × Bytes) :=
  let i := indexOf P pb b
  let j := indexOf P pb e
  let j' := if j < pb.pages.length then j + 1 else j
  ((withOffs P pb.base pb.pages).drop i).take (j' - i)

/-- `(*page).slice(begin, end)` on the valid bytes of a page at absolute offset `off` -/
def pageSlice (P : Nat) (off : Nat) (pg : Bytes) (b e : Nat) : Bytes :=
  let i := min (b - off) P
  let j := min (e - off) P
  if i < j then (pg.take j).drop i else []

def scan (P : Nat) (pb : PB) (b e : Nat) : Bytes :=
  ((slice P pb b e).map fun (off, pg) => pageSlice P off pg b e).flatten

/-- `contiguousPages.ReadAt(buf, off)` with `len(buf) = n`: page after page, the offset advancing by what was copied -/
def readPages (P : Nat) : List (Nat × Bytes) → Nat → Nat → Bytes
  | [], _, _ => []
  | (po, pg) :: rest, off, n =>
    let rel := off - po
    let got := if rel > pg.length then [] else (pg.drop rel).take n      -- `copy(b, p.buffer[off:p.length])`
    got ++ readPages P rest (off + got.length) (n - got.length)

def readAt (P : Nat) (pb : PB) (off n : Nat) : Bytes := readPages P (slice P pb off (off + n)) off n

/-- overwrite inside one page: `copy(p.buffer[off:], b)` -/
def pageWriteAt (pg : Bytes) (rel : Nat) (b : Bytes) : Bytes × Nat :=
  let n := min b.length (pg.length - rel)
  (pg.take rel ++ b.take n ++ pg.drop (rel + n), n)

def overwritePages (P : Nat) : List Bytes → Nat → Nat → Bytes → List Bytes
  | [], _, _, _ => []
  | pg :: rest, po, off, b =>
    if b = [] ∨ off ≥ po + P then pg :: overwritePages P rest (po + P) off b
    else
      let (pg', n) := pageWriteAt pg (off - po) b
      pg' :: overwritePages P rest (po + P) (off + n) (b.drop n)

/-- `WriteAt(b, off)` for `off + len(b) ≤ Size()` -/
def writeAt (P : Nat) (pb : PB) (b : Bytes) (off : Nat) : PB :=
  { pb with pages := overwritePages P pb.pages pb.base off b }

def truncPages : List Bytes → Nat → List Bytes
  | [], _ => []
  | pg :: rest, n =>
    if pg.length ≤ n then pg :: truncPages rest (n - pg.length)
    else if n > 0 then [pg.take n] else []

/-- `Truncate(n)` -/
def truncate (pb : PB) (n : Nat) : PB := if n < (flat pb).length then { pb with pages := truncPages pb.pages n } else pb

/-- `refTo(begin, end)`: the pages of the slice, kept with the absolute offset of the first one -/
def refTo (P : Nat) (pb : PB) (b e : Nat) : PB :=
  match slice P pb b e with
  | [] => ⟨b, []⟩
  | (off, pg) :: rest => ⟨off, pg :: rest.map (·.2)⟩

/-- `(*pageRef).ReadAt(buf, off)` for a ref `[begin, begin+length)`: `limit`, clipping, then `ref.pages.ReadAt` -/
def refReadAt (P : Nat) (ref : PB) (begin length off n : Nat) : Bytes :=
  let limit := begin + length
  let o := off + begin
  if o ≥ limit then []
  else
    let n := if o + n > limit then limit - o else n
    readAt P ref o n

end KV.Model.PageBuffer
