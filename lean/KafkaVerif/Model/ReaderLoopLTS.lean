/-
Model/ReaderLoopLTS.lean — reader.go `(*reader).run` (with `initialize` and `read`) as a total labelled transition system:
the reconnect / backoff loop with every error class.  Core Lean only.

State = the variables of `run` (offset, attempt, errcount, the Conn's offset, where in the loop we are) plus what
has been pushed into `r.msgs` (messages and errors).  Events = the outcomes of the blocking calls, chosen by the
environment: `sleep(ctx, backoff(…))`, `initialize`, one `read` (a whole fetch round, Model/MessageSetReader.readAll,
or the ways it can fail).  `rstep` is total: an event that cannot occur in a state leaves it unchanged.
Model/ReaderLoop.lean (`onAnswer`, `simulate`) is the executable instance used by the oracle; this file is the one
the general theorems (`Props/C02` §3) are about.
-/
import KafkaVerif.Model.MessageSetReader
import KafkaVerif.Spec.Layout

namespace KV.C02

inductive Phase
  | top        -- at the head of the outer `for attempt …` loop (no connection)
  | reading    -- inside `readLoop` with an open connection
  | stopped    -- run has returned
  deriving DecidableEq, Repr

structure RCfg where
  maxAttempts : Nat := 3
  offsetOutOfRangeError : Bool := false

structure RR where
  phase : Phase := .top
  offset : Int                 -- `offset`: LastOffset (-1) / FirstOffset (-2) / absolute
  attempt : Nat := 0
  errcount : Nat := 0
  slept : Bool := false        -- the backoff sleep of the current iteration is over
  connOff : Int := 0           -- conn.offset (meaningful while reading)
  msgs : List Rec := []        -- messages pushed into r.msgs, in order
  errors : List Nat := []      -- errors pushed into r.msgs (Kafka error code, 0 = other)
  start : Option Int := none   -- ghost: the absolute offset the first successful initialize resolved
  deriving Repr

inductive REv
  /-- `sleep(ctx, backoff(attempt | errcount, …))` returned true -/
  | sleepOk
  /-- … returned false: the context was cancelled -/
  | sleepCancel
  /-- `initialize` failed: dial error, readOffsets error, or (`oor`) Seek answered OffsetOutOfRange -/
  | initFail (oor : Bool)
  /-- `initialize` succeeded against a partition whose first / last offsets are these -/
  | initOk (first last : Int)
  /-- `read`: a fetch round that decoded `d`, left the Conn at `off'` and ended with `oc` -/
  | data (d : List Rec) (off' : Int) (oc : Outcome)
  /-- `read`: the connection died after `d` had been sent on -/
  | cutAfter (d : List Rec)
  /-- `read`: partition error `code`; for OffsetOutOfRange (1) also what `readOffsets` then says (none = it failed) -/
  | kerr (code : Nat) (offsets : Option (Int × Int))
  /-- `read`: io.ErrNoProgress / any other non-Kafka error (time-out, reset, …) -/
  | ioErr
  /-- `read`: context.Canceled (sendMessage lost against ctx.Done) after the messages `d` of the round had been sent on -/
  | ctxCanceled (d : List Rec)
  /-- `read`: errUnknownCodec -/
  | unknownCodec
  deriving Repr

/-- offset the connection is seeked to by `initialize` -/
def resolve (offset first last : Int) : Int :=
  if offset = -2 then first else if offset = -1 then last else if offset < first then first else offset

def pushMsgs (s : RR) (d : List Rec) : RR :=
  { s with msgs := s.msgs ++ d, offset := match d.getLast? with | some r => r.1 + 1 | none => s.offset }

/-- `break readLoop`: back to the head of the outer loop; its post statement increments `attempt` -/
def toTop (s : RR) : RR := { s with phase := .top, attempt := s.attempt + 1, slept := false }

/-- next iteration of `readLoop` -/
def again (s : RR) (errcount : Nat) : RR := { s with errcount := errcount, slept := false }

/-- `read` came back with a partition error: the `case errors.Is(err, …)` clauses of `readLoop` -/
def onKerr (s : RR) : Nat → Option (Int × Int) → RR
  | 6, _ => toTop s                         -- NotLeaderForPartition: conn.Close(); break readLoop
  | 3, _ => toTop s                         -- UnknownTopicOrPartition: conn.Close(); break readLoop
  | 7, _ => again s 0                       -- RequestTimedOut: retry
  | 1, none => toTop s                      -- OffsetOutOfRange and readOffsets failed: conn.Close(); break readLoop
  | 1, some (first, last) =>                -- OffsetOutOfRange
    if s.offset < first then again { s with offset := first, connOff := first } 0
    else if s.offset < last then again s 0
    else again s (s.errcount + 1)
  | code, _ => again { s with errors := s.errors ++ [code] } (s.errcount + 1)   -- any other Kafka error: sendError, retry

def rstep (cfg : RCfg) (s : RR) (e : REv) : RR :=
  match s.phase with
  | .stopped => s
  | .top =>
    if s.attempt ≠ 0 ∧ !s.slept then
      match e with
      | .sleepOk => { s with slept := true }
      | .sleepCancel => { s with phase := .stopped }
      | _ => s
    else
      match e with
      | .initFail true =>
        if cfg.offsetOutOfRangeError then { s with phase := .stopped, errors := s.errors ++ [1] }
        else { s with attempt := s.attempt + 1, slept := false }
      | .initFail false =>
        { s with attempt := s.attempt + 1, slept := false,
                 errors := if s.attempt ≥ cfg.maxAttempts then s.errors ++ [0] else s.errors }
      | .initOk first last =>
        let off := resolve s.offset first last
        if off > last then
          -- Seek refuses: the same as `initFail true`
          if cfg.offsetOutOfRangeError then { s with phase := .stopped, errors := s.errors ++ [1] }
          else { s with attempt := s.attempt + 1, slept := false }
        else
          { s with phase := .reading, attempt := 0, errcount := 0, slept := false, offset := off, connOff := off,
                   start := match s.start with | some x => some x | none => some off }
      | _ => s
  | .reading =>
    if !s.slept then
      match e with
      | .sleepOk => { s with slept := true }
      | .sleepCancel => { s with phase := .stopped }      -- conn.Close(); return
      | _ => s
    else
      match e with
      | .data d off' oc =>
        let s1 := { pushMsgs s d with connOff := off' }
        match oc with
        | .eof => again s1 0
        | .timedOut => again s1 0
        | .unexpectedEOF => toTop s1
        | .desync => { s1 with phase := .stopped }          -- the process would be gone
      | .cutAfter d => toTop (pushMsgs s d)
      | .kerr code offs => onKerr s code offs
      | .ioErr => toTop s
      | .ctxCanceled d => { pushMsgs s d with phase := .stopped }
      | .unknownCodec => toTop { s with errors := s.errors ++ [0] }
      | _ => s

def rrun (cfg : RCfg) : RR → List REv → RR
  | s, [] => s
  | s, e :: es => rrun cfg (rstep cfg s e) es

end KV.C02
