/-
Model/FetcherDeadlines.lean — the blocking network operations of a partition fetcher and what ends them (core Lean only).

`Model/FetcherLife.lean` reports the *return* of a network operation as an event (`init`, `read`, `offsets`); its
progress theorem used "every network call returns" as a hypothesis.  This file makes the hypothesis a parameter that is
regenerated from the source: a socket read that is blocked does not observe the context — `Reader.Close` only cancels
the context and waits — so an operation returns against a broker that has stopped answering only if a connection
deadline bounds it:

  offsets   the offsets requests of `initialize` (readOffsets, then the Seek that checks against them) and the
            readOffsets after an OffsetOutOfRange fetch: `conn.SetDeadline(now + 10 s)` armed by the helper
            (Gen fact `fetcherOffsetRequestsHaveDeadline`)
  read      `r.read`: `conn.SetReadDeadline` before the fetch (Gen fact `fetcherReadHasDeadline`)
  (the dial is bounded by the Dialer's timeout: C18)

`stepSilent f` is `FetcherLife.step` against a silent broker: the return event of an operation is possible only when
its deadline fact holds.
-/
import KafkaVerif.Model.FetcherLife
namespace KV.FetcherLife

structure NetFacts where
  offsets : Bool
  read : Bool
deriving Repr, DecidableEq

/-- the deadline that has to end the network operation whose return the event reports -/
def Event.deadline : Event → Option (NetFacts → Bool)
  | .init _ => some (·.offsets)
  | .read _ => some (·.read)
  | .offsets _ => some (·.offsets)
  | _ => none

/-- one step against a broker that has stopped answering -/
def stepSilent (f : NetFacts) (s : State) (e : Event) : Option State :=
  match e.deadline with
  | some b => if b f then step s e else none
  | none => step s e

/-- the operation the fetcher is blocked in, if any: inside `initialize` / `r.read` once the preceding sleep is over,
and inside the readOffsets that follows an OffsetOutOfRange fetch -/
def blockedIn (s : State) : Option (NetFacts → Bool) :=
  match s.pc with
  | .oor => some (·.offsets)
  | .top => if s.sampled then none else some (·.offsets)
  | .iterating => if s.sampled then none else some (·.read)
  | _ => none

end KV.FetcherLife
