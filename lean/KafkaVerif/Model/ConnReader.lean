/-
Model/ConnReader.lean — byte-level model of the Conn/Batch read path on COMPLETE (untruncated) message sets
(core Lean only): what message_reader.go reads field by field and what `Batch.ReadMessage` hands out.

  `connVarBytes`, `connBytes`   ↔ read.go `readNewBytes` behind `runFunc` / `readBytesWith`: a length ≤ 0 gives nil
                                  (null and empty are not distinguished on this path — the property says so)
  `connHeaderRec`               ↔ `readMessageHeader` (key: `readNewString`, value: `readNewBytes`)
  `connRecordV2`                ↔ `readMessageV2` from `remainBefore := r.remain` on: length (only used for the
                                  truncation accounting), attributes, timestampDelta, offsetDelta, key, value, headers
  `connBatchV2`                 ↔ `readHeader` `case 2` + `readMessageV2`'s compression branch (`length - 49` bytes
                                  through the codec, records then read from the decompressed buffer) + `count` records
  `connMessageV1`               ↔ `readHeader` `case 0/1` + `readMessageV1`: plain message, or wrapper: skip the 4 key
                                  length bytes, decompress the value, `extractOffset`, inner messages with `offset += base`
  `connReadSet`                 ↔ the sequence of `ReadMessage` calls until the set is exhausted (no CRC is checked
                                  on this path; the offset bookkeeping / skipping below the fetch offset / truncation
                                  is the C02 builder's `Model/MessageSetReader`, see `decoders_agree_bytes`)
-/
import KafkaVerif.Spec.RecordBatch
import KafkaVerif.Gen.RecordConsts

namespace KV.Model.ConnReader
open KV KV.RW KV.Spec.RB

/-- `h.compression()`: `attributes & compressionCodecMask` with the mask found in message_reader.go now -/
def connCodecOf (a : Int) : Int := a % ((Gen.RecordConsts.legacyCompressionMask + 1 : Nat) : Int)

def connVarBytes (bs : Bytes) : Option (Option Bytes × Bytes) :=
  match readVarint bs with
  | none => none
  | some (n, r) =>
    if n < 0 then some (none, r)                 -- null: nil; empty (0) is an empty non-nil slice since fix 4db07b4
    else match takeN n.toNat r with
      | some (b, r') => some (some b, r')
      | none => none

def connHeaderRec (bs : Bytes) : Option (Hdr × Bytes) :=
  match connVarBytes bs with
  | none => none
  | some (k, r) =>
    match connVarBytes r with
    | none => none
    | some (v, r') => some (⟨k.getD [], v⟩, r')

def connHeaders : Nat → Bytes → Option (List Hdr × Bytes)
  | 0, bs => some ([], bs)
  | n + 1, bs =>
    match connHeaderRec bs with
    | none => none
    | some (h, r) =>
      match connHeaders n r with
      | none => none
      | some (hs, r') => some (h :: hs, r')

def connRecordV2 (base first : Int) (bs : Bytes) : Option (Rec × Bytes) :=
  match readVarint bs with
  | none => none
  | some (_, r0) =>
    match r0 with
    | [] => none
    | _ :: r1 =>
      match readVarint r1 with
      | none => none
      | some (td, r2) =>
        match readVarint r2 with
        | none => none
        | some (od, r3) =>
          match connVarBytes r3 with
          | none => none
          | some (k, r4) =>
            match connVarBytes r4 with
            | none => none
            | some (v, r5) =>
              match readVarint r5 with
              | none => none
              | some (nh, r6) =>
                if nh > 0 then
                  match connHeaders nh.toNat r6 with
                  | none => none
                  | some (hs, r7) => some (⟨base + od, first + td, k, v, hs⟩, r7)
                else some (⟨base + od, first + td, k, v, []⟩, r6)

def connRecordsV2 (base first : Int) : Nat → Bytes → Option (List Rec × Bytes)
  | 0, bs => some ([], bs)
  | n + 1, bs =>
    match connRecordV2 base first bs with
    | none => none
    | some (r, rest) =>
      match connRecordsV2 base first n rest with
      | none => none
      | some (rs, rest') => some (r :: rs, rest')

/-- `attributes & <mask> != 0` for the masks message_reader.go tests NOW (Gen/RecordConsts; the timestamp type since fix
a925b8a / C02-D31) -/
def connMaskTest (masks : List Nat) (a : Int) : Bool := masks.any fun m => (a / (m : Int)) % 2 = 1
def connLogAppendV2 (a : Int) : Bool := connMaskTest Gen.RecordConsts.legacyStampMasksV2 a
def connLogAppendV1 (a : Int) : Bool := connMaskTest Gen.RecordConsts.legacyStampMasksV1 a

/-- readHeader: `if attributes&controlBatchMask != 0` — a control batch (transaction marker) is passed over like an empty
batch: `count = 0`, its payload (`length - 49` bytes) discarded (fix 314fa1c / C02) -/
def connIsControl (a : Int) : Bool := connMaskTest Gen.RecordConsts.legacyHeaderMasks a

/-- readMessageV2: `if attributes&timestampTypeMask != 0 { timestamp = lastTimestamp }` on every record -/
def connStampV2 (attributes lastTimestamp : Int) (x : Option (List Rec × Bytes)) : Option (List Rec × Bytes) :=
  match x with
  | none => none
  | some (rs, rest) => some (rs.map (stamp (connLogAppendV2 attributes) lastTimestamp), rest)

/-- one v2 batch: header fields in wire order (the CRC is read and ignored), then the records -/
def connBatchV2 (dec : Int → Bytes → Option Bytes) (bs : Bytes) : Option (List Rec × Bytes) :=
  match readI64 bs with
  | none => none
  | some (base, r1) =>
    match readI32 r1 with
    | none => none
    | some (len, r2) =>
      match readI32 r2 with                  -- partition leader epoch
      | none => none
      | some (epoch, r3) =>
        match readI8 r3 with                 -- magic
        | none => none
        | some (_, r4) =>
          match readU32 r4 with              -- crc (not checked on this path)
          | none => none
          | some (_, body) =>
            -- attributes, lastOffsetDelta, firstTimestamp, lastTimestamp, producerID, producerEpoch, baseSequence, count
            match readFrameBody base epoch body with
            | none => none
            | some f =>
              if connIsControl f.attributes then
                if len - 49 > 0 then
                  match takeN (len - 49).toNat f.payload with
                  | none => none
                  | some (_, rest) => some ([], rest)
                else some ([], f.payload)
              else if f.count < 0 then none
              else if connCodecOf f.attributes = 0 then
                -- f.payload = everything after the header: the records are read from the stream itself
                connStampV2 f.attributes f.maxTs (connRecordsV2 f.baseOffset f.firstTs f.count.toNat f.payload)
              else
                let batchRemain := len - 49
                if batchRemain < 0 then none
                else match takeN batchRemain.toNat f.payload with
                  | none => none
                  | some (comp, rest) =>
                    match dec (connCodecOf f.attributes) comp with
                    | none => none
                    | some p =>
                      match connRecordsV2 f.baseOffset f.firstTs f.count.toNat p with
                      | some (rs, _) => connStampV2 f.attributes f.maxTs (some (rs, rest))
                      | none => none

def connBytes (bs : Bytes) : Option (Option Bytes × Bytes) :=
  match readI32 bs with
  | none => none
  | some (n, r) =>
    if n < 0 then some (none, r)                 -- readMessageBytes (fix 4db07b4): null is nil, empty is empty
    else match takeN n.toNat r with
      | some (b, r') => some (some b, r')
      | none => none

/-- header of a v0/v1 message as `readHeader` reads it: (offset, magic, attributes, timestamp) -/
def connHeaderV1 (bs : Bytes) : Option ((Int × Int × Int × Int) × Bytes) :=
  match readI64 bs with
  | none => none
  | some (off, r1) =>
    match readI32 r1 with                    -- message size
    | none => none
    | some (_, r2) =>
      match readU32 r2 with                  -- crc
      | none => none
      | some (_, r3) =>
        match readI8 r3 with
        | none => none
        | some (magic, r4) =>
          match readI8 r4 with
          | none => none
          | some (attrs, r5) =>
            if magic = 0 then some ((off, 0, attrs, 0), r5)
            else if magic = 1 then
              match readI64 r5 with
              | none => none
              | some (ts, r6) => some ((off, 1, attrs, ts), r6)
            else none

/-- a plain message: key and value after the header -/
def connPlainV1 (off ts : Int) (bs : Bytes) : Option (Rec × Bytes) :=
  match connBytes bs with
  | none => none
  | some (k, r) =>
    match connBytes r with
    | none => none
    | some (v, r') => some (⟨off, ts, k, v, []⟩, r')

/-- the inner messages of a wrapper, with their offset FIELDS -/
def connInner : Nat → Bytes → Option (List Rec)
  | _, [] => some []
  | 0, _ :: _ => none
  | fuel + 1, bs =>
    match connHeaderV1 bs with
    | none => none
    | some ((off, _, _, ts), r) =>
      match connPlainV1 off ts r with
      | none => none
      | some (rec, rest) =>
        match connInner fuel rest with
        | none => none
        | some rs => some (rec :: rs)

def lastOffsetOf : List Rec → Int
  | [] => 0
  | [r] => r.offset
  | _ :: rs => lastOffsetOf rs

def connMessageV1 (dec : Int → Bytes → Option Bytes) (bs : Bytes) : Option (List Rec × Bytes) :=
  match connHeaderV1 bs with
  | none => none
  | some ((off, magic, attrs, ts), r) =>
    if connCodecOf attrs = 0 then
      match connPlainV1 off ts r with
      | none => none
      | some (rec, rest) => some ([rec], rest)
    else
      -- `r.discardBytes()`: the wrapper's key — null as producers write it, or any bytes — is passed over
      -- (fix C05-D31; before: `discardN(4)`, which assumed the null key)
      match connBytes r with
      | none => none
      | some (_, r1) =>
        match readI32 r1 with
        | none => none
        | some (n, r2) =>
          if n < 0 then none
          else match takeN n.toNat r2 with
            | none => none
            | some (comp, rest) =>
              match dec (connCodecOf attrs) comp with
              | none => none
              | some inner =>
                match connInner inner.length inner with
                | none => none
                | some rs =>
                  -- extractOffset: base = wrapper offset − offset field of the last inner message
                  let base := off - lastOffsetOf rs
                  -- `hasLogAppendTime` of the pushed reader stack: wrapper magic 1 with the timestamp-type bit
                  let on := decide (magic = 1) && connLogAppendV1 attrs
                  some (rs.map fun x => stamp on ts { x with offset := x.offset + base }, rest)

def connReadSet (dec : Int → Bytes → Option Bytes) : Nat → Bytes → Option (List Rec)
  | _, [] => some []
  | 0, _ :: _ => none
  | fuel + 1, bs =>
    match bs[16]? with
    | none => none
    | some magic =>
      let res := if magic = 2 then connBatchV2 dec bs else connMessageV1 dec bs
      match res with
      | none => none
      | some (rs, rest) =>
        match connReadSet dec fuel rest with
        | none => none
        | some rs' => some (rs ++ rs')

/-- what a sequence of `ReadMessage` calls on a Conn positioned at `o` returns for a complete response -/
def connFetch (dec : Int → Bytes → Option Bytes) (o : Int) (bs : Bytes) : Option (List Rec) :=
  (connReadSet dec bs.length bs).map (·.filter (fun r => o ≤ r.offset))

end KV.Model.ConnReader
