/-
Model/ListOffsets.lean — protocol/listoffsets Request.Split / Response.Merge and Client.ListOffsets (C19; core only).

Go ↔ Lean
  protocol/listoffsets  (*Request).Split        split
  protocol/listoffsets  (*Response).Merge       merge   (entriesOf = the per-result loop, group = the map + sorts)
  transport.go          joined.await            (results are positional: result i belongs to split request i)
  listoffset.go         (*Client).ListOffsets   clientRequest / clientResponse

The `topics` map of Merge is modelled by what it denotes: for every topic name the entries appended for that
name, in append order; `r.Topics` is that map listed by ascending name; each partition list is then sorted by
(Partition, Offset) — Go's sort.Slice is not stable, so the order inside a (Partition, Offset) tie is
unspecified; the model uses a stable sort and comparisons canonicalise.
-/
import KafkaVerif.Gen.Offsets

namespace KV.ListOffsets

structure ReqPart where
  partition : Int
  leaderEpoch : Int
  timestamp : Int
  deriving DecidableEq, Repr, Inhabited

structure Request where
  replicaID : Int
  isolation : Int
  topics : List (String × List ReqPart)
  deriving DecidableEq, Repr, Inhabited

structure ResPart where
  partition : Int
  error : Int
  timestamp : Int
  offset : Int
  leaderEpoch : Int
  deriving DecidableEq, Repr, Inhabited

structure Response where
  throttle : Int
  topics : List (String × List ResPart)
  deriving DecidableEq, Repr, Inhabited

/-- what `joined.await` hands to Merge for one split request -/
inductive Result where
  | ok (r : Response)
  | err (e : String)
  deriving DecidableEq, Repr, Inhabited

/-- the (topic, partition request) pairs of a request, in order -/
def flat (r : Request) : List (String × ReqPart) :=
  r.topics.flatMap fun (t, ps) => ps.map fun p => (t, p)

/-- (*Request).Split: one single-partition request per entry -/
def split (r : Request) : List Request :=
  (flat r).map fun (t, p) => { replicaID := r.replicaID, isolation := r.isolation, topics := [(t, [p])] }

/-- the UNKNOWN placeholder Merge writes for every partition of a failed part -/
def placeholder (p : ReqPart) : ResPart :=
  ⟨p.partition, Gen.Offsets.placeholderError, Gen.Offsets.placeholderTimestamp, Gen.Offsets.placeholderOffset,
   Gen.Offsets.placeholderLeaderEpoch⟩

/-- the `timestamps[i]` index of Merge: last entry wins, as with a Go map -/
def requestedTs (req : Request) (t : String) (p : Int) : Option Int :=
  ((flat req).reverse.find? (fun e => e.1 == t && e.2.partition == p)).map (·.2.timestamp)

/-- entries appended to the `topics` map for result `i` -/
def entriesOf (req : Request) : Result → List (String × ResPart)
  | .err _ => (flat req).map fun (t, p) => (t, placeholder p)
  | .ok res => res.topics.flatMap fun (t, ps) => ps.map fun p =>
      (t, match requestedTs req t p.partition with
          | some ts => { p with timestamp := ts }
          | none => p)

/-- all entries in append order (requests and results are positional) -/
def entries : List Request → List Result → List (String × ResPart)
  | q :: qs, r :: rs => entriesOf q r ++ entries qs rs
  | _, _ => []

def partLt (a b : ResPart) : Bool :=
  if a.partition != b.partition then a.partition < b.partition else a.offset < b.offset

def insertBy {α : Type} (lt : α → α → Bool) (x : α) : List α → List α
  | [] => [x]
  | y :: ys => if lt y x then y :: insertBy lt x ys else x :: y :: ys

/-- stable insertion sort (stands for sort.Slice, which for the short lists at hand is an insertion sort too) -/
def sortBy {α : Type} (lt : α → α → Bool) : List α → List α
  | [] => []
  | x :: xs => insertBy lt x (sortBy lt xs)

/-- the keys of a Go map built by inserting these names: each name once -/
def dedup : List String → List String
  | [] => []
  | x :: xs => if (dedup xs).contains x then dedup xs else x :: dedup xs

/-- distinct topic names of the entries, ascending -/
def topicNames (es : List (String × ResPart)) : List String :=
  sortBy (fun a b => a < b) (dedup (es.map (·.1)))

/-- all (topic, partition entry) pairs of a response, in order -/
def flatRes (topics : List (String × List ResPart)) : List (String × ResPart) :=
  topics.flatMap fun (t, ps) => ps.map fun p => (t, p)

/-- the map listed by ascending topic name, partitions sorted -/
def group (es : List (String × ResPart)) : List (String × List ResPart) :=
  (topicNames es).map fun n => (n, sortBy partLt ((es.filter (·.1 == n)).map (·.2)))

def isErr : Result → Bool
  | .err _ => true
  | .ok _ => false

def maxThrottle (start : Int) (rs : List Result) : Int :=
  rs.foldl (fun acc r => match r with | .ok res => if acc < res.throttle then res.throttle else acc | .err _ => acc) start

/-- (*Response).Merge on a fresh Response (throttle 0): `Except.error` = the first result's error when every
result failed -/
def merge (reqs : List Request) (rs : List Result) : Except String Response :=
  let nerr := (rs.filter isErr).length
  if nerr > 0 && nerr == rs.length then
    match rs with
    | .err e :: _ => .error e
    | _ => .error "unreachable"
  else
    .ok { throttle := maxThrottle 0 rs, topics := group (entries reqs rs) }

/-! ### Client.ListOffsets -/

def firstOffset : Int := Gen.Offsets.firstOffset
def lastOffset : Int := Gen.Offsets.lastOffset

/-- kafka.PartitionOffsets; `offsets` is the map offset → timestamp (ms), `error` the Kafka error code (0 = nil) -/
structure PartitionOffsets where
  partition : Int
  first : Int
  last : Int
  offsets : List (Int × Int)
  error : Int
  deriving DecidableEq, Repr, Inhabited

def ainsert {κ ν : Type} [BEq κ] (m : List (κ × ν)) (k : κ) (v : ν) : List (κ × ν) :=
  if m.any (·.1 == k) then m.map (fun e => if e.1 == k then (k, v) else e) else m ++ [(k, v)]

/-- first loop of Client.ListOffsets: the initial entry per (topic, partition) -/
def clientInit (topics : List (String × List (Int × Int))) : List ((String × Int) × PartitionOffsets) :=
  (topics.flatMap fun (t, rs) => rs.map fun r => (t, r)).foldl (fun m (t, (p, ts)) =>
    let cur := (m.lookup (t, p)).getD ⟨p, -1, -1, [], 0⟩
    let cur := if ts == firstOffset then { cur with first := 0 } else if ts == lastOffset then { cur with last := 0 } else cur
    ainsert m (t, p) cur) []

/-- second loop: the protocol request -/
def clientRequest (isolation : Int) (topics : List (String × List (Int × Int))) : Request :=
  { replicaID := -1, isolation := isolation,
    topics := topics.map fun (t, rs) => (t, rs.map fun (p, ts) => ⟨p, -1, ts⟩) }

/-- body of the third loop for one (topic, partition entry) of the merged response.  A partition of the response
that was never requested reads the zero record (Go map miss) — `offsets` would be a nil map there and the
assignment panics; modelled as `none`. -/
def clientStep (m : List ((String × Int) × PartitionOffsets)) (e : String × ResPart) :
    Option (List ((String × Int) × PartitionOffsets)) :=
  let t := e.1
  let p := e.2
  match m.lookup (t, p.partition) with
  | none =>
    if p.timestamp == firstOffset || p.timestamp == lastOffset then
      let z : PartitionOffsets := ⟨0, 0, 0, [], 0⟩
      let z := if p.timestamp == firstOffset then { z with first := p.offset } else { z with last := p.offset }
      some (ainsert m (t, p.partition) (if p.error != 0 then { z with error := p.error } else z))
    else none
  | some cur =>
    let cur :=
      if p.timestamp == firstOffset then { cur with first := p.offset }
      else if p.timestamp == lastOffset then { cur with last := p.offset }
      else { cur with offsets := ainsert cur.offsets p.offset p.timestamp }
    let cur := if p.error != 0 then { cur with error := p.error } else cur
    some (ainsert m (t, p.partition) cur)

/-- third loop: fold the merged response into the per-partition records -/
def clientApply (init : List ((String × Int) × PartitionOffsets)) (res : Response) :
    Option (List ((String × Int) × PartitionOffsets)) :=
  (res.topics.flatMap fun (t, ps) => ps.map fun p => (t, p)).foldlM clientStep init

end KV.ListOffsets
