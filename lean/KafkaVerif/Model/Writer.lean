/-
Model/Writer.lean — the Writer of writer.go as one labelled transition system (core Lean only).

State  = what the Go objects hold (Writer.closed / w.mutex / w.writers, partitionWriter.currBatch /
         queue / the sender goroutine's position in writeBatches→writeBatch, writeBatch fields, the
         WriteMessages calls in flight) + the environment (the broker's per-partition logs and the
         journal of produce attempts).
Events = the critical sections and channel operations of writer.go; one constructor per hook event
         (`W.* PW.* Q.* B.*`, placed inside the critical section they name) plus `produce`, the fake
         broker's decision for one produce attempt (environment).
`step : Cfg → State → Event → Option State` is deterministic; `run` folds it (trace acceptance).

Go ↔ model
  (*Writer).enter                    enter          (under w.mutex)
  (*Writer).WriteMessages            begin_, reject toolarge/topic/meta, assign, ret
  (*Writer).batchMessages            reject closed, batch … newPW … batched   (under w.mutex)
  (*partitionWriter).writeMessages   newBatch, add, detach full/nofit (+ qput)  (under ptw.mutex)
  (*writeBatch).add / full           guards of add / detach full
  (*partitionWriter).awaitBatch      timerFire, detach timer (+ qput)           (under ptw.mutex)
  (*partitionWriter).close           detach close (+ qput), qclose              (under ptw.mutex)
  batchQueue.Put / Get / Close       qput, qget, qclose                         (under queue mutex)
  (*partitionWriter).writeBatches    qget (some b) → writeBatch; qget none → goroutine exits
  (*partitionWriter).writeBatch      attempt, attemptDone (retry decision), completion, complete
  (*Writer).Close                    closeBegin … closeMarked (under w.mutex), closeReturn (after group.Wait)
-/
namespace KV.Writer

/-- error class of an attempt / batch: 0 = nil; Kafka error codes as they are; transport errors ≥ 1000 -/
abbrev Code := Int
/-- (topic, partition) -/
abbrev TP := String × Int
/-- a message = (call id, index in the call's slice) -/
abbrev Msg := Nat × Nat

def upd {α : Type} {β : Type} [DecidableEq α] (f : α → β) (a : α) (b : β) : α → β :=
  fun x => if x = a then b else f x

@[simp] theorem upd_same {α β : Type} [DecidableEq α] (f : α → β) (a : α) (b : β) : upd f a b a = b := by
  simp [upd]

theorem upd_other {α β : Type} [DecidableEq α] (f : α → β) (a x : α) (b : β) (h : x ≠ a) : upd f a b x = f x := by
  simp [upd, h]

/-- Writer configuration (writer.go: batchSize(), batchBytes(), maxAttempts(), Async, Completion, Topic) and
the retry classification `isTemporary(err) || isTransientNetworkError(err)` as a parameter. -/
structure Cfg where
  batchSize : Nat
  batchBytes : Nat
  maxAttempts : Nat
  async : Bool
  completion : Bool
  topic : String
  retriable : Code → Bool
  /-- BatchTimeout plus the scheduling slack granted to the timer goroutine, in µs of the trace clock;
  0 = the run carries no clock (no `tick` events) -/
  linger : Nat := 0

/-- the accessors `(*Writer).batchSize / batchBytes / maxAttempts`: an option left at 0 means its default -/
def effBatchSize (n : Nat) : Nat := if n = 0 then 100 else n
def effBatchBytes (n : Nat) : Nat := if n = 0 then 1048576 else n
def effMaxAttempts (n : Nat) : Nat := if n = 0 then 10 else n

inductive Why | full | nofit | timer | close
  deriving DecidableEq, Repr

/-- the broker's decision for one produce attempt: applied∧acked, (applied?)∧response lost, rejected with a code -/
inductive BrOut
  | acked
  | lost (applied : Bool)
  | rejected (code : Code)
  deriving DecidableEq, Repr

def BrOut.applied : BrOut → Bool
  | .acked => true
  | .lost a => a
  | .rejected _ => false

/-- position of the partition writer's goroutine (writeBatches / writeBatch) -/
inductive Sender
  | idle                                          -- in queue.Get
  | ready (b k : Nat)                             -- has batch b, about to make attempt k (k > 0: backing off)
  | attempting (b k : Nat) (br : Option BrOut)    -- inside produce; br = the broker's decision once made
  | finishing (b : Nat) (err : Code) (cb : Bool)  -- retry loop left with err; cb = Completion already called
  | exited
  deriving DecidableEq, Repr

structure BMsg where
  msg : Msg
  size : Nat
  seq : Nat          -- ghost: global submission (add) sequence number
  deriving DecidableEq, Repr

structure Batch where
  pw : Nat
  tp : TP
  ord : Nat                  -- ghost: creation index within its partition writer
  msgs : List BMsg
  bytes : Nat
  detached : Option Why
  timerFired : Bool
  done : Option Code         -- batch.err once batch.done is closed
  ncompl : Nat               -- Completion callback invocations
  cbCode : Option Code
  acked : Bool               -- ghost: some attempt was applied and acknowledged
  napplied : Nat             -- ghost: attempts the broker applied
  nlost : Nat                -- ghost: applied attempts whose acknowledgement was lost

structure PW where
  tp : TP
  q : Nat
  curr : Option Nat
  pending : Option Nat       -- detached under ptw.mutex, queue.Put not yet executed
  queue : List Nat
  qclosed : Bool
  sender : Sender
  nbatches : Nat
  deriving Repr

inductive Phase | begun | assigning | batching | batched | rejectedClosed | returned
  deriving DecidableEq, Repr

inductive RejWhy | toolarge | topic | metadata | closed
  deriving DecidableEq, Repr

inductive Result
  | ok | async | ctx | closed
  | werr (codes : List Code)
  | rejected (why : RejWhy) (i : Nat)
  deriving DecidableEq, Repr

structure MsgSpec where
  size : Nat
  topic : String
  deriving DecidableEq, Repr

structure Call where
  msgs : List MsgSpec
  phase : Phase
  assign : List TP               -- assign[i] for the indexes balanced so far
  place : Nat → Option Nat       -- index → batch it was added to
  result : Option Result
  beginSeq : Nat                 -- ghost: value of the submission counter when the call began
  endSeq : Option Nat            -- ghost: value of the submission counter when the call returned

structure LogEntry where
  msg : Msg
  seq : Nat
  batch : Nat
  ord : Nat
  pw : Nat
  deriving DecidableEq, Repr

structure JEntry where
  tp : TP
  pw : Nat
  batch : Nat
  attempt : Nat
  out : BrOut
  deriving Repr

inductive Lock | free | call (c : Nat) | closer
  deriving DecidableEq, Repr

def Lock.isCall : Lock → Bool
  | .call _ => true
  | _ => false

structure State where
  closed : Bool
  wlock : Lock                    -- holder of w.mutex across batchMessages / Close's first part
  entered : Nat                   -- enter() succeeded, call not yet identified (Begin / Empty)
  inflight : Nat                  -- WriteMessages calls between enter() and their return
  enterFalse : Nat
  pwOf : TP → Option Nat          -- every partition writer ever created, by topic-partition
  pws : Nat → Option PW
  qOf : Nat → Option Nat
  pwIds : List Nat
  batches : Nat → Option Batch
  batchIds : List Nat
  calls : Nat → Option Call
  callIds : List Nat
  log : TP → List LogEntry
  tps : List TP
  journal : List JEntry
  seq : Nat
  closeReturned : Nat
  fresh : Option Nat              -- batch just created by newWriteBatch inside writeMessages, its first `add` still to come
  now : Nat                       -- the trace clock (µs), advanced by `tick`
  openedAt : Nat → Nat            -- when each batch was created (its linger timer was armed)

def State.init : State :=
  { closed := false, wlock := .free, entered := 0, inflight := 0, enterFalse := 0,
    pwOf := fun _ => none, pws := fun _ => none, qOf := fun _ => none, pwIds := [],
    batches := fun _ => none, batchIds := [], calls := fun _ => none, callIds := [],
    log := fun _ => [], tps := [], journal := [], seq := 0, closeReturned := 0, fresh := none,
    now := 0, openedAt := fun _ => 0 }

inductive Event
  | enter (ok : Bool)
  | tick (t : Nat)                -- the clock reaches t
  | empty
  | begin_ (c : Nat) (msgs : List MsgSpec)
  | reject (c : Nat) (why : RejWhy) (i : Nat)
  | assign (c i : Nat) (tp : TP)
  | batch (c : Nat)
  | newPW (pw q : Nat) (tp : TP)
  | newBatch (pw b : Nat)
  | add (pw b c i size : Nat)
  | detach (pw b : Nat) (why : Why) (size : Nat)
  | qput (q b : Nat) (acc : Bool)
  | qget (q : Nat) (b : Option Nat)
  | qclose (q : Nat)
  | timerFire (pw b : Nat) (attached : Bool)
  | attempt (pw b k : Nat)
  | produce (pw : Nat) (tp : TP) (msgs : List Msg) (out : BrOut)
  | attemptDone (pw b k : Nat) (code : Code)
  | completion (pw b : Nat) (code : Code)
  | complete (pw b : Nat) (code : Code)
  | batched (c : Nat)
  | ret (c : Nat) (r : Result)
  | closeBegin
  | closeMarked (n : Nat)
  | closeReturn
  deriving Repr

/-! ### helpers mirroring small Go functions -/

/-- the batch the sender goroutine currently holds -/
def Sender.batch? : Sender → Option Nat
  | .idle => none
  | .exited => none
  | .ready b _ => some b
  | .attempting b _ _ => some b
  | .finishing b _ _ => some b

/-- the batches of a partition writer that are not completed yet, in processing order: the one being sent, the
queue, the one detached but not yet put, the one still attached (currBatch) -/
def PW.pipe (P : PW) : List Nat := P.sender.batch?.toList ++ P.queue ++ P.pending.toList ++ P.curr.toList

/-- batchQueue.Put: append unless the queue is closed -/
def enq (q : List Nat) (b : Nat) (acc : Bool) : List Nat := if acc then q ++ [b] else q

/-- (*writeBatch).full -/
def Batch.full (cfg : Cfg) (B : Batch) : Bool :=
  decide (cfg.batchSize ≤ B.msgs.length) || decide (cfg.batchBytes ≤ B.bytes)

/-- (*writeBatch).add refuses: `b.size > 0 && b.bytes+bytes > maxBytes` -/
def Batch.nofit (cfg : Cfg) (B : Batch) (size : Nat) : Bool :=
  decide (0 < B.msgs.length) && decide (cfg.batchBytes < B.bytes + size)

/-- the up-front loop of WriteMessages: every message fits BatchBytes -/
def allFit (cfg : Cfg) (msgs : List MsgSpec) : Bool := msgs.all (fun m => decide (m.size ≤ cfg.batchBytes))

/-- (*Writer).chooseTopic: exactly one of Writer.Topic / Message.Topic must be set -/
def chooseTopic (cfg : Cfg) (m : MsgSpec) : Option String :=
  if cfg.topic ≠ "" ∧ m.topic ≠ "" then none
  else if cfg.topic = "" ∧ m.topic = "" then none
  else if m.topic ≠ "" then some m.topic else some cfg.topic

/-- the client-side result of an attempt is consistent with what the broker did -/
def consistent (br : Option BrOut) (code : Code) : Bool :=
  match br with
  | none => code != 0                      -- never reached the broker: some transport error
  | some .acked => code == 0
  | some (.lost _) => code != 0
  | some (.rejected c) => code == c && c != 0

/-- writeBatch's loop: what follows attempt k that ended with `code` -/
def afterAttempt (cfg : Cfg) (b k : Nat) (code : Code) : Sender :=
  if code = 0 then .finishing b 0 false
  else if cfg.retriable code ∧ k + 1 < cfg.maxAttempts then .ready b (k + 1)
  else .finishing b code false

/-- predicate on the i-th message of a call (false when out of range) -/
def msgAt (msgs : List MsgSpec) (i : Nat) (p : MsgSpec → Bool) : Bool :=
  match msgs[i]? with
  | some m => p m
  | none => false

def Batch.new (pw : Nat) (tp : TP) (ord : Nat) : Batch :=
  { pw := pw, tp := tp, ord := ord, msgs := [], bytes := 0, detached := none, timerFired := false, done := none, ncompl := 0, cbCode := none, acked := false, napplied := 0, nlost := 0 }

def PW.new (tp : TP) (q : Nat) : PW :=
  { tp := tp, q := q, curr := none, pending := none, queue := [], qclosed := false, sender := .idle, nbatches := 0 }

/-- (*writeBatch).add: append the message -/
def Batch.push (B : Batch) (m : BMsg) : Batch := { B with msgs := B.msgs ++ [m], bytes := B.bytes + m.size }

/-- ghost bookkeeping of the broker's decision on the batch -/
def Batch.noteProduce (B : Batch) (out : BrOut) : Batch :=
  { B with acked := B.acked || (out == .acked), napplied := (if out.applied then B.napplied + 1 else B.napplied), nlost := (if out == .lost true then B.nlost + 1 else B.nlost) }

def Call.placedAll (C : Call) : Bool := (List.range C.msgs.length).all (fun i => (C.place i).isSome)

def batchDone (s : State) (ob : Option Nat) : Option Code :=
  match ob with
  | none => none
  | some b => match s.batches b with
    | none => none
    | some B => B.done

def mkEntries (pw b : Nat) (B : Batch) : List LogEntry :=
  B.msgs.map (fun m => { msg := m.msg, seq := m.seq, batch := b, ord := B.ord, pw := pw })

/-- writeMessages has queued every batch that became full: no partition writer still has a full currBatch
(checked when batchMessages releases w.mutex) -/
def noFullAttached (cfg : Cfg) (s : State) : Bool :=
  s.pwIds.all (fun pw =>
    match s.pws pw with
    | none => true
    | some P =>
      match P.curr with
      | none => true
      | some b =>
        match s.batches b with
        | none => true
        | some B => !B.full cfg)

/-- urgency of the linger timer: the clock cannot pass `openedAt + linger` of a batch that is still attached and whose
timer has not fired — BatchTimeout is measured from the creation of the batch, whatever is appended meanwhile -/
def notOverdue (cfg : Cfg) (s : State) (t : Nat) : Bool :=
  cfg.linger == 0 || s.pwIds.all (fun pw =>
    match s.pws pw with
    | none => true
    | some P =>
      match P.curr with
      | none => true
      | some b =>
        match s.batches b with
        | none => true
        | some B => B.timerFired || decide (t ≤ s.openedAt b + cfg.linger))

/-! ### the transition function -/

def stepReject (cfg : Cfg) (s : State) (c : Nat) (why : RejWhy) (i : Nat) : Option State :=
  match s.calls c with
  | none => none
  | some C =>
    match why with
    | .toolarge =>
      if C.phase = .begun ∧ (C.msgs.take i).all (fun m => decide (m.size ≤ cfg.batchBytes)) ∧
         msgAt C.msgs i (fun m => decide (cfg.batchBytes < m.size)) = true then
        some { s with calls := upd s.calls c (some { C with phase := .returned, result := some (.rejected .toolarge i), endSeq := some s.seq }),
                      inflight := s.inflight - 1 }
      else none
    | .topic =>
      if (C.phase = .begun ∨ C.phase = .assigning) ∧ C.assign.length = i ∧ allFit cfg C.msgs ∧
         msgAt C.msgs i (fun m => (chooseTopic cfg m).isNone) = true then
        some { s with calls := upd s.calls c (some { C with phase := .returned, result := some (.rejected .topic i), endSeq := some s.seq }),
                      inflight := s.inflight - 1 }
      else none
    | .metadata =>
      if (C.phase = .begun ∨ C.phase = .assigning) ∧ C.assign.length = i ∧ allFit cfg C.msgs ∧
         msgAt C.msgs i (fun m => (chooseTopic cfg m).isSome) = true then
        some { s with calls := upd s.calls c (some { C with phase := .returned, result := some (.rejected .metadata i), endSeq := some s.seq }),
                      inflight := s.inflight - 1 }
      else none
    | .closed =>
      if s.wlock = .free ∧ s.closed ∧ C.phase = .assigning ∧ C.assign.length = C.msgs.length then
        some { s with calls := upd s.calls c (some { C with phase := .rejectedClosed }) }
      else none

def stepAdd (cfg : Cfg) (s : State) (pw b c i size : Nat) : Option State :=
  match s.pws pw with
  | none => none
  | some P =>
  match s.batches b with
  | none => none
  | some B =>
  match s.calls c with
  | none => none
  | some C =>
    if s.wlock = .call c ∧ P.curr = some b ∧ P.pending = none ∧ B.pw = pw ∧ B.tp = P.tp ∧ B.detached = none ∧
       B.full cfg = false ∧ B.nofit cfg size = false ∧
       C.phase = .batching ∧ C.assign[i]? = some P.tp ∧ C.place i = none ∧
       (C.msgs[i]?).map (·.size) = some size ∧
       (List.range i).all (fun j => C.assign[j]? != some P.tp || (C.place j).isSome) ∧
       (s.fresh = none ∨ s.fresh = some b) then
      some { s with
        fresh := none,
        batches := upd s.batches b (some (B.push { msg := (c, i), size := size, seq := s.seq })),
        calls := upd s.calls c (some { C with place := upd C.place i (some b) }),
        seq := s.seq + 1 }
    else none

/-- why a batch may be detached from its partition writer and queued -/
def whyOk (cfg : Cfg) (s : State) (B : Batch) (why : Why) (size : Nat) : Bool :=
  match why with
  | .full => B.full cfg && s.wlock.isCall
  | .nofit => B.nofit cfg size && s.wlock.isCall
  | .timer => B.timerFired
  | .close => s.closed && decide (s.wlock = .closer)

def stepDetach (cfg : Cfg) (s : State) (pw b : Nat) (why : Why) (size : Nat) : Option State :=
  match s.pws pw with
  | none => none
  | some P =>
  match s.batches b with
  | none => none
  | some B =>
    if P.curr = some b ∧ P.pending = none ∧ B.detached = none ∧
       whyOk cfg s B why size = true ∧ s.fresh ≠ some b then
      some { s with
        pws := upd s.pws pw (some { P with curr := none, pending := some b }),
        batches := upd s.batches b (some { B with detached := some why }) }
    else none

/-- the broker decided `out` for the in-flight attempt k of batch b (sent by partition writer pw) -/
def produced (s : State) (pw b k : Nat) (P : PW) (B : Batch) (tp : TP) (out : BrOut) : State :=
  { s with
    pws := upd s.pws pw (some { P with sender := .attempting b k (some out) }),
    batches := upd s.batches b (some (B.noteProduce out)),
    log := upd s.log tp (if out.applied then s.log tp ++ mkEntries pw b B else s.log tp),
    journal := s.journal ++ [{ tp := tp, pw := pw, batch := b, attempt := k, out := out }] }

/-- the logs after a broker decision: the batch is appended to its partition's log iff the attempt was applied
(the model updates the map with a precomputed value so that the compiled oracle does not re-evaluate old logs) -/
theorem produced_log (s : State) (pw b k : Nat) (P : PW) (B : Batch) (tp : TP) (out : BrOut) :
    (produced s pw b k P B tp out).log =
      if out.applied then upd s.log tp (s.log tp ++ mkEntries pw b B) else s.log := by
  funext t
  simp only [produced]
  cases out.applied
  · by_cases h : t = tp
    · subst h; simp
    · simp [upd_other _ _ _ _ h]
  · simp

def stepProduce (s : State) (pw : Nat) (tp : TP) (msgs : List Msg) (out : BrOut) : Option State :=
  match s.pws pw with
  | some P =>
    match P.sender with
    | .attempting b k none =>
      match s.batches b with
      | some B =>
        if B.pw = pw ∧ B.tp = tp ∧ P.tp = tp ∧ B.msgs.map (·.msg) = msgs ∧ out ≠ .rejected 0 then some (produced s pw b k P B tp out) else none
      | none => none
    | _ => none
  | none => none

def stepRet (cfg : Cfg) (s : State) (c : Nat) (r : Result) : Option State :=
  match s.calls c with
  | none => none
  | some C =>
    let n := C.msgs.length
    let fin : Option State := some { s with calls := upd s.calls c (some { C with phase := .returned, result := some r, endSeq := some s.seq }),
                                            inflight := s.inflight - 1 }
    match r with
    | .closed => if C.phase = .rejectedClosed then fin else none
    | .async => if cfg.async = true ∧ C.phase = .batched then fin else none
    | .ctx => if cfg.async = false ∧ C.phase = .batched then fin else none
    | .ok =>
      if cfg.async = false ∧ C.phase = .batched ∧
         (List.range n).all (fun i => batchDone s (C.place i) == some 0) then fin else none
    | .werr codes =>
      if cfg.async = false ∧ C.phase = .batched ∧ codes.length = n ∧
         (List.range n).all (fun i => batchDone s (C.place i) == codes[i]?) ∧ codes.any (· != 0) then fin else none
    | .rejected _ _ => none

def step (cfg : Cfg) (s : State) (e : Event) : Option State :=
  match e with
  | .tick t =>
    if s.now ≤ t ∧ notOverdue cfg s t = true then some { s with now := t } else none
  | .enter ok =>
    if s.wlock = .free ∧ ok = !s.closed then
      if ok then some { s with entered := s.entered + 1, inflight := s.inflight + 1 }
      else some { s with enterFalse := s.enterFalse + 1 }
    else none
  | .empty =>
    if 0 < s.entered then some { s with entered := s.entered - 1, inflight := s.inflight - 1 } else none
  | .begin_ c msgs =>
    if 0 < s.entered ∧ (s.calls c).isNone ∧ msgs ≠ [] then
      some { s with entered := s.entered - 1, callIds := s.callIds ++ [c],
                    calls := upd s.calls c (some { msgs := msgs, phase := .begun, assign := [], place := fun _ => none, result := none, beginSeq := s.seq, endSeq := none }) }
    else none
  | .reject c why i => stepReject cfg s c why i
  | .assign c i tp =>
    match s.calls c with
    | none => none
    | some C =>
      if (C.phase = .begun ∨ C.phase = .assigning) ∧ C.assign.length = i ∧ allFit cfg C.msgs ∧
         msgAt C.msgs i (fun m => chooseTopic cfg m == some tp.1) = true then
        some { s with calls := upd s.calls c (some { C with phase := .assigning, assign := C.assign ++ [tp] }) }
      else none
  | .batch c =>
    match s.calls c with
    | none => none
    | some C =>
      if s.wlock = .free ∧ s.closed = false ∧ C.phase = .assigning ∧ C.assign.length = C.msgs.length ∧ allFit cfg C.msgs = true then
        some { s with wlock := .call c, calls := upd s.calls c (some { C with phase := .batching }) }
      else none
  | .newPW pw q tp =>
    if s.wlock.isCall = true ∧ s.closed = false ∧ (s.pwOf tp).isNone ∧ (s.pws pw).isNone ∧ (s.qOf q).isNone then
      some { s with pwOf := upd s.pwOf tp (some pw), qOf := upd s.qOf q (some pw), pwIds := s.pwIds ++ [pw],
                    tps := s.tps ++ [tp],
                    pws := upd s.pws pw (some (PW.new tp q)) }
    else none
  | .newBatch pw b =>
    match s.pws pw with
    | none => none
    | some P =>
      if s.wlock.isCall = true ∧ P.curr = none ∧ P.pending = none ∧ (s.batches b).isNone ∧ s.fresh = none then
        some { s with batchIds := s.batchIds ++ [b], fresh := some b, openedAt := upd s.openedAt b s.now,
                      pws := upd s.pws pw (some { P with curr := some b, nbatches := P.nbatches + 1 }),
                      batches := upd s.batches b (some (Batch.new pw P.tp P.nbatches)) }
      else none
  | .add pw b c i size => stepAdd cfg s pw b c i size
  | .detach pw b why size => stepDetach cfg s pw b why size
  | .qput q b acc =>
    match s.qOf q with
    | none => none
    | some pw =>
      match s.pws pw with
      | none => none
      | some P =>
        if P.pending = some b ∧ P.curr = none ∧ acc = !P.qclosed then
          some { s with pws := upd s.pws pw (some { P with pending := none, queue := enq P.queue b acc }) }
        else none
  | .qget q ob =>
    match s.qOf q with
    | none => none
    | some pw =>
      match s.pws pw with
      | none => none
      | some P =>
        match ob with
        | some b =>
          if P.sender = .idle ∧ P.queue.head? = some b then
            some { s with pws := upd s.pws pw (some { P with queue := P.queue.tail, sender := .ready b 0 }) }
          else none
        | none =>
          if P.sender = .idle ∧ P.queue = [] ∧ P.qclosed = true then
            some { s with pws := upd s.pws pw (some { P with sender := .exited }) }
          else none
  | .qclose q =>
    match s.qOf q with
    | none => none
    | some pw =>
      match s.pws pw with
      | none => none
      | some P =>
        if s.closed = true ∧ s.wlock = .closer ∧ P.curr = none ∧ P.pending = none then
          some { s with pws := upd s.pws pw (some { P with qclosed := true }) }
        else none
  | .timerFire pw b att =>
    match s.pws pw with
    | none => none
    | some P =>
    match s.batches b with
    | none => none
    | some B =>
      if P.pending = none ∧ B.pw = pw ∧ att = decide (P.curr = some b) then
        some { s with batches := upd s.batches b (some { B with timerFired := true }) }
      else none
  | .attempt pw b k =>
    match s.pws pw with
    | none => none
    | some P =>
      if P.sender = .ready b k ∧ k < cfg.maxAttempts then
        some { s with pws := upd s.pws pw (some { P with sender := .attempting b k none }) }
      else none
  | .produce pw tp msgs out => stepProduce s pw tp msgs out
  | .attemptDone pw b k code =>
    match s.pws pw with
    | none => none
    | some P =>
      match P.sender with
      | .attempting b' k' br =>
        if b' = b ∧ k' = k ∧ consistent br code = true then
          some { s with pws := upd s.pws pw (some { P with sender := afterAttempt cfg b k code }) }
        else none
      | _ => none
  | .completion pw b code =>
    match s.pws pw with
    | none => none
    | some P =>
    match s.batches b with
    | none => none
    | some B =>
      if cfg.completion = true ∧ P.sender = .finishing b code false then
        some { s with pws := upd s.pws pw (some { P with sender := .finishing b code true }),
                      batches := upd s.batches b (some { B with ncompl := B.ncompl + 1, cbCode := some code }) }
      else none
  | .complete pw b code =>
    match s.pws pw with
    | none => none
    | some P =>
    match s.batches b with
    | none => none
    | some B =>
      if P.sender = .finishing b code cfg.completion then
        some { s with pws := upd s.pws pw (some { P with sender := .idle }),
                      batches := upd s.batches b (some { B with done := some code }) }
      else none
  | .batched c =>
    match s.calls c with
    | none => none
    | some C =>
      if s.wlock = .call c ∧ C.phase = .batching ∧ C.placedAll = true ∧ noFullAttached cfg s = true ∧ s.fresh = none then
        some { s with wlock := .free, calls := upd s.calls c (some { C with phase := .batched }) }
      else none
  | .ret c r => stepRet cfg s c r
  | .closeBegin =>
    if s.wlock = .free then some { s with closed := true, wlock := .closer } else none
  | .closeMarked _ =>
    if s.wlock = .closer ∧ s.pwIds.all (fun pw => match s.pws pw with | some P => P.qclosed | none => false) then
      some { s with wlock := .free }
    else none
  | .closeReturn =>
    if s.closed = true ∧ s.inflight = 0 ∧ s.entered = 0 ∧
       s.pwIds.all (fun pw => match s.pws pw with | some P => P.sender == .exited | none => false) then
      some { s with closeReturned := s.closeReturned + 1 }
    else none

/-- run a trace; `none` = the model cannot take some event -/
def run (cfg : Cfg) (s : State) : List Event → Option State
  | [] => some s
  | e :: es => match step cfg s e with
    | none => none
    | some s' => run cfg s' es

def accepts (cfg : Cfg) (es : List Event) : Bool := (run cfg State.init es).isSome

/-- index of the first event the model cannot take, with the state before it -/
def firstReject (cfg : Cfg) (s : State) (n : Nat) : List Event → Option (Nat × State)
  | [] => none
  | e :: es => match step cfg s e with
    | none => some (n, s)
    | some s' => firstReject cfg s' (n + 1) es

/-- a state is reachable if some trace leads to it from the initial state -/
def Reachable (cfg : Cfg) (s : State) : Prop := ∃ es, run cfg State.init es = some s

theorem run_append (cfg : Cfg) (s : State) (es fs : List Event) :
    run cfg s (es ++ fs) = (run cfg s es).bind (fun s' => run cfg s' fs) := by
  induction es generalizing s with
  | nil => simp [run]
  | cons e es ih =>
    simp only [List.cons_append, run]
    cases step cfg s e with
    | none => simp
    | some s' => simpa using ih s'

/-- induction principle: a predicate that holds initially and is preserved by every step holds in every
reachable state -/
theorem invariant_of_step (cfg : Cfg) (I : State → Prop) (h0 : I State.init)
    (hstep : ∀ s e s', I s → step cfg s e = some s' → I s') : ∀ s, Reachable cfg s → I s := by
  intro s ⟨es, hes⟩
  have : ∀ (es : List Event) (s0 s1 : State), I s0 → run cfg s0 es = some s1 → I s1 := by
    intro es
    induction es with
    | nil => intro s0 s1 h0 h; simp [run] at h; exact h ▸ h0
    | cons e es ih =>
      intro s0 s1 h0 h
      simp only [run] at h
      cases hs : step cfg s0 e with
      | none => simp [hs] at h
      | some s' => simp only [hs] at h; exact ih s' s1 (hstep s0 e s' h0 hs) h
  exact this es State.init s h0 hes

end KV.Writer
