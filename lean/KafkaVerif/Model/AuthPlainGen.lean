/-
Model/AuthPlainGen.lean — PLAIN's first message computed from the format string that the translator
`go/extract/saslplain.go` re-reads from sasl/plain/plain.go on every run (core Lean only).
-/
import KafkaVerif.Model.Auth
import KafkaVerif.Gen.SaslPlainFmt

namespace KV.Auth

/-- `fmt.Sprintf(format, m.Username, m.Password)` for a format made of literal bytes and `%s` verbs;
`none` if the format mentions anything else (translator output outside the modelled subset) -/
def renderPlain : List Gen.PlainSeg → Bytes → Bytes → Option Bytes
  | [], _, _ => some []
  | .lit b :: rest, u, p => (renderPlain rest u p).map (b ++ ·)
  | .field n :: rest, u, p =>
    if n = "Username" then (renderPlain rest u p).map (u ++ ·)
    else if n = "Password" then (renderPlain rest u p).map (p ++ ·)
    else none

def plainStartGen (user pass : Bytes) : Option Bytes := renderPlain Gen.plainFmt user pass

end KV.Auth
