/-
Model/ConnDeadline.lean — the read-deadline discipline of one `kafka.Conn` (core Lean only).

conn.go keeps two deadline objects (`connDeadline`): `rdeadline` (SetReadDeadline) and `wdeadline`
(SetWriteDeadline; SetDeadline sets both).  The socket has ONE read deadline.  An operation that waits for its
response does so under the deadline object `d` it was started with (`readOperation` → rdeadline, `writeOperation` →
wdeadline, `ApiVersions` → rdeadline or, when no read deadline was ever set, wdeadline):

  * `Event.attach o`  ↔ `waitResponse`, top of the loop, read lock held: `d.setConnReadDeadline(c.conn)` —
                        `d.rconn = conn`, the socket's read deadline becomes `d.value`.
  * `Event.set o t`   ↔ `SetReadDeadline` / `SetWriteDeadline` at any moment, from any goroutine
                        (`connDeadline.setDeadline`): `d.value = t`, and IF `d.rconn != nil` the socket's read deadline is
                        rewritten at once (that is how a blocked operation sees its deadline move).
  * `Event.release b` ↔ the read lock is given back (`do`, `ApiVersions`, `Batch.close`, the three unlocking branches of
                        `waitResponse`); `b` = `d.unsetConnReadDeadline()` was called first (`d.rconn = nil`).

Times are natural numbers, 0 = no deadline.
-/
namespace KV.ConnDeadline

inductive Obj | r | w
  deriving DecidableEq, Repr

structure DObj where
  value : Nat
  attached : Bool      -- rconn != nil
  deriving DecidableEq, Repr

structure State where
  r : DObj
  w : DObj
  sock : Nat                 -- the read deadline currently set on the net.Conn
  holder : Option Obj        -- the deadline object of the operation that holds the read lock
  deriving DecidableEq, Repr

def init : State := { r := ⟨0, false⟩, w := ⟨0, false⟩, sock := 0, holder := none }

def State.obj (s : State) : Obj → DObj
  | .r => s.r
  | .w => s.w

def State.setObj (s : State) (o : Obj) (d : DObj) : State :=
  match o with
  | .r => { s with r := d }
  | .w => { s with w := d }

inductive Event
  | set (o : Obj) (t : Nat)
  | attach (o : Obj)
  | release (detach : Bool)
  deriving DecidableEq, Repr

def step (s : State) : Event → Option State
  | .set o t =>
    let d := s.obj o
    some { (s.setObj o { d with value := t }) with sock := if d.attached then t else s.sock }
  | .attach o =>
    match s.holder with
    | none =>
      let d := s.obj o
      some { (s.setObj o { d with attached := true }) with sock := d.value, holder := some o }
    | some _ => none
  | .release detach =>
    match s.holder with
    | some o =>
      let d := s.obj o
      some { (s.setObj o { d with attached := d.attached && !detach }) with holder := none }
    | none => none

def runFrom : State → List Event → Option State
  | s, [] => some s
  | s, e :: es => match step s e with
    | none => none
    | some s' => runFrom s' es

def run (es : List Event) : Option State := runFrom init es

/-- the discipline: every release detaches -/
def disciplined : List Event → Bool
  | [] => true
  | .release false :: _ => false
  | _ :: es => disciplined es

end KV.ConnDeadline
