/-
Model/Commit.lean — the commit path of a consumer-group Reader (core Lean only).

Go ↔ Lean
* `commit.go makeCommit`                                   ↔ `makeCommit`   (offset = message offset + 1)
* `reader.go offsetStash` (map topic → partition → offset)  ↔ `Stash` (association list keyed by topic/partition)
* `offsetStash.merge`                                      ↔ `Stash.merge` (max-merge per key)
* `Reader.commits` channel                                 ↔ `CState.queue`
* `CommitMessages`                                         ↔ event `call` (request enqueued) — its return is the event `ret`
  observed by the harness only
* `commitLoopImmediate` / `commitLoopInterval` / `commitOffsetsWithRetry` / `Generation.CommitOffsets`
                                                           ↔ `LPC` program counter + events `begin deq attempt abort reply
  replied reset tick genEnd endLoop`; an `attempt` is one OffsetCommit request seen by the coordinator with its result
* ghost: `passed` (every message passed to CommitMessages so far), `sent` (every OffsetCommit request with its ack flag),
  `replied` (every answer given to a synchronous CommitMessages)
-/
namespace KV.Commit

abbrev TP := String × Int

structure Commit where
  tp : TP
  offset : Int
  deriving DecidableEq, Repr

/-- `makeCommit` -/
def makeCommit (m : TP × Int) : Commit := ⟨m.1, m.2 + 1⟩

abbrev Stash := List (TP × Int)

/-- one iteration of `offsetStash.merge` -/
def Stash.merge1 (s : Stash) (c : Commit) : Stash :=
  match s.lookup c.tp with
  | none => s ++ [(c.tp, c.offset)]
  | some o => if c.offset > o then s.map (fun e => if e.1 == c.tp then (e.1, c.offset) else e) else s

/-- `offsetStash.merge` -/
def Stash.merge (s : Stash) (cs : List Commit) : Stash := cs.foldl Stash.merge1 s

/-- same content as maps (the request is built by ranging over the Go map: order is arbitrary) -/
def sameMap (a b : Stash) : Bool := a.all (fun e => b.contains e) && b.all (fun e => a.contains e)

structure Req where
  id : Nat
  commits : List Commit
  sentAtCall : Nat      -- ghost: number of OffsetCommit requests issued before the call began
  deriving DecidableEq, Repr

/-- program counter of the generation's commit loop -/
inductive LPC
  | none                                               -- no loop running (between generations)
  | idle                                               -- in the select
  | draining (rs : List Req)                           -- ctx done: draining the channel
  | committing (rs : List Req) (att : Nat) (final : Bool)   -- inside commitOffsetsWithRetry, about to make attempt `att`
  | done (rs : List Req) (ok : Bool) (final : Bool)    -- commitOffsetsWithRetry returned; answers pending for `rs`
  deriving DecidableEq, Repr

structure CState where
  sync : Bool := true
  passed : List (TP × Int) := []
  queue : List Req := []
  stash : Stash := []
  pc : LPC := .none
  sent : List (Stash × Bool) := []
  replied : List (Req × Bool) := []
  rets : List (Nat × Bool) := []      -- ghost: synchronous CommitMessages calls that returned (request id, nil?)
  lstash : Stash := []                -- a SECOND commit loop (D8 shape, see `cstep2`): its stash …
  lpc : LPC := .none                  -- … and program counter
  deriving Repr

inductive CEv
  | call (id : Nat) (msgs : List (TP × Int))
  | begin (sync : Bool)
  | deq (commits : List Commit) (drain : Bool)
  | attempt (offs : Stash) (ok : Bool)
  | abort
  | reply (ok : Bool)
  | replied
  | reset
  | tick
  | genEnd
  | endLoop
  | ret (id : Nat) (ok : Bool)     -- a SYNCHRONOUS CommitMessages call returns nil (ok) / the commit error
  deriving Repr

def retries : Nat := 3

/-- entering `commitOffsetsWithRetry`: `CommitOffsets` returns nil at once for an empty stash -/
def enterCommit (s : CState) (rs : List Req) (final : Bool) : CState :=
  if s.stash.isEmpty then { s with pc := .done rs true final } else { s with pc := .committing rs 0 final }

/-- steps without a hook: end of the drain loop; interval mode falling back into the select after a failed commit -/
def settle (s : CState) : CState :=
  match s.pc with
  | .draining rs => enterCommit s rs true
  | .done [] false false => if s.sync then s else { s with pc := .idle }
  | _ => s

/-- remove the first queued request with these commits -/
def takeReq (q : List Req) (commits : List Commit) : Option (Req × List Req) :=
  match q with
  | [] => none
  | r :: rest => if r.commits == commits then some (r, rest) else (takeReq rest commits).map (fun (x, q') => (x, r :: q'))

def cstep (s : CState) : CEv → Option CState
  | .call id msgs =>
    some { s with passed := s.passed ++ msgs,
                  queue := s.queue ++ [{ id := id, commits := msgs.map makeCommit, sentAtCall := s.sent.length }] }
  | .begin sync =>
    if s.pc == .none then some { s with sync := sync, stash := [], pc := .idle } else none
  | .deq commits drain =>
    let s := if drain then s else settle s
    match takeReq s.queue commits with
    | none => none
    | some (r, q') =>
      let s' := { s with queue := q', stash := s.stash.merge commits }
      match s.pc, drain with
      | .idle, false => if s.sync then some (enterCommit s' [r] false) else some s'
      | .draining rs, true => some { s' with pc := .draining (if s.sync then rs ++ [r] else rs) }
      | _, _ => none
  | .attempt offs ok =>
    let s := settle s
    match s.pc with
    | .committing rs att final =>
      if sameMap offs s.stash && att < retries then
        let s' := { s with sent := s.sent ++ [(offs, ok)] }
        if ok then some { s' with pc := .done rs true final }
        else if att + 1 < retries then some { s' with pc := .committing rs (att + 1) final }
        else some { s' with pc := .done rs false final }
      else none
    | _ => none
  | .abort =>
    let s := settle s
    match s.pc with
    | .committing rs att final => if att > 0 then some { s with pc := .done rs false final } else none
    | _ => none
  | .replied =>
    match s.pc with
    | .done [r] ok false =>
      if s.sync then some { s with replied := s.replied ++ [(r, ok)], stash := [], pc := .idle } else none
    | _ => none
  | .reply ok' =>
    let s := settle s
    match s.pc with
    | .done (r :: rs) ok true =>
      if s.sync && ok == ok' then some { s with replied := s.replied ++ [(r, ok)], pc := .done rs ok true } else none
    | _ => none
  | .reset =>
    let s := settle s
    match s.pc with
    | .done [] true final => if !s.sync then some { s with stash := [], pc := if final then .done [] true true else .idle } else none
    | _ => none
  | .tick =>
    let s := settle s
    if s.pc == .idle && !s.sync then some (enterCommit s [] false) else none
  | .genEnd =>
    let s := settle s
    if s.pc == .idle then some { s with pc := .draining [] } else none
  | .endLoop =>
    let s := settle s
    match s.pc with
    | .done [] _ true => some { s with pc := .none }
    | _ => none
  | .ret id ok =>
    -- `case err := <-errch: return err`: only after the commit loop answered this request with that result
    if s.replied.any (fun x => x.1.id == id && x.2 == ok) then some { s with rets := s.rets ++ [(id, ok)] } else none

def crun : CState → List CEv → Option CState
  | s, [] => some s
  | s, e :: es => match cstep s e with
    | some s' => crun s' es
    | none => none

def cfirstReject : CState → List CEv → Nat → Option (Nat × CState)
  | _, [], _ => none
  | s, e :: es, i => match cstep s e with
    | some s' => cfirstReject s' es (i + 1)
    | none => some (i, s)

/-! ### two commit loops at once (D8 shape)

`Reader.run` starts the commit loop of a generation with `gen.Start`; when the generation has already ended the function
is launched unaccounted (D8) and runs — with its context already cancelled: drain, final commit, answers — possibly
WHILE the next generation's loop is running.  Both loops receive from the same `r.commits` channel and talk to the
coordinator; each has its own stash.  `cstep2` runs an event of either loop: the second loop's stash and program counter
live in `lstash`/`lpc`, everything else (queue, history, answers) is shared. -/

def swap (s : CState) : CState := { s with stash := s.lstash, pc := s.lpc, lstash := s.stash, lpc := s.pc }

inductive CEv2
  | main (e : CEv)
  | late (e : CEv)
  deriving Repr

def cstep2 (s : CState) : CEv2 → Option CState
  | .main e => cstep s e
  | .late e =>
    match e with
    | .call _ _ => none      -- application events are not loop events
    | .ret _ _ => none
    | _ => (cstep (swap s) e).map swap

def crun2 : CState → List CEv2 → Option CState
  | s, [] => some s
  | s, e :: es => match cstep2 s e with
    | some s' => crun2 s' es
    | none => none

inductive CReachable2 : CState → Prop
  | init : CReachable2 {}
  | step {s s' : CState} (e : CEv2) : CReachable2 s → cstep2 s e = some s' → CReachable2 s'

inductive CReachable : CState → Prop
  | init : CReachable {}
  | step {s s' : CState} (e : CEv) : CReachable s → cstep s e = some s' → CReachable s'

end KV.Commit
