/-
Model/WriterClose.lean — the Close / enter / leave / spawn protocol of writer.go as an LTS (core Lean only).

Go ↔ model
* `(*Writer).enter`            ↔ `Event.enter`   (critical section on w.mutex: closed? else group.Add(1))
* `(*Writer).leave` (deferred) ↔ `Event.leave` / `Event.early` / the rejected branch of `Event.batch`
* validation + `w.partitions` (metadata lookups, between enter and batchMessages) ↔ phase `entered`;
  `Event.metaReq` / `metaRel` are the observables "a metadata lookup of call c reached the transport / is about to
  be answered" (`held`: batchMessages cannot run while a lookup of the call is inside the transport)
* `(*Writer).batchMessages`    ↔ `Event.batch`   (critical section on w.mutex; `cfg.fixed` = the re-check of
  `w.closed` added by the D1 repair, commit ff73da6; `fixed := false` is the original code)
* `newPartitionWriter` (spawn writeBatches), `writeMessages`, `newWriteBatch` (spawn awaitBatch),
  `batch.full → trigger, queue.Put`       ↔ `addOne` / `addMsgPW` / `putBatch`
* `awaitBatch`                 ↔ `Event.timer`   (timer branch: Put if still current; ready branch: nothing to do —
  both end the goroutine, so they are one event)
* `writeBatches` / `batchQueue.Get` ↔ `Event.get` (take the head, or exit when the queue is closed and empty)
* `writeBatch` attempt loop    ↔ `Event.attempt` (outcome ok / temporary / permanent, bounded by MaxAttempts),
  `Completion` callback + `batch.complete` ↔ `Event.complete`
* the `select` of WriteMessages on `ctx.Done()` / `batch.done` ↔ `Event.leave` (result chosen by what is enabled)
* `(*Writer).Close`            ↔ `closeBegin` (call), `closeMark` (critical section: closed := true, close every
  partition writer, empty the map), `closeReturn` (group.Wait() returned)
* `sync.WaitGroup w.group`     ↔ `wg` — *derived*: number of calls between enter and leave + live writeBatches
  goroutines + live awaitBatch goroutines (that is what Add/Done bracket in enter/leave/spawn).

Abstractions: every message has size 1 and only BatchSize limits a batch (the byte limit is C08's subject);
a partition writer is in `w.writers` iff its queue is open (`PW.opn`) — in the Go code `close()` and `delete`
happen together under w.mutex.
-/
namespace KV.WriterClose

structure Cfg where
  maxAttempts : Nat
  batchSize : Nat
  fixed : Bool
  async : Bool
deriving Repr, DecidableEq

structure Batch where
  id : Nat
  msgs : List Nat
deriving Repr, DecidableEq, Hashable

inductive Outcome | ok | temp | perm
deriving Repr, DecidableEq, Hashable

/-- why a batch ended: acked by the broker, attempts exhausted on temporary errors, permanent error -/
inductive Why | acked | exhausted | permanent
deriving Repr, DecidableEq, Hashable

inductive Sender
  | idle
  | sending (b : Batch) (k : Nat)        -- k attempts have failed so far
  | completing (b : Batch) (why : Why)   -- Completion callback and close(done) still to run
  | exited
deriving Repr, DecidableEq, Hashable

structure PW where
  pid : Nat
  key : Nat
  opn : Bool                 -- in w.writers and queue not closed
  queue : List Batch
  curr : Option Batch
  sender : Sender
deriving Repr, DecidableEq, Hashable

inductive Res | nil | closedPipe | writeErrors | ctxErr | other
deriving Repr, DecidableEq, Hashable

inductive Phase
  | invoked | entered | waiting | left (r : Res) | returned (r : Res)
deriving Repr, DecidableEq, Hashable

structure Call where
  id : Nat
  msgs : List (Nat × Nat)     -- (message id, partition key chosen by the balancer)
  mayFail : Bool              -- the environment may fail this call before batchMessages (metadata error, too large)
  cancelled : Bool
  held : Bool                 -- a metadata lookup of the call is inside the transport (batchMessages cannot run)
  bornClosed : Bool           -- ghost: the writer was already marked closed when the call was invoked
  phase : Phase
deriving Repr, DecidableEq, Hashable

structure State where
  closed : Bool
  close : Nat                 -- 0 not called, 1 called, 2 marked (waiting on the group), 3 returned
  calls : List Call
  writers : List PW
  awaiters : List Nat         -- batch ids whose awaitBatch goroutine is alive
  completed : List (Nat × Why) -- message id ↦ outcome handed to Completion
  accepted : List Nat         -- ghost: message ids queued by batchMessages
  nextB : Nat
deriving Repr, DecidableEq, Hashable

def State.init : State := ⟨false, 0, [], [], [], [], [], 0⟩

inductive Event
  | callBegin (c : Nat) (msgs : List (Nat × Nat)) (mayFail : Bool)
  | ctxCancel (c : Nat)
  | closeBegin
  | enter (c : Nat)
  | metaReq (c : Nat)
  | metaRel (c : Nat)
  | early (c : Nat) (r : Res)
  | batch (c : Nat)
  | timer (b : Nat)
  | get (p : Nat)
  | attempt (p : Nat) (o : Outcome)
  | complete (p : Nat)
  | leave (c : Nat) (r : Res)
  | ret (c : Nat)
  | closeMark
  | closeReturn
deriving Repr, DecidableEq

/-- events of the library's own goroutines and of calls already inside the library -/
def Event.internal : Event → Bool
  | .callBegin .. | .ctxCancel _ | .closeBegin | .closeMark | .closeReturn | .metaReq _ | .metaRel _ => false
  | _ => true

/-! ### derived quantities -/

def Call.holdsGroup (c : Call) : Bool := c.phase = .entered || c.phase = .waiting
def PW.live (p : PW) : Bool := p.sender ≠ .exited

def Sender.msgs : Sender → List Nat
  | .sending b _ => b.msgs
  | .completing b _ => b.msgs
  | _ => []

def PW.currMsgs (p : PW) : List Nat := match p.curr with | some b => b.msgs | none => []
def PW.queueMsgs (p : PW) : List Nat := p.queue.flatMap (·.msgs)
/-- messages held by a partition writer (queued, in the open batch, or being sent / completed) -/
def PW.msgs (p : PW) : List Nat := p.queueMsgs ++ p.currMsgs ++ p.sender.msgs

/-- the WaitGroup count -/
def State.wg (s : State) : Nat :=
  s.calls.countP Call.holdsGroup + s.writers.countP PW.live + s.awaiters.length

def State.isCompleted (s : State) (m : Nat) : Bool := s.completed.any (·.1 = m)

/-! ### helpers -/

def updCalls (s : State) (c : Nat) (p : Call → Bool) (f : Call → Call) : State :=
  { s with calls := s.calls.map fun x => if x.id = c && p x then f x else x }

def hasCall (s : State) (c : Nat) (p : Call → Bool) : Bool := s.calls.any fun x => x.id = c && p x

def updPWs (s : State) (i : Nat) (p : PW → Bool) (f : PW → PW) : State :=
  { s with writers := s.writers.map fun x => if x.pid = i && p x then f x else x }

def hasPW (s : State) (i : Nat) (p : PW → Bool) : Bool := s.writers.any fun x => x.pid = i && p x

/-- `batchQueue.Put`: refused (and the batch dropped: nobody looks at the result) when the queue is closed -/
def putBatch (p : PW) (b : Batch) : PW :=
  if p.opn then { p with queue := p.queue ++ [b] } else p

/-- one iteration of the loop of `writeMessages` for message m (sizes abstracted to 1) -/
def addMsgPW (cfg : Cfg) (p : PW) (m : Nat) (nextB : Nat) : PW :=
  let b : Batch := match p.curr with
    | none => ⟨nextB, [m]⟩
    | some b => { b with msgs := b.msgs ++ [m] }
  if cfg.batchSize ≤ b.msgs.length then putBatch { p with curr := none } b else { p with curr := some b }

def newPW (pid key : Nat) : PW := ⟨pid, key, true, [], none, .idle⟩

/-- `batchMessages` loop body for one message: find or create the partition writer, `writeMessages` -/
def addOne (cfg : Cfg) (s : State) (mk : Nat × Nat) : State :=
  let ws := if s.writers.any (fun p => p.opn && p.key = mk.2) then s.writers
            else s.writers ++ [newPW s.writers.length mk.2]
  let fresh := ws.any fun p => p.opn && p.key = mk.2 && p.curr.isNone
  { s with
    writers := ws.map fun p => if p.opn && p.key = mk.2 then addMsgPW cfg p mk.1 s.nextB else p
    awaiters := if fresh then s.awaiters ++ [s.nextB] else s.awaiters
    nextB := if fresh then s.nextB + 1 else s.nextB
    accepted := s.accepted ++ [mk.1] }

/-- `awaitBatch` of batch b on partition writer p: the timer branch queues b if it is still the open batch -/
def timerPW (b : Nat) (p : PW) : PW :=
  match p.curr with
  | some cb => if cb.id = b then putBatch { p with curr := none } cb else p
  | none => p

def Phase.isLeft : Phase → Bool
  | .left _ => true
  | _ => false

def Call.doReturn (x : Call) : Call :=
  match x.phase with
  | .left r => { x with phase := .returned r }
  | _ => x

/-- `partitionWriter.close` -/
def closePW (p : PW) : PW :=
  match p.curr with
  | some b => { p with queue := p.queue ++ [b], curr := none, opn := false }
  | none => { p with opn := false }

def callResult (s : State) (c : Call) : Res :=
  if c.msgs.all (fun mk => s.completed.any fun x => x.1 = mk.1 && x.2 = .acked) then .nil else .writeErrors

def attemptNext (cfg : Cfg) (b : Batch) (k : Nat) : Outcome → Sender
  | .ok => .completing b .acked
  | .perm => .completing b .permanent
  | .temp => if k + 1 < cfg.maxAttempts then .sending b (k + 1) else .completing b .exhausted

def Sender.isSending : Sender → Bool
  | .sending _ _ => true
  | _ => false

def Sender.isCompleting : Sender → Bool
  | .completing _ _ => true
  | _ => false

/-- when may a call that passed enter() return before batchMessages with result r -/
def earlyOk (r : Res) (x : Call) : Bool :=
  match r with
  | .nil => x.msgs.isEmpty
  | .ctxErr => x.cancelled
  | .other => x.mayFail
  | _ => false

/-- when may a call waiting for its batches return with result r -/
def leaveOk (s : State) (r : Res) (x : Call) : Bool :=
  match r with
  | .ctxErr => x.cancelled
  | .nil | .writeErrors => x.msgs.all (fun mk => s.isCompleted mk.1) && callResult s x = r
  | _ => false

/-! ### the transition function -/

def step (cfg : Cfg) (s : State) : Event → Option State
  | .callBegin c msgs mf =>
    if s.calls.any (·.id = c) then none
    else some { s with calls := s.calls ++ [⟨c, msgs, mf, false, false, s.closed, .invoked⟩] }
  | .ctxCancel c =>
    if hasCall s c (fun _ => true) then some (updCalls s c (fun _ => true) fun x => { x with cancelled := true }) else none
  | .closeBegin => if s.close = 0 then some { s with close := 1 } else none
  | .enter c =>
    if hasCall s c (·.phase = .invoked) then
      some (updCalls s c (·.phase = .invoked) fun x =>
        { x with phase := if s.closed then .left .closedPipe else .entered })
    else none
  | .metaReq c =>
    if hasCall s c (·.phase = .entered) then some (updCalls s c (·.phase = .entered) fun x => { x with held := true }) else none
  | .metaRel c =>
    if hasCall s c (fun x => x.phase = .entered && x.held) then
      some (updCalls s c (·.phase = .entered) fun x => { x with held := false })
    else none
  | .early c r =>
    if hasCall s c (fun x => x.phase = .entered && earlyOk r x) then
      some (updCalls s c (·.phase = .entered) fun x => { x with phase := .left r })
    else none
  | .batch c =>
    match s.calls.find? (fun x => x.id = c && x.phase = .entered && !x.msgs.isEmpty && !x.held) with
    | none => none
    | some x =>
      if cfg.fixed && s.closed then
        some (updCalls s c (·.phase = .entered) fun y => { y with phase := .left .closedPipe })
      else
        let s1 := x.msgs.foldl (addOne cfg) s
        some (updCalls s1 c (· == x) fun y => { y with phase := if cfg.async then .left .nil else .waiting })
  | .timer b =>
    if s.awaiters.contains b then
      some { s with
        awaiters := s.awaiters.erase b
        writers := s.writers.map (timerPW b) }
    else none
  | .get i =>
    if hasPW s i (fun p => p.sender = .idle && !p.queue.isEmpty) then
      some (updPWs s i (fun p => p.sender = .idle && !p.queue.isEmpty) fun p =>
        match p.queue with
        | b :: rest => { p with queue := rest, sender := .sending b 0 }
        | [] => p)
    else if hasPW s i (fun p => p.sender = .idle && p.queue.isEmpty && !p.opn) then
      some (updPWs s i (fun p => p.sender = .idle && p.queue.isEmpty && !p.opn) fun p => { p with sender := .exited })
    else none
  | .attempt i o =>
    if hasPW s i (·.sender.isSending) then
      some (updPWs s i (fun _ => true) fun p =>
        match p.sender with
        | .sending b k => { p with sender := attemptNext cfg b k o }
        | _ => p)
    else none
  | .complete i =>
    match s.writers.find? (fun p => p.pid = i && p.sender.isCompleting) with
    | some p =>
      match p.sender with
      | .completing b why =>
        some { (updPWs s i (fun q => q.sender = .completing b why) fun q => { q with sender := .idle }) with
               completed := s.completed ++ b.msgs.map fun m => (m, why) }
      | _ => none
    | none => none
  | .leave c r =>
    if hasCall s c (fun x => x.phase = .waiting && leaveOk s r x) then
      some (updCalls s c (·.phase = .waiting) fun x => { x with phase := .left r })
    else none
  | .ret c =>
    if hasCall s c (·.phase.isLeft) then some (updCalls s c (·.phase.isLeft) Call.doReturn) else none
  | .closeMark =>
    if s.close = 1 then
      some { s with close := 2, closed := true, writers := s.writers.map closePW }
    else none
  | .closeReturn =>
    if s.close = 2 && s.wg = 0 then some { s with close := 3 } else none

def run (cfg : Cfg) : State → List Event → Option State
  | s, [] => some s
  | s, e :: es => match step cfg s e with
    | some s' => run cfg s' es
    | none => none

/-- reachable from the initial state by some event sequence -/
def Reachable (cfg : Cfg) (s : State) : Prop := ∃ es, run cfg State.init es = some s

/-- candidate internal events of a state (used by the oracle's τ-closure and by `stuck`) -/
def candidates (s : State) : List Event :=
  s.calls.flatMap (fun c =>
    [.enter c.id, .batch c.id, .ret c.id] ++
    [Res.nil, .ctxErr, .other].map (Event.early c.id) ++
    [Res.nil, .writeErrors, .ctxErr].map (Event.leave c.id)) ++
  s.awaiters.map Event.timer ++
  s.writers.flatMap (fun p => [.get p.pid, .complete p.pid] ++ [Outcome.ok, .temp, .perm].map (Event.attempt p.pid))

/-- no candidate internal event and no CloseReturn is enabled although Close is waiting -/
def stuck (cfg : Cfg) (s : State) : Bool :=
  s.close = 2 && (step cfg s .closeReturn).isNone && (candidates s).all fun e => (step cfg s e).isNone

end KV.WriterClose
