/-
Model/WireProg.lean — ANY reader that touches the connection only through the size-threading primitives
conserves bytes (core Lean only).

message_reader.go and the callbacks of batch.go are long and stateful (reader stack, counts, offsets, varints,
decompression), but they touch the wire in one discipline only:

      r.remain, err = prim(r.reader, r.remain, …)          -- read.go / discard.go primitives
      io.LimitedReader{R: r.reader, N: n} …; r.remain -= n - int(limitReader.N)     -- the two decompression sites
      io.ReadFull(r, b[:m]); return size - m …             -- Batch.Read's value callback

(that this is so is a structural fact re-read from the source on every run: `Gen/MuxFacts.lean`,
`wireSitesThreaded`, `remainOnlyFromPrims`).  A program in that discipline is a tree: call a primitive, look at its
result — value or error — and at anything else (the program's own state is in the closure), decide what to do next.
`Prog` is that tree, `Prog.run` executes it over Base/Reader's state `⟨inp, sz⟩`, and `prog_conserves` says the bytes
consumed and the counter move together — for EVERY such program, whatever it computes, however it handles errors,
whatever the bytes are.  Model/BatchBytes.lean is one (precise) instance; the theorem also covers the parts of the
real code that instance does not spell out (record batches, varints, headers, compression).
-/
import KafkaVerif.Base.Reader

namespace KV.WireProg
open KV KV.Reader

/-- the ways the code consumes bytes from the connection -/
inductive Prim
  | peekRead (n : Nat)          -- readInt8/16/32/64 (peekRead)
  | discardN (n : Int)          -- discardN, bufio.Discard under a size
  | readNewBytes (n : Int)      -- readNewBytes / readNewString
  | readUpTo (n k : Nat)        -- a LimitedReader of n bytes drained by a codec that takes k of them; io.ReadFull of n = k
  | varint (k : Nat)            -- readVarInt: consumes the k bytes of the encoding (or what is there)
  deriving Repr

/-- `takeUpTo n k`: at most `n`, at most what the frame and the stream hold, `k` as the consumer pleases -/
def takeUpTo (n k : Nat) : R Bytes := fun s =>
  let m := min (min n k) (min s.sz s.inp.length)
  (if m < min n k then .error .unexpectedEOF else .ok (s.inp.take m), ⟨s.inp.drop m, s.sz - m⟩)

def Prim.run : Prim → R Bytes
  | .peekRead n => Reader.peekRead n
  | .discardN n => fun s => match Reader.discardN n s with | (.ok _, s') => (.ok [], s') | (.error e, s') => (.error e, s')
  | .readNewBytes n => Reader.readNewBytes n
  | .readUpTo n k => takeUpTo n k
  | .varint k => takeUpTo k k

theorem conserves_takeUpTo (n k : Nat) : Conserves (takeUpTo n k) := by
  intro s
  unfold takeUpTo
  refine ⟨s.inp.take (min (min n k) (min s.sz s.inp.length)), (List.take_append_drop _ _).symm, ?_⟩
  simp only [List.length_take]; omega

theorem Prim.conserves (p : Prim) : Conserves p.run := by
  cases p with
  | peekRead n => exact conserves_peekRead n
  | discardN n =>
    intro s
    have h := conserves_discardN n s
    simp only [Prim.run]
    cases hd : Reader.discardN n s with
    | mk r s' => rw [hd] at h; cases r <;> exact h
  | readNewBytes n => exact conserves_readNewBytes n
  | readUpTo n k => exact conserves_takeUpTo n k
  | varint k => exact conserves_takeUpTo k k

/-- a program over the primitives: it sees the outcome (value or error) of each call and continues as it likes -/
inductive Prog (α : Type)
  | ret (a : α)
  | call (p : Prim) (k : Except Err Bytes → Prog α)

def Prog.run {α : Type} : Prog α → RS → α × RS
  | .ret a, s => (a, s)
  | .call p k, s => let r := p.run s; (k r.1).run r.2

/-- **every program in the discipline conserves bytes** -/
theorem prog_conserves {α : Type} (prog : Prog α) : ∀ s, Adv s (prog.run s).2 := by
  induction prog with
  | ret a => intro s; exact Adv.refl s
  | call p k ih =>
    intro s
    simp only [Prog.run]
    exact Adv.trans (p.conserves s) (ih (p.run s).1 (p.run s).2)

/-- … and so, whatever it did, discarding what its counter says is left finishes the frame exactly (or the stream
has ended): the next byte of the stream is the first byte after the frame. -/
theorem prog_then_discard_finishes {α : Type} (prog : Prog α) (s : RS) :
    let s1 := (prog.run s).2
    let s2 := (Reader.discardN (↑s1.sz) s1).2
    Adv s s2 ∧ (s2.sz = 0 ∨ s2.inp = []) ∧ (s2.sz = 0 → s2.inp = s.inp.drop s.sz) := by
  intro s1 s2
  have h1 := prog_conserves prog s
  have h2 := conserves_discardN (↑s1.sz) s1
  have hadv : Adv s s2 := Adv.trans h1 h2
  refine ⟨hadv, ?_, fun hz => (hadv.consumed_all hz).2⟩
  show (Reader.discardN (↑s1.sz) s1).2.sz = 0 ∨ (Reader.discardN (↑s1.sz) s1).2.inp = []
  unfold Reader.discardN
  simp only [Int.le_refl, ↓reduceIte, Int.toNat_natCast]
  have hn : ¬ ((s1.sz : Int) < 0) := by omega
  simp only [hn, ↓reduceIte]
  split
  · right; rfl
  · left; simp

end KV.WireProg
