/-
Model/RoundTrip.lean — the request-level decisions of transport.go (*connPool).roundTrip around `sendRequest`
(C12; core only).

Go ↔ Lean
  roundTrip `case *meta.Request`  (serve from the cache unless auto-creation of an unknown topic is wanted)   metadataDecision
  roundTrip after `await`         (createtopics / auto-creating metadata: which topics to wait for)           topicsToRefresh
  refreshMetadata loop exit       (all expected topics are in the layout)                                      refreshDone
-/
import KafkaVerif.Model.Routing

namespace KV.RoundTrip
open KV.Routing

structure MetaReq where
  names : Option (List String)     -- nil TopicNames = all topics
  autoCreate : Bool                -- AllowAutoTopicCreation
  deriving Repr, Inhabited

inductive MetaDecision where
  | cacheError                     -- `state.err != nil`: the last refresh error is returned
  | noCache                        -- no error and no metadata: cannot happen after the pool is ready (nil dereference)
  | fromCache (res : MResponse)    -- answered without contacting a broker
  | askBroker                      -- falls through to sendRequest (control connection)
  deriving Repr, Inhabited

/-- the `case *meta.Request` arm of roundTrip -/
def metadataDecision (s : PoolState) (q : MetaReq) : MetaDecision :=
  if s.err then .cacheError
  else match s.metadata with
    | none => .noCache
    | some cached =>
      let c := filterMetadata q.names cached
      if q.autoCreate && c.topics.any (fun t => t.error == errUnknownTopic) then .askBroker
      else .fromCache c

/-- topics of a CreateTopics / auto-creating Metadata response the transport then waits for: those without error -/
def topicsToRefresh (topics : List (String × Int)) : List String :=
  (topics.filter (fun t => t.2 == 0)).map (·.1)

/-- refreshMetadata stops once every expected topic is in the cached layout -/
def refreshDone (layout : Cluster) (expect : List String) : Bool :=
  expect.all fun t => (layout.topics.lookup t).isSome

end KV.RoundTrip
