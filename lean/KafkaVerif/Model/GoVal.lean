/-
Model/GoVal.lean — the full Go value tree of a message (all struct fields, whatever the version), its
canonical text for the line protocol, and projection to / embedding from the per-version `Val`.

Text (space separated tokens, directed by the raw schema):
  bool `T`/`F` · ints decimal · float64 `f<bits>` · string `s<hex>` (`s-` empty) · []byte `n` | `b<hex>` (`b-` empty)
  slice `N` | `[ e… ]` · struct `{ f… }` · struct{} `u` · RecordSet `rn` | `r<hex payload>` | `rs` (some, payload not shown)
-/
import KafkaVerif.Model.Resolve
import KafkaVerif.Model.Codec

namespace KV.Codec
open KV

inductive GVal where
  | bool (b : Bool)
  | int (i : Int)
  | f64 (bits : Int)
  | str (s : Bytes)
  | bytes (b : Option Bytes)
  | slice (a : Option (List GVal))
  | struct (fs : List GVal)
  | unit
  | records (p : Option Bytes)
  | recordsOpaque
  deriving Repr, Inhabited

def hexTok (b : Bytes) : String := if b.isEmpty then "-" else toHex b

partial def GVal.toTokens : GVal → List String
  | .bool b => [if b then "T" else "F"]
  | .int i => [toString i]
  | .f64 i => ["f" ++ toString i]
  | .str s => ["s" ++ hexTok s]
  | .bytes none => ["n"]
  | .bytes (some b) => ["b" ++ hexTok b]
  | .slice none => ["N"]
  | .slice (some l) => ["["] ++ (l.map GVal.toTokens).flatten ++ ["]"]
  | .struct fs => ["{"] ++ (fs.map GVal.toTokens).flatten ++ ["}"]
  | .unit => ["u"]
  | .records none => ["rn"]
  | .records (some _) => ["rs"]
  | .recordsOpaque => ["rs"]

def GVal.text (g : GVal) : String := " ".intercalate g.toTokens

def dropFirst (s : String) : String := String.ofList (s.toList.drop 1)

mutual
partial def parseG (structs : List RawStruct) : GoTy → List String → Option (GVal × List String)
  | .bool, "T" :: r => some (.bool true, r)
  | .bool, "F" :: r => some (.bool false, r)
  | .float64, t :: r => if t.startsWith "f" then (dropFirst t).toNat?.map fun n => (.f64 n, r) else none
  | .string, t :: r => if t.startsWith "s" then (ofHex (dropFirst t)).map fun b => (.str b, r) else none
  | .bytes, "n" :: r => some (.bytes none, r)
  | .bytes, t :: r => if t.startsWith "b" then (ofHex (dropFirst t)).map fun b => (.bytes (some b), r) else none
  | .slice _, "N" :: r => some (.slice none, r)
  | .slice e, "[" :: r => parseElems structs e r []
  | .named n, "{" :: r => match findStruct structs n with
    | some s => parseFieldsG structs s.fields r []
    | none => none
  | .unit, "u" :: r => some (.unit, r)
  | .recordSet, t :: r | .rawRecordSet, t :: r =>
    if t == "rn" then some (.records none, r)
    else if t == "rs" then some (.recordsOpaque, r)
    else if t.startsWith "r" then (ofHex (dropFirst t)).map fun b => (.records (some b), r) else none
  | .int8, t :: r | .int16, t :: r | .int32, t :: r | .int64, t :: r => t.toInt?.map fun i => (.int i, r)
  | _, _ => none
partial def parseElems (structs : List RawStruct) (e : GoTy) : List String → List GVal → Option (GVal × List String)
  | "]" :: r, acc => some (.slice (some acc.reverse), r)
  | toks, acc => match parseG structs e toks with
    | some (v, r) => parseElems structs e r (v :: acc)
    | none => none
partial def parseFieldsG (structs : List RawStruct) : List RawField → List String → List GVal → Option (GVal × List String)
  | [], "}" :: r, acc => some (.struct acc.reverse, r)
  | f :: fs, toks, acc => match parseG structs f.ty toks with
    | some (v, r) => parseFieldsG structs fs r (v :: acc)
    | none => none
  | _, _, _ => none
end

/-- parse the text of a whole message -/
def parseMsgText (m : RawMsg) (toks : List String) : Option GVal :=
  match parseG m.structs (.named m.root) toks with
  | some (v, []) => some v
  | _ => none

mutual
/-- the fields of the Go value that are live in `version`, in the shape of the resolved `Ty` -/
partial def project (structs : List RawStruct) (version : Int) : GoTy → GVal → Option Val
  | .bool, .bool b => some (.bool b)
  | .string, .str s => some (.str s)
  | .bytes, .bytes b => some (.bytes b)
  | .slice _, .slice none => some (.arr none)
  | .slice e, .slice (some l) => (l.mapM (project structs version e)).map fun vs => .arr (some vs)
  | .named n, .struct gs => match findStruct structs n with
    | some s => projectFields structs version s.fields gs [] []
    | none => none
  | .unit, .unit => some (.struct [] [])
  | .recordSet, .records p | .rawRecordSet, .records p => some (.records p)
  | .recordSet, .recordsOpaque | .rawRecordSet, .recordsOpaque => some (.records (some []))
  | .int8, .int i | .int16, .int i | .int32, .int i | .int64, .int i | .float64, .f64 i => some (.int i)
  | _, _ => none
partial def projectFields (structs : List RawStruct) (version : Int) : List RawField → List GVal → List Val → List Val → Option Val
  | [], [], fs, ts => some (.struct fs.reverse ts.reverse)
  | f :: rest, g :: gs, fs, ts =>
    match fieldAlts f with
    | none => none
    | some alts => match selectAlt alts version with
      | none => projectFields structs version rest gs fs ts
      | some tag => match project structs version f.ty g with
        | none => none
        | some v => if tag.tagId < -1 then projectFields structs version rest gs (v :: fs) ts
                    else projectFields structs version rest gs fs (v :: ts)
  | _, _, _, _ => none
end

mutual
partial def gzero (structs : List RawStruct) : GoTy → GVal
  | .bool => .bool false
  | .string => .str []
  | .bytes => .bytes none
  | .slice _ => .slice none
  | .named n => match findStruct structs n with
    | some s => .struct (s.fields.map fun f => gzero structs f.ty)
    | none => .struct []
  | .unit => .unit
  | .recordSet | .rawRecordSet => .records none
  | .float64 => .f64 0
  | _ => .int 0
end

mutual
/-- the Go value holding `v` in the fields live in `version` and zero values elsewhere -/
partial def embed (structs : List RawStruct) (version : Int) : GoTy → Val → GVal
  | .bool, .bool b => .bool b
  | .string, .str s => .str s
  | .bytes, .bytes b => .bytes b
  | .slice _, .arr none => .slice none
  | .slice e, .arr (some l) => .slice (some (l.map (embed structs version e)))
  | .named n, .struct fs ts => match findStruct structs n with
    | some s => .struct (embedFields structs version s.fields fs ts)
    | none => .struct []
  | .unit, _ => .unit
  | .recordSet, .records p | .rawRecordSet, .records p => .records p
  | .float64, .int i => .f64 i
  | _, .int i => .int i
  | g, _ => gzero structs g
partial def embedFields (structs : List RawStruct) (version : Int) : List RawField → List Val → List Val → List GVal
  | [], _, _ => []
  | f :: rest, fs, ts =>
    match fieldAlts f >>= (selectAlt · version) with
    | none => gzero structs f.ty :: embedFields structs version rest fs ts
    | some tag =>
      if tag.tagId < -1 then
        match fs with
        | v :: fs' => embed structs version f.ty v :: embedFields structs version rest fs' ts
        | [] => gzero structs f.ty :: embedFields structs version rest [] ts
      else
        match ts with
        | v :: ts' => embed structs version f.ty v :: embedFields structs version rest fs ts'
        | [] => gzero structs f.ty :: embedFields structs version rest fs []
end

end KV.Codec
