/-
Model/ReaderWorld.lean — the environment of `(*reader).run` made concrete: a partition whose stored layout is `items`,
a broker that obeys the fetch contract (`Spec/Layout.serve`), a network that may lose the connection after any number
of bytes, a clock that may or may not have passed the deadline — and the **decoder as written**
(Model/PullReader.lean) reading what arrives.  The outcomes of the `read` calls of Model/ReaderLoopLTS.lean's LTS are
computed here instead of being assumed.  Core Lean only.
-/
import KafkaVerif.Model.ReaderLoopLTS
import KafkaVerif.Model.PullReader
import KafkaVerif.Spec.Layout

namespace KV.C02

/-- what broker, network and clock do at one blocking call of `(*reader).run` -/
inductive Env
  | sleepOk
  | sleepCancel
  /-- dial / readOffsets / Seek fails -/
  | initFail (oor : Bool)
  /-- `initialize` succeeds; the broker reports these first / last offsets -/
  | initOk (first last : Int)
  /-- a fetch is answered: byte budget of the broker, the high watermark it reports, whether the deadline has passed
  when the batch has been read -/
  | fetch (budget : Nat) (hwm : Int) (expired : Bool)
  /-- a fetch is answered while the log is still shorter: the partition is being written to, at this moment it holds
  the first `m` batches / messages of `items` (appends only: what is stored is a prefix of what will be stored) -/
  | fetchSnap (m : Nat) (budget : Nat) (hwm : Int) (expired : Bool)
  /-- a fetch is answered but the connection is lost after `n` bytes of the message set -/
  | lost (n : Nat) (hwm : Int) (expired : Bool)
  /-- the fetch is answered with a partition error (for OffsetOutOfRange: what readOffsets then reports) -/
  | kerr (code : Nat) (offsets : Option (Int × Int))
  | ioErr
  /-- the context is cancelled (SetOffset / Close) while a round is being handed on: `k` of its messages got through -/
  | canceled (budget : Nat) (hwm : Int) (expired : Bool) (k : Nat)
  | unknownCodec
  deriving Repr

/-- the event the reader loop sees -/
def worldEvent (items : List Item) (s : RR) : Env → REv
  | .sleepOk => .sleepOk
  | .sleepCancel => .sleepCancel
  | .initFail oor => .initFail oor
  | .initOk first last => .initOk first last
  | .fetch b hwm e =>
    -- Conn.ReadBatchWith at conn.offset, ReadMessage until it fails, Close
    let r := Pull.readAll e s.connOff hwm (serve items s.connOff b)
    .data r.1 r.2.1 r.2.2
  | .fetchSnap m b hwm e =>
    let r := Pull.readAll e s.connOff hwm (serve (items.take m) s.connOff b)
    .data r.1 r.2.1 r.2.2
  | .lost n hwm e =>
    .cutAfter (Pull.readAll e s.connOff hwm (truncate (allTokens (dropBefore s.connOff items)) n)).1
  | .kerr code offs => .kerr code offs
  | .ioErr => .ioErr
  | .canceled b hwm e k => .ctxCanceled ((Pull.readAll e s.connOff hwm (serve items s.connOff b)).1.take k)
  | .unknownCodec => .unknownCodec

def worldRun (cfg : RCfg) (items : List Item) : RR → List Env → RR
  | s, [] => s
  | s, x :: xs => worldRun cfg items (rstep cfg s (worldEvent items s x)) xs

/-- the only assumption left on the environment: a first offset the broker reports (ListOffsets) is not above a record
that is still stored, and first ≤ last -/
def Env.ok (items : List Item) : Env → Prop
  | .initOk first last => 0 ≤ first ∧ first ≤ last ∧ ∀ r ∈ allRecords items, first ≤ r.1
  | .kerr 1 (some (first, _)) => ∀ r ∈ allRecords items, first ≤ r.1
  | _ => True

end KV.C02
