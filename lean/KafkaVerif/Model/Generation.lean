/-
Model/Generation.lean — the Start/close accounting of `consumergroup.go` `Generation` (core Lean only).

Go ↔ Lean
* `Generation{done, closed, routines, joined}`            ↔ `Gen.closed` (= `done` is closed: both are written in
  the same critical sections), `Gen.routines`, `Gen.joined` (= the `joined` channel is closed)
* `(*Generation).Start`, critical section under `g.lock`   ↔ `Gen.start`   (returns whether the function was accounted)
* the epilogue of the goroutine launched by `Start`        ↔ `Gen.fnExit`  (`none` = Go would panic: close of closed channel /
  negative counter)
* `(*Generation).close`, critical section                  ↔ `Gen.closeBegin` (returns `r`), `Gen.closeCanReturn`
* `genCtx.Done()/Err()`                                    ↔ `Gen.closed` (ctx is cancelled iff `done` is closed)
* `heartbeatLoop`, `partitionWatcher` bodies               ↔ `Proc`, `WProc` little state machines driven by the
  coordinator's answers (environment events)

Ghost fields (`accounted`, `exited`, `returning`, `users`, `late`) only count; no Go statement reads them.
-/
namespace KV.Group

/-- error classes of a coordinator answer as far as `consumergroup.go` distinguishes them -/
inductive Err
  | closed        -- ErrGroupClosed (never a coordinator answer; produced by nextGeneration itself)
  | rebalance     -- kafka.Error RebalanceInProgress (27)
  | unknownTopic  -- kafka.Error UnknownTopicOrPartition (3)
  | kafka         -- any other kafka.Error code
  | net           -- anything else (dropped connection, timeout)
  deriving DecidableEq, Repr, Inhabited

/-- `errors.As(err, &kafkaError)` -/
def Err.isKafka : Err → Bool
  | .rebalance | .unknownTopic | .kafka => true
  | _ => false

/-- heartbeat function: `idle` = blocked in the select, `calling` = inside `conn.heartbeat`, `failed` = got an error
and is returning, `done` = returned from the function body -/
inductive Proc | idle | calling | failed | done
  deriving DecidableEq, Repr

/-- partition watcher: `init` before the start-up `readPartitions`, `calling0` inside it, `idle n` in the select with
`oParts = n`, `calling n` inside the periodic `readPartitions`, `failed` returning, `done` returned -/
inductive WProc | init | calling0 | idle (n : Nat) | calling (n : Nat) | failed | done
  deriving DecidableEq, Repr

structure Gen where
  gid : Int
  member : String
  closed : Bool := false
  routines : Nat := 0
  joined : Bool := false
  accounted : Nat := 0   -- ghost: number of accounted Start calls
  exited : Nat := 0      -- ghost: number of exit sections executed
  returning : Nat := 0   -- ghost: accounted functions whose body returned, exit section still pending
  users : Nat := 0       -- ghost: accounted application functions still inside their body
  late : Nat := 0        -- ghost: unaccounted (started after the end) application functions still running
  hb : Option Proc := none
  watchers : List (WProc × Bool) := []   -- state, accounted; index = position of the topic in config.Topics
  deriving Repr

namespace Gen

/-- `Start`, accounting part.  Returns the new state and whether the function was accounted. -/
def start (g : Gen) : Gen × Bool :=
  if g.closed then (g, false)
  else ({ g with routines := g.routines + 1, accounted := g.accounted + 1 }, true)

/-- the body of an accounted function returned (no Go state changes; the exit section becomes pending) -/
def bodyReturned (g : Gen) (acc : Bool) : Gen :=
  if acc then { g with returning := g.returning + 1 } else g

/-- exit section of the goroutine launched by `Start` -/
def fnExit (g : Gen) : Option Gen :=
  if g.routines = 0 ∨ g.returning = 0 then none
  else if g.routines = 1 ∧ g.joined then none      -- close of a closed channel
  else some { g with closed := true, routines := g.routines - 1, exited := g.exited + 1,
                     returning := g.returning - 1,
                     joined := g.joined || (g.routines == 1) }

/-- critical section of `close()`: returns the new state, whether it was already closed, and `r` -/
def closeBegin (g : Gen) : Gen × Bool × Nat :=
  ({ g with closed := true }, g.closed, g.routines)

/-- `close()` may return: `r = 0` or `<-g.joined` succeeds -/
def closeCanReturn (g : Gen) (r : Nat) : Bool := r == 0 || g.joined

/-- the accounting invariant -/
structure Inv (g : Gen) : Prop where
  count : g.routines + g.exited = g.accounted
  joined_iff : g.joined = true ↔ (g.closed = true ∧ g.routines = 0 ∧ 0 < g.accounted)
  exited_closed : 0 < g.exited → g.closed = true

theorem inv_fresh (gid : Int) (m : String) : Inv { gid := gid, member := m } :=
  ⟨rfl, by simp, by simp⟩

theorem inv_start (g : Gen) (h : Inv g) : Inv g.start.1 := by
  unfold start
  by_cases hc : g.closed = true
  · simp [hc]; exact h
  · simp [hc]
    refine ⟨?_, ?_, ?_⟩
    · have := h.count; show g.routines + 1 + g.exited = g.accounted + 1; omega
    · have hj := h.joined_iff
      constructor
      · intro hjn; simp at hjn; have := hj.mp hjn; exact absurd this.1 hc
      · intro hx; simp at hx
    · intro he; simp at he; exact absurd (h.exited_closed he) hc

theorem inv_bodyReturned (g : Gen) (acc : Bool) (h : Inv g) : Inv (g.bodyReturned acc) := by
  unfold bodyReturned; split
  · exact ⟨h.count, h.joined_iff, h.exited_closed⟩
  · exact h

theorem inv_fnExit (g g' : Gen) (h : Inv g) (he : g.fnExit = some g') : Inv g' := by
  unfold fnExit at he
  split at he
  · cases he
  · split at he
    · cases he
    · rename_i h1 h2
      cases he
      have hr : 0 < g.routines := by omega
      have hnj : g.joined = false := by
        cases hj : g.joined with
        | false => rfl
        | true => have := (h.joined_iff.mp hj).2.1; omega
      refine ⟨?_, ?_, ?_⟩
      · have := h.count; simp; omega
      · have := h.count
        simp [hnj]
        omega
      · intro _; rfl

theorem inv_closeBegin (g : Gen) (h : Inv g) : Inv g.closeBegin.1 := by
  unfold closeBegin
  refine ⟨h.count, ?_, fun _ => rfl⟩
  simp
  constructor
  · intro hj; exact (h.joined_iff.mp hj).2
  · intro ⟨h0, ha⟩
    have hc : g.closed = true := h.exited_closed (by have := h.count; omega)
    exact h.joined_iff.mpr ⟨hc, h0, ha⟩

/-- from an invariant state the exit section never panics on a double close of `joined` -/
theorem fnExit_no_double_close (g : Gen) (h : Inv g) (hr : 0 < g.routines) (hp : 0 < g.returning) :
    (g.fnExit).isSome = true := by
  unfold fnExit
  have hnj : g.joined = false := by
    cases hj : g.joined with
    | false => rfl
    | true => have := (h.joined_iff.mp hj).2.1; omega
  simp [hnj]; omega

theorem start_closed_mono (g : Gen) (h : g.closed = true) : g.start.1 = g := by
  simp [start, h]

theorem fnExit_closed (g g' : Gen) (he : g.fnExit = some g') : g'.closed = true := by
  unfold fnExit at he
  split at he
  · cases he
  · split at he
    · cases he
    · cases he; rfl

end Gen

end KV.Group
