/-
Model/GroupRound.lean — the assignment data flow of consumer-group rebalances across ALL members and generations
(core Lean only): who computes an assignment from what, where it is stored, who receives which part of it when.

One member's control flow through a rebalance is C15's `Model/GroupRun.lean` (`joining → assigning → syncing → …`,
events `joinOk`, `partsRes`, `syncRes`, whose guards tie the SyncGroup request to the member id and generation id of
the JoinGroup response).  Here N such members run interleaved against a coordinator, and the events carry the data
C15 abstracts away:

  Go (consumergroup.go)                                   Lean
  conn.joinGroup answer (member id, generation, leader,   `Ev.joinOk m gid`: the member takes the round `gid` the
    for the leader: every member's metadata)                coordinator completed (`Round`: members in response order)
  leader: makeMemberProtocolMetadata, extractTopics,       `Ev.assign m got`: `got` = what `readPartitions` returned
    conn.readPartitions, balancer.AssignGroups               (`ReadsTopics` of the subscribed topics), `A = balance ms got`
  leader: syncGroup(…, assignments)                        `Ev.syncLeader m`: the coordinator stores `A` for `gid`
  every member: syncGroup → groupAssignment.readFrom       `Ev.syncLeader` / `Ev.syncMember m`: the member's generation
                                                             holds `received ρ A m` (Model/GroupGlue.lean)
  rebalance / errors / heartbeat failures                  `Ev.newRound`, `Ev.rejoin m`

Coordinator (environment, Kafka's group protocol): completes join rounds with increasing generation ids; accepts the
leader's assignment for a generation once; answers a member's SyncGroup for generation `gid` only with what the leader
of `gid` stored (it holds the request until then) — a request for an older generation is an error, modelled as the event
not being enabled for data (the member `rejoin`s).
-/
import KafkaVerif.Model.GroupGlue

namespace KV.GroupRound
open KV.GroupBalancer KV.GroupGlue

/-- one completed join round -/
structure Round where
  gid : Nat
  ms : List Member        -- the members of the generation, in JoinGroup-response order
  leader : Nat
deriving Repr

/-- where a member is in its rebalance -/
inductive MPC
  | joining
  | assigning (gid : Nat) (ms : List Member)                 -- leader, before AssignGroups
  | syncing (gid : Nat) (mine : Option (List Part × Assignments))  -- leader carries (what it read, what it computed)
  | running (gid : Nat) (asg : TopicMap)                     -- generation created with this assignment
deriving Repr

/-- what the coordinator stored for a generation: the leader's member list, what it read, its assignment -/
structure Stored where
  gid : Nat
  ms : List Member
  got : List Part
  asg : Assignments
deriving Repr

structure St where
  rounds : List Round := []
  stored : List Stored := []
  pc : Nat → MPC := fun _ => .joining

inductive Ev
  | newRound (ms : List Member) (leader : Nat)
  | joinOk (m : Nat) (gid : Nat)
  | assign (m : Nat) (got : List Part)
  | syncLeader (m : Nat)
  | syncMember (m : Nat)
  | rejoin (m : Nat)

def setPc (s : St) (m : Nat) (p : MPC) : St := { s with pc := fun x => if x = m then p else s.pc x }

def nextGid (s : St) : Nat := s.rounds.length + 1

def findStored (s : St) (gid : Nat) : Option Stored := s.stored.find? (fun x => x.gid == gid)

/-- parameters: the negotiated balancer as a function to the Go map, the cluster's partition listing, the iteration
order of the per-member topic map in `groupAssignment.writeTo` -/
structure Params where
  balance : List Member → List Part → Assignments
  cluster : List Part
  ρ : TopicMap → TopicMap

/-- `step P s e s'`: relational because `assign` is guarded by the proposition `ReadsTopics` -/
inductive Step (P : Params) : St → Ev → St → Prop
  | newRound (s : St) (ms : List Member) (leader : Nat) (hl : ∃ m ∈ ms, m.id = leader) :
      Step P s (.newRound ms leader) { s with rounds := s.rounds ++ [⟨nextGid s, ms, leader⟩] }
  | joinOk (s : St) (m gid : Nat) (r : Round) (hr : r ∈ s.rounds) (hg : r.gid = gid) (hm : ∃ x ∈ r.ms, x.id = m)
      (hp : s.pc m = .joining) :
      Step P s (.joinOk m gid) (setPc s m (if r.leader = m then .assigning gid r.ms else .syncing gid none))
  | assign (s : St) (m gid : Nat) (ms : List Member) (got : List Part) (hp : s.pc m = .assigning gid ms)
      (hread : ReadsTopics P.cluster (extractTopics ms) got) :
      Step P s (.assign m got) (setPc s m (.syncing gid (some (got, P.balance ms got))))
  | syncLeader (s : St) (m gid : Nat) (ms : List Member) (got : List Part) (A : Assignments)
      (hp : s.pc m = .syncing gid (some (got, A))) (hr : ∃ r ∈ s.rounds, r.gid = gid ∧ r.leader = m ∧ r.ms = ms)
      (hcur : gid = s.rounds.length) (hnone : findStored s gid = none) :
      Step P s (.syncLeader m)
        (setPc { s with stored := s.stored ++ [⟨gid, ms, got, A⟩] } m (.running gid (received P.ρ A m)))
  | syncMember (s : St) (m gid : Nat) (x : Stored) (hp : s.pc m = .syncing gid none)
      (hcur : gid = s.rounds.length) (hx : findStored s gid = some x) :
      Step P s (.syncMember m) (setPc s m (.running gid (received P.ρ x.asg m)))
  | rejoin (s : St) (m : Nat) : Step P s (.rejoin m) (setPc s m .joining)

inductive Reachable (P : Params) : St → Prop
  | init : Reachable P {}
  | step (s s' : St) (e : Ev) : Reachable P s → Step P s e s' → Reachable P s'

/-- the Go map a balancer returns for the members `ms`, as the balancer parameter of the round model -/
def balanceOf (b : List Member → List Part → KV.Spec.GroupAssign.Asg) : List Member → List Part → Assignments :=
  fun ms got => mapOf (b ms got) (ms.map (·.id)) (extractTopics ms)

/-! ### executable acceptor (for trace acceptance by the oracle); `stepB_sound` in Lemmas/GroupRound.lean -/

open KV.Spec.GroupAssign in
/-- decidable form of `ReadsTopics`: racks that occur in neither listing lead nothing in both -/
def readsTopicsB (cluster : List Part) (topics : List Nat) (got : List Part) : Bool :=
  topics.all fun t => decide (partsOf t got = partsOf t cluster) &&
    ((got ++ cluster).map (·.zone)).all fun z => decide (ledIn got t z = ledIn cluster t z)

def isJoining : MPC → Bool
  | .joining => true
  | _ => false

def stepB (P : Params) (s : St) : Ev → Option St
  | .newRound ms leader =>
    if ms.any (fun m => m.id == leader) then some { s with rounds := s.rounds ++ [⟨nextGid s, ms, leader⟩] } else none
  | .joinOk m gid =>
    match s.rounds.find? (fun r => r.gid == gid) with
    | some r =>
      if r.ms.any (fun x => x.id == m) && isJoining (s.pc m) then
        some (setPc s m (if r.leader = m then .assigning gid r.ms else .syncing gid none))
      else none
    | none => none
  | .assign m got =>
    match s.pc m with
    | .assigning gid ms =>
      if readsTopicsB P.cluster (extractTopics ms) got then some (setPc s m (.syncing gid (some (got, P.balance ms got))))
      else none
    | _ => none
  | .syncLeader m =>
    match s.pc m with
    | .syncing gid (some (got, A)) =>
      match s.rounds.find? (fun r => r.gid == gid && r.leader == m) with
      | some r =>
        if gid == s.rounds.length && (findStored s gid).isNone then
          some (setPc { s with stored := s.stored ++ [⟨gid, r.ms, got, A⟩] } m (.running gid (received P.ρ A m)))
        else none
      | none => none
    | _ => none
  | .syncMember m =>
    match s.pc m with
    | .syncing gid none =>
      match findStored s gid with
      | some x => if gid == s.rounds.length then some (setPc s m (.running gid (received P.ρ x.asg m))) else none
      | none => none
    | _ => none
  | .rejoin m => some (setPc s m .joining)

/-- replay a trace; `Except.error k` = event number `k` is not a step of the model -/
def runB (P : Params) : St → List Ev → Nat → Except Nat St
  | s, [], _ => .ok s
  | s, e :: es, k => match stepB P s e with
    | some s' => runB P s' es (k + 1)
    | none => .error k

end KV.GroupRound
