/-
Model/RecordScan.lean — the LENGTH HANDLING of the record-set reader on the Transport/Client path (core Lean only),
for property C20 ("record-batch and message lengths"):

  protocol/record.go     (*RecordSet).ReadFrom        ↔ `readSet`, `setLoop`, `finish`
  protocol/record_v2.go  readFromVersion2             ↔ `readV2`, `recordsV2`, `recordV2`, `headersV2`
  protocol/record_v1.go  readMessage, readFromVersion1 ↔ `readMessage`, `writeTo`, `readV1`, `innerV1`
  protocol/decode.go     (*decoder).Read / readVarInt / discard / read, through NESTED decoders
                                                       ↔ `rread`, `rvarint`, `rdiscard`, `rreadLen` over `RS.rems`

Only what decides the OUTCOME CLASS is modelled — message / error / panic / out-of-proportion allocation — and how
many bytes of the enclosing frame are accounted for; record values are not built (that is C05's model,
Model/RecordReader.lean).  Nested decoders (`dec{reader: d, remain: batchLength}`, `md{reader: d, remain: 12}`)
are the list `rems`, innermost first: a read goes through every level.  `remain` is an `Int` here because the Go
code can make it negative.  Errors short-circuit (after the first error nothing is allocated: counts read as 0).

Every place where the Go code relies on a guard is a field of `RCfg`, re-extracted from the source on every run
(go/extract/recordcfg → Gen/RecordCfg.lean); with a guard missing the model shows the failure (Props/C20:
`*_counterexample`), with all of them present `readSet_safe` holds for every input.
-/
import KafkaVerif.Base.Wire

namespace KV.RecordScan
open KV KV.Wire

structure RCfg where
  /-- record.go: `embedded && int(size) > d.remain` → error, before `d.remain = int(size)` -/
  sizeChecked : Bool
  /-- decode.go `(*decoder).Read`: `d.remain <= 0` → EOF (a negative remain would slice `b[:d.remain]`) -/
  readGuard : Bool
  /-- record.go: the error of `Peek(magicByteOffset+1)` is returned before `b[magicByteOffset]` is indexed -/
  peekChecked : Bool
  /-- record_v2.go: `numRecords` and `numHeaders` are bounded by the bytes that hold them before `make` -/
  countsBounded : Bool
  /-- decode.go `writeTo`: `if n < limit { d.remain = n }` (the copy may not run past the enclosing message) -/
  writeToGuard : Bool
  /-- decode.go `read`: `lengthOutOfBounds(n)` before `make([]byte, n)` (header keys / values) -/
  readBounded : Bool
  /-- record.go: `rn` is computed after `d.discardAll()` (the skipped tail of the set is accounted for) -/
  accountAfterDiscard : Bool
  deriving Repr, BEq, Inhabited

def RCfg.allGuards (c : RCfg) : Bool :=
  c.sizeChecked && c.readGuard && c.peekChecked && c.countsBounded && c.writeToGuard && c.readBounded && c.accountAfterDiscard

/-- the stream and the `remain` of every decoder on the path to it (innermost first) -/
structure RS where
  inp : Bytes
  rems : List Int
  deriving Repr, Inhabited

inductive RRes (α : Type) where
  | ok (a : α) (s : RS)
  | error
  | panic
  | balloon
  deriving Repr, Inhabited

@[inline] def RRes.bind {α β : Type} (r : RRes α) (f : α → RS → RRes β) : RRes β :=
  match r with
  | .ok a s => f a s
  | .error => .error
  | .panic => .panic
  | .balloon => .balloon

def anyNeg (rs : List Int) : Bool := rs.any fun r => decide (r < 0)
def anyBelow (rs : List Int) (k : Nat) : Bool := rs.any fun r => decide (r < (k : Int))

/-- `io.ReadFull(d, b[:k])` for `k > 0`: every decoder on the path caps the read; a level whose remain is negative
returns EOF when guarded and slices out of range otherwise -/
def rread (c : RCfg) (k : Nat) (s : RS) : RRes Bytes :=
  if k = 0 then .ok [] s
  else if anyNeg s.rems then (if c.readGuard then .error else .panic)
  else if anyBelow s.rems k || decide (s.inp.length < k) then .error
  else .ok (s.inp.take k) ⟨s.inp.drop k, s.rems.map (· - (k : Int))⟩

def rint (c : RCfg) (k : Nat) (s : RS) : RRes Int :=
  (rread c k s).bind fun bs s => .ok (toS (8 * k) (fromBE bs)) s

/-- what can be read right now: the smallest remain on the path and the stream -/
def avail (s : RS) : Nat :=
  s.rems.foldl (fun a r => min a r.toNat) s.inp.length

/-- `readVarInt`: `n := min(11, d.remain)` bytes at most (a negative remain of the decoder itself: no byte is read,
"cannot decode varint"); zig-zag -/
def rvarint (c : RCfg) (s : RS) : RRes Int :=
  match s.rems with
  | [] => .error
  | r :: outer =>
    if r < 0 then .error
    else if anyNeg outer then (if c.readGuard then .error else .panic)
    else
      let window := s.inp.take (avail s)
      match readUvarintAux (min 11 r.toNat) window with
      | some (u, rest) =>
        let k := window.length - rest.length
        let u64 := u % 2 ^ 64
        .ok (if u64 % 2 = 0 then ((u64 / 2 : Nat) : Int) else -((u64 / 2 : Nat) : Int) - 1) ⟨s.inp.drop k, s.rems.map (· - (k : Int))⟩
      | none => .error

/-- `d.discard(n)`: `n` is clamped to `d.remain`; a short stream is an error; a negative count is rejected by
`bufio.Reader.Discard` / `pageBuffer.Discard` (error, no panic) -/
def rdiscard (n : Int) (s : RS) : RRes Unit :=
  match s.rems with
  | [] => .error
  | r :: _ =>
    let n := if n > r then r else n
    if n < 0 then .error
    else if anyBelow s.rems n.toNat || decide (s.inp.length < n.toNat) then .error
    else .ok () ⟨s.inp.drop n.toNat, s.rems.map (· - n)⟩

/-- `d.read(n)`: `make([]byte, n)` then ReadFull -/
def rreadLen (c : RCfg) (n : Int) (s : RS) : RRes Unit :=
  match s.rems with
  | [] => .error
  | r :: _ =>
    if n < 0 then (if c.readBounded then .error else .panic)
    else if n > r then (if c.readBounded then .error else .balloon)
    else (rread c n.toNat s).bind fun _ s => .ok () s

/-! ### record_v2.go -/

/-- `readVarString` + `readVarBytes` of one header -/
def headerV2 (c : RCfg) (s : RS) : RRes Unit :=
  (rvarint c s).bind fun kl s =>
  (if kl < 0 then RRes.ok () s else rreadLen c kl s).bind fun _ s =>
  (rvarint c s).bind fun vl s =>
  if vl < 0 then .ok () s else rreadLen c vl s

def headersV2 (c : RCfg) : Nat → RS → RRes Unit
  | 0, s => .ok () s
  | n + 1, s => (headerV2 c s).bind fun _ s => headersV2 c n s

/-- one iteration of `for i := range records` -/
def recordV2 (c : RCfg) (s : RS) : RRes Unit :=
  (rvarint c s).bind fun _len s =>
  (rread c 1 s).bind fun _attrs s =>
  (rvarint c s).bind fun _td s =>
  (rvarint c s).bind fun _od s =>
  (rvarint c s).bind fun kl s =>
  (if kl > 0 then rdiscard kl s else RRes.ok () s).bind fun _ s =>
  (rvarint c s).bind fun vl s =>
  (if vl > 0 then rdiscard vl s else RRes.ok () s).bind fun _ s =>
  (rvarint c s).bind fun nh s =>
  if nh > 0 then
    match s.rems with
    | [] => .error
    | r :: _ =>
      if nh > r then (if c.countsBounded then .error else .balloon)   -- make([]Header, numHeaders)
      else headersV2 c nh.toNat s
  else .ok () s

/-- the record loop: a decode error keeps the records read so far (`records = records[:i]; break`); it fails the
batch only when not a single record was decoded (`dec.err != nil && len(records) == 0`).  Returns whether the
batch is accepted. -/
def recordsV2 (c : RCfg) : Nat → Nat → RS → RRes Bool
  | 0, _, s => .ok true s
  | n + 1, done, s =>
    match recordV2 c s with
    | .ok _ s' => recordsV2 c n (done + 1) s'
    | .error => .ok (decide (done ≠ 0)) s
    | .panic => .panic
    | .balloon => .balloon

/-- `readFromVersion2(d)`; `s.rems = [remain of d]`.  Returns the number of record readers appended (0 or 1). -/
def readV2 (c : RCfg) (crcC : Bytes → Nat) (dcmp : Int → Bytes → Option Bytes) (s : RS) : RRes Nat :=
  (rread c 8 s).bind fun _base s =>
  (rint c 4 s).bind fun batchLength s =>
  match s.rems with
  | [] => .error
  | r :: _ =>
    if batchLength > r then
      -- longer than what is left of the set: `d.discardAll(); return nil`
      (rdiscard r s).bind fun _ s => .ok 0 s
    else
      let s1 : RS := ⟨s.inp, batchLength :: s.rems⟩                       -- dec := &decoder{reader: d, remain: batchLength}
      (rread c 9 s1).bind fun h1 s1 =>                                     -- leader epoch, magic, crc
      (rread c 40 s1).bind fun h2 s1 =>                                    -- attributes … numRecords
      let crc := fromBE (h1.drop 5)
      let attributes := toS 16 (fromBE (h2.take 2))
      let numRecords := toS 32 (fromBE (h2.drop 36))
      match s1.rems with
      | [] => .error
      | rdec :: _ =>
        (rread c rdec.toNat s1).bind fun payload s1 =>                     -- buffer.ReadFrom(reader): all of dec
        let s2 : RS := ⟨s1.inp, s1.rems.drop 1⟩                            -- back to d
        let codec := attributes % 8
        match (if codec = 0 then some payload else dcmp codec payload) with
        | none => .error
        | some recs =>
          if crcC (h2 ++ payload) ≠ crc then .error
          else if numRecords < 0 then (if c.countsBounded then .error else .panic)      -- make([]optimizedRecord, numRecords)
          else if numRecords > (recs.length : Int) then (if c.countsBounded then .error else .balloon)
          else
            -- the records are parsed from the in-memory copy: dec.reader = buffer, dec.remain = recordsLength
            match recordsV2 c numRecords.toNat 0 ⟨recs, [(recs.length : Int)]⟩ with
            | .ok accepted _ => if accepted then .ok 1 s2 else .error
            | .error => .error
            | .panic => .panic
            | .balloon => .balloon

/-! ### record_v1.go -/

/-- `md.writeTo(b, n)`: `limit := remain; if n < limit { remain = n }` (or, unguarded, `remain = n`); copy everything
the decoder still has; fewer than `n` bytes → ErrUnexpectedEOF; `remain = limit - copied` -/
def writeTo (c : RCfg) (n : Int) (s : RS) : RRes Unit :=
  match s.rems with
  | [] => .error
  | limit :: outer =>
    let window : Int := if c.writeToGuard then (if n < limit then n else limit) else n
    if window ≤ 0 then (if n ≤ 0 then .ok () s else .error)
    else
      let s' : RS := ⟨s.inp, window :: outer⟩
      -- io.Copy reads until the innermost remain is exhausted or an outer level / the stream ends
      let k := avail s'
      if anyNeg outer then (if c.readGuard then .error else .panic)
      else if (k : Int) < n then .error
      else .ok () ⟨s.inp.drop k, (limit - (k : Int)) :: outer.map (· - (k : Int))⟩

/-- `readMessage(b, d)`: `s.rems = remain of d :: …`; returns the attributes and the value's position is not kept -/
def readMessage (c : RCfg) (crcI : Bytes → Nat) (s : RS) : RRes (Int × Bytes) :=
  let s0 : RS := ⟨s.inp, 12 :: s.rems⟩                                    -- md := decoder{reader: d, remain: 12}
  (rread c 8 s0).bind fun _off s0 =>
  (rint c 4 s0).bind fun size s0 =>
  let s1 : RS := ⟨s0.inp, size :: s0.rems.drop 1⟩                         -- md.remain = int(size)
  let before := s1.inp
  (rread c 4 s1).bind fun crcb s1 =>
  (rread c 2 s1).bind fun ma s1 =>
  let magic := fromBE (ma.take 1)
  let attrs := toS 8 (fromBE (ma.drop 1))
  (if magic ≠ 0 then (rread c 8 s1).bind fun _ s => RRes.ok () s else RRes.ok () s1).bind fun _ s1 =>
  (rint c 4 s1).bind fun kl s1 =>
  (if kl ≥ 0 then writeTo c kl s1 else RRes.ok () s1).bind fun _ s1 =>
  (rint c 4 s1).bind fun vl s1 =>
  let vstart := s1.inp
  (if vl ≥ 0 then writeTo c vl s1 else RRes.ok () s1).bind fun _ s1 =>
  let consumed := before.length - s1.inp.length
  let body := (before.take consumed).drop 4
  if crcI body ≠ fromBE crcb then .error
  else .ok (attrs, vstart.take (if vl ≥ 0 then vl.toNat else 0)) ⟨s1.inp, s1.rems.drop 1⟩

/-- the inner messages of a compressed v0/v1 wrapper: a decoder with `remain: math.MaxInt32` over the decompressed
stream; ErrUnexpectedEOF ends the loop, another error fails the batch -/
def innerV1 (c : RCfg) (crcI : Bytes → Nat) : Nat → RS → RRes Unit
  | 0, s => .ok () s
  | fuel + 1, s =>
    if s.inp.isEmpty then .ok () s
    else match readMessage c crcI s with
      | .ok _ s' => if s'.inp.length < s.inp.length then innerV1 c crcI fuel s' else .ok () s'
      | .error => .ok () s
      | .panic => .panic
      | .balloon => .balloon

def readV1 (c : RCfg) (crcI : Bytes → Nat) (dcmp : Int → Bytes → Option Bytes) (s : RS) : RRes Nat :=
  (readMessage c crcI s).bind fun (attrs, value) s =>
    let codec := attrs % 8
    if codec = 0 then .ok 1 s
    else match dcmp codec value with
      | none => .error
      | some inner =>
        match innerV1 c crcI (inner.length + 1) ⟨inner, [2147483647]⟩ with
        | .ok _ _ => .ok 1 s
        | .error => .error
        | .panic => .panic
        | .balloon => .balloon

/-! ### record.go -/

/-- the loop `for d.remain > 0 && err == nil`; `nrec` = `len(stream.Records)`.  Returns (records appended, the
error of the last reader was dropped or not: `true` = an error is pending) -/
def setLoop (c : RCfg) (crcI crcC : Bytes → Nat) (dcmp : Int → Bytes → Option Bytes) : Nat → Nat → RS → RRes (Nat × Bool)
  | 0, nrec, s => .ok (nrec, false) s
  | fuel + 1, nrec, s =>
    match s.rems with
    | [] => .error
    | r :: _ =>
      if r ≤ 0 then .ok (nrec, false) s
      else if r < 17 then (if nrec ≠ 0 then .ok (nrec, false) s else .error)
      else if s.inp.length < 17 then
        -- Peek(17) fails: the stream ended inside the batch although the sizes promised more
        (if c.peekChecked then .error else (if s.inp.length ≤ 16 then .panic else .error))
      else
        let version := (s.inp.getD 16 0).toNat
        let res := if version = 2 then readV2 c crcC dcmp s
                   else if version = 0 ∨ version = 1 then readV1 c crcI dcmp s else .error
        match res with
        | .ok k s' => if s'.inp.length < s.inp.length then setLoop c crcI crcC dcmp fuel (nrec + k) s' else .ok (nrec + k, false) s'
        | .error => .ok (nrec, true) s         -- err != nil ends the loop (what the failed reader consumed is discarded below)
        | .panic => .panic
        | .balloon => .balloon

/-- `(*RecordSet).ReadFrom(d)` for a record set embedded in a frame; `frameRemain` is `d.remain` on entry.
Returns the new `d.remain` (an `Int`: the Go code can leave it negative or too large). -/
def readSet (c : RCfg) (crcI crcC : Bytes → Nat) (dcmp : Int → Bytes → Option Bytes) (inp : Bytes) (frameRemain : Int) :
    RRes Int :=
  let limit := frameRemain
  (rint c 4 ⟨inp, [frameRemain]⟩).bind fun size s =>
  match s.rems with
  | [] => .error
  | rem :: _ =>
    if size ≤ 0 then .ok rem s
    else if c.sizeChecked && decide (size > rem) then .error
    else
      let s1 : RS := ⟨s.inp, [size]⟩                                      -- d.remain = int(size)
      (setLoop c crcI crcC dcmp (s.inp.length + 1) 0 s1).bind fun (nrec, pending) s2 =>
        match s2.rems with
        | [] => .error
        | r2 :: _ =>
          -- after a failed reader the Go code falls through to discardAll as well; what that reader consumed went
          -- through d, so `d.remain` and the stream moved together
          let err := pending && nrec == 0
          -- d.discardAll(); rn := 4 + (size - d.remain); d.remain = limit - rn
          let rnBefore := 4 + (size - r2)
          (rdiscard r2 s2).bind fun _ s3 =>
            let rn := if c.accountAfterDiscard then 4 + size else rnBefore
            if err then .error else .ok (limit - rn) ⟨s3.inp, [limit - rn]⟩

end KV.RecordScan
