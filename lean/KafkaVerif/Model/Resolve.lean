/-
Model/Resolve.lean — struct-tag parsing and per-version schema resolution (core Lean only).

Mirrors protocol/protocol.go `forEach`, `forEachStructTag`, `parseVersion`, `forEachStructField`,
`makeTypes` and the type switch of protocol/encode.go `encodeFuncOf` / `structEncodeFuncOf` /
`arrayEncodeFuncOf` (= decode.go `decodeFuncOf` …, which build the same tree).  It is applied to the RAW tag
strings extracted from the source, so a change of the resolution logic in protocol.go shows as a byte
disagreement and a change of a tag shows in the golden comparison.
-/
import KafkaVerif.Model.Schema

namespace KV.Codec

/-- protocol.go `structTag` -/
structure STag where
  minV : Int := -1
  maxV : Int := -1
  compact : Bool := false
  nullable : Bool := false
  tagId : Int := -2
  deriving Repr, BEq, Inhabited

/-- protocol.go `forEach(s, sep, do)`: the pieces visited (a trailing separator yields no empty piece,
`""` yields none, `"|"` yields one empty piece). -/
def splitPieces (sep : Char) : List Char → List (List Char)
  | [] => []
  | cs =>
    let rec go (cur : List Char) : List Char → List (List Char)
      | [] => [cur.reverse]
      | c :: rest => if c == sep then (cur.reverse :: (if rest.isEmpty then [] else go [] rest)) else go (c :: cur) rest
    go [] cs

def parseNatChars (cs : List Char) : Option Nat :=
  if cs.isEmpty then none
  else cs.foldl (fun acc c => match acc with
    | none => none
    | some n => if '0' ≤ c ∧ c ≤ '9' then some (n * 10 + (c.toNat - 48)) else none) (some 0)

/-- protocol.go `parseVersion`: `v<int16>` -/
def parseVersion (cs : List Char) : Option Int :=
  match cs with
  | 'v' :: ds => match parseNatChars ds with
    | some n => if n < 32768 then some n else none
    | none => none
  | _ => none

def stripPrefix (p cs : List Char) : Option (List Char) :=
  if p.isPrefixOf cs then some (cs.drop p.length) else none

/-- one option of one alternative; `none` = the Go code panics at package initialisation -/
def applyOption (t : STag) (o : List Char) : Option STag :=
  match stripPrefix "min=".toList o with
  | some r => (parseVersion r).map fun v => { t with minV := v }
  | none =>
  match stripPrefix "max=".toList o with
  | some r => (parseVersion r).map fun v => { t with maxV := v }
  | none =>
  if o == "tag".toList then some { t with tagId := -1 } else
  match stripPrefix "tag=".toList o with
  | some r => (parseNatChars r).map fun v => { t with tagId := v }
  | none =>
  if o == "compact".toList then some { t with compact := true } else
  if o == "nullable".toList then some { t with nullable := true } else none

/-- protocol.go `forEachStructTag`, body for one `|`-separated alternative -/
def parseAlt (s : List Char) : Option STag := do
  let t ← (splitPieces ',' s).foldlM applyOption ({} : STag)
  if t.minV < 0 ∧ t.maxV ≥ 0 then none
  else if t.maxV < 0 ∧ t.minV ≥ 0 then none
  else if t.minV > t.maxV then none
  else some t

/-- all alternatives of a field's tag in order; `"-"` ignores the field; a field without kafka tag is `"|"` -/
def fieldAlts (f : RawField) : Option (List STag) :=
  let tag := if f.hasTag then f.tag else "|"
  if tag == "-" then some [] else (splitPieces '|' tag.toList).mapM parseAlt

/-- the alternative selected for `version` (first match, `structEncodeFuncOf`) -/
def selectAlt (alts : List STag) (version : Int) : Option STag :=
  alts.find? fun t => t.minV ≤ version ∧ version ≤ t.maxV

def findStruct (structs : List RawStruct) (name : String) : Option RawStruct :=
  structs.find? (·.name == name)

mutual
/-- `encodeFuncOf(typ, version, flexible, tag)` / `decodeFuncOf` — the type switch -/
def resolveTy (structs : List RawStruct) (version : Int) (flex : Bool) (tag : STag) : Nat → GoTy → Option Ty
  | 0, _ => none
  | fuel + 1, g =>
    match g with
    | .bool => some .bool
    | .int8 => some .int8
    | .int16 => some .int16
    | .int32 => some .int32
    | .int64 => some .int64
    | .float64 => some .float64
    | .string => some (.string flex tag.nullable)
    | .bytes => some (.bytes flex tag.nullable)
    | .slice e => (resolveTy structs version flex tag fuel e).map (.array flex tag.nullable)
    | .named n => match findStruct structs n with
      | some s => resolveFields structs version flex fuel s.fields [] [] []
      | none => none
    | .unit => some (.unit flex)
    | .recordSet => some .records
    | .rawRecordSet => some .records
    | .unsupported _ => none

/-- `structEncodeFuncOf` / `structDecodeFuncOf`: walk the fields, keep those live in `version` -/
def resolveFields (structs : List RawStruct) (version : Int) (flex : Bool) :
    Nat → List RawField → List Ty → List Int → List Ty → Option Ty
  | 0, _, _, _, _ => none
  | _ + 1, [], fs, ids, ts => some (.struct flex fs.reverse ids.reverse ts.reverse)
  | fuel + 1, f :: rest, fs, ids, ts =>
    match fieldAlts f with
    | none => none
    | some alts =>
      match selectAlt alts version with
      | none => resolveFields structs version flex fuel rest fs ids ts
      | some tag =>
        match resolveTy structs version flex tag fuel f.ty with
        | none => none
        | some t =>
          if tag.tagId < -1 then resolveFields structs version flex fuel rest (t :: fs) ids ts
          else resolveFields structs version flex fuel rest fs (tag.tagId :: ids) (t :: ts)
end

/-- protocol.go `makeTypes`: (minVersion, maxVersion, minFlexibleVersion) over the alternatives of the
top-level struct's fields -/
def versionRange (root : RawStruct) : Option (Int × Int × Int) := do
  let altss ← root.fields.mapM fieldAlts
  let step (acc : Int × Int × Int) (t : STag) : Int × Int × Int :=
    let (mn, mx, fl) := acc
    let mn := if mn < 0 ∨ t.minV < mn then t.minV else mn
    let mx := if mx < 0 ∨ t.maxV > mx then t.maxV else mx
    let fl := if t.tagId > -2 ∧ (fl < 0 ∨ t.minV < fl) then t.minV else fl
    (mn, mx, fl)
  pure (altss.flatten.foldl step (-1, -1, -1))

structure Resolved where
  version : Int
  flexible : Bool
  ty : Ty
  deriving Repr, Inhabited

def resolveFuel : Nat := 4096

/-- the `messageType` of one version -/
def resolveMsg (m : RawMsg) (version : Int) : Option Resolved := do
  let root ← findStruct m.structs m.root
  let (_, _, fl) ← versionRange root
  let flex := fl ≥ 0 ∧ version ≥ fl
  let ty ← resolveFields m.structs version flex resolveFuel root.fields [] [] []
  pure { version, flexible := flex, ty }

/-- `for v := minVersion; v <= maxVersion; v++` -/
def msgVersions (m : RawMsg) : List Int :=
  match findStruct m.structs m.root >>= versionRange with
  | some (mn, mx, _) => (List.range (mx - mn + 1).toNat).map fun (i : Nat) => mn + (i : Int)
  | none => []

end KV.Codec
