/-
Model/Growth.lean — how protocol/decode.go allocates a value whose size comes from the wire: `decodeElems` (arrays) and
`(*decoder).read` (strings, bytes) allocate `init n` slots before any data of the value has arrived and replace the buffer by
one of `grow len n` slots whenever all `len` slots are full and more is announced.  `init` / `grow` are regenerated from the
source (Gen/DecoderCfg.lean `arrayInit`, `arrayGrow`, `readInit`, `readGrow`, a symbolic execution of the Go statements).

Two facts are wanted of such a policy (Props/C04, Props/C20):
  * when the whole value arrives, the final buffer has EXACTLY the announced number of slots (a decoded array has the elements
    the broker encoded, no more);
  * every single allocation is at most `chunk` or twice what has ARRIVED so far — never the announced size.
Core Lean only.
-/
namespace KV.Growth

structure Policy where
  init : Nat → Nat
  grow : Nat → Nat → Nat

/-- what the theorems need of a policy -/
structure Policy.Ok (p : Policy) (chunk : Nat) : Prop where
  init_le : ∀ n, p.init n ≤ n
  init_chunk : ∀ n, p.init n ≤ chunk
  init_pos : ∀ n, 0 < n → 0 < p.init n
  grow_gt : ∀ len n, 0 < len → len < n → len < p.grow len n
  grow_le : ∀ len n, len < n → p.grow len n ≤ n
  grow_double : ∀ len n, p.grow len n ≤ 2 * len

/-- the buffers allocated AFTER the first one while `k` of the `n` announced units arrive (then the data stops, or k = n): a
buffer of `cap` slots is replaced when its slots are full (`cap ≤ k`) and more is announced (`cap < n`) -/
def grows (p : Policy) (n k : Nat) : Nat → Nat → List Nat
  | 0, _ => []
  | fuel + 1, cap => if cap ≤ k ∧ cap < n then p.grow cap n :: grows p n k fuel (p.grow cap n) else []

/-- every allocation made for the value -/
def allocs (p : Policy) (n k : Nat) : List Nat := p.init n :: grows p n k (n + 1) (p.init n)

/-- the capacity of the buffer in use at the end -/
def finalFrom (p : Policy) (n k : Nat) : Nat → Nat → Nat
  | 0, cap => cap
  | fuel + 1, cap => if cap ≤ k ∧ cap < n then finalFrom p n k fuel (p.grow cap n) else cap
def finalCap (p : Policy) (n k : Nat) : Nat := finalFrom p n k (n + 1) (p.init n)

theorem grows_bounded (p : Policy) (chunk : Nat) (h : p.Ok chunk) (n k : Nat) :
    ∀ (fuel cap : Nat), ∀ c ∈ grows p n k fuel cap, c ≤ 2 * k ∧ c ≤ n := by
  intro fuel
  induction fuel with
  | zero => intro cap c hc; simp [grows] at hc
  | succ fuel ih =>
    intro cap c hc
    simp only [grows] at hc
    split at hc
    · rename_i hcond
      rcases List.mem_cons.1 hc with rfl | hc'
      · have := h.grow_double cap n
        have := h.grow_le cap n hcond.2
        omega
      · exact ih _ c hc'
    · simp at hc

/-- **allocation follows the data**: every buffer allocated while `k` units of a value announced as `n` arrive holds at most
`chunk` slots (the first one) or at most twice what has arrived — and never more than announced -/
theorem allocs_follow_data (p : Policy) (chunk : Nat) (h : p.Ok chunk) (n k : Nat) :
    ∀ c ∈ allocs p n k, (c ≤ chunk ∨ c ≤ 2 * k) ∧ c ≤ n := by
  intro c hc
  rcases List.mem_cons.1 hc with rfl | hc'
  · exact ⟨Or.inl (h.init_chunk n), h.init_le n⟩
  · have := grows_bounded p chunk h n k _ _ c hc'
    exact ⟨Or.inr this.1, this.2⟩

theorem finalFrom_complete (p : Policy) (chunk : Nat) (h : p.Ok chunk) (n : Nat) :
    ∀ (fuel cap : Nat), 0 < cap → cap ≤ n → n - cap < fuel → finalFrom p n n fuel cap = n := by
  intro fuel
  induction fuel with
  | zero => intro cap _ _ hf; omega
  | succ fuel ih =>
    intro cap hpos hle hf
    simp only [finalFrom]
    by_cases hlt : cap < n
    · have h1 := h.grow_gt cap n hpos hlt
      have h2 := h.grow_le cap n hlt
      rw [if_pos ⟨hle, hlt⟩]
      exact ih _ (by omega) h2 (by omega)
    · have : ¬ (cap ≤ n ∧ cap < n) := fun hh => hlt hh.2
      rw [if_neg this]; omega

/-- **a completely received value ends in a buffer of exactly the announced size** -/
theorem finalCap_complete (p : Policy) (chunk : Nat) (h : p.Ok chunk) (n : Nat) : finalCap p n n = n := by
  unfold finalCap
  by_cases h0 : n = 0
  · subst h0
    have := h.init_le 0
    simp [finalFrom]; omega
  · exact finalFrom_complete p chunk h n _ _ (h.init_pos n (by omega)) (h.init_le n) (by have := h.init_pos n (by omega); omega)

end KV.Growth
