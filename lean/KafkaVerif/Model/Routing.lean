/-
Model/Routing.lean — executable model of kafka-go's request routing and version selection (C12; core only).

Go ↔ Lean
  protocol/protocol.go  makeTypes (min/max fold)            clientRange
  protocol/protocol.go  ApiKey.SelectVersion                selectVersion
  transport.go          connGroup.connect (version map)     negotiate
  protocol/conn.go      Conn.RoundTrip (versions[key])      negotiatedVersion
  protocol/request.go   WriteRequest (range check)          requestVersion
  transport.go          sendRequest type switch             firstCase / classOf / sendTarget
  protocol/{produce,fetch,rawproduce}  Request.Broker       leaderAll
  protocol/listoffsets  Request.Broker                      leaderFirst
  protocol/createtopics … Request.Broker                    controllerBroker
  protocol/describeconfigs, incrementalalterconfigs         resourceBroker
  transport.go          makeLayout / makePartitions         makeLayout
  transport.go          sortMetadata* + update              normalize / update
  transport.go          findMetadataTopic (sort.Search)     sortSearch / findTopic
  transport.go          filterMetadataResponse              filterMetadata

Go maps are association lists whose insert replaces (`ainsert`); a missing key reads the zero value
(`lookupD`), exactly where the Go code indexes a map without the `ok` form.
-/
import KafkaVerif.Spec.Routing
import KafkaVerif.Gen.Routing

namespace KV.Routing
open KV.Gen.Routing (ApiMethods BrokerBody SwitchCase)
open KV.Spec.Routing (RClass)

/-! ### versions -/

/-- protocol.makeTypes: fold of the tag (min,max) pairs; −1 = nothing seen yet -/
def clientRange (tags : List (Int × Int)) : Int × Int :=
  tags.foldl (fun acc t =>
    (if acc.1 < 0 || t.1 < acc.1 then t.1 else acc.1,
     if acc.2 < 0 || t.2 > acc.2 then t.2 else acc.2)) (-1, -1)

/-- ApiKey.SelectVersion(minVersion, maxVersion) with the client's range `[cmin, cmax]`: the body is regenerated
from protocol/protocol.go on every run (`Gen.Routing.selectVersionSrc`, a statement-by-statement translation).
Today: `if cmin > bmax then cmin else if cmax < bmax then cmax else bmax` — the broker's `bmin` is not consulted. -/
def selectVersion (cmin cmax bmin bmax : Int) : Int := KV.Gen.Routing.selectVersionSrc cmin cmax bmin bmax

/-- association-list insert with Go map semantics (assignment replaces) -/
def ainsert {κ ν : Type} [BEq κ] (m : List (κ × ν)) (k : κ) (v : ν) : List (κ × ν) :=
  if m.any (·.1 == k) then m.map (fun e => if e.1 == k then (k, v) else e) else m ++ [(k, v)]

/-- Go's `m[k]` without `ok`: zero value when absent -/
def lookupD {κ ν : Type} [BEq κ] (m : List (κ × ν)) (k : κ) (zero : ν) : ν :=
  (m.lookup k).getD zero

/-- connGroup.connect: `ver[apiKey] = apiKey.SelectVersion(r.MinVersion, r.MaxVersion)` for every entry of the
ApiVersions response; `client k` is the library's range for key `k` ((0,0) for unknown keys). -/
def negotiate (client : Nat → Int × Int) (table : List (Nat × Int × Int)) : List (Nat × Int) :=
  table.foldl (fun ver e => ainsert ver e.1 (selectVersion (client e.1).1 (client e.1).2 e.2.1 e.2.2)) []

/-- protocol.Conn.RoundTrip: `versions[msg.ApiKey()]` (0 when the broker did not list the key) -/
def negotiatedVersion (ver : List (Nat × Int)) (key : Nat) : Int := lookupD ver key 0

/-- WriteRequest: a version outside the client's range is refused before anything is written -/
def requestVersion (client : Nat → Int × Int) (ver : List (Nat × Int)) (key : Nat) : Option Int :=
  let v := negotiatedVersion ver key
  if v < (client key).1 || v > (client key).2 then none else some v

/-! ### cluster layout -/

structure Broker where
  id : Int
  host : String
  port : Int
  rack : String
  deriving DecidableEq, Repr, Inhabited

def Broker.zero : Broker := ⟨0, "", 0, ""⟩

/-- network address of a broker: what `newBrokerConnGroup` joins into the group's host:port -/
abbrev Addr := String × Int

def Broker.addr (b : Broker) : Addr := (b.host, b.port)

structure Partition where
  id : Int
  error : Int
  leader : Int
  replicas : List Int
  isr : List Int
  offline : List Int
  deriving DecidableEq, Repr, Inhabited

structure Topic where
  name : String
  error : Int
  partitions : List (Int × Partition)
  deriving Repr, Inhabited

def Topic.zero : Topic := ⟨"", 0, []⟩

structure Cluster where
  controller : Int
  brokers : List (Int × Broker)
  topics : List (String × Topic)
  deriving Repr, Inhabited

def Cluster.zero : Cluster := ⟨0, [], []⟩

/-- metadata.Response as far as routing reads it -/
structure MBroker where
  nodeID : Int
  host : String
  port : Int
  rack : String
  deriving DecidableEq, Repr, Inhabited

structure MPartition where
  error : Int
  index : Int
  leader : Int
  replicas : List Int
  isr : List Int
  offline : List Int
  deriving DecidableEq, Repr, Inhabited

structure MTopic where
  error : Int
  name : String
  internal : Bool
  partitions : List MPartition
  deriving DecidableEq, Repr, Inhabited

structure MResponse where
  throttle : Int
  brokers : List MBroker
  clusterID : String
  controller : Int
  topics : List MTopic
  deriving DecidableEq, Repr, Inhabited

/-- transport.go makePartitions -/
def makePartitions (ps : List MPartition) : List (Int × Partition) :=
  ps.foldl (fun m p => ainsert m p.index ⟨p.index, p.error, p.leader, p.replicas, p.isr, p.offline⟩) []

/-- transport.go makeLayout -/
def makeLayout (m : MResponse) : Cluster where
  controller := m.controller
  brokers := m.brokers.foldl (fun acc b => ainsert acc b.nodeID ⟨b.nodeID, b.host, b.port, b.rack⟩) []
  topics := m.topics.foldl (fun acc t =>
    if t.internal then acc else ainsert acc t.name ⟨t.name, t.error, makePartitions t.partitions⟩) []

/-! ### Broker() methods -/

inductive RouteErr where
  | noTopic | noPartition | noLeader | mismatch | brokerNotAvailable | panic | badResource | tooManyBrokers
  deriving DecidableEq, Repr, Inhabited

inductive Target where
  | broker (id : Int) (addr : Addr)   -- a connection of the group of broker `id`, dialled at the group's address
  | control             -- the pool's control connection (the address the caller gave)
  | err (e : RouteErr)
  deriving DecidableEq, Repr, Inhabited

/-- inner loop of produce/fetch `Broker`: `cur` is `broker.ID` so far (−1 = none yet) -/
def leaderParts (c : Cluster) (t : Topic) : List Int → Int → Except RouteErr Int
  | [], cur => .ok cur
  | p :: ps, cur =>
    match t.partitions.lookup p with
    | none => .error .noPartition
    | some part =>
      match c.brokers.lookup part.leader with
      | none => .error .noLeader
      | some b =>
        if cur < 0 then leaderParts c t ps b.id
        else if b.id != cur then .error .mismatch
        else leaderParts c t ps cur

/-- produce.Request.Broker / fetch.Request.Broker / rawproduce.Request.Broker -/
def leaderAll (c : Cluster) : List (String × List Int) → Int → Except RouteErr Int
  | [], cur => .ok cur
  | (tn, ps) :: rest, cur =>
    match c.topics.lookup tn with
    | none => .error .noTopic
    | some t =>
      match leaderParts c t ps cur with
      | .error e => .error e
      | .ok cur' => leaderAll c rest cur'

/-! ### the leader loops with the iteration regenerated from the source

`Gen.Routing.leaderStep_<pkg>` / `leaderTopic_<pkg>` / `leaderInit_<pkg>` are obtained by executing the body of
`(*Request).Broker` of produce / fetch / rawproduce symbolically; `leaderAllWith` folds them over the request the way
the two `for … range` loops do.  Props/C12 proves `leaderAllWith … = leaderAll` for the three packages. -/

def toRouteErr : KV.Gen.Routing.LeaderErr → RouteErr
  | .noTopic => .noTopic
  | .noPartition => .noPartition
  | .noLeader => .noLeader
  | .mismatch => .mismatch

abbrev LeaderStep := Int → Option Int → (Int → Option Int) → Except KV.Gen.Routing.LeaderErr Int

def leaderPartsWith (step : LeaderStep) (c : Cluster) (t : Topic) : List Int → Int → Except RouteErr Int
  | [], cur => .ok cur
  | p :: ps, cur =>
    match step cur ((t.partitions.lookup p).map (·.leader)) (fun id => (c.brokers.lookup id).map (·.id)) with
    | .error e => .error (toRouteErr e)
    | .ok cur' => leaderPartsWith step c t ps cur'

def leaderAllWith (topicf : Bool → Option KV.Gen.Routing.LeaderErr) (step : LeaderStep) (c : Cluster) :
    List (String × List Int) → Int → Except RouteErr Int
  | [], cur => .ok cur
  | (tn, ps) :: rest, cur =>
    match topicf (c.topics.lookup tn).isSome with
    | some e => .error (toRouteErr e)
    | none =>
      match leaderPartsWith step c ((c.topics.lookup tn).getD Topic.zero) ps cur with
      | .error e => .error e
      | .ok cur' => leaderAllWith topicf step c rest cur'

/-- listoffsets.Request.Broker: only `Topics[0].Partitions[0]` is looked at (index panics are explicit);
an unknown topic / partition / leader gives −1 (the control connection: any broker answers with the error code). -/
def leaderFirst (c : Cluster) (tps : List (String × List Int)) : Except RouteErr Int :=
  match tps with
  | [] => .error .panic
  | (_, []) :: _ => .error .panic
  | (tn, p :: _) :: _ =>
    -- the scan and the leader lookup are regenerated from the source (`Gen.Routing.listOffsetsBroker`)
    .ok (KV.Gen.Routing.listOffsetsBroker
      (((lookupD c.topics tn Topic.zero).partitions.find? (fun e => e.2.id == p)).map (·.2.leader))
      (fun id => (c.brokers.lookup id).map (·.id)) Broker.zero.id)

/-- `return cluster.Brokers[cluster.Controller], nil` -/
def controllerBroker (c : Cluster) : Int := (lookupD c.brokers c.controller Broker.zero).id

/-- describeconfigs.Request.Broker: the first broker-type resource (type 4) names the broker
(`atoi` = strconv.Atoi result, `none` = error), otherwise the controller -/
def resourceBroker (c : Cluster) (resources : List (Int × Option Int)) : Except RouteErr Int :=
  match resources.find? (fun r => r.1 == 4) with
  | some (_, none) => .error .badResource
  | some (_, some id) => .ok (lookupD c.brokers id Broker.zero).id
  | none => .ok (controllerBroker c)

/-- incrementalalterconfigs.Request.Broker: as above after refusing more than one distinct broker resource name
(`names` = the ResourceName strings of the type-4 resources, parallel to their Atoi results) -/
def resourceBrokerOne (c : Cluster) (resources : List (Int × String × Option Int)) : Except RouteErr Int :=
  let names := (resources.filter (fun r => r.1 == 4)).map (·.2.1)
  if names.eraseDups.length > 1 then .error .tooManyBrokers
  else resourceBroker c (resources.map (fun r => (r.1, r.2.2)))

/-! ### sendRequest -/

/-- does the request type implement the interface of this switch case? -/
def implements (a : ApiMethods) : SwitchCase → Bool
  | .broker => a.broker != .none
  | .group => a.group
  | .transaction => a.transaction
  | .splitter => a.split
  | .metadata => a.apiKey == 3 && !a.override
  | .other => false

/-- the case a Go type switch with this case order selects -/
def firstCase (cases : List SwitchCase) (a : ApiMethods) : Option SwitchCase :=
  cases.find? (implements a)

/-- routing class realised by sendRequest for the request type (`none`: no fixed class) -/
def classOf (cases : List SwitchCase) (a : ApiMethods) : Option RClass :=
  match firstCase cases a with
  | some .broker =>
    match a.broker with
    | .controller => some .controller
    | .leaderAll => some .leader
    | .leaderFirst => some .leader
    | _ => none
  | some .group => some .groupCoordinator
  | some .transaction => some .txnCoordinator
  | some _ => none
  | none => some .anyBroker

/-- tail of sendRequest: the regenerated guard (`Gen.Routing.usesBrokerConn`, today `brokerID >= 0`) → grabBrokerConn (BrokerNotAvailable if the pool has no
connection group for it), else the control connection -/
def sendTarget (conns : List (Int × Addr)) (brokerID : Int) : Target :=
  if KV.Gen.Routing.usesBrokerConn brokerID then
    match conns.lookup brokerID with
    | some addr => .broker brokerID addr
    | none => .err .brokerNotAvailable
  else .control

def ofExcept (conns : List (Int × Addr)) : Except RouteErr Int → Target
  | .ok id => sendTarget conns id
  | .error e => .err e

/-- what a request carries that routing reads -/
structure ReqInfo where
  tps : List (String × List Int) := []
  resources : List (Int × String × Option Int) := []
  field : Int := 0
  /-- NodeID answered by FindCoordinator for this request's group / transactional id -/
  coordinator : Int := -1
  deriving Repr, Inhabited

/-- the request type's `Broker(cluster)` method, by the shape the translator found -/
def brokerMethod (a : ApiMethods) (c : Cluster) (r : ReqInfo) : Except RouteErr Int :=
  match a.broker with
  | .controller => .ok (controllerBroker c)
  | .leaderAll => leaderAll c r.tps (-1)
  | .leaderFirst => leaderFirst c r.tps
  | .resourceOrController =>
    if a.apiKey == 44 then resourceBrokerOne c r.resources
    else resourceBroker c (r.resources.map (fun x => (x.1, x.2.2)))
  | .field => .ok (lookupD c.brokers r.field Broker.zero).id
  | _ => .error .panic

/-- (*connPool).sendRequest for one (already split) request -/
def route (cases : List SwitchCase) (a : ApiMethods) (c : Cluster) (conns : List (Int × Addr)) (r : ReqInfo) : Target :=
  match firstCase cases a with
  | some .broker => ofExcept conns (brokerMethod a c r)
  | some .group => sendTarget conns r.coordinator
  | some .transaction => sendTarget conns r.coordinator
  | _ => .control

/-! ### metadata cache -/

/-- insertion sort; stands for `sort.Slice` (for pairwise distinct keys the sorted permutation is unique) -/
def insertBy {α : Type} (lt : α → α → Bool) (x : α) : List α → List α
  | [] => [x]
  | y :: ys => if lt x y then x :: y :: ys else y :: insertBy lt x ys

def sortBy {α : Type} (lt : α → α → Bool) : List α → List α
  | [] => []
  | x :: xs => insertBy lt x (sortBy lt xs)

/-- the normalisation at the top of `update` -/
def normalize (m : MResponse) : MResponse :=
  { m with
    throttle := 0
    brokers := sortBy (fun a b => a.nodeID < b.nodeID) m.brokers
    topics := (sortBy (fun a b => a.name < b.name) m.topics).map
      (fun t => { t with partitions := sortBy (fun a b => a.index < b.index) t.partitions }) }

/-- Go's sort.Search(n, f): smallest i in [0,n] with f i, by bisection (`fuel` ≥ n) -/
def searchLoop (f : Nat → Bool) : Nat → Nat → Nat → Nat
  | 0, i, _ => i
  | fuel + 1, i, j =>
    if i < j then
      let h := (i + j) / 2
      if !f h then searchLoop f fuel (h + 1) j else searchLoop f fuel i h
    else i

def sortSearch (n : Nat) (f : Nat → Bool) : Nat := searchLoop f n 0 n

/-- transport.go findMetadataTopic; the search predicate and the final test are regenerated from the source
(`Gen.Routing.searchPred`, today `elem ≥ target`; `searchHit`, `elem = target`) -/
def findTopic (topics : List MTopic) (name : String) : Option Nat :=
  let i := sortSearch topics.length (fun i => match topics[i]? with | some t => KV.Gen.Routing.searchPred t.name name | none => true)
  match topics[i]? with
  | some t => if KV.Gen.Routing.searchHit t.name name then some i else none
  | none => none

/-- UnknownTopicOrPartition -/
def errUnknownTopic : Int := 3

def unknownTopic (name : String) : MTopic := ⟨errUnknownTopic, name, false, []⟩

/-- transport.go filterMetadataResponse (`none` = nil TopicNames = all topics) -/
def filterMetadata (names : Option (List String)) (res : MResponse) : MResponse :=
  match names with
  | none => res
  | some ns =>
    { res with topics := ns.map (fun n =>
        match findTopic res.topics n with
        | some j => res.topics.getD j (unknownTopic n)
        | none => unknownTopic n) }

/-- the pool's cached state and connection groups (`p.conns`: broker id → group; a group is its dial address,
fixed when the group is created by `newBrokerConnGroup`) -/
structure PoolState where
  metadata : Option MResponse := none
  layout : Cluster := Cluster.zero
  err : Bool := false
  conns : List (Int × Addr) := []
  deriving Repr, Inhabited

def keys {κ ν : Type} (m : List (κ × ν)) : List κ := m.map (·.1)

/-- did the broker entry change?  The comparison itself is regenerated from the source (`Gen.Routing.updateCompare`) -/
def brokersDiffer : KV.Gen.Routing.BrokerCompare → Broker → Broker → Bool
  | .whole, b1, b2 => b1 != b2
  | .fields fs, b1, b2 =>
    (fs.contains "ID" && b1.id != b2.id) || (fs.contains "Host" && b1.host != b2.host) ||
    (fs.contains "Port" && b1.port != b2.port) || (fs.contains "Rack" && b1.rack != b2.rack)
  | .other, b1, b2 => b1 != b2

/-- `b1` (cached) against the new entry under the same id (`none`: not in the new layout) -/
def differs (b1 : Broker) : Option Broker → Bool
  | some b2 => brokersDiffer KV.Gen.Routing.updateCompare b1 b2
  | none => true

/-- classification of a broker id of the new layout / of the old layout into (add set?, delete set?) — the two
classification loops of `update`, regenerated from the source (`Gen.Routing.updateNewEntry`, `updateOldEntry`) -/
def newClass (old new : List (Int × Broker)) (id : Int) : Bool × Bool :=
  KV.Gen.Routing.updateNewEntry (old.lookup id).isSome
    (match old.lookup id with | some b1 => differs b1 (new.lookup id) | none => false)

def oldClass (new : List (Int × Broker)) (id : Int) : Bool × Bool :=
  KV.Gen.Routing.updateOldEntry (new.lookup id).isSome

def addSet (old new : List (Int × Broker)) : List Int :=
  (keys new).filter (fun id => (newClass old new id).1) ++ (keys old).filter (fun id => (oldClass new id).1)

def delSet (old new : List (Int × Broker)) : List Int :=
  (keys new).filter (fun id => (newClass old new id).2) ++ (keys old).filter (fun id => (oldClass new id).2)

/-- the two loops that apply the sets to `p.conns`, in the order of the source (`Gen.Routing.updateApplyOrder`):
deleting first lets a changed broker (in both sets) end up with its new group; adding first would lose it -/
def applySets (order : List KV.Gen.Routing.SetRole) (conns : List (Int × Addr)) (del : List Int)
    (groups : List (Int × Addr)) : List (Int × Addr) :=
  if order == [.del, .add] then conns.filter (fun e => !del.contains e.1) ++ groups
  else (conns ++ groups).filter (fun e => !del.contains e.1)

/-- (*connPool).update(metadata, err): a broker whose entry (id, host, port, rack) differs from the cached one in
any field has its group closed and re-created at the new address (`b1 != b2` on the whole struct) -/
def update (s : PoolState) (m : Option MResponse) (err : Bool) : PoolState :=
  let m' := m.map normalize
  let layout := match m' with | some x => makeLayout x | none => Cluster.zero
  if err then
    -- what the error branch writes is regenerated (`Gen.Routing.updateErrorKeepsKnown`, `updateErrorStoresErr`)
    if KV.Gen.Routing.updateErrorKeepsKnown && s.metadata.isSome then s
    else { s with err := if KV.Gen.Routing.updateErrorStoresErr then true else s.err }
  else
    -- … and so is what the success branch writes (`updateSuccessSetsMetadata/Layout`, `updateSuccessClearsErr`)
    { metadata := if KV.Gen.Routing.updateSuccessSetsMetadata then m' else s.metadata,
      layout := if KV.Gen.Routing.updateSuccessSetsLayout then layout else s.layout,
      err := if KV.Gen.Routing.updateSuccessClearsErr then false else s.err,
      conns := applySets KV.Gen.Routing.updateApplyOrder s.conns (delSet s.layout.brokers layout.brokers)
        ((addSet s.layout.brokers layout.brokers).map (fun id => (id, (lookupD layout.brokers id Broker.zero).addr))) }

/-! ## Prepare: what the negotiated version changes in the body beyond the field layout -/

/-- protocol/produce Prepare: the record format (magic) a partition's record set is written with, given the API version
of the request and the `RecordSet.Version` the caller supplied (0 = unset); the decision is regenerated from the source -/
def produceMagic (apiVersion given : Int) : Int :=
  if KV.Gen.Routing.produceKeepsExplicitVersion && given != 0 then given
  else KV.Gen.Routing.produceRecordVersion apiVersion

/-- protocol/leavegroup Prepare + the version ranges of the two fields: what a LeaveGroup request carries on the wire,
(MemberID, member ids of Members) -/
def leaveGroupWire (apiVersion : Int) (memberID : String) (members : List String) : String × List String :=
  let id := if KV.Gen.Routing.leaveGroupCopiesFirstMember apiVersion members.length then members.headD "" else memberID
  if apiVersion < 3 then (id, []) else ("", members)

/-! ## Split: what the parts carry of the original request -/

/-- does every sub-request `Split` of package `pkg` builds set the request's field `f`? (regenerated table) -/
def splitCarries (pkg f : String) : Bool :=
  match KV.Gen.Routing.splitSubrequests.find? (·.1 == pkg) with
  | some (_, _, subs) => subs.all fun s => s.any (·.1 == f)
  | none => true

/-- value of a boolean option of the caller's request as it arrives at a broker at `apiVersion`, when the caller set it:
carried by the part (Split) and present on the wire from version `since` on -/
def optionArrives (pkg option : String) (since apiVersion : Int) : Bool :=
  splitCarries pkg option && decide (since ≤ apiVersion)

/-! ## the dial address of a broker's connection group -/

/-- transport.go newBrokerConnGroup: the address string handed to the dialer for a broker listed at `a` (the way it is
built is regenerated: `net.JoinHostPort` brackets a host that contains a colon, plain concatenation does not) -/
def dialAddress (a : Addr) : String :=
  match KV.Gen.Routing.brokerDialAddress with
  | .joinHostPort => if a.1.contains ':' || a.1.contains '%' then s!"[{a.1}]:{a.2}" else s!"{a.1}:{a.2}"
  | _ => s!"{a.1}:{a.2}"

end KV.Routing
