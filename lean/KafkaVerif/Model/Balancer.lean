/-
Model/Balancer.lean — executable model of /repo/balancer.go (core Lean only).

Each definition follows the Go function it names, statement by statement:
  * `murmur2Go`        ↔ `func murmur2(data []byte) uint32`        (index loop + tail `if`s)
  * `fnv1a32`, `crc32IEEE` ↔ `hash/fnv.New32a`, `hash/crc32.ChecksumIEEE` (stdlib; validated by the
                          correspondence check on every run, not verified)
  * `hashBalance`      ↔ `(*Hash).Balance`          (default hasher; nil key → round robin)
  * `refHashBalance`   ↔ `(*ReferenceHash).Balance` (nil key → random)
  * `crc32Balance`     ↔ `CRC32Balancer.Balance`
  * `murmur2Balance`   ↔ `Murmur2Balancer.Balance`
  * `RoundRobin.balance` ↔ `(*RoundRobin).balance`
  * `LeastBytes.balance` ↔ `(*LeastBytes).Balance`
  * `loadCachedPartitions` ↔ `writer.go loadCachedPartitions`

A Go `nil` key is `none`, an empty non-nil key is `some []`.
Indexing that would panic in Go returns `none`.
The random fallback (`rand.Int()`) is the explicit parameter `pick`.
-/
import KafkaVerif.Base.Bytes

namespace KV.Balancer

/-! ### murmur2 (Go shape: index loop)

The numeric constants are a parameter (`MConsts`): the values used by the code are *extracted from
balancer.go on every run* into `Gen/BalancerConsts.lean`; the theorems are generic in them and a
separate `decide`d lemma equates the extracted values with the reference ones.  (Large literals inside
recursive definitions also make the kernel unfold `Nat.mul` in unary, so this is the cheap shape too.) -/

structure MConsts where
  seed : UInt32
  m : UInt32
  r : UInt32
  mask : UInt32      -- the `& 0x7fffffff` of Murmur2Balancer / ReferenceHash
  deriving Repr, DecidableEq

/-- One iteration of the block loop of `murmur2`. -/
def mixBlock (c : MConsts) (h : UInt32) (b0 b1 b2 b3 : UInt8) : UInt32 :=
  let k : UInt32 := (b0.toUInt32 &&& (0xff : UInt32)) + ((b1.toUInt32 &&& (0xff : UInt32)) <<< 8)
      + ((b2.toUInt32 &&& (0xff : UInt32)) <<< 16) + ((b3.toUInt32 &&& (0xff : UInt32)) <<< 24)
  let k := k * c.m
  let k := k ^^^ (k >>> c.r)
  let k := k * c.m
  let h := h * c.m
  h ^^^ k

/-- `for i := 0; i < length4; i++ { … }` starting at index `i` with `n` iterations left. -/
def goLoop (c : MConsts) (data : Bytes) (h : UInt32) : Nat → Nat → UInt32
  | _, 0 => h
  | i, n + 1 =>
    goLoop c data (mixBlock c h (data.getD (4 * i) 0) (data.getD (4 * i + 1) 0)
      (data.getD (4 * i + 2) 0) (data.getD (4 * i + 3) 0)) (i + 1) n

/-- The three tail `if`s (`extra >= 3`, `>= 2`, `>= 1`). `base` is `length & ^3`. -/
def goTail (c : MConsts) (data : Bytes) (h : UInt32) (base extra : Nat) : UInt32 :=
  let h := if extra ≥ 3 then h ^^^ (((data.getD (base + 2) 0).toUInt32 &&& (0xff : UInt32)) <<< 16) else h
  let h := if extra ≥ 2 then h ^^^ (((data.getD (base + 1) 0).toUInt32 &&& (0xff : UInt32)) <<< 8) else h
  if extra ≥ 1 then (h ^^^ ((data.getD base 0).toUInt32 &&& (0xff : UInt32))) * c.m else h

def finalMix (c : MConsts) (h : UInt32) : UInt32 :=
  let h := h ^^^ (h >>> 13)
  let h := h * c.m
  h ^^^ (h >>> 15)

def murmur2Go (c : MConsts) (data : Bytes) : UInt32 :=
  let length := data.length
  let h := c.seed ^^^ UInt32.ofNat length
  let length4 := length / 4
  let h := goLoop c data h 0 length4
  let h := goTail c data h (4 * length4) (length % 4)
  finalMix c h

/-! ### FNV-1a (32 bit) and CRC-32 (IEEE) — stdlib functions, modelled -/

def fnvOffset : UInt32 := 2166136261
def fnvPrime : UInt32 := 16777619

def fnv1a32 (data : Bytes) : UInt32 :=
  data.foldl (fun h b => (h ^^^ b.toUInt32) * fnvPrime) fnvOffset

def crcPoly : UInt32 := 0xEDB88320

def crcStepBit (c : UInt32) : UInt32 :=
  if c &&& 1 = 1 then (c >>> 1) ^^^ crcPoly else c >>> 1

def crcStepByte (c : UInt32) (b : UInt8) : UInt32 :=
  let c := c ^^^ b.toUInt32
  crcStepBit (crcStepBit (crcStepBit (crcStepBit (crcStepBit (crcStepBit (crcStepBit (crcStepBit c)))))))

def crc32IEEE (data : Bytes) : UInt32 :=
  (data.foldl crcStepByte 0xFFFFFFFF) ^^^ 0xFFFFFFFF

/-! ### Go integer conversions used by the balancers -/

/-- `int32(x)` for `x : uint32`. -/
def toInt32 (x : UInt32) : Int :=
  if x.toNat < 2147483648 then (x.toNat : Int) else (x.toNat : Int) - 4294967296

/-- `int32(len(partitions))` (wraps for lengths ≥ 2³¹; the theorems assume length < 2³¹). -/
def lenInt32 (n : Nat) : Int :=
  let w := n % 4294967296
  if w < 2147483648 then (w : Int) else (w : Int) - 4294967296

/-! ### RoundRobin -/

/-- 2⁶⁴, the modulus of the Go `uint64` call counter -/
def two64 : Nat := 18446744073709551616

/-- `RoundRobin`: `counter` = number of calls made so far (Go `uint64`, used only under the mutex).  History: the
pinned tree counted in a `uint32` (`RoundRobinLegacy` below, finding D10: the cycle broke after 2³² calls); a first repair
kept a position and a per-chunk count instead (`RoundRobinPos`), which starved partitions when one balancer is shared by
topics of different widths; the current code keeps the original formula with a 64-bit counter. -/
structure RoundRobin where
  chunkSize : Int          -- `ChunkSize int`
  counter : Nat            -- `counter uint64`
  deriving Repr, DecidableEq

/-- a balancer nobody has called yet -/
def RoundRobin.fresh (chunk : Int) : RoundRobin := ⟨chunk, 0⟩

/-- `(*RoundRobin).balance`.  `none` = Go would panic (empty partition list: `offset % 0`). -/
def RoundRobin.balance (rr : RoundRobin) (parts : List Int) : RoundRobin × Option Int :=
  let rr := if rr.chunkSize < 1 then { rr with chunkSize := 1 } else rr
  if parts.length = 0 then (rr, none) else
  ({ rr with counter := (rr.counter + 1) % two64 }, parts[(rr.counter / rr.chunkSize.toNat) % parts.length]?)

/-- A run of calls with a fixed partition list; returns the results in call order. -/
def RoundRobin.run (rr : RoundRobin) (parts : List Int) : Nat → RoundRobin × List (Option Int)
  | 0 => (rr, [])
  | n + 1 =>
    let (rr', x) := rr.balance parts
    let (rr'', xs) := RoundRobin.run rr' parts n
    (rr'', x :: xs)

/-- calls whose partition list changes from call to call (a Writer without a fixed Topic, or one balancer shared by
several topics) -/
def RoundRobin.runVar (rr : RoundRobin) : List (List Int) → List (Option Int)
  | [] => []
  | parts :: rest => let (rr', x) := rr.balance parts; x :: RoundRobin.runVar rr' rest

/-- where a balancer is after `calls` calls (what the test hook `VerifSetRoundRobinCalls` sets) -/
def RoundRobin.placed (chunk : Int) (calls _n : Nat) : RoundRobin := ⟨chunk, calls % two64⟩

/-! #### the first repair of D10 (reverted): position in the list + messages of the current chunk -/

structure RoundRobinPos where
  chunkSize : Int
  index : Nat
  count : Int
  deriving Repr, DecidableEq

def RoundRobinPos.balance (rr : RoundRobinPos) (parts : List Int) : RoundRobinPos × Option Int :=
  let rr := if rr.chunkSize < 1 then { rr with chunkSize := 1 } else rr
  let rr := if rr.count ≥ rr.chunkSize then { rr with count := 0, index := rr.index + 1 } else rr
  let rr := if rr.index ≥ parts.length then { rr with index := 0 } else rr
  ({ rr with count := rr.count + 1 }, parts[rr.index]?)

def RoundRobinPos.runVar (rr : RoundRobinPos) : List (List Int) → List (Option Int)
  | [] => []
  | parts :: rest => let (rr', x) := rr.balance parts; x :: RoundRobinPos.runVar rr' rest

/-! #### the version before the fix of D10: a `uint32` count of the calls made -/

structure RoundRobinLegacy where
  chunkSize : Int          -- `ChunkSize int`
  counter : UInt32         -- `counter uint32`
  deriving Repr, DecidableEq

/-- `uint32(rr.ChunkSize)` for a Go `int` (two's complement truncation). -/
def chunkU32 (c : Int) : UInt32 := UInt32.ofNat (c % 4294967296).toNat

/-- the former `(*RoundRobin).balance`.  `none` = Go would panic (empty slice, or division by zero when
`uint32(ChunkSize) = 0`). -/
def RoundRobinLegacy.balance (rr : RoundRobinLegacy) (parts : List Int) : RoundRobinLegacy × Option Int :=
  let rr := if rr.chunkSize < 1 then { rr with chunkSize := 1 } else rr
  let length := parts.length
  let d := chunkU32 rr.chunkSize
  if d = 0 ∨ length = 0 then (rr, none) else
  let offset := (rr.counter / d).toNat
  ({ rr with counter := rr.counter + 1 }, parts[offset % length]?)

def RoundRobinLegacy.run (rr : RoundRobinLegacy) (parts : List Int) : Nat → RoundRobinLegacy × List (Option Int)
  | 0 => (rr, [])
  | n + 1 =>
    let (rr', x) := rr.balance parts
    let (rr'', xs) := RoundRobinLegacy.run rr' parts n
    (rr'', x :: xs)

/-! ### randomBalancer -/

/-- `randomBalancer.Balance` with `mock = 0`: `partitions[rand.Int() % len]`, `pick = rand.Int() ≥ 0`. -/
def randomBalance (pick : Nat) (parts : List Int) : Option Int :=
  if parts.length = 0 then none else parts[pick % parts.length]?

/-! ### Hash / ReferenceHash with the default FNV-1a hasher -/

/-- The arithmetic of `Hash.Balance` after hashing: `int32(sum) % int32(len)`, negated if negative.
Go's `%` truncates toward zero (`Int.tmod`). -/
def hashIndex (sum : UInt32) (n : Nat) : Int :=
  let p := (toInt32 sum).tmod (lenInt32 n)
  if p < 0 then -p else p

/-- The arithmetic of `ReferenceHash.Balance`: `(int32(sum) & 0x7fffffff) % int32(len)`. -/
def refHashIndex (mask : UInt32) (sum : UInt32) (n : Nat) : Int :=
  (((sum &&& mask).toNat : Int)).tmod (lenInt32 n)

/-- `(*Hash).Balance`: returns the *index* (not `partitions[index]`), as the Go code does. -/
def hashBalance (rr : RoundRobin) (key : Option Bytes) (parts : List Int) : RoundRobin × Option Int :=
  match key with
  | none => rr.balance parts
  | some k => if parts.length = 0 then (rr, none) else (rr, some (hashIndex (fnv1a32 k) parts.length))

def refHashBalance (mask : UInt32) (pick : Nat) (key : Option Bytes) (parts : List Int) : Option Int :=
  match key with
  | none => randomBalance pick parts
  | some k => if parts.length = 0 then none else some (refHashIndex mask (fnv1a32 k) parts.length)

/-! ### Hash / ReferenceHash with a user-supplied `hash.Hash32`

A `hash.Hash32` is modelled by its state space: `Reset` puts it into `init`, `Write` folds bytes in, `Sum32` reads it out.
`Balance` does `hasher.Reset(); hasher.Write(key); hasher.Sum32()` under `h.lock`; the hasher's state persists
between calls (it is the caller's object), hence the state argument. -/

structure Hasher (σ : Type) where
  init : σ
  write : σ → Bytes → σ
  sum : σ → UInt32

/-- `(*Hash).Balance` with `Hasher != nil`, non-nil key: new hasher state and returned index. -/
def hashBalanceWith {σ : Type} (h : Hasher σ) (_st : σ) (key : Bytes) (n : Nat) : σ × Int :=
  let st := h.write h.init key
  (st, hashIndex (h.sum st) n)

def refHashBalanceWith {σ : Type} (h : Hasher σ) (mask : UInt32) (_st : σ) (key : Bytes) (n : Nat) : σ × Int :=
  let st := h.write h.init key
  (st, refHashIndex mask (h.sum st) n)

/-- FNV-1a as a `Hasher` (what `fnv.New32a()` is) -/
def fnvHasher : Hasher UInt32 :=
  { init := fnvOffset, write := fun s b => b.foldl (fun h x => (h ^^^ x.toUInt32) * fnvPrime) s, sum := id }

/-! ### CRC32Balancer / Murmur2Balancer -/

def keyLen : Option Bytes → Nat
  | none => 0
  | some k => k.length

def keyBytes : Option Bytes → Bytes
  | none => []
  | some k => k

def crc32Balance (consistent : Bool) (pick : Nat) (key : Option Bytes) (parts : List Int) : Option Int :=
  if keyLen key = 0 ∧ !consistent then randomBalance pick parts
  else
    let n := UInt32.ofNat parts.length
    if n = 0 then none else parts[(crc32IEEE (keyBytes key) % n).toNat]?

def murmur2Balance (c : MConsts) (consistent : Bool) (pick : Nat) (key : Option Bytes) (parts : List Int) : Option Int :=
  if key = none ∧ !consistent then randomBalance pick parts
  else
    let n := UInt32.ofNat parts.length
    if n = 0 then none else parts[((murmur2Go c (keyBytes key) &&& c.mask) % n).toNat]?

/-! ### LeastBytes -/

structure LBCounter where
  partition : Int
  bytes : Nat            -- `uint64`; the theorems assume totals stay below 2⁶⁴
  deriving Repr, DecidableEq

/-- insertion sort by partition = `sort.Slice(counters, less on partition)` on distinct partitions -/
def lbInsert (c : LBCounter) : List LBCounter → List LBCounter
  | [] => [c]
  | d :: ds => if c.partition < d.partition then c :: d :: ds else d :: lbInsert c ds

def makeCounters (parts : List Int) : List LBCounter :=
  parts.foldr (fun p acc => lbInsert ⟨p, 0⟩ acc) []

/-- index of the first strictly smallest `bytes`, scanning left to right as the Go loop does -/
def minIndexFrom : List LBCounter → (idx : Nat) → (minIdx : Nat) → (minBytes : Nat) → Nat
  | [], _, mi, _ => mi
  | c :: cs, i, mi, mb => if c.bytes < mb then minIndexFrom cs (i + 1) i c.bytes else minIndexFrom cs (i + 1) mi mb

def minIndex : List LBCounter → Nat
  | [] => 0
  | c :: cs => minIndexFrom cs 1 0 c.bytes

def addAt : List LBCounter → Nat → Nat → List LBCounter
  | [], _, _ => []
  | c :: cs, 0, sz => { c with bytes := c.bytes + sz } :: cs
  | c :: cs, i + 1, sz => c :: addAt cs i sz

structure LeastBytes where
  counters : List LBCounter
  deriving Repr, DecidableEq

/-- `(*LeastBytes).Balance`; `sz = len(Key)+len(Value)`. `none` = Go would panic (no partitions). -/
def LeastBytes.balance (lb : LeastBytes) (sz : Nat) (parts : List Int) : LeastBytes × Option Int :=
  let cs := if parts.length ≠ lb.counters.length then makeCounters parts else lb.counters
  match cs with
  | [] => (⟨cs⟩, none)
  | _ :: _ =>
    let i := minIndex cs
    (⟨addAt cs i sz⟩, (cs[i]?).map (·.partition))

/-! ### the partition list a Writer supplies -/

/-- `loadCachedPartitions`: the cache holds `[0, 1, …, c-1]` for some `c`; the function returns the
first `n` of a list of that shape (re-allocated when too short). -/
def loadCachedPartitions (cache : Option Nat) (n : Nat) : Option Nat × List Int :=
  match cache with
  | some c =>
    if c ≥ n then (some c, (List.range c |>.map Int.ofNat).take n)
    else
      let c' := (n / 128 + 1) * 128
      (some c', (List.range c' |>.map Int.ofNat).take n)
  | none =>
    let c' := (n / 128 + 1) * 128
    (some c', (List.range c' |>.map Int.ofNat).take n)

/-! ### what `(*Writer).partitions` makes of a metadata answer, and the list `WriteMessages` then offers -/

/-- one topic entry of a metadata response, as far as `(*Writer).partitions` reads it -/
structure MetaTopic where
  name : String
  err : Int            -- `ErrorCode`
  nparts : Nat         -- `len(Partitions)`
  deriving Repr, DecidableEq

/-- `(*Writer).partitions`: the FIRST entry carrying the topic's name decides; a topic-level error code is returned as
the error (no partition count), a missing entry is `UnknownTopicOrPartition` (3). -/
def writerPartitions (resp : List MetaTopic) (topic : String) : Except Int Nat :=
  match resp.find? (·.name == topic) with
  | none => .error 3
  | some t => if t.err ≠ 0 then .error t.err else .ok t.nparts

/-- the list handed to `Balancer.Balance` by `WriteMessages` for one message: `loadCachedPartitions(numPartitions)`;
no call at all when `partitions` failed. -/
def writerOffer (cache : Option Nat) (resp : List MetaTopic) (topic : String) : Except Int (List Int) :=
  match writerPartitions resp topic with
  | .error e => .error e
  | .ok n => .ok (loadCachedPartitions cache n).2

/-! ### exclusive use of the hasher inside `Hash.Balance` / `ReferenceHash.Balance`

Both methods use a `hash.Hash32` for `Reset; Write; Sum32`.  With a user-supplied Hasher the three calls run under
`h.lock`; otherwise the hasher comes from `fnv1aPool` and goes back by a deferred `Put`.  The regenerated facts are the
event lists of the two paths through each method (`Gen.BalancerConsts`); `ownedThroughout` is the caller-local
discipline, `Pool` the shared state. -/

inductive OwnEv where
  | acquire        -- `h.lock.Lock()` resp. `fnv1aPool.Get()`
  | release        -- `h.lock.Unlock()` resp. `fnv1aPool.Put(hasher)` as an ordinary statement
  | deferRelease   -- the same inside a `defer`: runs when the method returns
  | use            -- `hasher.Reset()`, `hasher.Write(..)`, `hasher.Sum32()`
  deriving Repr, DecidableEq

/-- the caller-local automaton: `holding` = between acquire and release, `deferred` = a deferred release is pending.
`false` as soon as the hasher is used while not held, acquired twice, or released while not held / twice. -/
def ownedRun : List OwnEv → Bool → Bool → Bool
  | [], _, _ => true
  | .acquire :: es, h, d => !h && ownedRun es true d
  | .release :: es, h, d => h && !d && ownedRun es false d
  | .deferRelease :: es, h, d => h && !d && ownedRun es h true
  | .use :: es, h, d => h && ownedRun es h d

def ownedThroughout (es : List OwnEv) : Bool := ownedRun es false false

/-- is the caller holding after the events `es` (started not holding)? -/
def holdingAfter : List OwnEv → Bool → Bool
  | [], h => h
  | .acquire :: es, _ => holdingAfter es true
  | .release :: es, _ => holdingAfter es false
  | .deferRelease :: es, h => holdingAfter es h
  | .use :: es, h => holdingAfter es h

/-- `sync.Pool` as the callers see it: objects lying in the pool, the next fresh object `New` would make, and who
holds what between `Get` and `Put`. -/
structure Pool where
  free : List Nat
  next : Nat
  held : List (Nat × Nat)      -- (caller, object)
  deriving Repr, DecidableEq

inductive PoolEv where
  | get (caller : Nat) (pick : Option Nat)   -- `none`: `New()` makes a fresh object; `some o`: the pooled object `o`
  | put (caller : Nat)
  | drop (o : Nat)                           -- the runtime may discard pooled objects at any time (GC)
  deriving Repr, DecidableEq

def Pool.init : Pool := ⟨[], 0, []⟩

def Pool.step (p : Pool) : PoolEv → Option Pool
  | .get c none =>
    if p.held.any (·.1 == c) then none
    else some { p with next := p.next + 1, held := (c, p.next) :: p.held }
  | .get c (some o) =>
    if p.held.any (·.1 == c) then none
    else if p.free.contains o then some { p with free := p.free.erase o, held := (c, o) :: p.held }
    else none
  | .put c =>
    match p.held.find? (·.1 == c) with
    | none => none
    | some (_, o) => some { p with free := o :: p.free, held := p.held.filter (·.1 != c) }
  | .drop o => if p.free.contains o then some { p with free := p.free.erase o } else none

def Pool.run (p : Pool) : List PoolEv → Option Pool
  | [] => some p
  | e :: es => match p.step e with
    | none => none
    | some p' => Pool.run p' es

end KV.Balancer
