/-
Model/PullReader.lean — message_reader.go and batch.go once more, this time **as the Go code is written**: a pull
parser over a stack of readers (`readerStack`), with `readHeader`, `readMessage` (the loop over empty batches),
`readMessageV1` (its `for r.readerStack != nil` loop with pop / wrapper push / skip below `min`), `readMessageV2`
(payload push, record, `batchEnd`), `markRead` / `unwindStack`, `discard`, and `(*Batch).readMessage` /
`(*Batch).ReadMessage` / `(*Batch).close`.  Core Lean only.  Only the code as it is now (`Variant.fixed`).

The byte stream at every level is the token stream of Model/MessageSetReader.lean (`r.remain == 0` ⇔ no token left;
a `read*` on `cut` or on nothing fails with errShortRead; a read that meets a token of another kind is the
desynchronisation the Go code would turn into garbage or a panic).  A pushed level holds the decompressed payload:
the records of a v2 batch as `r2` tokens, the inner messages of a wrapper as `h1`/`kv` tokens.

Model/MessageSetReader.lean is the same machine turned inside out (token driven); `Props/C02` `pull_eq_run` relates the
two, the oracle evaluates both on every case.
-/
import KafkaVerif.Model.MessageSetReader

namespace KV.C02.Pull

/-- one `readerStack` node: what is left to read at this level, `base`, `count`, and the header fields in use -/
structure Lvl where
  toks : List Tok
  base : Int := 0
  count : Nat := 0
  magic : Nat := 0
  first : Int := 0
  lastD : Int := 0
  hcount : Nat := 0
  codec : Bool := false
  deriving Repr

/-- `messageSetReader` -/
structure MSR where
  stack : List Lvl            -- head = r.readerStack; [] = nil
  empty : Bool := false
  lengthRemain : Int := 0
  batchEnd : Int := 0
  deriving Repr

inductive Err
  | shortRead      -- errShortRead
  | timedOut       -- RequestTimedOut (the `empty` reader)
  | desync         -- bytes of one kind parsed as another / nil dereference / `panic: markRead: negative count`
  deriving DecidableEq, Repr

def setTop (r : MSR) (f : Lvl → Lvl) : MSR :=
  match r.stack with
  | [] => r
  | l :: ls => { r with stack := f l :: ls }

/-- `unwindStack`: `for r.count == 0 { if r.remain == 0 && r.parent != nil { pop; continue }; break }` -/
def unwind : List Lvl → List Lvl
  | [] => []
  | [l] => [l]
  | l :: p :: ls => if l.count = 0 ∧ l.toks.isEmpty then unwind (p :: ls) else l :: p :: ls

/-- a failed call: the error and the reader as the call left it (`Batch.readMessage` still looks at
`lengthRemain` and `batchEnd`) -/
abbrev Fail := Err × MSR

/-- `markRead` -/
def markRead (r : MSR) : Except Fail MSR :=
  match r.stack with
  | [] => .error (.desync, r)
  | l :: ls => if l.count = 0 then .error (.desync, r) else .ok { r with stack := unwind ({ l with count := l.count - 1 } :: ls) }

/-- `readHeader` -/
def readHeader (r : MSR) : Except Fail MSR :=
  match r.stack with
  | [] => .error (.desync, r)
  | l :: ls =>
    if l.count > 0 then .ok r
    else match l.toks with
      | [] => .error (.shortRead, r)
      | .cut :: _ => .error (.shortRead, r)
      | .h2 b ld c z pl :: ts =>
        .ok { r with stack := { l with toks := ts, count := c, magic := 2, first := b, lastD := ld, hcount := c, codec := z } :: ls,
                     lengthRemain := pl, batchEnd := if c = 0 then b + ld + 1 else r.batchEnd }
      | .h1 m f z :: ts =>
        .ok { r with stack := { l with toks := ts, count := 1, magic := m, first := f, codec := z } :: ls, lengthRemain := 1 }
      | _ :: _ => .error (.desync, r)

def top? (r : MSR) : Option Lvl := r.stack.head?

/-- the `for { readHeader; if magic != 2 || count != 0 { break } }` of `readMessage` -/
def headerLoop : Nat → MSR → Except Fail MSR
  | 0, r => .error (.desync, r)
  | fuel + 1, r => do
    let r ← readHeader r
    match top? r with
    | none => .error (.desync, r)
    | some l => if l.magic ≠ 2 ∨ l.count ≠ 0 then pure r else headerLoop fuel r

/-- a returned message: offset, lastOffset, digest -/
abbrev Msg := Int × Int × Nat

/-- the inner messages of a wrapper value, as the bytes the pushed reader will see -/
def innerToks (magic : Nat) (inner : List (Int × Nat)) : List Tok :=
  inner.flatMap fun (f, t) => [Tok.h1 magic f false, Tok.kv t 0]

/-- the body of `readMessageV1`'s loop after its `readHeader`; `k` is `continue` -/
def v1Body (min : Int) (k : MSR → Except Fail (MSR × Msg)) (r : MSR) : Except Fail (MSR × Msg) :=
  match r.stack with
  | [] => .error (.desync, r)
  | l :: ls =>
    if l.codec then
      -- discardBytes() (the wrapper's key), readBytesWith(decompress), extractOffset, markRead, push, continue
      match l.toks with
      | .zv _ inner :: ts =>
        let r1 := { r with stack := { l with toks := ts } :: ls }
        do
          let r2 ← markRead r1
          let child : Lvl := { toks := innerToks l.magic inner, base := wrapperBase l.first inner }
          k { r2 with stack := child :: r2.stack }
      | [] => .error (.shortRead, r)
      | .cut :: _ => .error (.shortRead, r)
      | _ :: _ => .error (.desync, r)
    else
      let offset := l.first + l.base
      match l.toks with
      | .kv t _ :: ts =>
        let r1 := { r with stack := { l with toks := ts } :: ls }
        if offset < min then do
          let r2 ← markRead r1                            -- discardBytes ×2, markRead, continue
          k r2
        else do
          let r2 ← markRead r1                            -- readBytesWith(key), readBytesWith(val), markRead, return
          pure (r2, (offset, -1, t))
      | [] => .error (.shortRead, r)
      | .cut :: _ => .error (.shortRead, r)
      | _ :: _ => .error (.desync, r)

/-- `readMessageV1(min, …)`: `for r.readerStack != nil { if r.remain == 0 { pop; continue }; readHeader; … }` -/
def readMessageV1 (min : Int) : Nat → MSR → Except Fail (MSR × Msg)
  | 0, r => .error (.desync, r)
  | fuel + 1, r =>
    match r.stack with
    | [] => .error (.shortRead, r)                              -- loop condition false: `err = errShortRead`
    | l :: ls =>
      if l.toks.isEmpty then readMessageV1 min fuel { r with stack := ls }     -- r.remain == 0: pop, continue
      else do
        let r ← readHeader r
        v1Body min (readMessageV1 min fuel) r

/-- `readMessageV2` -/
def readMessageV2 (r : MSR) : Except Fail (MSR × Msg) := do
  let r ← readHeader r
  match r.stack with
  | [] => .error (.desync, r)
  | l :: ls =>
    -- first record of the set and a codec: decompress and push
    let pushed : Except Fail MSR :=
      if l.count = l.hcount ∧ l.codec then
        match l.toks with
        | .z2 _ recs :: ts =>
          let child : Lvl := { toks := recs.map (fun (d, t, z) => Tok.r2 d t z), base := -1, count := l.count, magic := l.magic,
                               first := l.first, lastD := l.lastD, hcount := l.hcount, codec := l.codec }
          .ok { r with stack := child :: { l with toks := ts, count := 0 } :: ls }
        | [] => .error (.shortRead, r)                          -- batchRemain > r.remain
        | .cut :: _ => .error (.shortRead, r)
        | _ :: _ => .error (.desync, r)
      else .ok r
    let r ← pushed
    match r.stack with
    | [] => .error (.desync, r)
    | l :: ls =>
      match l.toks with
      | .r2 d t z :: ts =>
        let offset := l.first + d
        let lastOffset := l.first + l.lastD
        let r1 := { r with stack := { l with toks := ts } :: ls, lengthRemain := r.lengthRemain - z,
                           batchEnd := if l.count = 1 then lastOffset + 1 else r.batchEnd }
        let r2 ← markRead r1
        pure (r2, (offset, lastOffset, t))
      | [] => .error (.shortRead, r)
      | .cut :: _ => .error (.shortRead, r)
      | _ :: _ => .error (.desync, r)

/-- `(*messageSetReader).readMessage` -/
def readMessage (fuel : Nat) (r : MSR) (min : Int) : Except Fail (MSR × Msg) :=
  if r.empty then .error (.timedOut, r)
  else do
    let r ← headerLoop fuel r
    match top? r with
    | none => .error (.desync, r)
    | some l => if l.magic = 2 then readMessageV2 r else readMessageV1 min fuel r

/-- `Batch` -/
structure Batch where
  msgs : MSR
  offset : Int
  lastOffset : Int := 0
  err : Option Outcome := none       -- batch.err
  started : Bool                     -- newMessageSetReader succeeded (else the Batch carries io.ErrUnexpectedEOF)
  deriving Repr

/-- `(*Batch).readMessage`: one message, or the error that ends the batch -/
def batchReadMessage (fuel : Nat) (expired : Bool) (b : Batch) : Batch × Option Msg :=
  match b.err with
  | some _ => (b, none)
  | none =>
    match readMessage fuel b.msgs b.offset with
    | .ok (m, (offset, lastOffset, tag)) =>
      let off1 := offset + 1
      let off2 := if m.batchEnd > off1 then m.batchEnd else off1
      ({ b with msgs := m, offset := off2, lastOffset := lastOffset }, some (offset, lastOffset, tag))
    | .error (.shortRead, m) =>
      -- discard(); remaining() == 0; checkTimeoutErr; the compaction jump; batchEnd
      if expired then
        let off2 := if m.batchEnd > b.offset then m.batchEnd else b.offset
        ({ b with msgs := m, offset := off2, err := some .timedOut }, none)
      else
        let off1 := if m.lengthRemain = 0 ∧ b.lastOffset ≥ b.offset then b.lastOffset + 1 else b.offset
        let off2 := if m.batchEnd > off1 then m.batchEnd else off1
        ({ b with msgs := m, offset := off2, err := some .eof }, none)
    | .error (.timedOut, m) => ({ b with msgs := m, err := some .timedOut }, none)
    | .error (.desync, m) => ({ b with msgs := m, err := some .desync }, none)

/-- `(*Batch).ReadMessage`: skip what lies below the conn offset `o` -/
def batchReadMessageSkip (o : Int) (expired : Bool) : Nat → Batch → Batch × Option Msg
  | 0, b => (b, none)
  | fuel + 1, b =>
    match batchReadMessage (fuel + 1) expired b with
    | (b', some (offset, lo, tag)) => if offset < o then batchReadMessageSkip o expired fuel b' else (b', some (offset, lo, tag))
    | (b', none) => (b', none)

/-- read a batch to its end -/
def drain (o : Int) (expired : Bool) : Nat → Batch → List (Int × Nat) → Batch × List (Int × Nat)
  | 0, b, acc => (b, acc)
  | fuel + 1, b, acc =>
    match batchReadMessageSkip o expired (fuel + 1) b with
    | (b', some (offset, _, tag)) => drain o expired fuel b' (acc ++ [(offset, tag)])
    | (b', none) => (b', acc)

def size : List Tok → Nat
  | [] => 0
  | .z2 _ recs :: ts => recs.length + 2 + size ts
  | .zv _ inner :: ts => 2 * inner.length + 2 + size ts
  | _ :: ts => 1 + size ts

/-- `Conn.ReadBatchWith` + `ReadMessage`* + `Close` on a Conn positioned at `o`, as `readAll` of the token machine -/
def readAll (expired : Bool) (o hwm : Int) (toks : List Tok) : List (Int × Nat) × Int × Outcome :=
  if hwm = o then ([], o, .timedOut)
  else
    let fuel := 2 * size toks + 8
    -- newMessageSetReader: one readHeader
    match readHeader { stack := [{ toks := toks }] } with
    | .error (.desync, _) => ([], o, .desync)
    | .error _ => ([], o, .unexpectedEOF)
    | .ok m =>
      let (b, out) := drain o expired fuel { msgs := m, offset := o, started := true } []
      (out, b.offset, b.err.getD .desync)

end KV.C02.Pull
