/-
Model/ReaderLoop.lean — reader.go `(*reader).run / initialize / read` as a deterministic machine over
{offset (the local variable of run), connOffset, connOpen}, driven by broker answers.  Core Lean only.

`Answer` is what one fetch on the current connection comes back with; `onAnswer` is the body of the `readLoop`
`switch` for it (the decoding of a data answer is Model/MessageSetReader.readAll, i.e. `(*reader).read`);
`initialize` is `(*reader).initialize`.  `simulate` closes the loop with the scripted fake broker of the
driver (`go/cmd/c02/reader.go`, rdBroker.answer) so that the oracle can predict the delivered stream and the
journal of fetch offsets of a scenario.
-/
import KafkaVerif.Model.Batch

namespace KV.C02

inductive Answer
  /-- a well-formed fetch response holding these tokens -/
  | data (toks : List Tok)
  /-- the connection dies after these tokens of a response have arrived (cut inside the frame) -/
  | cutAfter (toks : List Tok)
  /-- partition error code in the fetch response -/
  | err (code : Nat)
  /-- no answer before the read deadline -/
  | hang
  /-- nothing to send: the fetch offset is the high watermark -/
  | idle
  deriving Repr

/-- the variables of `(*reader).run` and of its Conn -/
structure RL where
  offset : Int            -- `offset` in run: restart position (LastOffset = -1, FirstOffset = -2 before the first initialize)
  connOpen : Bool := false
  connOff : Int := 0      -- conn.offset
  out : List Rec := []    -- messages handed to sendMessage, in order
  deriving Repr

/-- `(*reader).initialize` against a partition whose first/last offsets are `first`/`last`:
resolve FirstOffset/LastOffset, clamp to `first`, `conn.Seek(offset, SeekAbsolute)` (fails with OffsetOutOfRange
above `last`: run retries later) -/
def initializeRL (s : RL) (first last : Int) : Option RL :=
  let off := if s.offset = -2 then first else if s.offset = -1 then last else if s.offset < first then first else s.offset
  if off > last then none
  else some { s with offset := off, connOpen := true, connOff := off }

def deliver (s : RL) (d : List Rec) : RL :=
  { s with out := s.out ++ d, offset := match d.getLast? with | some r => r.1 + 1 | none => s.offset }

inductive Next | go (s : RL) | stop (s : RL) (why : String)

/-- one iteration of `readLoop`: `r.read(ctx, offset, conn)` came back as described by `a`;
`first`/`last` are what `readOffsets` would answer now -/
def onAnswer (v : Variant) (s : RL) (hwm first _last : Int) : Answer → Next
  | .data toks =>
    let (d, off', oc) := readAll v false s.connOff hwm toks
    let s1 := { deliver s d with connOff := off' }
    match oc with
    | .eof => .go s1                                   -- case errors.Is(err, io.EOF): continue
    | .timedOut => .go s1                              -- case RequestTimedOut: continue
    | .unexpectedEOF => .go { s1 with connOpen := false }   -- default: unknown error → conn.Close(); break readLoop
    | .desync => .stop s1 "panic"
  | .cutAfter toks =>
    -- the records that arrived completely are delivered, then the read fails with a network error:
    -- Batch.close closes the Conn, run breaks out of readLoop and initializes again from `offset`
    let (st, _) := run v false s.connOff { off := s.connOff } toks
    .go { deliver s st.out with connOpen := false }
  | .err 6 => .go { s with connOpen := false }          -- NotLeaderForPartition: conn.Close(); break readLoop
  | .err 3 => .go { s with connOpen := false }          -- UnknownTopicOrPartition: conn.Close(); break readLoop
  | .err 7 => .go s                                     -- RequestTimedOut: continue
  | .err 1 =>                                           -- OffsetOutOfRange
    if s.offset < first then
      -- legacy: `offset = first` only (D3: the conn keeps its stale offset); fixed: the conn is seeked too
      .go { s with offset := first, connOff := if v = .fixed then first else s.connOff }
    else .go s                                          -- `offset < last`: retry; else: retry later
  | .err _ => .stop s "error"                           -- any other Kafka error goes to the application
  | .hang => .go { s with connOpen := false }           -- i/o timeout: conn.Close(); break readLoop
  | .idle => .go s

/-! ### the scripted broker of the driver -/

inductive Fault
  | cut (k : Nat) | err (code : Nat) | hang | move
  deriving Repr

structure RBroker where
  ver : Nat
  items : List (Item × Int)        -- current log: items with their first offsets
  hwm : Int
  budgets : List Nat
  faults : List (Nat × Fault)
  trunc : Option (Nat × Nat)       -- at data fetch idx: the first n items of the original log are deleted
  orig : List (Item × Int)
  n : Nat := 0                     -- data fetches so far
  deriving Repr

def RBroker.first (b : RBroker) : Int := (b.items.head?.map (·.2)).getD b.hwm

/-- bytes of a fetch response frame before the message set (correlation id included), for the driver's 5-character topic names -/
def frameHeader (ver : Nat) : Nat := (if ver = 2 then 37 else if ver = 5 then 57 else 63) + 4

/-- rdBroker.answer -/
def RBroker.answer (b : RBroker) (o : Int) : RBroker × Answer :=
  if o > b.hwm ∨ o < b.first then (b, .err 1)
  else if o = b.hwm then (b, .idle)
  else
    let idx := b.n
    let b := { b with n := b.n + 1 }
    let b := match b.trunc with
      | some (ti, tn) => if ti = idx then { b with items := b.orig.drop tn } else b
      | none => b
    if o < b.first then (b, .err 1)
    else
      let budget := b.budgets.getD (idx % b.budgets.length) 0
      let items := b.items.map (·.1)
      let fault : Option Fault := (b.faults.find? (·.1 = idx)).map (·.2)
      match fault with
      | some (Fault.cut k) =>
        let sub := dropBefore o items
        let setLen := min (itemsSizeOf sub) (serveBudget sub budget)
        let c := k % (frameHeader b.ver + setLen)
        (b, .cutAfter (if c < frameHeader b.ver then [] else (truncate (allTokens sub) (c - frameHeader b.ver)).filter (· != .cut)))
      | some (Fault.err code) => (b, .err code)
      | some Fault.hang => (b, .hang)
      | some Fault.move => (b, .err 6)
      | none => (b, .data (serve items o budget))
where
  itemsSizeOf : List Item → Nat
    | [] => 0
    | it :: rest => it.size + itemsSizeOf rest

structure Sim where
  rl : RL
  br : RBroker
  seq : Nat := 0                  -- connections that have fetched so far
  fetched : Bool := false         -- the current connection has fetched
  journal : List (Nat × Int) := []

/-- run the loop until the record `hwm-1` has been delivered (the application stops there), the reader idles at
the high watermark, or the fuel is exhausted (= no progress: stall) -/
def simulate (v : Variant) : Nat → Sim → Sim × String
  | 0, s => (s, "stall")
  | fuel + 1, s =>
    if (s.rl.out.getLast?.map (·.1)) = some (s.br.hwm - 1) then (s, "done")
    else if !s.rl.connOpen then
      match initializeRL s.rl s.br.first s.br.hwm with
      | none => (s, "stall")
      | some rl => simulate v fuel { s with rl := rl, fetched := false }
    else
      let seq := if s.fetched then s.seq else s.seq + 1
      let journal := if s.journal.getLast? = some (seq, s.rl.connOff) then s.journal else s.journal ++ [(seq, s.rl.connOff)]
      let (br, a) := s.br.answer s.rl.connOff
      match a with
      | .idle => ({ s with seq := seq, fetched := true, journal := journal, br := br }, if s.rl.out.isEmpty ∧ s.journal.isEmpty then "done" else "stall")
      | a =>
        match onAnswer v s.rl br.hwm br.first br.hwm a with
        | .go rl => simulate v fuel { rl := rl, br := br, seq := seq, fetched := true, journal := journal }
        | .stop rl why => ({ rl := rl, br := br, seq := seq, fetched := true, journal := journal }, why)

/-- a fetcher whose consumer stops taking messages: it runs until it holds message number `target` (the application
has taken some, the queue is full, one more is in its hand: it blocks in sendMessage) or idles at the high watermark -/
def simulateN (v : Variant) : Nat → Nat → Sim → Sim
  | 0, _, s => s
  | fuel + 1, target, s =>
    if s.rl.out.length ≥ target then s
    else if !s.rl.connOpen then
      match initializeRL s.rl s.br.first s.br.hwm with
      | none => s
      | some rl => simulateN v fuel target { s with rl := rl, fetched := false }
    else
      let seq := if s.fetched then s.seq else s.seq + 1
      let journal := if s.journal.getLast? = some (seq, s.rl.connOff) then s.journal else s.journal ++ [(seq, s.rl.connOff)]
      let (br, a) := s.br.answer s.rl.connOff
      match a with
      | .idle => { s with seq := seq, fetched := true, journal := journal, br := br }
      | a =>
        match onAnswer v s.rl br.hwm br.first br.hwm a with
        | .go rl => simulateN v fuel target { rl := rl, br := br, seq := seq, fetched := true, journal := journal }
        | .stop rl _ => { rl := rl, br := br, seq := seq, fetched := true, journal := journal }

end KV.C02
