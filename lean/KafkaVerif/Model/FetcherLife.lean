/-
Model/FetcherLife.lean — the control flow of a partition fetcher, `(*reader).run` of reader.go, as far as its
termination after cancellation and its ownership of a connection are concerned (core Lean only).  The events are
the `RL.*` hook points the reader builder placed in that function:

  top a        RL.Top      top of the outer loop with `attempt = a` (a ≠ 0: a back-off `sleep(ctx, …)` follows)
  cancel       RL.Cancel   a `sleep(ctx, …)` returned false: the context is done → `return`
                           (after `conn.Close()` when taken inside the read loop)
  init ok      RL.Init     `initialize` dialled the leader and positioned the connection / failed
  iter         RL.Iter     top of the read loop (a `sleep(ctx, backoff(errcount))` follows, then `r.read`)
  read cls     RL.Read     `r.read` returned; `cls` is the case of the loop's `switch` taken
  offsets ok   RL.Offsets  `readOffsets` after an OffsetOutOfRange read
  msg, sendErr RL.Msg / RL.SendErr   a hand-over to the application (no change of control)
  ctxCancel    (environment) the fetcher's context is cancelled (`Reader.Close`, `SetOffset`, unsubscribe)

`sampled` records what the `sleep` following `top` / `iter` will see: when the context is already done at that
moment only `cancel` can follow.  A dial or read that was started earlier may still complete.
The fetcher owns a connection exactly inside the read loop (`connOpen`).
-/
namespace KV.FetcherLife

inductive ReadClass
  | cont        -- nil, io.EOF, RequestTimedOut, another Kafka error (sendError; errcount++): stay in the loop
  | closeBreak  -- ErrNoProgress, UnknownTopicOrPartition, NotLeaderForPartition, unknown error: conn.Close(); break
  | codecBreak  -- errUnknownCodec: sendError; break (the Batch has closed the connection)
  | outOfRange  -- OffsetOutOfRange: readOffsets follows
  | canceled    -- context.Canceled: conn.Close(); return
deriving Repr, DecidableEq

inductive PC
  | idle0 | top | retry | broke | inLoop | iterating | oor | afterOffsets | exited
deriving Repr, DecidableEq

structure State where
  pc : PC := .idle0
  connOpen : Bool := false
  cancelled : Bool := false   -- the context is done
  sampled : Bool := false     -- the pending sleep will see the context done
deriving Repr, DecidableEq

inductive Event
  | top (a : Nat) | cancel | init (ok : Bool) | iter | read (c : ReadClass) | offsets (ok : Bool) | msg | sendErr
  | ctxCancel
deriving Repr, DecidableEq

def step (s : State) : Event → Option State
  | .ctxCancel => some { s with cancelled := true }
  | .top a =>
    if (s.pc = .idle0 ∧ a = 0) ∨ ((s.pc = .retry ∨ s.pc = .broke ∨ s.pc = .afterOffsets) ∧ 0 < a) then
      -- leaving the read loop through a failed Seek (afterOffsets) closes the connection first
      some { s with pc := .top, connOpen := false, sampled := s.cancelled && decide (0 < a) }
    else none
  | .cancel =>
    if (s.pc = .top ∨ s.pc = .iterating) then some { s with pc := .exited, connOpen := false, cancelled := true } else none
  | .init ok =>
    if s.pc = .top ∧ s.sampled = false then
      some (if ok then { s with pc := .inLoop, connOpen := true } else { s with pc := .retry })
    else none
  | .iter =>
    if s.pc = .inLoop ∨ s.pc = .afterOffsets then some { s with pc := .iterating, sampled := s.cancelled } else none
  | .read c =>
    if s.pc = .iterating ∧ s.sampled = false then
      some (match c with
        | .cont => { s with pc := .inLoop }
        | .closeBreak => { s with pc := .broke, connOpen := false }
        | .codecBreak => { s with pc := .broke, connOpen := false }
        | .outOfRange => { s with pc := .oor }
        | .canceled => { s with pc := .exited, connOpen := false })
    else none
  | .offsets ok =>
    if s.pc = .oor then some (if ok then { s with pc := .afterOffsets } else { s with pc := .broke, connOpen := false })
    else none
  | .msg => if s.pc = .iterating ∧ s.sampled = false then some s else none
  | .sendErr => if s.pc ≠ .exited then some s else none

def run : State → List Event → Option State
  | s, [] => some s
  | s, e :: es => match step s e with
    | some s' => run s' es
    | none => none

def Reachable (s : State) : Prop := ∃ es, run {} es = some s

def firstRejected : State → List Event → Nat → Option Nat
  | _, [], _ => none
  | s, e :: es, i => match step s e with
    | some s' => firstRejected s' es (i + 1)
    | none => some i

/-- steps left once the context is done -/
def rank (s : State) : Nat :=
  match s.pc with
  | .exited => 0
  | .iterating => if s.sampled then 1 else 8
  | .top => if s.sampled then 2 else 9
  | .retry => 3
  | .broke => 4
  | .inLoop => 5
  | .afterOffsets => 6
  | .oor => 7
  | .idle0 => 10

/-- events that change the control state -/
def Event.control : Event → Bool
  | .msg | .sendErr | .ctxCancel => false
  | _ => true

end KV.FetcherLife
