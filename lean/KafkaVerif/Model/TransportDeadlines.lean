/-
Model/TransportDeadlines.lean — a Transport connection whose exchange the broker never answers (core Lean only).

`Model/TransportConnC17.lean` reports the end of an exchange as the event `done`.  `(*conn).roundTrip` arms a socket
deadline only when the request's context has one, and a blocked socket read observes neither the caller's cancellation
nor `CloseIdleConnections` (which closes idle connections only): against a broker that has stopped answering, `done`
happens only when the request in flight runs under a bounded context — and then as a failure.

`stepSilentT f bounded` is `TransportConn.step f` against such a broker; `bounded c` says whether the request connection
`c` is serving carries a bounded context.  For the requests the pool queues for itself (the background metadata refresh
of `connPool.discover`) that is the regenerated fact `poolOwnRequestsAreBounded`.
-/
import KafkaVerif.Model.TransportConnC17
namespace KV.TransportConn

def stepSilentT (f : TFacts) (bounded : Nat → Bool) (s : State) : Ev → Option State
  | .done c ok nr => if ok || nr then none else if bounded c then step f s (.done c false false) else none
  | e => step f s e

end KV.TransportConn
