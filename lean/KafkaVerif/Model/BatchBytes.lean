/-
Model/BatchBytes.lean — the BYTE accounting of a `kafka.Batch` on every read path (core Lean only).

What `Model/ConnMux.lean` assumes of a Batch ("`take` removes a frame whole; a body that cannot be read closes the
conn") is, for a Fetch exchange, the job of conn.go `ReadBatchWith`, message_reader.go and batch.go together: the
`remain` counter that starts as the size of the response must reach 0 exactly when the last byte of the frame has
been taken from the stream — whatever the caller does between `ReadBatch` and `Close` (ReadMessage, Read into
buffers of any size, stop early) and whatever the bytes are (well formed, truncated, garbage).

Built on Base/Reader.lean (`RS = ⟨inp, sz⟩`, the conservation law `Adv`) and the fetch response headers of
Model/ConnOps.lean (`fetchHeader v`, C11).

  Go                                                             Lean
  -------------------------------------------------------------  -----------------------------
  message_reader.go readHeader, case 0 / case 1                   readHeader01
  message_reader.go readMessageV1 (uncompressed; skip `< min`)    readMsg
  batch.go ReadMessage: key/value callbacks (readNewBytes)        cbNew
  batch.go Read: key callback (discard), value callback           keyOfRead, valOfRead cap
        (io.ReadFull into b[:min(n,cap)], discardN of the rest)
  batch.go (*Batch).readMessage (sticky batch.err, errShortRead   batchReadMessage
        → msgs.discard(), checkTimeoutErr, dontExpectEOF)
  batch.go (*Batch).Read (io.ErrShortBuffer, offset rollback)     batchRead
  batch.go (*Batch).ReadMessage                                   batchMsg
  batch.go (*Batch).close (msgs.discard(), which errors keep      batchClose
        the conn)
  conn.go ReadBatchWith after waitResponse (header, watermark     openBatch
        shortcut, discardOnKafkaError, newMessageSetReader)
  the whole exchange body                                         fetchBatch

Not modelled at byte level (the model stops with an error that closes the conn; the generator of the tie does not
produce them): record batches (magic 2), compressed wrapper messages.  Deadlines: `expired` = "the adjusted deadline
has passed" at the moments `checkTimeoutErr` is evaluated.  The skip loop of `Batch.ReadMessage`
(`offset < conn.offset`) is not entered when nobody seeks the Conn while the Batch is open.
-/
import KafkaVerif.Model.ConnOps

namespace KV.BatchBytes
open KV KV.Reader KV.ConnOps

/-- what `batch.err` can be -/
inductive BErr
  | eof | shortBuffer | unexpectedEOF
  | kafka (c : Int)          -- a kafka.Error; RequestTimedOut = 7
  | other
  deriving DecidableEq, Repr

/-- batch.go `dontExpectEOF` applied to a reader error -/
def ofErr : Err → BErr
  | .eof => .unexpectedEOF
  | .unexpectedEOF => .unexpectedEOF
  | .kafka c => .kafka c
  | _ => .other

/-- the error as the failing call itself returns it (only `batch.err`, the sticky copy, goes through dontExpectEOF) -/
def rawErr : Err → BErr
  | .eof => .eof
  | .unexpectedEOF => .unexpectedEOF
  | .kafka c => .kafka c
  | _ => .other

/-- `checkTimeoutErr(deadline)` -/
def timeoutErr (expired : Bool) : BErr := if expired then .kafka 7 else .eof

structure Hdr where
  offset : Int
  attrs : Int
  deriving DecidableEq, Repr

/-- message_reader.go `readHeader`, magic 0 and 1 -/
def readHeader01 : R Hdr :=
  rbind (readInt 8) fun off => rbind (readInt 4) fun _ => rbind (readInt 4) fun _ => rbind (readInt 1) fun magic =>
    if magic = 0 then rbind (readInt 1) fun a => rpure ⟨off, a⟩
    else if magic = 1 then rbind (readInt 1) fun a => rbind (readInt 8) fun _ => rpure ⟨off, a⟩
    else rthrow (.other "record batches (magic 2) are not modelled at byte level")

/-- batch.go ReadMessage: `msg.Key, remain, err = readNewBytes(r, size, nbytes)` -/
def cbNew (n : Int) : R Bytes := readNewBytes n

/-- batch.go Read, key callback -/
def keyOfRead (n : Int) : R Bytes := if n < 0 then rpure [] else rbind (discardN n) fun _ => rpure []

/-- batch.go Read, value callback for a buffer of capacity (= length) `cap`: returns the value length and the
bytes copied into the buffer -/
def valOfRead (cap : Nat) (n : Int) : R (Nat × Bytes) := fun s =>
  if n < 0 then (.ok (0, []), s)
  else if n > s.sz then (.error .shortRead, s)
  else
    let m := min n.toNat cap
    -- io.ReadFull(r, b[:m])
    if s.inp.length < m then
      (.error (if s.inp.length = 0 then .eof else .unexpectedEOF), ⟨[], s.sz - s.inp.length⟩)
    else
      -- discardN(r, size-nbytes, n-nbytes)
      match discardN (n - m) ⟨s.inp.drop m, s.sz - m⟩ with
      | (.ok _, s') => (.ok (n.toNat, s.inp.take m), s')
      | (.error e, s') => (.error e, s')

/-- message_reader.go `readMessageV1` for uncompressed messages.  `pending`: a header already read
(`r.count == 1`: `newMessageSetReader` reads the first one).  `fuel` bounds the number of skipped messages. -/
def readMsg {β : Type} (kcb : Int → R Bytes) (vcb : Int → R β) (min : Int) :
    Nat → Option Hdr → R (Int × Bytes × β)
  | 0, _ => rthrow .shortRead
  | fuel + 1, pending =>
    rbind (match pending with | some h => rpure h | none => readHeader01) fun h =>
      if h.attrs % 8 ≠ 0 then rthrow (.other "compressed message sets are not modelled at byte level")
      else if h.offset < min then
        rbind (discardLen 4) fun _ => rbind (discardLen 4) fun _ => readMsg kcb vcb min fuel none
      else rbind (readLenWith 4 kcb) fun k => rbind (readLenWith 4 vcb) fun v => rpure (h.offset, k, v)

/-- the Batch: the reader state (`sz` = `batch.msgs.remain`), the pending header, `batch.offset`, `batch.err`,
and whether `msgs` is the `empty` reader of the watermark shortcut / absent -/
structure BSt where
  rs : RS
  pending : Option Hdr
  offset : Int
  err : Option BErr
  hasMsgs : Bool        -- batch.msgs is a real reader (its discard() touches the wire)
  empty : Bool          -- messageSetReader{empty: true}
  deriving DecidableEq, Repr

/-- batch.go `(*Batch).readMessage` -/
def batchReadMessage {β : Type} (expired : Bool) (fuel : Nat) (kcb : Int → R Bytes) (vcb : Int → R β) (b : BSt) :
    Except BErr (Int × Bytes × β) × BSt :=
  match b.err with
  | some e => (.error e, b)
  | none =>
    if b.empty then (.error (.kafka 7), { b with err := some (.kafka 7) })    -- empty reader: RequestTimedOut; default branch
    else
      match readMsg kcb vcb b.offset fuel b.pending b.rs with
      | (.ok (off, k, v), rs') => (.ok (off, k, v), { b with rs := rs', pending := none, offset := off + 1 })
      | (.error .shortRead, rs') =>
        -- err = batch.msgs.discard()
        (match discardN rs'.sz rs' with
         | (.error e, rs'') => (.error (rawErr e), { b with rs := rs'', pending := none, err := some (ofErr e) })
         | (.ok _, rs'') => (.error (timeoutErr expired), { b with rs := rs'', pending := none, err := some (timeoutErr expired) }))
      | (.error e, rs') => (.error (rawErr e), { b with rs := rs', pending := none, err := some (ofErr e) })

inductive Op
  | readMessage
  | read (cap : Nat)
  deriving DecidableEq, Repr

inductive OpRes
  | msg (off : Int) (key value : Bytes)
  | data (n : Nat) (copied : Bytes) (short : Bool)
  | fail (e : BErr)
  deriving DecidableEq, Repr

/-- batch.go `(*Batch).ReadMessage` (without the skip loop, see the header) -/
def batchMsg (expired : Bool) (fuel : Nat) (b : BSt) : OpRes × BSt :=
  match batchReadMessage expired fuel cbNew cbNew b with
  | (.ok (off, k, v), b') => (.msg off k v, b')
  | (.error e, b') => (.fail e, b')

/-- batch.go `(*Batch).Read(b)` with `len(b) = cap(b) = cap` -/
def batchRead (expired : Bool) (fuel : Nat) (cap : Nat) (b : BSt) : OpRes × BSt :=
  match batchReadMessage expired fuel keyOfRead (valOfRead cap) b with
  | (.error e, b') => (.fail e, b')
  | (.ok (_, _, (n, copied)), b') =>
    if n > cap then (.data cap copied true, { b' with err := some .shortBuffer, offset := b.offset })
    else (.data n copied false, b')

def runOp (expired : Bool) (fuel : Nat) : Op → BSt → OpRes × BSt
  | .readMessage, b => batchMsg expired fuel b
  | .read cap, b => batchRead expired fuel cap b

def runOps (expired : Bool) (fuel : Nat) : List Op → BSt → List OpRes × BSt
  | [], b => ([], b)
  | o :: os, b =>
    let (r, b1) := runOp expired fuel o b
    let (rs, b2) := runOps expired fuel os b1
    (r :: rs, b2)

/-- batch.go `(*Batch).close`: what Close returns, the reader state it leaves, and whether the conn is kept.
Since /repo 7936b6a a failed `msgs.discard()` decides: Close returns it (through dontExpectEOF) and the conn is closed -/
def batchClose (b : BSt) : Option BErr × RS × Bool :=
  let d : Except Err Unit × RS := if b.hasMsgs && !b.empty then discardN b.rs.sz b.rs else (.ok (), b.rs)   -- batch.msgs.discard()
  let err0 := match b.err with | some .eof => none | e => e
  let err := match d.1 with
    | .error e => some (ofErr e)
    | .ok _ => err0
  let kept := match err with
    | none => true
    | some (.kafka _) => true
    | some .shortBuffer => true
    | _ => false
  (err, d.2, kept)

/-- conn.go ReadBatchWith from the fetch response header on (`s.sz` = size announced by the frame − 4) -/
def openBatch (expired : Bool) (v : Nat) (offset : Int) (s : RS) : BSt :=
  match runSteps (fetchHeader v) { ver := v } s with
  | (.error (.kafka k), s1) =>
    -- discardOnKafkaError: size > 0 → discardN(size)
    if s1.sz > 0 then
      match discardN s1.sz s1 with
      | (.ok _, s2) => { rs := s2, pending := none, offset := offset, err := some (.kafka k), hasMsgs := false, empty := false }
      | (.error e, s2) => { rs := s2, pending := none, offset := offset, err := some (ofErr e), hasMsgs := false, empty := false }
    else { rs := s1, pending := none, offset := offset, err := some (.kafka k), hasMsgs := false, empty := false }
  | (.error .shortRead, s1) =>
    -- checkTimeoutErr: RequestTimedOut (a kafka error: the rest is drained) or io.EOF → dontExpectEOF
    if expired then
      (if s1.sz > 0 then
        match discardN s1.sz s1 with
        | (.ok _, s2) => { rs := s2, pending := none, offset := offset, err := some (.kafka 7), hasMsgs := false, empty := false }
        | (.error e, s2) => { rs := s2, pending := none, offset := offset, err := some (ofErr e), hasMsgs := false, empty := false }
      else { rs := s1, pending := none, offset := offset, err := some (.kafka 7), hasMsgs := false, empty := false })
    else { rs := s1, pending := none, offset := offset, err := some .unexpectedEOF, hasMsgs := false, empty := false }
  | (.error e, s1) => { rs := s1, pending := none, offset := offset, err := some (ofErr e), hasMsgs := false, empty := false }
  | (.ok c, s1) =>
    if c.hwm = offset then
      -- the `empty` reader never touches the connection; since /repo 5ef8978 a message set that the response carries
      -- nevertheless is skipped right here (before, it stayed in the stream of a kept conn)
      if s1.sz > 0 then
        match discardN s1.sz s1 with
        | (.ok _, s2) => { rs := s2, pending := none, offset := offset, err := none, hasMsgs := true, empty := true }
        | (.error e, s2) => { rs := s2, pending := none, offset := offset, err := some (ofErr e), hasMsgs := true, empty := true }
      else { rs := s1, pending := none, offset := offset, err := none, hasMsgs := true, empty := true }
    else
      -- newMessageSetReader: readHeader
      match readHeader01 s1 with
      | (.ok h, s2) => { rs := s2, pending := some h, offset := offset, err := none, hasMsgs := true, empty := false }
      | (.error .shortRead, s2) =>
        { rs := s2, pending := none, offset := offset, err := some (if expired then .kafka 7 else .unexpectedEOF), hasMsgs := true, empty := false }
      | (.error e, s2) => { rs := s2, pending := none, offset := offset, err := some (ofErr e), hasMsgs := true, empty := false }

structure Result where
  results : List OpRes
  closeErr : Option BErr
  rs : RS
  kept : Bool
  deriving DecidableEq, Repr

/-- one whole Fetch exchange body: ReadBatchWith, the caller's reads, Close -/
def fetchBatch (expired : Bool) (v : Nat) (offset : Int) (fuel : Nat) (ops : List Op) (s : RS) : Result :=
  let b0 := openBatch expired v offset s
  let (rs, b1) := runOps expired fuel ops b0
  let (ce, s', kept) := batchClose b1
  { results := rs, closeErr := ce, rs := s', kept := kept }

end KV.BatchBytes
