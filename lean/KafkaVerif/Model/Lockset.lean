/-
Model/Lockset.lean — abstract concurrent semantics for C10 (data-race freedom) and the lockset predicate.

What is modelled (and what it abstracts of the Go memory model, https://go.dev/ref/mem):

* threads (goroutines) `Tid`, mutexes `Mutex` (a `sync.Mutex`, or a `sync.RWMutex` locked in mode
  `excl` = Lock/Unlock or `shared` = RLock/RUnlock, or an *ownership token*: see below),
  memory locations `Field`;
* an execution is a `List Ev`, the global order in which the events happened:
  `acq t m mode`, `rel t m mode`, `acc t a` (thread `t` performs the access described by row `a` of the
  access table), `spawn t c` (`go` statement: `t` starts thread `c`);
* `WF tr`: the mutex discipline — `Lock` only succeeds when nobody holds the mutex, `RLock` when no
  writer holds it, releases only by a holder — as a run of the lock state machine `stepL`;
* happens-before `HB tr i j` between positions of the execution: program order, the synchronisation
  order of a mutex (a release synchronises-before every later acquire of the same mutex, unless both
  are shared-mode: RUnlock does not order a later RLock), `go` statement before everything the new
  goroutine does, a `signal` on a channel-like object (close / send / end of a once.Do body /
  wg.Done) before every later `wait` on it (receive / return of once.Do / wg.Wait), transitivity.

Ownership tokens.  kafka-go also synchronises by hand-off (a channel close/receive, `sync.Once`,
`sync.WaitGroup`, "the Batch owns the Conn read lock until Close").  These are represented as
additional *virtual* mutexes listed one by one in go/extract/accesses/access_annotations.json: the party that
may touch the data "holds" the token, a hand-off is release→acquire of the token.  That a hand-off
really is exclusive and really synchronises is an assumption recorded with each annotation (it is the
part of the abstraction validated only by the race-detector runs).

The access table: one row per syntactic read/write site of a field of a goroutine-safe type, with the
locks that are *always* held there (must-lockset), whether the access is a sync/atomic operation,
and whether it happens while the object is still private to its constructor.
-/

namespace KV.Lockset

abbrev Tid := Nat
abbrev Mutex := Nat
abbrev Field := Nat

inductive Mode where
  | excl | shared
deriving DecidableEq, Repr, Inhabited

/-- a mutex held in a mode -/
structure Hold where
  m : Mutex
  mode : Mode
deriving DecidableEq, Repr

inductive Phase where
  | ctor        -- the object is not yet reachable by another goroutine (inside NewX / before publication)
  | published
deriving DecidableEq, Repr, Inhabited

/-- one row of the access table -/
structure Access where
  field : Field
  write : Bool
  atomic : Bool          -- performed by sync/atomic (or a method of a sync.* value)
  locks : List Hold      -- must-lockset at the site
  phase : Phase
  site : Nat             -- index into the site-name table (reporting only)
deriving DecidableEq, Repr

/-- two rows conflict: same location, at least one write, not both atomic, both after publication -/
def conflict (a b : Access) : Bool :=
  a.field == b.field && (a.write || b.write) && !(a.atomic && b.atomic)
    && (a.phase == .published) && (b.phase == .published)

/-- some mutex is held at both sites, at least once exclusively -/
def sharesLock (a b : Access) : Bool :=
  a.locks.any fun h => b.locks.any fun k => h.m == k.m && (h.mode == .excl || k.mode == .excl)

def pairOk (a b : Access) : Bool := !conflict a b || sharesLock a b

/-- the lockset discipline: every conflicting pair of rows (a row with itself included: the same site
    executed by two goroutines) shares a lock -/
def raceFree (tbl : List Access) : Bool :=
  tbl.all fun a => tbl.all fun b => pairOk a b

/-- the offending pairs (for reporting; `raceFree tbl = (racyPairs tbl).isEmpty`) -/
def racyPairs (tbl : List Access) : List (Access × Access) :=
  tbl.flatMap fun a => (tbl.filter fun b => !pairOk a b).map fun b => (a, b)

/-! ## the table grouped by field (what the extractor emits: evaluation cost Σ nᵍ² instead of n²) -/

structure Group where
  field : Field
  rows : List Access
deriving Repr

def keysInc : List Group → Bool
  | [] => true
  | [_] => true
  | g₁ :: g₂ :: rest => decide (g₁.field < g₂.field) && keysInc (g₂ :: rest)

/-- every group holds rows of its own field only, is race free, and the group keys strictly increase -/
def groupsOk (gs : List Group) : Bool :=
  gs.all (fun g => g.rows.all (fun a => a.field == g.field) && raceFree g.rows) && keysInc gs

def flatten (gs : List Group) : List Access := gs.flatMap (·.rows)

/-- the rows filed under field `f` -/
def rowsOf (gs : List Group) (f : Field) : List Access := (gs.filter (·.field == f)).flatMap (·.rows)

/-! ## executions -/

inductive Ev where
  | acq (t : Tid) (m : Mutex) (mode : Mode)
  | rel (t : Tid) (m : Mutex) (mode : Mode)
  | acc (t : Tid) (a : Access)
  | spawn (t : Tid) (child : Tid)
  | signal (t : Tid) (c : Nat)   -- close(ch) / send / the end of f in once.Do(f) / wg.Done
  | wait (t : Tid) (c : Nat)     -- the matching receive / return of once.Do / wg.Wait
  | assume (t : Tid) (m : Mutex) (mode : Mode)   -- marker: an annotation claims that `t` holds `m` here (no effect)
deriving DecidableEq, Repr

def Ev.tid : Ev → Tid
  | .acq t _ _ => t
  | .rel t _ _ => t
  | .acc t _ => t
  | .spawn t _ => t
  | .signal t _ => t
  | .wait t _ => t
  | .assume t _ _ => t

/-- state of one mutex: the exclusive holder, the multiset of shared holders -/
structure MState where
  writer : Option Tid := none
  readers : List Tid := []
deriving Repr

abbrev LState := Mutex → MState

def LState.init : LState := fun _ => {}

def LState.set (s : LState) (m : Mutex) (v : MState) : LState := fun x => if x = m then v else s x

/-- the lock state machine (sync.Mutex / sync.RWMutex); `none` = the event cannot happen here -/
def stepL (s : LState) : Ev → Option LState
  | .acq t m .excl =>
      if (s m).writer = none ∧ (s m).readers = [] then some (s.set m { writer := some t, readers := [] }) else none
  | .acq t m .shared =>
      if (s m).writer = none then some (s.set m { (s m) with readers := t :: (s m).readers }) else none
  | .rel t m .excl =>
      if (s m).writer = some t then some (s.set m { (s m) with writer := none }) else none
  | .rel t m .shared =>
      if t ∈ (s m).readers then some (s.set m { (s m) with readers := (s m).readers.erase t }) else none
  | .acc _ _ => some s
  | .spawn _ _ => some s
  | .signal _ _ => some s
  | .wait _ _ => some s
  | .assume _ _ _ => some s

def runL (s : LState) : List Ev → Option LState
  | [] => some s
  | e :: es => (stepL s e).bind fun s' => runL s' es

/-- the execution respects the mutex discipline -/
def WF (tr : List Ev) : Prop := ∃ s, runL LState.init tr = some s

/-- thread `t` holds `m` in mode `mode` in lock state `s` -/
def holdsIn (s : LState) (t : Tid) (h : Hold) : Prop :=
  match h.mode with
  | .excl => (s h.m).writer = some t
  | .shared => t ∈ (s h.m).readers

/-- thread `t` holds `h` when event number `i` of `tr` happens -/
def HoldsAt (tr : List Ev) (i : Nat) (t : Tid) (h : Hold) : Prop :=
  ∃ s, runL LState.init (tr.take i) = some s ∧ holdsIn s t h

/-- a recorded hold is satisfied by an actual hold of the same mutex in the recorded mode — or, for a recorded
    shared hold, by an exclusive one (a must-lockset row says `shared` when some paths hold RLock and others Lock) -/
def HoldsAtLeast (tr : List Ev) (i : Nat) (t : Tid) (h : Hold) : Prop :=
  HoldsAt tr i t h ∨ (h.mode = .shared ∧ HoldsAt tr i t ⟨h.m, .excl⟩)

/-- every access of the execution is a row of the table and is performed while the recorded locks are held -/
def Respects (tbl : List Access) (tr : List Ev) : Prop :=
  ∀ i t a, tr[i]? = some (.acc t a) → a ∈ tbl ∧ ∀ h ∈ a.locks, HoldsAtLeast tr i t h

/-- happens-before between positions of an execution -/
inductive HB (tr : List Ev) : Nat → Nat → Prop where
  | po {i j : Nat} {a b : Ev} : i < j → tr[i]? = some a → tr[j]? = some b → a.tid = b.tid → HB tr i j
  | sync {i j : Nat} {t u : Tid} {m : Mutex} {m₁ m₂ : Mode} :
      i < j → tr[i]? = some (.rel t m m₁) → tr[j]? = some (.acq u m m₂) → (m₁ = .excl ∨ m₂ = .excl) → HB tr i j
  | go {i j : Nat} {t c : Tid} {b : Ev} : i < j → tr[i]? = some (.spawn t c) → tr[j]? = some b → b.tid = c → HB tr i j
  | chan {i j : Nat} {t u : Tid} {c : Nat} : i < j → tr[i]? = some (.signal t c) → tr[j]? = some (.wait u c) → HB tr i j
  | trans {i j k : Nat} : HB tr i j → HB tr j k → HB tr i k

/-- a data race: two conflicting accesses by different threads, unordered by happens-before -/
def Race (tr : List Ev) : Prop :=
  ∃ i j t u a b, i < j ∧ tr[i]? = some (.acc t a) ∧ tr[j]? = some (.acc u b) ∧ t ≠ u ∧
    conflict a b = true ∧ ¬ HB tr i j

/-- executable well-formedness check and lockset monitor over a concrete execution (used by the oracle
    and by the non-vacuity examples) -/
def wfB (tr : List Ev) : Bool := (runL LState.init tr).isSome

def holdsB (s : LState) (t : Tid) (h : Hold) : Bool :=
  match h.mode with
  | .excl => (s h.m).writer == some t
  | .shared => (s h.m).readers.contains t

/-- executable form of `Respects` for a concrete execution -/
def respectsB (tbl : List Access) (tr : List Ev) : Bool :=
  (List.range tr.length).all fun i =>
    match tr[i]? with
    | some (.acc t a) =>
      tbl.contains a && a.locks.all fun h =>
        match runL LState.init (tr.take i) with
        | some s => holdsB s t h
        | none => false
    | _ => true

end KV.Lockset
