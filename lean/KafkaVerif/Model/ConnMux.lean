/-
Model/ConnMux.lean — the request/response multiplexer of one `kafka.Conn` (core Lean only).

Follows conn.go:
  * `Event.write`   ↔ `(*Conn).doRequest`: the whole `wlock` critical section — `correlationID++`,
                      the request is written with that id; on a write error the conn is closed.
  * `Event.take`    ↔ `(*Conn).waitResponse`, branch `id == rid`: the 8 header bytes are skipped, the
                      read lock stays with the caller (returned as `lock`), `c.leave()`.
  * `Event.yield`   ↔ branch "someone else's response": `c.rlock.Unlock()` and retry.
  * `Event.lone`    ↔ branch `c.concurrency() == 1`: `io.ErrNoProgress`, read lock released, the
                      conn stays open and the foreign frame stays where it is.
  * `Event.peekErr` ↔ `peekResponseSizeAndID` failed (deadline, EOF, closed): `c.conn.Close()`.
  * `Event.finish`  ↔ the end of `(*Conn).do` (the `read` closure ran, `lock.Unlock()`), of
                      `ApiVersions` (deferred unlock) and `(*Batch).close` (the Batch held the lock since
                      `ReadBatchWith`): body parsed / Kafka error code / any other error (conn closed).

The response side of the socket is the list `stream` of frames the broker sends, in the order it
sends them — ANY list: any order of correlation ids, duplicates, ids never issued.  Timing is free:
`peekErr` (a deadline) is enabled whenever a caller waits, whatever the stream holds.
Each frame is consumed whole by `take` (this is property C11's alignment; where C11 fails — D2 — a
conn is mis-aligned and this model does not describe it).

A call is identified by `seq`, the value of `c.correlationID` after its increment, not wrapped;
on the wire it is `wire seq = seq mod 2^32` (Go's int32 counter wraps).
-/
import KafkaVerif.Base.Bytes

namespace KV.ConnMux

structure Frame where
  id : Nat      -- correlation id in the response header (as a 32-bit pattern)
  tag : Nat     -- what the body says (payload tag)
  deriving DecidableEq, Repr

def wire (seq : Nat) : Nat := seq % 4294967296

inductive Result
  | resp (pos : Nat) (f : Frame)      -- returned a response parsed from frame `f`, the `pos`-th frame of the stream
  | kafkaErr (pos : Nat) (f : Frame)  -- returned the Kafka error code carried by frame `f`
  | err                               -- any other error: timeout, EOF, ErrNoProgress, failed write, unreadable body
  deriving DecidableEq, Repr

inductive Status
  | waiting                           -- request written, inside waitResponse
  | reading (pos : Nat) (f : Frame)   -- took frame `f`, holds the read lock (do: parsing; Batch: until Close)
  | done (r : Result)
  deriving DecidableEq, Repr

structure Call where
  seq : Nat
  tag : Nat       -- request payload tag
  st : Status
  deriving DecidableEq, Repr

inductive Body | ok | kafka | io
  deriving DecidableEq, Repr

inductive Event
  | write (tag : Nat) (ok : Bool)
  | take (seq : Nat)
  | yield (seq : Nat) (seen : Nat)
  | lone (seq : Nat) (seen : Nat)
  | peekErr (seq : Nat)
  | finish (seq : Nat) (o : Body)
  deriving DecidableEq, Repr

structure State where
  nextSeq : Nat            -- c.correlationID
  calls : List Call        -- every call so far, in doRequest order
  stream : List Frame      -- frames not yet consumed
  consumed : Nat           -- number of frames consumed so far (ghost: position in the original stream)
  rlock : Option Nat       -- seq of the holder of c.rlock (between take and finish)
  closed : Bool
  deriving DecidableEq, Repr

def init (stream : List Frame) : State :=
  { nextSeq := 0, calls := [], stream := stream, consumed := 0, rlock := none, closed := false }

def statusOf (calls : List Call) (seq : Nat) : Option Status :=
  (calls.find? (·.seq == seq)).map (·.st)

def setStatus (calls : List Call) (seq : Nat) (st : Status) : List Call :=
  calls.map (fun c => if c.seq == seq then { c with st := st } else c)

def isWaiting (c : Call) : Bool := c.st == .waiting

/-- no call other than `seq` is inside waitResponse -/
def aloneWaiting (calls : List Call) (seq : Nat) : Bool :=
  calls.all (fun c => c.seq == seq || !isWaiting c)

def step (s : State) : Event → Option State
  | .write tag ok =>
    let seq := s.nextSeq + 1
    if ok then some { s with nextSeq := seq, calls := s.calls ++ [⟨seq, tag, .waiting⟩] }
    else some { s with nextSeq := seq, calls := s.calls ++ [⟨seq, tag, .done .err⟩], closed := true }
  | .take seq =>
    match s.rlock, statusOf s.calls seq, s.stream with
    | none, some .waiting, f :: rest =>
      if f.id = wire seq then
        some { s with rlock := some seq, stream := rest, consumed := s.consumed + 1,
                      calls := setStatus s.calls seq (.reading s.consumed f) }
      else none
    | _, _, _ => none
  | .yield seq seen =>
    match s.rlock, statusOf s.calls seq, s.stream with
    | none, some .waiting, f :: _ => if f.id = seen ∧ seen ≠ wire seq then some s else none
    | _, _, _ => none
  | .lone seq seen =>
    match s.rlock, statusOf s.calls seq, s.stream with
    | none, some .waiting, f :: _ =>
      if f.id = seen ∧ seen ≠ wire seq ∧ aloneWaiting s.calls seq then
        some { s with calls := setStatus s.calls seq (.done .err) }
      else none
    | _, _, _ => none
  | .peekErr seq =>
    match s.rlock, statusOf s.calls seq with
    | none, some .waiting => some { s with calls := setStatus s.calls seq (.done .err), closed := true }
    | _, _ => none
  | .finish seq o =>
    match s.rlock, statusOf s.calls seq with
    | some h, some (.reading pos f) =>
      if h = seq then
        match o with
        | .ok => some { s with rlock := none, calls := setStatus s.calls seq (.done (.resp pos f)) }
        | .kafka => some { s with rlock := none, calls := setStatus s.calls seq (.done (.kafkaErr pos f)) }
        | .io => some { s with rlock := none, calls := setStatus s.calls seq (.done .err), closed := true }
      else none
    | _, _ => none

def runFrom : State → List Event → Option State
  | s, [] => some s
  | s, e :: es => match step s e with
    | none => none
    | some s' => runFrom s' es

def run (stream : List Frame) (es : List Event) : Option State := runFrom (init stream) es

def firstRejected : State → List Event → Nat → Option Nat
  | _, [], _ => none
  | s, e :: es, i => match step s e with
    | none => some i
    | some s' => firstRejected s' es (i + 1)

/-- the frame a call got, if it got one (still reading it, or returned from it) -/
def Call.frame : Call → Option (Nat × Frame)
  | ⟨_, _, .reading p f⟩ => some (p, f)
  | ⟨_, _, .done (.resp p f)⟩ => some (p, f)
  | ⟨_, _, .done (.kafkaErr p f)⟩ => some (p, f)
  | _ => none

end KV.ConnMux
