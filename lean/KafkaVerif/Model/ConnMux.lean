/-
Model/ConnMux.lean — the request/response multiplexer of one `kafka.Conn` (core Lean only).

Follows conn.go:
  * `Event.write`   ↔ `(*Conn).doRequest`: the whole `wlock` critical section — `correlationID++`,
                      the request is written with that id (the event carries the id actually written; the
                      model takes it only if it is the next number); on a write error the conn is closed.
  * `Event.take`    ↔ `(*Conn).waitResponse`, branch `id == rid`: the 8 header bytes are skipped, the
                      read lock stays with the caller (returned as `lock`), `c.leave()`.
  * `Event.yield`   ↔ branch "someone else's response": `c.rlock.Unlock()` and retry.
  * `Event.lone`    ↔ branch `c.concurrency() == 1`: `io.ErrNoProgress`, the conn is closed (since /repo bb4e500;
                      before, it stayed open with the foreign frame in place), read lock released.
  * `Event.peekErr` ↔ `peekResponseSizeAndID` failed (deadline, EOF, closed): `c.conn.Close()`.
  * `Event.close`   ↔ `(*Conn).Close` called by the application at any moment (every pending and later read or
                      write on the socket fails; what is already in the read buffer can still be taken).
  * `Event.finish`  ↔ the end of `(*Conn).do` (the `read` closure ran, `lock.Unlock()`), of
                      `ApiVersions` (deferred unlock) and `(*Batch).close` (the Batch held the lock since
                      `ReadBatchWith`): body parsed / Kafka error code / any other error — the conn is closed
                      and what is left of the response in the read buffer is dropped (`abortRead`, since /repo
                      248476c, finding C06-D30): `rdead`, after which nothing can be taken, peeked or yielded.

The response side of the socket is the list `stream` of frames the broker sends, in the order it
sends them — ANY list: any order of correlation ids, duplicates, ids never issued.  Timing is free:
`peekErr` (a deadline) is enabled whenever a caller waits, whatever the stream holds.
Each frame is consumed whole by `take` (this is property C11's alignment; where C11 fails — D2 — a
conn is mis-aligned and this model does not describe it).

A call is identified by `seq`, the value of `c.correlationID` after its increment, not wrapped;
on the wire it is `wire seq = seq mod 2^32` (Go's int32 counter wraps).
-/
import KafkaVerif.Base.Bytes

namespace KV.ConnMux

structure Frame where
  id : Nat      -- correlation id in the response header (as a 32-bit pattern)
  tag : Nat     -- what the body says (payload tag)
  deriving DecidableEq, Repr

def wire (seq : Nat) : Nat := seq % 4294967296

inductive Result
  | resp (pos : Nat) (f : Frame)      -- returned a response parsed from frame `f`, the `pos`-th frame of the stream
  | kafkaErr (pos : Nat) (f : Frame)  -- returned the Kafka error code carried by frame `f`
  | err                               -- any other error: timeout, EOF, ErrNoProgress, failed write, unreadable body
  deriving DecidableEq, Repr

inductive Status
  | waiting                           -- request written, inside waitResponse
  | reading (pos : Nat) (f : Frame)   -- took frame `f`, holds the read lock (do: parsing; Batch: until Close)
  | done (r : Result)
  deriving DecidableEq, Repr

structure Call where
  tag : Nat       -- request payload tag
  st : Status
  deriving DecidableEq, Repr

inductive Body | ok | kafka | io
  deriving DecidableEq, Repr

inductive Event
  | write (tag : Nat) (ok : Bool) (id : Nat)   -- id: the correlation id put on the wire
  | take (seq : Nat)
  | yield (seq : Nat) (seen : Nat)
  | lone (seq : Nat) (seen : Nat)
  | peekErr (seq : Nat)
  | finish (seq : Nat) (o : Body)
  | close                                   -- the application calls (*Conn).Close while calls are in flight
  deriving DecidableEq, Repr

structure State where
  nextSeq : Nat               -- c.correlationID
  calls : Nat → Option Call   -- every call so far, by seq (1 … nextSeq)
  stream : List Frame         -- frames not yet consumed
  consumed : Nat              -- number of frames consumed so far (ghost: position in the original stream)
  rlock : Option Nat          -- seq of the holder of c.rlock (between take and finish)
  closed : Bool
  /-- the read side is dead: the net.Conn was closed AND nothing of what was read from it is left in the read buffer
      (`abortRead` after an unreadable body, or a failed `Peek`): every later `Peek` fails -/
  rdead : Bool

def init (stream : List Frame) : State :=
  { nextSeq := 0, calls := fun _ => none, stream := stream, consumed := 0, rlock := none, closed := false, rdead := false }

def upd (m : Nat → Option Call) (k : Nat) (v : Call) : Nat → Option Call :=
  fun i => if i = k then some v else m i

def setStatus (s : State) (seq : Nat) (st : Status) : Nat → Option Call :=
  fun i => if i = seq then (s.calls seq).map (fun c => { c with st := st }) else s.calls i

def statusOf (s : State) (seq : Nat) : Option Status := (s.calls seq).map (·.st)

/-- no call other than `seq` is inside waitResponse -/
def aloneWaiting (s : State) (seq : Nat) : Bool :=
  (List.range (s.nextSeq + 1)).all (fun i => i == seq || statusOf s i != some .waiting)

def step (s : State) : Event → Option State
  | .write tag ok id =>
    let seq := s.nextSeq + 1
    -- `c.correlationID++; id = c.correlationID` under wlock: the id on the wire is the next number
    if id ≠ wire seq then none
    else if ok then some { s with nextSeq := seq, calls := upd s.calls seq ⟨tag, .waiting⟩ }
    else some { s with nextSeq := seq, calls := upd s.calls seq ⟨tag, .done .err⟩, closed := true }
  | .take seq =>
    match s.rdead, s.rlock, statusOf s seq, s.stream with
    | false, none, some .waiting, f :: rest =>
      if f.id = wire seq then
        some { s with rlock := some seq, stream := rest, consumed := s.consumed + 1,
                      calls := setStatus s seq (.reading s.consumed f) }
      else none
    | _, _, _, _ => none
  | .yield seq seen =>
    match s.rdead, s.rlock, statusOf s seq, s.stream with
    | false, none, some .waiting, f :: _ => if f.id = seen ∧ seen ≠ wire seq then some s else none
    | _, _, _, _ => none
  | .lone seq seen =>
    match s.rdead, s.rlock, statusOf s seq, s.stream with
    | false, none, some .waiting, f :: _ =>
      if f.id = seen ∧ seen ≠ wire seq ∧ aloneWaiting s seq then
        some { s with calls := setStatus s seq (.done .err), closed := true }
      else none
    | _, _, _, _ => none
  | .peekErr seq =>
    match s.rlock, statusOf s seq with
    | none, some .waiting => some { s with calls := setStatus s seq (.done .err), closed := true, rdead := true }
    | _, _ => none
  | .finish seq o =>
    match s.rlock, statusOf s seq with
    | some h, some (.reading pos f) =>
      if h = seq then
        match o with
        | .ok => some { s with rlock := none, calls := setStatus s seq (.done (.resp pos f)) }
        | .kafka => some { s with rlock := none, calls := setStatus s seq (.done (.kafkaErr pos f)) }
        | .io => some { s with rlock := none, calls := setStatus s seq (.done .err), closed := true, rdead := true }
      else none
    | _, _ => none
  | .close => some { s with closed := true }

def runFrom : State → List Event → Option State
  | s, [] => some s
  | s, e :: es => match step s e with
    | none => none
    | some s' => runFrom s' es

def run (stream : List Frame) (es : List Event) : Option State := runFrom (init stream) es

def firstRejected : State → List Event → Nat → Option Nat
  | _, [], _ => none
  | s, e :: es, i => match step s e with
    | none => some i
    | some s' => firstRejected s' es (i + 1)

/-- the frame a call got, if it got one (still reading it, or returned from it), with its position -/
def Status.frame : Status → Option (Nat × Frame)
  | .reading p f => some (p, f)
  | .done (.resp p f) => some (p, f)
  | .done (.kafkaErr p f) => some (p, f)
  | _ => none

/-- all calls so far, in doRequest order: (seq, call) -/
def State.callList (s : State) : List (Nat × Call) :=
  (List.range (s.nextSeq + 1)).filterMap (fun i => (s.calls i).map (fun c => (i, c)))

end KV.ConnMux
