/-
Model/ByteHeader.lean — message_reader.go `readHeader` at byte level (core Lean only): the fixed-size header of a v2 record
batch (61 bytes) or of a v0 / v1 message (18 / 26 bytes), read field by field through the `remain` wrappers
(`r.readInt64(&r.header.firstOffset)`, `r.readInt32(&r.header.length)`, …) of Model/ByteReader.lean.  The value is
what the tokenizer of Spec/ByteLayout.lean extracts with `readH2` / `readH1` (the fields the decoder goes on with).
-/
import KafkaVerif.Model.ByteReader
import KafkaVerif.Spec.ByteLayout

namespace KV.C02.BR
open KV KV.RW KV.Spec.RB KV.C02

inductive HdrB
  | v2 (h : H2)
  /-- a v0 / v1 message; `ts` = `r.header.v1.timestamp` (0 for v0: the header was zeroed) -/
  | v1 (h : H1) (ts : Int)
  /-- `default: err = r.header.badMagic()` -/
  | bad (magic : Int)
  deriving DecidableEq, Repr

/-- readHeader after `r.readInt8(&r.header.magic)`: `switch r.header.magic` -/
def hdrBranch (firstOffset length magic : Int) : M HdrB :=
  if magic = 0 then do
    let attributes ← readInt8
    pure (.v1 ⟨firstOffset, 0, attributes, (length - 6).toNat⟩ 0)
  else if magic = 1 then do
    let attributes ← readInt8
    let timestamp ← readInt64
    pure (.v1 ⟨firstOffset, 1, attributes, (length - 14).toNat⟩ timestamp)
  else if magic = 2 then do
    let _crc ← readInt32
    let attributes ← readInt16
    let lastOffsetDelta ← readInt32
    let firstTimestamp ← readInt64
    let _lastTimestamp ← readInt64
    let _producerID ← readInt64
    let _producerEpoch ← readInt16
    let _baseSequence ← readInt32
    let count ← readInt32
    -- `r.lengthRemain = int(r.header.length) - 49`
    pure (.v2 ⟨firstOffset, lastOffsetDelta, firstTimestamp, count, attributes, (length - 49).toNat⟩)
  else pure (.bad magic)

/-- message_reader.go readHeader (entered with `r.count == 0`) up to the end of the `switch` -/
def readHeaderB : M HdrB := do
  let firstOffset ← readInt64
  let length ← readInt32
  let _crcOrLeaderEpoch ← readInt32
  let magic ← readInt8
  hdrBranch firstOffset length magic

end KV.C02.BR
