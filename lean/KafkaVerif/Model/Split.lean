/-
Model/Split.lean — the `Split` methods the transport's roundTrip dispatches on (C12; core only), as far as
routing reads them: which parts a request is cut into and what each part carries for `sendRequest`.

Go ↔ Lean
  protocol/describegroups  (*Request).Split   splitGroups      one part per group (its coordinator is looked up per part)
  protocol/listgroups      (*Request).Split   splitBrokers     one part per broker of the layout (`brokerID` field)
  protocol/describeconfigs (*Request).Split   splitResources   one part per broker resource (type 4), then one for all others
  protocol/listoffsets     (*Request).Split   splitTps         one part per (topic, partition) entry  (value level: Model/ListOffsets.split)
  transport.go roundTrip   `case protocol.Splitter`            parts  (dispatch on the regenerated method set)
-/
import KafkaVerif.Model.Routing

namespace KV.Split
open KV.Routing
open KV.Gen.Routing (ApiMethods SwitchCase)

def splitGroups (coordinators : List Int) : List ReqInfo :=
  coordinators.map fun co => { coordinator := co }

def splitBrokers (c : Cluster) : List ReqInfo :=
  c.brokers.map fun e => { field := e.2.id }

def isBrokerResource (r : Int × String × Option Int) : Bool := r.1 == 4

def splitResources (rs : List (Int × String × Option Int)) : List ReqInfo :=
  (rs.filter isBrokerResource).map (fun r => ({ resources := [r] } : ReqInfo)) ++
  (if (rs.filter (fun r => !isBrokerResource r)).isEmpty then []
   else [({ resources := rs.filter (fun r => !isBrokerResource r) } : ReqInfo)])

def splitTps (tps : List (String × List Int)) : List ReqInfo :=
  tps.flatMap fun (t, ps) => ps.map fun p => ({ tps := [(t, [p])] } : ReqInfo)

/-- how the parts' outcomes are merged into the caller's error: ListOffsets fails only when every part failed,
the others on the first failed part -/
inductive MergeRule where
  | allFailed | anyFailed
  deriving DecidableEq, Repr

/-- transport.go roundTrip: a request type implementing Splitter is cut into parts, each sent by `sendRequest`;
`none` = not split (sent as is).  `coords`: the coordinator FindCoordinator answers for each group of the request. -/
def parts (rtCases : List SwitchCase) (a : ApiMethods) (c : Cluster) (coords : List Int) (r : ReqInfo) :
    Option (List ReqInfo × MergeRule) :=
  if rtCases.contains .splitter && a.split then
    if a.broker == .leaderFirst then some (splitTps r.tps, .allFailed)
    else if a.group then some (splitGroups coords, .anyFailed)
    else if a.broker == .field then some (splitBrokers c, .anyFailed)
    else if a.broker == .resourceOrController then some (splitResources r.resources, .anyFailed)
    else none
  else none

end KV.Split
