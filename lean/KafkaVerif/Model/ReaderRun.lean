/-
Model/ReaderRun.lean — `reader.go (*Reader).run / subscribe / unsubscribe`: which fetchers the per-generation
unsubscribe function stops (core Lean only).

Go ↔ Lean
* `r.subscribe(gen.Assignments)` → `r.start`: cancel the previous fetchers (`r.cancel()`), install a new cancel func,
  start the generation's fetchers                                       ↔ `subscribe` (generation index = count so far)
* `gen.Start(func(ctx){ <-ctx.Done() / <-r.stctx.Done(); r.unsubscribe(cancel) })`: the function may run at ANY later
  moment — when the generation had already ended at `Start` it is a loose goroutine (D8)   ↔ `unsub g`
* `capture = true`: the repaired code (/repo 88525ef): the function cancels the cancel func captured right after
  `subscribe`; `false`: the original code, it calls whatever `r.cancel` is when it runs.
-/
namespace KV.ReaderRun

structure RR where
  gens : Nat := 0                    -- generations subscribed so far; the current one is gens-1
  alive : List Bool := []            -- per generation: its fetchers are running
  unsubRan : List Bool := []         -- per generation: its unsubscribe function has run
  deriving Repr, DecidableEq

inductive REv
  | subscribe
  | unsub (g : Nat)
  deriving Repr

def setAt (l : List Bool) (i : Nat) (v : Bool) : List Bool := l.set i v

def rstep (capture : Bool) (s : RR) : REv → Option RR
  | .subscribe =>
    -- r.start: cancel the previous generation's fetchers, start the new ones
    let alive' := if s.gens = 0 then s.alive else setAt s.alive (s.gens - 1) false
    some { gens := s.gens + 1, alive := alive' ++ [true], unsubRan := s.unsubRan ++ [false] }
  | .unsub g =>
    if g < s.gens ∧ s.unsubRan.getD g true = false then
      -- repaired: cancel generation g's own fetchers; original: cancel whatever r.cancel is now (the current generation's)
      let target := if capture then g else s.gens - 1
      some { s with alive := setAt s.alive target false, unsubRan := setAt s.unsubRan g true }
    else none

def rrun (capture : Bool) : RR → List REv → Option RR
  | s, [] => some s
  | s, e :: es => match rstep capture s e with
    | some s' => rrun capture s' es
    | none => none

inductive RReachable (capture : Bool) : RR → Prop
  | init : RReachable capture {}
  | step {s s' : RR} (e : REv) : RReachable capture s → rstep capture s e = some s' → RReachable capture s'

end KV.ReaderRun
