/-
Model/GroupConns.lean — the coordinator connections of `(*ConsumerGroup).run` on top of the group builder's
Model/GroupRun.lean (which has no connections).  Which connections the goroutine holds is a function of its program
counter (that is how the Go code is structured):

* `bootPC pc`  — inside `cg.coordinator()` after `connect(brokers)` succeeded (stages 1 and 2): the bootstrap
  connection, closed by `defer conn.Close()` when the function returns (FindCoordinator failed, or the second
  connect returned — with or without a connection);
* `connPC pc`  — between a successful `connect(coordinator)` and the return of `nextGeneration`
  (`defer conn.Close()`), resp. the end of the LeaveGroup round trip in `leaveGroup` (`coordinator.Close()` on every
  path: fact `leaveGroupClosesConnectionOnEveryPath` of Gen/CloseFacts).

The wrapper LTS adds the two journal events of the dialer — `copen` (a connection was established; follows a
successful `connectRes`) and `cclose` (the library closed a connection) — and counts what is still owed:
a successful connect owes a `copen`; leaving `bootPC` / `connPC` owes a `cclose`.  Before `run` starts a new
`coordinator()` lookup, ends a back-off or returns, everything owed must have happened: the closes are synchronous
statements (or defers of functions that have returned) of the same goroutine.
-/
import KafkaVerif.Model.GroupRun

namespace KV.GroupConns
open KV.Group

/-- the bootstrap connection of `coordinator()` is open -/
def bootPC : PC → Bool
  | .coord (_ + 1) _ => true
  | _ => false

/-- a coordinator connection is held (nextGeneration's, or leaveGroup's) -/
def connPC : PC → Bool
  | .joining | .assigning | .syncing | .fetching | .created | .starting _ | .handing | .running
  | .closing _ | .waiting _ _ | .leaveCall _ => true
  | _ => false

def b2n (b : Bool) : Nat := if b then 1 else 0

/-- connections held at a program point -/
def held (pc : PC) : Nat := b2n (bootPC pc) + b2n (connPC pc)

structure CS where
  g : St := {}
  opened : Nat := 0          -- `copen` events so far
  closed : Nat := 0          -- `cclose` events so far
  owedOpen : Nat := 0        -- successful connects whose `copen` has not been journalled yet
  owedClose : Nat := 0       -- connections the code has closed (or is closing), `cclose` not journalled yet
deriving Repr

inductive CEv
  | ev (e : Ev) | copen | cclose
deriving Repr, DecidableEq

/-- steps at which `run` leaves a phase in which it holds no connection -/
def leavesQuiet (pc : PC) : Ev → Bool
  | .connectRes _ => (match pc with | .coord 0 _ => true | _ => false)
  | .backoff _ => true
  | .runExit => true
  | _ => false

def isConnectOk : Ev → Bool
  | .connectRes none => true
  | _ => false

def stepC (c : Cfg) (cs : CS) : CEv → Option CS
  | .copen => if 0 < cs.owedOpen then some { cs with owedOpen := cs.owedOpen - 1, opened := cs.opened + 1 } else none
  | .cclose => if 0 < cs.owedClose then some { cs with owedClose := cs.owedClose - 1, closed := cs.closed + 1 } else none
  | .ev e =>
    if leavesQuiet cs.g.pc e && !(cs.owedOpen = 0 && cs.owedClose = 0) then none
    else
      match step c cs.g e with
      | none => none
      | some g' =>
        some { cs with
          g := g'
          owedOpen := cs.owedOpen + b2n (isConnectOk e)
          owedClose := cs.owedClose + b2n (bootPC cs.g.pc && !bootPC g'.pc) + b2n (connPC cs.g.pc && !connPC g'.pc) }

def runC (c : Cfg) : CS → List CEv → Option CS
  | s, [] => some s
  | s, e :: es => match stepC c s e with
    | some s' => runC c s' es
    | none => none

inductive ReachableC (c : Cfg) : CS → Prop
  | init : ReachableC c {}
  | step {s s' : CS} (e : CEv) : ReachableC c s → stepC c s e = some s' → ReachableC c s'

end KV.GroupConns
