/-
Model/ReaderStack.lean — frame accounting of message_reader.go's reader stack (messageSetReader / readerStack), core
Lean only.  Only the ROOT of the stack reads from the Conn (`reader` = the Conn's bufio.Reader, `remain` = bytes of the
fetch response not consumed yet); every reader pushed for a compressed batch / wrapper message reads from a buffer of
decompressed bytes.  What C11/C17 need from this file of the Go code is that the root's `remain` and the bytes taken from
the Conn move together, and that `discard()` empties the root whatever is on the stack:

  every readX / discardX method       `r.remain, err = readX(r.reader, r.remain, …)` on the TOP of the stack      Op.read
  readMessageV2, compressed batch     codec reads through io.LimitedReader{R: r.reader, N: batchRemain};
                                      `r.remain -= batchRemain - int(limitReader.N)`; push                           Op.pushV2
  readMessageV1, compressed wrapper   inside readBytesWith: `remain = sz - (n - int(limitReader.N))`; push           Op.pushV1
  markRead / unwindStack / readMessageV1 loop   pop an exhausted reader                                             Op.pop
  discard()                           `for r.parent != nil { r.readerStack = r.parent }`; `r.discardN(r.remain)`     Op.discard

The three accounting statements are regenerated facts (`Gen.ConnLegacy.readerStackFacts`, go/extract/connlegacy).
-/
import KafkaVerif.Base.Reader

namespace KV.ReaderStack
open KV KV.Reader

structure Facts where
  discardRewinds : Bool      -- discard() goes back to the I/O-backed root before discarding
  v2AccountsConsumed : Bool  -- compressed v2 batch: remain decreases by what the codec consumed (batchRemain − N)
  v1AccountsConsumed : Bool  -- compressed v1 wrapper: likewise (n − N)
  deriving Repr, DecidableEq

def Facts.all (f : Facts) : Bool := f.discardRewinds && f.v2AccountsConsumed && f.v1AccountsConsumed

/-- root = ⟨bytes still to come on the Conn, root.remain⟩; `children` = remaining sizes of the pushed buffers, top first -/
structure MSR where
  root : RS
  children : List Nat
  deriving Repr, DecidableEq

inductive Op where
  | read (n : Int)                    -- a read.go primitive asking for n bytes on the top reader
  | pushV2 (batchRemain used dlen : Nat)  -- the codec consumed `used ≤ batchRemain` bytes, produced `dlen`
  | pushV1 (n used dlen : Nat)
  | pop
  | discard
  deriving Repr, DecidableEq

/-- take `k` bytes from the Conn through the root, `remain` decreasing by `acct` (the Go code's bookkeeping) -/
def rootTake (r : RS) (k acct : Nat) : RS := ⟨r.inp.drop k, r.sz - acct⟩

def step (f : Facts) (m : MSR) : Op → MSR
  | .read n =>
    match m.children with
    | [] => { m with root := (discardN n m.root).2 }          -- on the root: any read.go primitive conserves; discardN stands for it
    | c :: cs => { m with children := (c - n.toNat) :: cs }     -- on a buffer: the Conn is not touched
  | .pushV2 batchRemain used dlen =>
    match m.children with
    | [] =>
      let used := min used (min batchRemain (min m.root.sz m.root.inp.length))
      { root := rootTake m.root used (if f.v2AccountsConsumed then used else batchRemain), children := [dlen] }
    | _ => m                                                     -- compressed batches are not nested
  | .pushV1 n used dlen =>
    match m.children with
    | [] =>
      let used := min used (min n (min m.root.sz m.root.inp.length))
      { root := rootTake m.root used (if f.v1AccountsConsumed then used else n), children := [dlen] }
    | c :: cs => { m with children := dlen :: (c - min n c) :: cs }   -- a wrapper inside a decompressed buffer
  | .pop => { m with children := m.children.drop 1 }
  | .discard =>
    if f.discardRewinds then { root := (discardN m.root.sz m.root).2, children := [] }
    else
      -- unwindStack only pops EXHAUSTED readers; then `discardN(remain)` hits whatever is on top
      match m.children.dropWhile (· == 0) with
      | [] => { root := (discardN m.root.sz m.root).2, children := [] }
      | _ :: cs => { m with children := 0 :: cs }

def run (f : Facts) (m : MSR) : List Op → MSR
  | [] => m
  | o :: os => run f (step f m o) os

end KV.ReaderStack
