/-
Model/SplitMerge.lean — the merge side of the requests kafka.Transport splits over brokers / coordinators
(protocol/listgroups, protocol/describegroups, protocol/describeconfigs `(*Response).Merge`), core Lean only.

    for _, result := range results {
        m, err := protocol.Result(result)
        if err != nil { return nil, err }          -- the first failed part fails the whole call
        response.X = append(response.X, m.(*Response).X...)
    }

(ListOffsets merges differently — failed parts become per-partition error entries — and is modelled by the C19
builder in Model/ListOffsets.lean.)  That each of the three Merge methods has this shape is a regenerated fact
(`Gen.ConnLegacy.strictMerges`).
-/
namespace KV.SplitMerge

def mergeStrict {α : Type} : List (Except String (List α)) → Except String (List α)
  | [] => .ok []
  | .error e :: _ => .error e
  | .ok xs :: rest =>
    match mergeStrict rest with
    | .ok ys => .ok (xs ++ ys)
    | .error e => .error e

def isOk {α : Type} : Except String (List α) → Bool
  | .ok _ => true
  | .error _ => false

def entriesOf {α : Type} : Except String (List α) → List α
  | .ok xs => xs
  | .error _ => []

end KV.SplitMerge
