/-
Model/RecordWriterPaged.lean — `protocol/record_v2.go writeToVersion2` (uncompressed) statement by statement ON THE
PAGE BUFFER (core Lean only): thirteen header writes with placeholders, the record loop, four `WriteAt` back-patches
(lastOffsetDelta@23, firstTimestamp@27, maxTimestamp@35, numRecords@57), the CRC-32C over `pages.scan(offset+21,
offset+totalLength)`, two more back-patches (batchLength@8, crc@17).  `Lemmas/RecordWriterPaged.lean` proves that the
buffer then holds what it held before followed by exactly `Model/RecordWriter.writeV2` (= the Spec encoding).
The offsets are the literals of the Go source (also extracted: Gen/RecordConsts.v2PatchOffsets).
-/
import KafkaVerif.Model.RecordWriter
import KafkaVerif.Model.PageBuffer

namespace KV.Model.RecordWriter
open KV KV.RW KV.Model.PageBuffer

/-- consecutive `Write` calls -/
def writeAll (P : Nat) (pb : PB) : List Bytes → PB
  | [] => pb
  | b :: bs => writeAll P (write P pb b) bs

/-- one `Write` per call of the record callback (the encoder writes field by field; appends are appends) -/
def recordChunks (now first : Int) : Nat → List PRec → List Bytes
  | _, [] => []
  | i, r :: rs => recordV2 first i (effTime now r) r :: recordChunks now first (i + 1) rs

/-- the body of `writeToVersion2` for a payload that reaches the buffer as `chunks` (one `Write` per record field group
when uncompressed; whatever the compressor's `Write`/`Close` emit when compressed) -/
def writeV2PagedWith (P : Nat) (crc : Bytes → Nat) (attributes firstTimestamp maxTimestamp : Int) (numRecords : Nat)
    (chunks : List Bytes) (pb : PB) : PB :=
  let bufferOffset := pb.base + (flat pb).length           -- buffer.Size() when the batch starts
  let pb := writeAll P pb [i64 0, i32 0, i32 (-1), i8 2, i32 0, i16 attributes, i32 0, i64 0, i64 0, i64 (-1), i16 (-1),
    i32 (-1), i32 0]
  let pb := writeAll P pb chunks
  let pb := writeAt P pb (i32 ((numRecords : Int) - 1)) (bufferOffset + 23)
  let pb := writeAt P pb (i64 firstTimestamp) (bufferOffset + 27)
  let pb := writeAt P pb (i64 maxTimestamp) (bufferOffset + 35)
  let pb := writeAt P pb (i32 (numRecords : Int)) (bufferOffset + 57)
  let totalLength := (pb.base + (flat pb).length) - bufferOffset
  let batchLength := totalLength - 12
  let checksum := crc (scan P pb (bufferOffset + 21) (bufferOffset + totalLength))
  let pb := writeAt P pb (i32 (batchLength : Int)) (bufferOffset + 8)
  writeAt P pb (u32 checksum) (bufferOffset + 17)

/-- the bytes of a v2 batch with base offset 0 as both writer models lay them out -/
def frameBytes (crc : Bytes → Nat) (attributes firstTimestamp maxTimestamp : Int) (numRecords : Nat) (R : Bytes) : Bytes :=
  let crcRegion := i16 attributes ++ (i32 ((numRecords : Int) - 1) ++ (i64 firstTimestamp ++ (i64 maxTimestamp ++
    (i64 (-1) ++ (i16 (-1) ++ (i32 (-1) ++ (i32 (numRecords : Int) ++ R)))))))
  i64 0 ++ (i32 ((21 + crcRegion.length - 12 : Nat) : Int) ++ (i32 (-1) ++ (i8 2 ++ (u32 (crc crcRegion) ++ crcRegion))))

def writeV2Paged (P : Nat) (crc : Bytes → Nat) (attributes now : Int) (recs : List PRec) (pb : PB) : Option PB :=
  match recs with
  | [] => none                                               -- ErrNoRecord (after the header was written; the caller drops the buffer)
  | r0 :: _ =>
    some (writeV2PagedWith P crc attributes (effTime now r0) (maxTime now 0 recs) recs.length
      (recordChunks now (effTime now r0) 0 recs) pb)

/-- `writeToVersion2` with a compressor installed: the record loop writes into the compressor, which writes `chunks`
into the page buffer (during the loop and at `compressor.Close()`); then the same back-patching and CRC -/
def writeV2PagedC (P : Nat) (crc : Bytes → Nat) (chunks : List Bytes) (attributes now : Int) (recs : List PRec) (pb : PB) :
    Option PB :=
  match recs with
  | [] => none
  | r0 :: _ => some (writeV2PagedWith P crc attributes (effTime now r0) (maxTime now 0 recs) recs.length chunks pb)

/-- `RecordSet.WriteTo(w)` (protocol/record.go) on its fast path, `w` being the request's page buffer: a 4-byte size
placeholder, the batch written at `bufferOffset+4`, then the size back-patched at `bufferOffset` (`^0` if nothing was
written). -/
def writeSetPagedWith (P : Nat) (inner : PB → Option PB) (pb : PB) : Option PB :=
  let bufferOffset := pb.base + (flat pb).length
  let pb1 := write P pb (u32 0)
  match inner pb1 with
  | none => none
  | some pb2 =>
    let n := pb2.base + (flat pb2).length - bufferOffset
    some (writeAt P pb2 (u32 (if n = 0 then 4294967295 else n - 4)) bufferOffset)

def writeSetV2Paged (P : Nat) (crc : Bytes → Nat) (attributes now : Int) (recs : List PRec) (pb : PB) : Option PB :=
  writeSetPagedWith P (writeV2Paged P crc attributes now recs) pb

/-- the same with a compressor installed (`chunks` = what it writes into the buffer) -/
def writeSetV2PagedC (P : Nat) (crc : Bytes → Nat) (chunks : List Bytes) (attributes now : Int) (recs : List PRec) (pb : PB) :
    Option PB :=
  writeSetPagedWith P (writeV2PagedC P crc chunks attributes now recs) pb

/-- pages holding `bs`, as `Write` lays them out from an empty buffer (used by the oracle to start mid-buffer) -/
def pagesOf (P : Nat) (bs : Bytes) : PB := write P ⟨0, []⟩ bs

end KV.Model.RecordWriter

namespace KV.Model.RecordWriter
open KV KV.RW KV.Model.PageBuffer

/-! ### protocol/record_v1.go writeToVersion1 on the page buffer -/

/-- one iteration of the `forEachRecord` callback: offset, two placeholders, magic, attributes, timestamp, key, value
(`writeNullBytesFrom` copies the bytes in), then size and CRC (the encoder's running CRC-32 over magic..value) are
back-patched at `messageOffset+8` / `+12` -/
def messageV1Paged (P : Nat) (crc : Bytes → Nat) (attributes now : Int) (i : Nat) (r : PRec) (pb : PB) : PB :=
  let messageOffset := pb.base + (flat pb).length
  let t := effTime now r
  let pb := writeAll P pb [i64 (i : Int), i32 0, i32 0, i8 1, i8 attributes, i64 t, writeNullBytes r.key, writeNullBytes r.value]
  let size := (pb.base + (flat pb).length) - (messageOffset + 12)
  let checksum := crc (i8 1 ++ (i8 attributes ++ (i64 t ++ (writeNullBytes r.key ++ writeNullBytes r.value))))
  let pb := writeAt P pb (i32 (size : Int)) (messageOffset + 8)
  writeAt P pb (u32 checksum) (messageOffset + 12)

def writeV1Paged (P : Nat) (crc : Bytes → Nat) (attributes now : Int) : Nat → List PRec → PB → PB
  | _, [], pb => pb
  | i, r :: rs, pb => writeV1Paged P crc attributes now (i + 1) rs (messageV1Paged P crc attributes now i r pb)

/-- with a compressor: the uncompressed set is rendered INTO THE SAME BUFFER (codec bits erased), read back with
`pages.scan(bufferOffset, Size())` into the compressor, the buffer is truncated to `bufferOffset`, and the wrapper
message (offset 0, original attributes, time zero → now, nil key, value = compressed bytes) is written in its place -/
def writeV1PagedC (P : Nat) (crc : Bytes → Nat) (comp : Bytes → Bytes) (attributes now : Int) (recs : List PRec) (pb : PB) : PB :=
  let bufferOffset := pb.base + (flat pb).length
  let pb1 := writeV1Paged P crc (attributes - attributes % 8) now 0 recs pb
  let plain := scan P pb1 bufferOffset (pb1.base + (flat pb1).length)
  let pb2 := truncate pb1 bufferOffset
  messageV1Paged P crc attributes now 0 ⟨0, none, some (comp plain), []⟩ pb2

end KV.Model.RecordWriter
