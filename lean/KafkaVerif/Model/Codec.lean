/-
Model/Codec.lean — executable model of the reflection codec of /repo/protocol (core Lean only).

  encode.go  encodeBool … encodeCompactNullArray, structEncodeFuncOf      ↔  `encode`, `encodeFields`, `encodeTagged`
  decode.go  decoder{remain,err}, readFull/read/readUnsignedVarInt,        ↔  `Dec`, `Res`, `readN`, `readLen`, `readUvarint`
             decodeArray/decodeCompactArray, structDecodeFuncOf            ↔  `decode`, `decodeFields`, `decodeElems`, `taggedLoop`
  request.go / response.go  WriteRequest, WriteResponse, ReadResponse, ReadRequest  ↔  `frameRequest`, `frameResponse`, `readResponse`, `readRequest`

The decoder's sticky error (`setError` → `discardAll`, later reads return zero values, the caller drops
the message) is modelled by short-circuiting: after the first error nothing further is allocated and every
later read returns 0, so the outcome class is decided at the first error.  Go panics are the outcome
`panic`; an allocation request larger than the bytes left in the frame is the outcome `balloon`.
`Cfg.bounded` says whether the decoder checks wire lengths against `decoder.remain` before allocating
(extracted from decode.go on every run, Gen/DecoderCfg.lean).
-/
import KafkaVerif.Base.Wire
import KafkaVerif.Model.Schema

namespace KV.Codec
open KV KV.Wire

/-! ## encoder -/

def encBool (b : Bool) : Bytes := [if b then 1 else 0]

/-- `writeString` / `writeNullString` / `writeCompactString` / `writeCompactNullString` -/
def encString (compact nullable : Bool) (s : Bytes) : Bytes :=
  if compact then
    if nullable && s.isEmpty then uvarint 0 else uvarint (s.length + 1) ++ s
  else
    if nullable && s.isEmpty then encInt 2 (-1) else encInt 2 s.length ++ s

/-- `writeBytes` / `writeNullBytes` / `writeCompactBytes` / `writeCompactNullBytes` -/
def encBytes (compact nullable : Bool) (b : Option Bytes) : Bytes :=
  match b, nullable with
  | none, true => if compact then uvarint 0 else encInt 4 (-1)
  | b, _ =>
    let s := b.getD []
    if compact then uvarint (s.length + 1) ++ s else encInt 4 s.length ++ s

/-- the length prefix of `encodeArray` / `encodeNullArray` / `encodeCompactArray` / `encodeCompactNullArray` -/
def encArrayLen (compact nullable : Bool) (a : Option (List Val)) : Bytes :=
  match a, nullable with
  | none, true => if compact then uvarint 0 else encInt 4 (-1)
  | a, _ =>
    let n := (a.getD []).length
    if compact then uvarint (n + 1) else encInt 4 n

/-- Go's `uint64(int)` -/
def toU64 (i : Int) : Nat := toU 64 i
/-- Go's `int(uint64)` on a 64-bit platform -/
def toI64 (u : Nat) : Int := toS 64 (u % 2 ^ 64)

mutual
/-- `encodeFuncOf(typ, version, flexible, tag)` applied to a value -/
def encode : Ty → Val → Bytes
  | .bool, .bool b => encBool b
  | .int8, .int i => encInt 1 i
  | .int16, .int i => encInt 2 i
  | .int32, .int i => encInt 4 i
  | .int64, .int i => encInt 8 i
  | .float64, .int i => encInt 8 i
  | .string c n, .str s => encString c n s
  | .bytes c n, .bytes b => encBytes c n b
  | .array c n t, .arr a => encArrayLen c n a ++ encodeElems t (a.getD [])
  | .struct flex fs ids ts, .struct vs tvs =>
    encodeFields fs vs ++
      (if flex then uvarint (countTagged ts) ++ encodeTagged ids ts tvs else [])
  | .unit flex, _ => if flex then uvarint 0 else []
  | .records, .records (some p) => encInt 4 p.length ++ p
  | _, _ => []
/-- the element loop of the array encoders -/
def encodeElems : Ty → List Val → Bytes
  | _, [] => []
  | t, v :: vs => encode t v ++ encodeElems t vs
/-- `for i := range fields { f.encode(e, v.fieldByIndex(f.index)) }`; zero-size Go types were never added -/
def encodeFields : List Ty → List Val → Bytes
  | t :: ts, v :: vs => (if t.zeroSize then [] else encode t v) ++ encodeFields ts vs
  | _, _ => []
/-- `for i := range taggedFields { tagID, size, payload }` -/
def encodeTagged : List Int → List Ty → List Val → Bytes
  | i :: is, t :: ts, v :: vs =>
    (if t.zeroSize then [] else
      uvarint (toU64 i) ++ uvarint (encode t v).length ++ encode t v) ++ encodeTagged is ts vs
  | _, _, _ => []
/-- `len(taggedFields)` of the encoder -/
def countTagged : List Ty → Nat
  | [] => 0
  | t :: ts => (if t.zeroSize then 0 else 1) + countTagged ts
end

/-! ## decoder -/

/-- decoder state: the bytes still in the stream and `decoder.remain` -/
structure Dec where
  inp : Bytes
  remain : Nat
  deriving Repr, BEq, Inhabited

inductive Res (α : Type) where
  | ok (a : α) (d : Dec)
  | error            -- `d.err` set: ReadResponse returns an error
  | panic            -- a Go run-time panic
  | balloon          -- an allocation request larger than what is left of the frame
  deriving Repr, Inhabited

@[inline] def Res.bind {α β : Type} (r : Res α) (f : α → Dec → Res β) : Res β :=
  match r with
  | .ok a d => f a d
  | .error => .error
  | .panic => .panic
  | .balloon => .balloon

structure Cfg where
  /-- wire lengths and counts are checked against `decoder.remain` (and negative sizes rejected) before
  anything is allocated -/
  bounded : Bool
  /-- arrays, strings and byte sequences are allocated as their data ARRIVES (`decodeElems`: at most 1024 elements ahead,
  `read`: at most 64 KiB ahead of the bytes received) instead of the whole announced length upfront.  `remain` is only what
  the frame size prefix announces; `inp` is what the connection really delivers -/
  growing : Bool := true
  /-- how a `protocol.RecordSet` field is read: `none` = the value-level view used by C04 (size prefix, then the
  payload as an opaque blob); `some h` = a detailed reader of the record-set inside (Model/RecordScan.lean,
  used by C20) -/
  recs : Option (Dec → Res Val) := none

/-- `readFull(d.buffer[:k])` for a fixed `k > 0` -/
def readN (k : Nat) (d : Dec) : Res Bytes :=
  if k ≤ d.remain ∧ k ≤ d.inp.length then .ok (d.inp.take k) ⟨d.inp.drop k, d.remain - k⟩ else .error

def readInt (k : Nat) (d : Dec) : Res Int :=
  (readN k d).bind fun bs d => .ok (toS (8 * k) (fromBE bs)) d

/-- `readUnsignedVarInt`: at most `min 11 remain` bytes, truncated to 64 bits -/
def readUvarint (d : Dec) : Res Nat :=
  match readUvarintAux (min 11 d.remain) d.inp with
  | some (v, rest) => .ok (v % 2 ^ 64) ⟨rest, d.remain - (d.inp.length - rest.length)⟩
  | none => .error

/-- `d.read(n)`: `make([]byte, n)` then `io.ReadFull` -/
def readLen (cfg : Cfg) (n : Int) (d : Dec) : Res Bytes :=
  if n < 0 then (if cfg.bounded then .error else .panic)
  else if n.toNat > d.remain then (if cfg.bounded then .error else .balloon)
  else if !cfg.growing && n.toNat > d.inp.length + 65536 then .balloon   -- `make([]byte, n)` far beyond what will ever arrive
  else if n.toNat ≤ d.inp.length then .ok (d.inp.take n.toNat) ⟨d.inp.drop n.toNat, d.remain - n.toNat⟩
  else .error

/-- the `int` a length read as uint64 becomes: `toLength(u)` in the bounded decoder (values above
MaxInt32 fail the bounds check as −1), Go's wrapping `int(u)` before -/
def lenOfU (cfg : Cfg) (u : Nat) : Int :=
  if cfg.bounded then (if u > 2147483647 then -1 else (u : Int)) else toI64 u

/-- `makeArray(elemType, n)` guarded (or not) by the bound on `remain` -/
def allocElems (cfg : Cfg) (n : Int) (d : Dec) : Res Nat :=
  if n < 0 then (if cfg.bounded then .error else .panic)
  else if n.toNat > d.remain then (if cfg.bounded then .error else .balloon)
  else if !cfg.growing && n.toNat > d.inp.length + 1024 then .balloon   -- `makeArray(n)` for elements that will never arrive
  else .ok n.toNat d

/-- `for i := 0; i < n && d.remain > 0; i++ { decodeElem(d, a.index(i)) }`; slots not reached keep `z` -/
def decodeElems (f : Dec → Res Val) (z : Val) : Nat → Dec → Res (List Val)
  | 0, d => .ok [] d
  | n + 1, d =>
    if d.remain = 0 then .ok (List.replicate (n + 1) z) d
    else (f d).bind fun v d => (decodeElems f z n d).bind fun vs d => .ok (v :: vs) d

/-- the tagged-field loop of `structDecodeFuncOf`; `lookup tagID` = the Go map `taggedFields` -/
def taggedLoop (cfg : Cfg) (lookup : Int → Option (Nat × (Dec → Res Val))) : Nat → List Val → Dec → Res (List Val)
  | 0, slots, d => .ok slots d
  | n + 1, slots, d =>
    (readUvarint d).bind fun tagID d =>
    (readUvarint d).bind fun size d =>
    match lookup (toI64 tagID) with
    | some (idx, dec) => (dec d).bind fun v d => taggedLoop cfg lookup n (slots.set idx v) d
    | none => (readLen cfg (lenOfU cfg size) d).bind fun _ d => taggedLoop cfg lookup n slots d

mutual
def zero : Ty → Val
  | .bool => .bool false
  | .int8 | .int16 | .int32 | .int64 | .float64 => .int 0
  | .string _ _ => .str []
  | .bytes _ _ => .bytes none
  | .array _ _ _ => .arr none
  | .struct _ fs _ ts => .struct (zeros fs) (zeros ts)
  | .unit _ => .struct [] []
  | .records => .records none
def zeros : List Ty → List Val
  | [] => []
  | t :: ts => zero t :: zeros ts
end

/-- number of iterations of the tagged-field loop: `n := int(d.readUnsignedVarInt())`, `for i := 0; i < n` -/
def tagCount (cfg : Cfg) (u : Nat) (d : Dec) : Res Nat :=
  let n := lenOfU cfg u
  if n < 0 then (if cfg.bounded then .error else .ok 0 d)
  else if cfg.bounded ∧ n.toNat > d.remain then .error
  else .ok n.toNat d

mutual
/-- `decodeFuncOf(typ, version, flexible, tag)` applied to a decoder -/
def decode (cfg : Cfg) : Ty → Dec → Res Val
  | .bool, d => (readN 1 d).bind fun bs d => .ok (.bool (fromBE bs != 0)) d
  | .int8, d => (readInt 1 d).bind fun i d => .ok (.int i) d
  | .int16, d => (readInt 2 d).bind fun i d => .ok (.int i) d
  | .int32, d => (readInt 4 d).bind fun i d => .ok (.int i) d
  | .int64, d => (readInt 8 d).bind fun i d => .ok (.int i) d
  | .float64, d => (readN 8 d).bind fun bs d => .ok (.int (fromBE bs)) d
  | .string compact _, d =>
    if compact then
      (readUvarint d).bind fun n d =>
        if n < 1 then .ok (.str []) d
        else (readLen cfg (lenOfU cfg (n - 1)) d).bind fun bs d => .ok (.str bs) d
    else
      (readInt 2 d).bind fun n d =>
        if n < 0 then .ok (.str []) d
        else (readLen cfg n d).bind fun bs d => .ok (.str bs) d
  | .bytes compact _, d =>
    if compact then
      (readUvarint d).bind fun n d =>
        if n < 1 then .ok (.bytes none) d
        else (readLen cfg (lenOfU cfg (n - 1)) d).bind fun bs d => .ok (.bytes (some bs)) d
    else
      (readInt 4 d).bind fun n d =>
        if n < 0 then .ok (.bytes none) d
        else (readLen cfg n d).bind fun bs d => .ok (.bytes (some bs)) d
  | .array compact _ t, d =>
    if compact then
      (readUvarint d).bind fun n d =>
        if n < 1 then .ok (.arr none) d
        else (allocElems cfg (lenOfU cfg (n - 1)) d).bind fun k d =>
          (decodeElems (decode cfg t) (zero t) k d).bind fun vs d => .ok (.arr (some vs)) d
    else
      (readInt 4 d).bind fun n d =>
        if n < 0 then .ok (.arr none) d
        else (allocElems cfg n d).bind fun k d =>
          (decodeElems (decode cfg t) (zero t) k d).bind fun vs d => .ok (.arr (some vs)) d
  | .struct flex fs ids ts, d =>
    (decodeFields cfg fs d).bind fun vs d =>
      if flex then
        (readUvarint d).bind fun n d =>
        (tagCount cfg n d).bind fun k d =>
          (taggedLoop cfg (tagLookup cfg ids ts 0) k (zeros ts) d).bind fun tvs d => .ok (.struct vs tvs) d
      else .ok (.struct vs (zeros ts)) d
  | .unit flex, d =>
    if flex then
      (readUvarint d).bind fun n d =>
      (tagCount cfg n d).bind fun k d =>
        (taggedLoop cfg (fun _ => none) k [] d).bind fun _ d => .ok (.struct [] []) d
    else .ok (.struct [] []) d
  | .records, d =>
    -- RecordSet.ReadFrom: size := d.readInt32(); size <= 0 → empty set; else the next `size` bytes are the
    -- batches (their inside is property C05's; here an opaque payload)
    match cfg.recs with
    | some h => h d
    | none =>
      (readInt 4 d).bind fun n d =>
        if n ≤ 0 then .ok (.records none) d
        else (readLen cfg n d).bind fun bs d => .ok (.records (some bs)) d
def decodeFields (cfg : Cfg) : List Ty → Dec → Res (List Val)
  | [], d => .ok [] d
  | t :: ts, d => (decode cfg t d).bind fun v d => (decodeFields cfg ts d).bind fun vs d => .ok (v :: vs) d
/-- the Go map `taggedFields[tag.TagID] = &f` built in declaration order (a later field with the same id
replaces an earlier one) -/
def tagLookup (cfg : Cfg) : List Int → List Ty → Nat → Int → Option (Nat × (Dec → Res Val))
  | i :: is, t :: ts, idx, id =>
    match tagLookup cfg is ts (idx + 1) id with
    | some r => some r
    | none => if i == id then some (idx, decode cfg t) else none
  | _, _, _, _ => none
end

/-! ## framing: request.go / response.go -/

/-- `WriteResponse`: size placeholder back-patched with `b.Size() - 4`, correlation id, (flexible: empty
header tag buffer), body -/
def frameResponse (flex : Bool) (corr : Int) (t : Ty) (v : Val) : Bytes :=
  let body := encInt 4 corr ++ (if flex then uvarint 0 else []) ++ encode t v
  be 4 body.length ++ body

/-- `WriteRequest`: api key, version, correlation id, client id (`writeNullString` in flexible versions,
`writeString` otherwise), (flexible: empty tag buffer), body -/
def frameRequest (flex : Bool) (apiKey version corr : Int) (clientID : Bytes) (t : Ty) (v : Val) : Bytes :=
  let body := encInt 2 apiKey ++ encInt 2 version ++ encInt 4 corr ++
    (if flex then encString false true clientID ++ uvarint 0 else encString false false clientID) ++ encode t v
  be 4 body.length ++ body

/-- the header tag buffer loop of ReadResponse / ReadRequest: every field is thrown away -/
def skipHeaderTags (cfg : Cfg) : Nat → Dec → Res Unit
  | 0, d => .ok () d
  | n + 1, d =>
    (readUvarint d).bind fun _ d =>
    (readUvarint d).bind fun size d =>
    (readLen cfg (lenOfU cfg size) d).bind fun _ d => skipHeaderTags cfg n d

/-- `d.discardAll()`: the rest of the frame is consumed; a short stream is an error -/
def discardAll (d : Dec) : Res Unit :=
  if d.remain ≤ d.inp.length then .ok () ⟨d.inp.drop d.remain, 0⟩ else .error

/-- `ReadResponse(r, apiKey, apiVersion)` for a resolved response type -/
def readResponse (cfg : Cfg) (flex : Bool) (t : Ty) (stream : Bytes) : Res (Int × Val) :=
  (readInt 4 ⟨stream, 4⟩).bind fun size d =>
    if size < 0 then (if cfg.bounded then .error else .panic)
    else
      let d : Dec := ⟨d.inp, size.toNat⟩
      (readInt 4 d).bind fun corr d =>
      (if flex then
        (readUvarint d).bind fun n d => (tagCount cfg n d).bind fun k d => skipHeaderTags cfg k d
       else .ok () d).bind fun _ d =>
      (decode cfg t d).bind fun v d =>
      (discardAll d).bind fun _ d => .ok (corr, v) d

/-- `ReadRequest(r)` once api key and version have selected the resolved request type `t` -/
def readRequestBody (cfg : Cfg) (flex : Bool) (t : Ty) (d : Dec) : Res Val :=
  (if flex then
    (readUvarint d).bind fun n d => (tagCount cfg n d).bind fun k d => skipHeaderTags cfg k d
   else .ok () d).bind fun _ d =>
  (decode cfg t d).bind fun v d =>
  (discardAll d).bind fun _ d => .ok v d

/-- `ReadRequest(r)`: size, api key, version, correlation id, client id, then the body of the request type `t` that
(key, version) select -/
def readRequest (cfg : Cfg) (flex : Bool) (t : Ty) (stream : Bytes) : Res (Int × Int × Int × Bytes × Val) :=
  (readInt 4 ⟨stream, 4⟩).bind fun size d =>
    if size < 0 then (if cfg.bounded then .error else .panic)
    else
      let d : Dec := ⟨d.inp, size.toNat⟩
      (readInt 2 d).bind fun key d =>
      (readInt 2 d).bind fun ver d =>
      (readInt 4 d).bind fun corr d =>
      (decode cfg (.string false flex) d).bind fun cid d =>
      (readRequestBody cfg flex t d).bind fun v d =>
        .ok (key, ver, corr, (match cid with | .str s => s | _ => []), v) d


/-! ## the un-framed SASL exchange (`saslauthenticate.(*Request).readResp`): INT32 length, then that many bytes -/
structure SaslCfg where
  /-- `if respLen < 0 { return … }` before the length is used -/
  negChecked : Bool
  /-- the buffer grows with the bytes received (`io.CopyN` into a `bytes.Buffer`) instead of `make([]byte, respLen)` -/
  grows : Bool

/-- `readResp` on the bytes the connection delivers before it ends: the token, an error, a panic (`make` with a negative
length) or an allocation beyond the bytes received -/
def saslReadResp (c : SaslCfg) (stream : Bytes) : Res Bytes :=
  (readInt 4 ⟨stream, 4⟩).bind fun n d =>
    if n < 0 then (if c.negChecked then .error else .panic)
    else if d.inp.length < n.toNat then (if c.grows then .error else .balloon)
    else .ok (d.inp.take n.toNat) ⟨d.inp.drop n.toNat, 0⟩

/-! ## what a round trip returns -/

mutual
/-- `decode ∘ encode`: a nil slice / nil `[]byte` of a non-nullable field comes back empty but non-nil -/
def norm : Ty → Val → Val
  | .bytes _ false, .bytes none => .bytes (some [])
  | .array _ n t, .arr a =>
    match a, n with
    | none, true => .arr none
    | a, _ => .arr (some (normElems t (a.getD [])))
  | .struct _ fs _ ts, .struct vs tvs => .struct (normFields fs vs) (normFields ts tvs)
  | _, v => v
def normElems : Ty → List Val → List Val
  | _, [] => []
  | t, v :: vs => norm t v :: normElems t vs
def normFields : List Ty → List Val → List Val
  | t :: ts, v :: vs => norm t v :: normFields ts vs
  | _, _ => []
end

end KV.Codec
