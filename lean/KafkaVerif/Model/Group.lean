/-
Model/Group.lean — an abstract consumer group reading ONE partition, for the group-level reading of C03 (core only).

What is abstracted from which component
* the partition's log: records with offsets `0 … hi-1` (`produce` appends).  Compaction holes are C02's subject
  (gap-free *relative to the stored records*); here the stored offsets are contiguous and nothing is truncated.
* a *reader epoch* (`Reader`): one assignment of the partition to a member — created by `assign` at the position given
  by `Model/GroupStart.assignOffset` (committed offset if there is one, else the configured StartOffset: log start
  for FirstOffset, log end for LastOffset), ended by `revoke` (member leaves, crashes, is evicted, or is rebalanced
  away).  Several epochs may coexist: a member that has not yet noticed a rebalance keeps reading (zombie) while the
  new owner already started — the coordinator does not stop it.
* `deliver i`: epoch `i` hands the next stored record at its position to the application and advances by one.  This
  is the contract of C02 (`iterated_fetch`: the concatenated deliveries of one fetcher are the log from its start
  offset, gap-free, in order) taken as the definition of the step — it is a HYPOTHESIS of the theorems below, proved
  for the Reader's fetch path only to the extent Props/C02.lean does.
* `commit m o ack`: member `m` sends OffsetCommit(o); enabled only if `o ≤ h + 1` for some record `h` already
  delivered *to m* — this is `C03.commit_le_handed` (commit ≤ 1 + max passed to CommitMessages) composed with the
  stated hypothesis that APPLICATIONS COMMIT ONLY WHAT THEY WERE HANDED.  The coordinator may reject it (`ack = false`:
  stale generation, unknown member) or record it; stale members may move the committed offset backwards.
-/
namespace KV.GroupHist

structure Reader where
  m : Nat            -- member
  start : Nat        -- position the epoch started at
  pos : Nat          -- next offset to deliver
  epoch : List Nat   -- ghost: offsets delivered in this epoch, in order
  deriving DecidableEq, Repr

structure G where
  hi : Nat := 0
  committed : Option Nat := none
  readers : List Reader := []
  delivered : List (Nat × Nat) := []     -- ghost: (member, offset), every delivery ever
  deriving Repr

inductive GEv
  | produce
  | assign (m : Nat)
  | revoke (i : Nat)
  | deliver (i : Nat)
  | commit (m : Nat) (o : Nat) (ack : Bool)
  deriving Repr

/-- `startLast = true`: StartOffset = LastOffset; `false`: FirstOffset -/
def gstep (startLast : Bool) (s : G) : GEv → Option G
  | .produce => some { s with hi := s.hi + 1 }
  | .assign m =>
    let p := match s.committed with
      | some c => c
      | none => if startLast then s.hi else 0
    some { s with readers := s.readers ++ [{ m := m, start := p, pos := p, epoch := [] }] }
  | .revoke i => if i < s.readers.length then some { s with readers := s.readers.eraseIdx i } else none
  | .deliver i =>
    match s.readers[i]? with
    | some rd =>
      if rd.pos < s.hi then
        some { s with readers := s.readers.set i { rd with pos := rd.pos + 1, epoch := rd.epoch ++ [rd.pos] },
                      delivered := s.delivered ++ [(rd.m, rd.pos)] }
      else none
    | none => none
  | .commit m o ack =>
    if s.delivered.any (fun d => d.1 == m && o ≤ d.2 + 1) then
      some (if ack then { s with committed := some o } else s)
    else none

def grun (sl : Bool) : G → List GEv → Option G
  | s, [] => some s
  | s, e :: es => match gstep sl s e with
    | some s' => grun sl s' es
    | none => none

inductive GReachable (sl : Bool) : G → Prop
  | init : GReachable sl {}
  | step {s s' : G} (e : GEv) : GReachable sl s → gstep sl s e = some s' → GReachable sl s'

end KV.GroupHist
