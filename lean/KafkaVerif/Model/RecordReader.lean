/-
Model/RecordReader.lean — executable model of kafka-go's record-set DECODER on the Client/Transport path
(core Lean only):

  `libVarBytes`, `libHeader`, `libHeaders`, `libRecord`, `libRecords`
                       ↔ protocol/record_v2.go readFromVersion2, the per-record loop: record length ignored,
                         negative key/value length = null, headers only when numHeaders > 0, a decode error
                         truncates the record list (`records = records[:i]; break`)
  `libReadV2`          ↔ readFromVersion2: baseOffset, batchLength (longer than what remains → discardAll, no
                         records, no error), partitionLeaderEpoch, magic, crc, attributes … numRecords, optional
                         decompression, CRC-32C over attributes..end checked BEFORE any record is parsed,
                         ControlBatch when attributes bit 5 is set
  `libReadMsg`         ↔ protocol/record_v1.go readMessage (size-limited sub-decoder, CRC-32 over magic..end)
  `libReadV1`          ↔ readFromVersion1: plain message, or wrapper: decompress, read inner messages until the
                         end, `if baseOffset != 0` make inner offsets absolute relative to the LAST inner
                         message's offset field (code after fix 1e11f89)
  `libReadSet`         ↔ protocol/record.go (*RecordSet).ReadFrom: loop while bytes remain and no error, fewer
                         than 17 bytes left → stop, magic byte at offset 16 selects the reader, an error ends
                         the loop and is dropped when records were already decoded
  `surfaced`           ↔ protocol/record_batch.go (*RecordStream).ReadRecord: control batches are skipped

Inputs on which the Go code would desynchronise or read a malformed length (leftover bytes inside a v0/v1
message size, negative sizes) are the domain of C17/C20; the model returns `err` for them.
-/
import KafkaVerif.Spec.RecordBatch
import KafkaVerif.Gen.RecordConsts

namespace KV.Model.RecordReader
open KV KV.RW KV.Spec.RB

/-- `Attributes.Compression()`: `a & mask` with the mask found in protocol/record.go NOW (Gen/RecordConsts,
regenerated on every run); for a mask of the form 2^k - 1 this is `a mod (mask + 1)` on two's complement values -/
def libCodecOf (a : Int) : Int := a % ((Gen.RecordConsts.compressionMask + 1 : Nat) : Int)

/-- `Attributes.Control()`: `a & Control != 0` with the extracted `Control` constant (a power of two) -/
def libIsControl (a : Int) : Bool := (a / (Gen.RecordConsts.controlConst : Int)) % 2 = 1

/-- `attributes & <mask> != 0` for the masks the decoder tests NOW (Gen/RecordConsts: one mask, the timestamp type, since
fix C05-D30; none before) -/
def maskTest (masks : List Nat) (a : Int) : Bool := masks.any fun m => (a / (m : Int)) % 2 = 1

/-- readFromVersion2: `Attributes(attributes)&logAppendTime != 0` → every record carries `maxTimestamp` -/
def libLogAppendV2 (a : Int) : Bool := maskTest Gen.RecordConsts.stampMasksV2 a
/-- readFromVersion1: the same test on the wrapper message's attributes -/
def libLogAppendV1 (a : Int) : Bool := maskTest Gen.RecordConsts.stampMasksV1 a

def libVarBytes (bs : Bytes) : Option (Option Bytes × Bytes) :=
  match readVarint bs with
  | none => none
  | some (n, r) =>
    if n < 0 then some (none, r)                    -- keyLength < 0: no page ref → nil
    else match takeN n.toNat r with
      | some (b, r') => some (some b, r')
      | none => none

/-- `Header{Key: dec.readVarString(), Value: dec.readVarBytes()}` -/
def libHeader (bs : Bytes) : Option (Hdr × Bytes) :=
  match readVarint bs with
  | none => none
  | some (n, r) =>
    match takeN (if n < 0 then 0 else n.toNat) r with
    | none => none
    | some (k, r') =>
      match libVarBytes r' with
      | none => none
      | some (v, r'') => some (⟨k, v⟩, r'')

def libHeaders : Nat → Bytes → Option (List Hdr × Bytes)
  | 0, bs => some ([], bs)
  | n + 1, bs =>
    match libHeader bs with
    | none => none
    | some (h, r) =>
      match libHeaders n r with
      | none => none
      | some (hs, r') => some (h :: hs, r')

/-- one iteration of the record loop -/
def libRecord (base first : Int) (bs : Bytes) : Option (Rec × Bytes) :=
  match readVarint bs with                     -- record length (unused)
  | none => none
  | some (_, r0) =>
    match r0 with
    | [] => none
    | _ :: r1 =>                               -- record attributes (unused)
      match readVarint r1 with
      | none => none
      | some (td, r2) =>
        match readVarint r2 with
        | none => none
        | some (od, r3) =>
          match libVarBytes r3 with
          | none => none
          | some (k, r4) =>
            match libVarBytes r4 with
            | none => none
            | some (v, r5) =>
              match readVarint r5 with
              | none => none
              | some (nh, r6) =>
                if nh > 0 then
                  match libHeaders nh.toNat r6 with
                  | none => none
                  | some (hs, r7) => some (⟨base + od, first + td, k, v, hs⟩, r7)
                else some (⟨base + od, first + td, k, v, []⟩, r6)

/-- `for i := range records`: a decode error keeps the records read so far -/
def libRecords (base first : Int) : Nat → Bytes → List Rec
  | 0, _ => []
  | n + 1, bs =>
    match libRecord base first bs with
    | none => []
    | some (r, rest) => r :: libRecords base first n rest

inductive Res where
  | ok (control : Bool) (recs : List Rec) (rest : Bytes)
  | skip                                        -- batchLength beyond the input: discardAll, nil error, no records
  | err
  deriving Repr

def libReadV2 (crc : Bytes → Nat) (dec : Int → Bytes → Option Bytes) (bs : Bytes) : Res :=
  match readI64 bs with
  | none => .err
  | some (base, r1) =>
    match readI32 r1 with
    | none => .err
    | some (len, r2) =>
      if len > (r2.length : Int) then .skip
      else match takeN len.toNat r2 with
        | none => .err
        | some (blk, rest) =>
          match readI32 blk with
          | none => .err
          | some (epoch, b1) =>
            match readI8 b1 with
            | none => .err
            | some (_, b2) =>
              match readU32 b2 with
              | none => .err
              | some (c, body) =>
                match readFrameBody base epoch body with     -- attributes … numRecords, then the payload
                | none => .err
                | some f =>
                  let payload := if libCodecOf f.attributes = 0 then some f.payload else dec (libCodecOf f.attributes) f.payload
                  match payload with
                  | none => .err                             -- unsupported codec / decompression failed
                  | some p =>
                    if crc body ≠ c then .err                -- "crc32 checksum mismatch"
                    else if f.count < 0 ∨ f.count > (p.length : Int) then .err   -- "invalid record count" (fix e9a71f7)
                    else .ok (libIsControl f.attributes)
                      ((libRecords f.baseOffset f.firstTs f.count.toNat p).map (stamp (libLogAppendV2 f.attributes) f.maxTs)) rest

/-- `readMessage`: returns attributes, the record and the rest -/
def libReadMsg (crc : Bytes → Nat) (bs : Bytes) : Option (Int × Msg × Bytes) :=
  match readI64 bs with
  | none => none
  | some (off, r1) =>
    match readI32 r1 with
    | none => none
    | some (size, r2) =>
      if size < 0 then none
      else match takeN size.toNat r2 with
        | none => none
        | some (blk, rest) =>
          match readU32 blk with
          | none => none
          | some (c, body) =>
            match readMsgBody off body with                  -- magic, attributes, [timestamp], key, value
            | none => none
            | some m => if crc body ≠ c then none else some (m.attributes, m, rest)

def libInner (crc : Bytes → Nat) : Nat → Bytes → Option (List Msg)
  | _, [] => some []
  | 0, _ :: _ => none
  | fuel + 1, bs =>
    match libReadMsg crc bs with
    | none => none
    | some (_, m, rest) =>
      match libInner crc fuel rest with
      | none => none
      | some ms => some (m :: ms)

def lastOff : List Msg → Int
  | [] => 0
  | [m] => m.offset
  | _ :: ms => lastOff ms

def libReadV1 (crc : Bytes → Nat) (dec : Int → Bytes → Option Bytes) (bs : Bytes) : Res :=
  match libReadMsg crc bs with
  | none => .err
  | some (attrs, m, rest) =>
    if libCodecOf attrs = 0 then .ok false [recOfMsg m] rest
    else match m.value with
      | none => .ok false [] rest                            -- emptyRecordReader
      | some v =>
        match dec (libCodecOf attrs) v with
        | none => .err
        | some inner =>
          match libInner crc inner.length inner with
          | none => .err
          | some ms =>
            -- `wrapperLogAppend := magicByte == 1 && attributes&logAppendTime != 0`: the wrapper's timestamp for all
            let on := decide (m.magic = 1) && libLogAppendV1 attrs
            if m.offset ≠ 0 ∧ ms ≠ [] then
              .ok false (ms.map fun x => stamp on m.ts { recOfMsg x with offset := m.offset - (lastOff ms - x.offset) }) rest
            else .ok false (ms.map fun x => stamp on m.ts (recOfMsg x)) rest

/-- `(*RecordSet).ReadFrom`: the decoded entries (control flag, records) up to the end or the first error -/
def libReadSet (c : Crcs) (dec : Int → Bytes → Option Bytes) : Nat → Bytes → List (Bool × List Rec)
  | _, [] => []
  | 0, _ :: _ => []
  | fuel + 1, bs =>
    if bs.length < 17 then []
    else match bs[16]? with
      | none => []
      | some magic =>
        let res := if magic = 2 then libReadV2 c.castagnoli dec bs
                   else if magic = 0 ∨ magic = 1 then libReadV1 c.ieee dec bs else .err
        match res with
        | .ok ctl recs rest => (ctl, recs) :: libReadSet c dec fuel rest
        | .skip => []
        | .err => []

/-- `(*RecordStream).ReadRecord`: everything but control batches, in order -/
def surfaced (entries : List (Bool × List Rec)) : List Rec :=
  (entries.filter (fun e => !e.1)).flatMap (·.2)

def clientFetch (c : Crcs) (dec : Int → Bytes → Option Bytes) (bs : Bytes) : List Rec :=
  surfaced (libReadSet c dec bs.length bs)

end KV.Model.RecordReader
