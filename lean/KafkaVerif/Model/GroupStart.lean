/-
Model/GroupStart.lean — where a member starts reading each assigned partition (core Lean only).

Go ↔ Lean
* `consumergroup.go (*ConsumerGroup).fetchOffsets`: builds `offsetsByTopic[topic][partition]` from the OffsetFetch
  response by ranging over topic responses and partition responses in wire order, keeping only partitions of the
  assignment, replacing negative offsets by `config.StartOffset`; a later topic response *replaces* the map of an
  earlier one for the same topic, a later partition entry overwrites an earlier one      ↔ `committed`
* `(*ConsumerGroup).makeAssignments`: for every configured topic, every assigned partition gets the fetched offset, or
  `StartOffset` when there is none                                                        ↔ `assignOffset`, `makeAssignments`
-/
namespace KV.GroupStart

/-- OffsetFetch response: topic responses in wire order, each with (partition, offset) entries in wire order -/
abbrev Resp := List (String × List (Int × Int))

/-- the entry `fetchOffsets` ends up with for (topic, p): last topic response for `topic`, last entry for `p` in it -/
def committed (resp : Resp) (topic : String) (p : Int) : Option Int :=
  match resp.reverse.find? (fun r => r.1 == topic) with
  | none => none
  | some (_, prs) => (prs.reverse.find? (fun pr => pr.1 == p)).map (·.2)

/-- offset of the assignment for partition `p` of `topic` -/
def assignOffset (start : Int) (resp : Resp) (topic : String) (p : Int) : Int :=
  match committed resp topic p with
  | none => start
  | some o => if o < 0 then start else o

/-- `makeAssignments ∘ fetchOffsets`: per configured topic, the assigned partitions (list order) with their offsets -/
def makeAssignments (start : Int) (topics : List String) (subs : List (String × List Int)) (resp : Resp) :
    List (String × List (Int × Int)) :=
  topics.map fun t => (t, ((subs.lookup t).getD []).map fun p => (p, assignOffset start resp t p))

end KV.GroupStart
