/-
Model/Schema.lean — the data types of the wire-codec model (core Lean only).

* `GoTy`, `RawField`, `RawStruct`, `RawMsg`: what the translator `go/extract/schemas.go` emits for every
  type passed to `protocol.Register` / `RegisterOverride` — the Go struct tree with field order, Go kind
  and the RAW `kafka:"…"` tag strings.  Nothing is resolved on the Go side.
* `Ty`: a schema *resolved for one version* (what `encodeFuncOf` / `decodeFuncOf` of protocol/encode.go,
  protocol/decode.go compile a Go type + version + flexible flag + struct tag into).
* `Val`: the values of a resolved schema (Go values restricted to the fields live in that version).
-/
import KafkaVerif.Base.Bytes

namespace KV.Codec

/-- Go type of a struct field, as written in the source. -/
inductive GoTy where
  | bool | int8 | int16 | int32 | int64 | float64 | string
  | bytes                       -- []byte
  | slice (elem : GoTy)         -- []T
  | named (name : String)       -- a struct type declared in the same (or an imported protocol) package
  | unit                        -- struct{}
  | recordSet                   -- protocol.RecordSet     (io.WriterTo / io.ReaderFrom)
  | rawRecordSet                -- protocol.RawRecordSet  (io.WriterTo / io.ReaderFrom)
  | unsupported (src : String)
  deriving Repr, BEq, Inhabited

structure RawField where
  name : String
  ty : GoTy
  /-- the raw text of the `kafka:"…"` struct tag; `hasTag = false` when the field has no kafka tag -/
  tag : String
  hasTag : Bool := true
  deriving Repr, BEq, Inhabited

structure RawStruct where
  name : String
  fields : List RawField
  deriving Repr, BEq, Inhabited

structure RawMsg where
  pkg : String
  apiKey : Nat
  apiName : String
  isRequest : Bool
  /-- registered through `RegisterOverride` (rawproduce) rather than `Register` -/
  override : Bool := false
  root : String
  structs : List RawStruct
  deriving Repr, BEq, Inhabited

/-- A schema resolved for one API version.  `compact` is the flexible flag of the message (in the Go code
all strings/bytes/arrays of a flexible message are compact; the `compact` tag option is never read). -/
inductive Ty where
  | bool | int8 | int16 | int32 | int64
  | float64                                     -- carried as its IEEE-754 bit pattern
  | string (compact nullable : Bool)
  | bytes (compact nullable : Bool)
  | array (compact nullable : Bool) (elem : Ty)
  /-- `fields`: the regular fields in declaration order; `tagIds`/`tagTys`: the tagged fields (parallel
  lists, declaration order). -/
  | struct (flex : Bool) (fields : List Ty) (tagIds : List Int) (tagTys : List Ty)
  /-- Go `struct{}` (the `_ struct{}` marker fields): decoded like a struct without fields, but skipped by
  `structEncodeFuncOf` because `typ.Size() == 0`. -/
  | unit (flex : Bool)
  /-- `protocol.RecordSet` / `RawRecordSet`: an int32-size-prefixed blob whose inside is property C05's -/
  | records
  deriving Repr, Inhabited

inductive Val where
  | bool (b : Bool)
  | int (i : Int)                               -- int8/16/32/64 and the float64 bit pattern
  | str (s : Bytes)                             -- Go string (no nil)
  | bytes (b : Option Bytes)                    -- nil / non-nil []byte
  | arr (a : Option (List Val))                 -- nil / non-nil slice
  | struct (fields : List Val) (tagged : List Val)
  | records (payload : Option Bytes)            -- none: RecordSet{} (no records)
  deriving Repr, Inhabited

mutual
def Ty.beq : Ty → Ty → Bool
  | .bool, .bool | .int8, .int8 | .int16, .int16 | .int32, .int32 | .int64, .int64
  | .float64, .float64 | .records, .records => true
  | .unit f, .unit f' => f == f'
  | .string c n, .string c' n' => c == c' && n == n'
  | .bytes c n, .bytes c' n' => c == c' && n == n'
  | .array c n e, .array c' n' e' => c == c' && n == n' && Ty.beq e e'
  | .struct f fs is ts, .struct f' fs' is' ts' => f == f' && Ty.beqList fs fs' && is == is' && Ty.beqList ts ts'
  | _, _ => false
def Ty.beqList : List Ty → List Ty → Bool
  | [], [] => true
  | a :: as, b :: bs => Ty.beq a b && Ty.beqList as bs
  | _, _ => false
end
instance : BEq Ty := ⟨Ty.beq⟩

mutual
def Val.beq : Val → Val → Bool
  | .bool a, .bool b => a == b
  | .int a, .int b => a == b
  | .str a, .str b => a == b
  | .bytes a, .bytes b => a == b
  | .arr none, .arr none => true
  | .arr (some a), .arr (some b) => Val.beqList a b
  | .struct a t, .struct b u => Val.beqList a b && Val.beqList t u
  | .records a, .records b => a == b
  | _, _ => false
def Val.beqList : List Val → List Val → Bool
  | [], [] => true
  | a :: as, b :: bs => Val.beq a b && Val.beqList as bs
  | _, _ => false
end
instance : BEq Val := ⟨Val.beq⟩

/-- `typ.Size() == 0` in `structEncodeFuncOf`: the only zero-size Go type in the tree is `struct{}`. -/
def Ty.zeroSize : Ty → Bool
  | .unit _ => true
  | _ => false

end KV.Codec

namespace KV.Codec

mutual
theorem Ty.eq_of_beq : ∀ (a b : Ty), Ty.beq a b = true → a = b
  | .bool, b, h | .int8, b, h | .int16, b, h | .int32, b, h | .int64, b, h | .float64, b, h | .records, b, h => by
    cases b <;> simp [Ty.beq] at h <;> rfl
  | .unit f, b, h => by cases b <;> simp [Ty.beq] at h; simp [h]
  | .string c n, b, h => by cases b <;> simp [Ty.beq] at h; simp [h]
  | .bytes c n, b, h => by cases b <;> simp [Ty.beq] at h; simp [h]
  | .array c n e, b, h => by
    cases b <;> simp [Ty.beq] at h
    rename_i c' n' e'
    have := Ty.eq_of_beq e e' h.2
    simp [h.1, this]
  | .struct f fs is ts, b, h => by
    cases b <;> simp [Ty.beq] at h
    rename_i f' fs' is' ts'
    have h1 := Ty.eqList_of_beq fs fs' h.1.1.2
    have h2 := Ty.eqList_of_beq ts ts' h.2
    simp [h.1.1.1, h.1.2, h1, h2]
theorem Ty.eqList_of_beq : ∀ (a b : List Ty), Ty.beqList a b = true → a = b
  | [], b, h => by cases b <;> simp [Ty.beqList] at h; rfl
  | x :: xs, b, h => by
    cases b with
    | nil => simp [Ty.beqList] at h
    | cons y ys =>
      simp only [Ty.beqList, Bool.and_eq_true] at h
      rw [Ty.eq_of_beq x y h.1, Ty.eqList_of_beq xs ys h.2]
end

end KV.Codec
