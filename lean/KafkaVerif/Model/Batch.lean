/-
Model/Batch.lean — a Conn that fetches repeatedly (`Conn.ReadBatch`, read to the end, `Close`, again) from a
broker that obeys the fetch contract (`Spec/Layout.serve`).  Core Lean only.
-/
import KafkaVerif.Model.MessageSetReader
import KafkaVerif.Spec.Layout

namespace KV.C02

/-- one fetch round at conn offset `o` with byte budget `budget` -/
def fetchOnce (v : Variant) (items : List Item) (hwm : Int) (o : Int) (budget : Nat) : List Rec × Int × Outcome :=
  readAll v false o hwm (serve items o budget)

/-- conn offsets and deliveries over a sequence of byte budgets (one per fetch); stops silently when a round does
not end with io.EOF / RequestTimedOut -/
def fetchSeq (v : Variant) (items : List Item) (hwm : Int) : Int → List Nat → List Rec × Int
  | o, [] => ([], o)
  | o, b :: bs =>
    let (d, o', _) := fetchOnce v items hwm o b
    let (ds, o'') := fetchSeq v items hwm o' bs
    (d ++ ds, o'')

def Outcome.show : Outcome → String
  | .eof => "eof"
  | .timedOut => "kafka7"
  | .unexpectedEOF => "unexpectedEOF"
  | .desync => "desync"

/-- the loop of the driver's `iter` op: fetch until the conn offset reaches the high watermark, something other
than io.EOF ends a round, the offset moves backwards, or three rounds in a row make no progress -/
def iterate (v : Variant) (items : List Item) (hwm : Int) (budgets : List Nat) :
    Nat → Nat → Nat → Int → List Rec → List Rec × Int × String
  | 0, _, _, off, acc => (acc, off, "runaway")
  | fuel + 1, n, idle, off, acc =>
    if off = hwm then (acc, off, "done")
    else if off > hwm ∨ off < 0 then (acc, off, "kafka1")
    else
      let bud := budgets.getD (n % budgets.length) 0
      let (d, noff, r) := fetchOnce v items hwm off bud
      let acc := acc ++ d
      if r ≠ .eof then (acc, noff, r.show)
      else if noff < off then (acc, noff, "backwards")
      else if d.isEmpty ∧ noff = off then
        if idle + 1 ≥ 3 then (acc, noff, "stuck") else iterate v items hwm budgets fuel (n + 1) (idle + 1) noff acc
      else iterate v items hwm budgets fuel (n + 1) 0 noff acc

end KV.C02
