/-
Model/PageHeap.lean — the pages of protocol/buffer.go WITH their bytes (core Lean only): `Model/Pages.lean` (counts,
pool, who holds what) extended by the content of every page and by the one kind of holder that writes.

  content p   ↔ `page.buffer[:page.length]`
  writer p    ↔ p is in `pb.pages` of a LIVE pageBuffer: only `pageBuffer.Write / WriteAt / ReadFrom` (and `newPage`,
                which resets `length`) store into a page; a `pageRef` (the Bytes handed out for a key or a value) only reads

Events (per page):
  `allocPage`, `reusePage i`  ↔ `newPage` by a buffer: the page gets a writer
  `write p bs`                ↔ the buffer that has p stores into it: ANY new content (enabled only for the writer; WriteAt)
  `append p bs`               ↔ `Write` / `ReadFrom` / `decoder.writeTo` of that buffer: the page's content grows at its end — the
                                only kind of store a DECODE buffer performs (readMessage of a v0/v1 set appends the next
                                message's key and value while references to the earlier ones are already handed out)
  `refTo p`                   ↔ `pageBuffer.ref / refTo`: a pageRef takes a count on p
  `unrefRef p`                ↔ a pageRef releases its count (`Bytes.Close`)
  `unrefBuf p`                ↔ the buffer releases its count (`unref` reaching 0, `Truncate`): p has no writer any more
  `poolDrop i`                ↔ the runtime drops a pooled page
`Lemmas/PageHeap.lean`: while some holder keeps a count on a page that has no writer, no run changes its bytes.
-/
import KafkaVerif.Model.Pages
import KafkaVerif.Base.Bytes

namespace KV.Model.Pages
open KV

structure HState where
  ps : PState
  content : Nat → Bytes
  writer : Nat → Bool

inductive HEvent where
  | allocPage
  | reusePage (i : Nat)
  | write (p : Nat) (bs : Bytes)
  | append (p : Nat) (bs : Bytes)
  | refTo (p : Nat)
  | unrefRef (p : Nat)
  | unrefBuf (p : Nat)
  | poolDrop (i : Nat)

def hinit : HState := ⟨init, fun _ => [], fun _ => false⟩

def upd {α : Type} (f : Nat → α) (p : Nat) (v : α) : Nat → α := fun q => if q = p then v else f q

/-- the count-level event an event stands for -/
def HEvent.base : HEvent → Option PEvent
  | .allocPage => some .allocPage
  | .reusePage i => some (.reusePage i)
  | .write _ _ => none
  | .append _ _ => none
  | .refTo p => some (.ref p)
  | .unrefRef p => some (.unref p)
  | .unrefBuf p => some (.unref p)
  | .poolDrop i => some (.poolDrop i)

def hstep (s : HState) : HEvent → Option HState
  | .allocPage =>
    match step s.ps .allocPage with
    | none => none
    | some ps' => some ⟨ps', upd s.content s.ps.fresh [], upd s.writer s.ps.fresh true⟩
  | .reusePage i =>
    match s.ps.pool[i]? with
    | none => none
    | some p =>
      match step s.ps (.reusePage i) with
      | none => none
      | some ps' => some ⟨ps', upd s.content p [], upd s.writer p true⟩     -- `p.length = 0`
  | .write p bs => if s.writer p then some { s with content := upd s.content p bs } else none
  | .append p bs => if s.writer p then some { s with content := upd s.content p (s.content p ++ bs) } else none
  | .refTo p =>
    match step s.ps (.ref p) with
    | none => none
    | some ps' => some { s with ps := ps' }
  | .unrefRef p =>
    -- a pageRef's own count: the buffer's count (if the page still has its writer) stays
    if (if s.writer p then 2 else 1) ≤ s.ps.held.count p then
      match step s.ps (.unref p) with
      | none => none
      | some ps' => some { s with ps := ps' }
    else none
  | .unrefBuf p =>
    if s.writer p then
      match step s.ps (.unref p) with
      | none => none
      | some ps' => some ⟨ps', s.content, upd s.writer p false⟩
    else none
  | .poolDrop i =>
    match step s.ps (.poolDrop i) with
    | none => none
    | some ps' => some { s with ps := ps' }

/-- no arbitrary overwrite of page `p` in a list of events (appends are allowed) -/
def noOverwrite (p : Nat) : List HEvent → Bool
  | [] => true
  | .write q _ :: es => decide (q ≠ p) && noOverwrite p es
  | _ :: es => noOverwrite p es

def hrun (s : HState) : List HEvent → Option HState
  | [] => some s
  | e :: es => match hstep s e with
    | none => none
    | some s' => hrun s' es

end KV.Model.Pages
