/-
Model/VarIntRead.lean — read.go `readVarInt` with the buffer refills spelled out (core Lean only).

`readVarInt(r, sz, &v)` decodes a zig-zag varint from a bufio.Reader under the byte budget `sz`.  It works on what
happens to be BUFFERED (`r.Peek(r.Buffered())`), cut to `sz`:
  * a byte < 0x80 among them ends the number: `r.Discard(i+1)`, return `sz − n`;
  * otherwise every byte seen is a continuation byte: `r.Discard(len(input))`, `sz −= n`, `errShortRead` if the budget is
    used up; then `r.Peek(1)` blocks until more bytes arrive (EOF → errShortRead, remain `sz`) and the loop goes on with
    the new window, the partial value kept in `x`, `s`.
How many bytes are buffered at each turn is up to the network (TCP segmentation, the 4 KiB bufio buffer): the model
takes the window sizes as an arbitrary list `ws` (a missing or zero entry after a refill counts as 1: `Peek(1)`
returned, so at least one byte is there).

`Model/WireProg.lean` treats the varint reader as a primitive that conserves bytes (`Prim.varint`); here that is
PROVED for the algorithm itself, refill branch included, for every window schedule — the branch seed C06-m7 broke
(`sz −= n` dropped: the budget stays 1–2 bytes too high and `Batch.close` later discards them out of the next response).
-/
import KafkaVerif.Base.Reader

namespace KV.VarIntRead
open KV KV.Reader

/-- index of the first byte < 0x80 in the window, if any -/
def findEnd : Bytes → Option Nat
  | [] => none
  | b :: rest => if b < 0x80 then some 0 else (findEnd rest).map (· + 1)

/-- accumulate continuation / final bytes into the unsigned value (`x |= uint64(b&0x7f) << s`) -/
def accum (x : Nat) (s : Nat) : Bytes → Nat × Nat
  | [] => (x, s)
  | b :: rest => accum (x ||| (((b.toNat &&& 0x7f) <<< s) % 18446744073709551616)) (s + 7) rest

/-- zig-zag decoding of the 64-bit pattern: `int64(x>>1) ^ -(int64(x)&1)` -/
def zigzag (x : Nat) : Int :=
  if x % 2 = 0 then Int.ofNat (x / 2) else -(Int.ofNat (x / 2)) - 1

/-- one run of `readVarInt`: `ws` = how many bytes are buffered at each turn of the loop -/
def readVarIntW : (fuel : Nat) → (ws : List Nat) → (first : Bool) → (x s : Nat) → RS → Except Err Int × RS
  | 0, _, _, _, _, st => (.error (.other "readVarInt: fuel"), st)
  | fuel + 1, ws, first, x, s, st =>
    -- the window: what is buffered (at least one byte after a refill), cut to the budget
    let w := match ws with | [] => (if first then 0 else 1) | w :: _ => (if first then w else max w 1)
    let input := st.inp.take (min (min w st.inp.length) st.sz)
    match findEnd input with
    | some i =>
      -- `n, err := r.Discard(i + 1); return sz - n, err`
      let (x', _) := accum x s (input.take (i + 1))
      (.ok (zigzag x'), ⟨st.inp.drop (i + 1), st.sz - (i + 1)⟩)
    | none =>
      let (x', s') := accum x s input
      -- `n, _ := r.Discard(len(input)); sz -= n`
      let st1 : RS := ⟨st.inp.drop input.length, st.sz - input.length⟩
      if st1.sz = 0 then (.error .shortRead, st1)
      -- `r.Peek(1)`: EOF → errShortRead, the budget as it stands
      else if st1.inp = [] then (.error .shortRead, st1)
      else readVarIntW fuel ws.tail false x' s' st1

def readVarInt (fuel : Nat) (ws : List Nat) : R Int := readVarIntW fuel ws true 0 0

theorem findEnd_lt {l : Bytes} {i : Nat} (h : findEnd l = some i) : i < l.length := by
  induction l generalizing i with
  | nil => simp [findEnd] at h
  | cons b rest ih =>
    simp only [findEnd] at h
    split at h
    · simp at h; subst h; simp
    · cases hr : findEnd rest with
      | none => simp [hr] at h
      | some j => simp [hr] at h; subst h; have := ih hr; simp; omega

/-- **whatever the network does to the chunk boundaries, `readVarInt` charges to the budget exactly the bytes it takes
off the stream** — on success, on `errShortRead`, in the refill branch -/
theorem readVarIntW_adv : ∀ (fuel : Nat) (ws : List Nat) (first : Bool) (x s : Nat) (st : RS),
    Adv st (readVarIntW fuel ws first x s st).2 := by
  intro fuel
  induction fuel with
  | zero => intro ws first x s st; exact Adv.refl st
  | succ fuel ih =>
    intro ws first x s st
    simp only [readVarIntW]
    generalize hw : (match ws with | [] => (if first then 0 else 1) | w :: _ => (if first then w else max w 1)) = w
    have hlen : (st.inp.take (min (min w st.inp.length) st.sz)).length = min (min w st.inp.length) st.sz := by
      simp only [List.length_take]; omega
    cases hf : findEnd (st.inp.take (min (min w st.inp.length) st.sz)) with
    | some i =>
      have hi := findEnd_lt hf
      rw [hlen] at hi
      simp only
      refine ⟨st.inp.take (i + 1), (List.take_append_drop _ _).symm, ?_⟩
      simp only [List.length_take]; omega
    | none =>
      simp only
      have hstep : Adv st ⟨st.inp.drop (st.inp.take (min (min w st.inp.length) st.sz)).length,
          st.sz - (st.inp.take (min (min w st.inp.length) st.sz)).length⟩ := by
        refine ⟨st.inp.take (st.inp.take (min (min w st.inp.length) st.sz)).length, (List.take_append_drop _ _).symm, ?_⟩
        simp only [List.length_take]; omega
      split
      · exact hstep
      · split
        · exact hstep
        · exact Adv.trans hstep (ih _ _ _ _ _)

theorem readVarInt_conserves (fuel : Nat) (ws : List Nat) : Conserves (readVarInt fuel ws) :=
  fun st => readVarIntW_adv fuel ws true 0 0 st

end KV.VarIntRead
