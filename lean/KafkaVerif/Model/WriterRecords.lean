/-
Model/WriterRecords.lean — `writerRecords.ReadRecord` (writer.go): how the messages of a batch become the records handed
to the encoder.  The Writer reuses ONE `Record` value and two byte readers for all records of a request; Key / Value
are interfaces that are nil for a nil `Message.Key` / `Message.Value` (encoded as null: length -1) and point to the
reader otherwise.  The model keeps exactly what matters for the wire: for Key and Value, null or the bytes read.
-/
import KafkaVerif.Base.Bytes

namespace KV.WriterRecords
open KV

/-- key and value of a message as given to WriteMessages (none = nil slice) -/
structure Content where
  key : Option Bytes
  value : Option Bytes
  deriving DecidableEq, Repr

/-- what the encoder reads from the reused record: none = nil interface (null on the wire), some bs = a reader yielding bs -/
structure Slot where
  key : Option Bytes
  value : Option Bytes
  deriving DecidableEq, Repr

def Slot.clean : Slot := { key := none, value := none }

/-- one ReadRecord call.  `reset` = the code starts the record from a clean slate.  Without it a field the message
leaves nil keeps the pointer of the previous call, i.e. a reader the encoder has already drained: it reads as EMPTY
(not null). -/
def readRecord (reset : Bool) (prev : Slot) (m : Content) : Slot :=
  let base : Slot := if reset then Slot.clean else { key := prev.key.map (fun _ => []), value := prev.value.map (fun _ => []) }
  { key := match m.key with
      | some k => some k
      | none => base.key,
    value := match m.value with
      | some v => some v
      | none => base.value }

/-- the records of one request, in order -/
def readAll (reset : Bool) : Slot → List Content → List Slot
  | _, [] => []
  | prev, m :: ms => readRecord reset prev m :: readAll reset (readRecord reset prev m) ms

def asGiven (m : Content) : Slot := { key := m.key, value := m.value }

/-- with the reset every record is the message as given, whatever came before it -/
theorem readRecord_reset (prev : Slot) (m : Content) : readRecord true prev m = asGiven m := by
  cases m with
  | mk k v => cases k <;> cases v <;> rfl

theorem readAll_reset : ∀ (prev : Slot) (ms : List Content), readAll true prev ms = ms.map asGiven
  | _, [] => rfl
  | prev, m :: ms => by
    simp only [readAll, List.map_cons, readRecord_reset]
    rw [readAll_reset]

end KV.WriterRecords
