/-
Model/RecordWriter.lean — executable models of kafka-go's record-batch WRITERS (core Lean only).

  protocol path (Client.Produce / Writer):
    `sizeOfUnsignedVarInt`, `sizeOfVarInt`, `sizeOfVarNullBytes(Iface)`, `sizeOfVarString`  ↔ protocol/size.go
    `recordV2`, `writeV2`     ↔ protocol/record_v2.go `(*RecordSet).writeToVersion2` (uncompressed: the record
                                loop writes straight into the page buffer; header placeholders are back-patched:
                                lastOffsetDelta@23 firstTimestamp@27 maxTimestamp@35 numRecords@57
                                batchLength@8 crc@17, crc = CRC-32C of bytes 21..end)
    `messageV1`, `writeV1`    ↔ protocol/record_v1.go `writeToVersion1` (uncompressed)
  Conn path (Conn.WriteMessages, produce v3/v7):
    `varIntLen`               ↔ write.go `varIntLen`
    `recordSize`              ↔ recordbatch.go `recordSize`
    `legacyRecord`            ↔ write.go `writeRecord`
    `recordBatchSize`         ↔ recordbatch.go `recordBatchSize`
    `legacyBatch`             ↔ recordbatch.go `(*recordBatch).writeTo` + write.go `writeRecordBatch` (uncompressed)
    `legacyMessage`, `legacyMessageSet`, `messageSetSize` ↔ write.go `writeMessage`, produce v2 loop, `messageSetSize`

Times: the protocol path takes `timestamp(r.Time)` (milliseconds; 0 = zero time, replaced by `now`);
the Conn path takes `time.Time` as nanoseconds since the epoch (`UnixNano`), non-zero.
Go integer conversions that could wrap (`int32(offsetDelta)`, `int32(size)`) are not modelled: the theorems
assume fewer than 2^31 records / bytes, as a real request has.
-/
import KafkaVerif.Base.RecWire
import KafkaVerif.Spec.RecordBatch
import KafkaVerif.Gen.SizeFns

namespace KV.Model.RecordWriter
open KV KV.RW
open KV.Spec.RB (Hdr)

/-- a record handed to a producer API -/
structure PRec where
  time : Int
  key : Option Bytes
  value : Option Bytes
  headers : List Hdr
  deriving DecidableEq, Repr

/-! ### protocol/size.go -/

/-- `bits.Len64` -/
def bitLen (n : Nat) : Nat := if n = 0 then 0 else 1 + bitLen (n / 2)
termination_by n
decreasing_by omega

/-- `sizeOfUnsignedVarInt(i) = (bits.Len64(i|1) + 6) / 7` -/
def sizeOfUnsignedVarInt (u : Nat) : Nat := (bitLen (if u = 0 then 1 else u) + 6) / 7

/-- `sizeOfVarInt`; `uint64((i << 1) ^ (i >> 63))` is the zig-zag map on int64 -/
def sizeOfVarInt (i : Int) : Nat := sizeOfUnsignedVarInt (zigzag i)

/-- the sizing function a helper of protocol/size.go applies to a length, BY ITS NAME AS FOUND IN THE SOURCE NOW
(Gen/SizeFns, regenerated on every run): the zig-zag `sizeOfVarInt`, or `sizeOfUnsignedVarInt` -/
def prefixSize (fn : String) (n : Int) : Nat :=
  if fn = "sizeOfVarInt" then sizeOfVarInt n else sizeOfUnsignedVarInt n.toNat

/-- likewise the integer writer an encoder of protocol/encode.go uses for a length: `writeVarInt` (zig-zag) or
`writeUnsignedVarInt` -/
def prefixBytes (fn : String) (n : Int) : Bytes :=
  if fn = "writeVarInt" then varint n else uvarint n.toNat

def nth (l : List String) (i : Nat) : String := (l[i]?).getD ""

/-- `sizeOfVarNullBytes` (header values): `if b == nil { return <calls[0]>(-1) }; return <calls[1]>(len) + len` -/
def sizeOfVarNullBytes : Option Bytes → Nat
  | none => prefixSize (nth Gen.SizeFns.varNullBytesCalls 0) (-1)
  | some b => prefixSize (nth Gen.SizeFns.varNullBytesCalls 1) (b.length : Int) + b.length

/-- `sizeOfVarNullBytesIface` (keys and values) -/
def sizeOfVarNullBytesIface : Option Bytes → Nat
  | none => prefixSize (nth Gen.SizeFns.varNullBytesIfaceCalls 0) (-1)
  | some b => prefixSize (nth Gen.SizeFns.varNullBytesIfaceCalls 1) (b.length : Int) + b.length

/-- `sizeOfVarString` (header keys) -/
def sizeOfVarString (s : Bytes) : Nat := prefixSize (nth Gen.SizeFns.varStringCalls 0) (s.length : Int) + s.length

/-! ### protocol/encode.go pieces used by the record writers -/

/-- `writeVarNullBytes` (header values) -/
def writeVarNullBytes : Option Bytes → Bytes
  | none => prefixBytes (nth Gen.SizeFns.writeVarNullBytesCalls 0) (-1)
  | some b => prefixBytes (nth Gen.SizeFns.writeVarNullBytesCalls 1) (b.length : Int) ++ b

/-- `writeVarNullBytesFrom` (keys and values) -/
def writeVarNullBytesFrom : Option Bytes → Bytes
  | none => prefixBytes (nth Gen.SizeFns.writeVarNullBytesFromCalls 0) (-1)
  | some b => prefixBytes (nth Gen.SizeFns.writeVarNullBytesFromCalls 1) (b.length : Int) ++ b

/-- `writeVarString(h.Key)` then `writeVarNullBytes(h.Value)` -/
def writeHeader (h : Hdr) : Bytes :=
  prefixBytes (nth Gen.SizeFns.writeVarStringCalls 0) (h.key.length : Int) ++ (h.key ++ writeVarNullBytes h.value)

def writeHeaders : List Hdr → Bytes
  | [] => []
  | h :: hs => writeHeader h ++ writeHeaders hs

def headersSize : List Hdr → Nat
  | [] => 0
  | h :: hs => sizeOfVarString h.key + sizeOfVarNullBytes h.value + headersSize hs

/-! ### protocol/record_v2.go writeToVersion2 -/

/-- the body of `forEachRecord`'s callback for record `i` with effective timestamp `t` -/
def recordV2 (first : Int) (i : Nat) (t : Int) (r : PRec) : Bytes :=
  let timestampDelta := t - first
  let offsetDelta : Int := i
  let length := 1 + sizeOfVarInt timestampDelta + sizeOfVarInt offsetDelta + sizeOfVarNullBytesIface r.key +
    sizeOfVarNullBytesIface r.value + sizeOfVarInt (r.headers.length : Int) + headersSize r.headers
  varint (length : Int) ++ (0 :: (varint timestampDelta ++ (varint offsetDelta ++ (writeVarNullBytesFrom r.key ++
    (writeVarNullBytesFrom r.value ++ (varint (r.headers.length : Int) ++ writeHeaders r.headers))))))

/-- `t := timestamp(r.Time); if t == 0 { t = currentTimestamp }` -/
def effTime (now : Int) (r : PRec) : Int := if r.time = 0 then now else r.time

def recordsV2 (now first : Int) : Nat → List PRec → Bytes
  | _, [] => []
  | i, r :: rs => recordV2 first i (effTime now r) r ++ recordsV2 now first (i + 1) rs

/-- `maxTimestamp` starts at 0 and only grows -/
def maxTime (now : Int) : Int → List PRec → Int
  | m, [] => m
  | m, r :: rs => maxTime now (if effTime now r > m then effTime now r else m) rs

/-- the 61-byte header after back-patching, followed by the records; `none` = `ErrNoRecord` -/
def writeV2 (crc : Bytes → Nat) (attributes now : Int) (recs : List PRec) : Option Bytes :=
  match recs with
  | [] => none
  | r0 :: _ =>
    let firstTimestamp := effTime now r0
    let maxTimestamp := maxTime now 0 recs
    let numRecords := recs.length
    let lastOffsetDelta : Int := (numRecords : Int) - 1
    let records := recordsV2 now firstTimestamp 0 recs
    let crcRegion := i16 attributes ++ (i32 lastOffsetDelta ++ (i64 firstTimestamp ++ (i64 maxTimestamp ++
      (i64 (-1) ++ (i16 (-1) ++ (i32 (-1) ++ (i32 (numRecords : Int) ++ records)))))))
    let totalLength := 21 + crcRegion.length
    let batchLength := totalLength - 12
    some (i64 0 ++ (i32 (batchLength : Int) ++ (i32 (-1) ++ (i8 2 ++ (u32 (crc crcRegion) ++ crcRegion)))))

/-- `writeToVersion2` with a compressor (`rs.Attributes.Compression() != 0` and the codec is installed): the record
loop writes through `compressor`, `compressor.Close()`, then the same back-patching; the CRC covers attributes..end
INCLUDING the compressed bytes.  `comp` = what the compressor emitted for the concatenated records. -/
def writeV2C (crc : Bytes → Nat) (comp : Bytes → Bytes) (attributes now : Int) (recs : List PRec) : Option Bytes :=
  match recs with
  | [] => none
  | r0 :: _ =>
    let firstTimestamp := effTime now r0
    let maxTimestamp := maxTime now 0 recs
    let numRecords := recs.length
    let lastOffsetDelta : Int := (numRecords : Int) - 1
    let records := comp (recordsV2 now firstTimestamp 0 recs)
    let crcRegion := i16 attributes ++ (i32 lastOffsetDelta ++ (i64 firstTimestamp ++ (i64 maxTimestamp ++
      (i64 (-1) ++ (i16 (-1) ++ (i32 (-1) ++ (i32 (numRecords : Int) ++ records)))))))
    let totalLength := 21 + crcRegion.length
    let batchLength := totalLength - 12
    some (i64 0 ++ (i32 (batchLength : Int) ++ (i32 (-1) ++ (i8 2 ++ (u32 (crc crcRegion) ++ crcRegion)))))

/-! ### protocol/record_v1.go writeToVersion1 (uncompressed) -/

def writeNullBytes : Option Bytes → Bytes
  | none => i32 (-1)
  | some b => i32 (b.length : Int) ++ b

def messageV1 (crc : Bytes → Nat) (attributes now : Int) (i : Nat) (r : PRec) : Bytes :=
  let t := effTime now r
  let body := i8 1 ++ (i8 attributes ++ (i64 t ++ (writeNullBytes r.key ++ writeNullBytes r.value)))
  -- size = buffer.Size() - (messageOffset + 12)
  i64 (i : Int) ++ (i32 ((4 + body.length : Nat) : Int) ++ (u32 (crc body) ++ body))

def writeV1 (crc : Bytes → Nat) (attributes now : Int) : Nat → List PRec → Bytes
  | _, [] => []
  | i, r :: rs => messageV1 crc attributes now i r ++ writeV1 crc attributes now (i + 1) rs

/-- `writeToVersion1` with a compressor: the uncompressed set (attributes with the codec bits erased: `&^ 7`) is
rendered, compressed, the buffer truncated, and ONE wrapper message written: offset `int64(0)`, the original
attributes, zero `Record.Time` → `currentTimestamp`, nil key, value = the compressed bytes. -/
def writeV1C (crc : Bytes → Nat) (comp : Bytes → Bytes) (attributes now : Int) (recs : List PRec) : Bytes :=
  let inner := writeV1 crc (attributes - attributes % 8) now 0 recs
  messageV1 crc attributes now 0 ⟨0, none, some (comp inner), []⟩

/-! ### Conn path: write.go / recordbatch.go -/

/-- `varIntLen`: count the 7-bit groups of the zig-zag value -/
def varIntLen (i : Int) : Nat := uvarintLen (zigzag i)

def varBytesLen (b : Option Bytes) : Nat := varIntLen ((Spec.RB.optLen b : Nat) : Int) + Spec.RB.optLen b

def varStringLen (s : Bytes) : Nat := varIntLen (s.length : Int) + s.length

def headersLen : List Hdr → Nat
  | [] => 0
  | h :: hs => varStringLen h.key + varBytesLen h.value + headersLen hs

def nanosPerMilli : Int := 1000000

/-- `timestamp(t)` = `t.UnixNano() / int64(time.Millisecond)` (Go division truncates towards zero) -/
def timestampOf (nanos : Int) : Int := Int.tdiv nanos nanosPerMilli

def maxTimeoutNanos : Int := 2147483647 * 1000000
def minTimeoutNanos : Int := -2147483648 * 1000000

/-- `milliseconds(d)`: clamp to the int32 range of milliseconds, then truncate -/
def millisecondsOf (d : Int) : Int :=
  let d := if d > maxTimeoutNanos then maxTimeoutNanos else if d < minTimeoutNanos then minTimeoutNanos else d
  Int.tdiv d nanosPerMilli

/-- the timestamp delta written for a record.
`old` = the pinned code before the D6 repair: `milliseconds(msg.Time.Sub(baseTime))`;
current code: difference of the two millisecond timestamps. -/
def tsDeltaOld (base t : Int) : Int := millisecondsOf (t - base)
def tsDelta (base t : Int) : Int := timestampOf t - timestampOf base

/-- `recordSize(msg, timestampDelta, offsetDelta)` -/
def recordSize (delta : Int) (i : Nat) (r : PRec) : Nat :=
  1 + varIntLen delta + varIntLen (i : Int) + varBytesLen r.key + varBytesLen r.value +
    (varIntLen (r.headers.length : Int) + headersLen r.headers)

/-- `writeRecord(attributes = 0, baseTime, offset = i, msg)` given the delta function in force -/
def legacyRecordWith (delta : Int → Int → Int) (base : Int) (i : Nat) (r : PRec) : Bytes :=
  let d := delta base r.time
  varint ((recordSize d i r : Nat) : Int) ++ (0 :: (varint d ++ (varint (i : Int) ++ (writeVarNullBytes r.key ++
    (writeVarNullBytes r.value ++ (varint (r.headers.length : Int) ++ writeHeaders r.headers))))))

def legacyRecordsWith (delta : Int → Int → Int) (base : Int) : Nat → List PRec → Bytes
  | _, [] => []
  | i, r :: rs => legacyRecordWith delta base i r ++ legacyRecordsWith delta base (i + 1) rs

/-- `recordBatchSize(msgs...)` -/
def recordBatchSizeWith (delta : Int → Int → Int) (base : Int) : Nat → List PRec → Nat
  | _, [] => 61
  | i, r :: rs =>
    let msz := recordSize (delta base r.time) i r
    msz + varIntLen (msz : Int) + recordBatchSizeWith delta base (i + 1) rs

def lastTime : Int → List PRec → Int
  | d, [] => d
  | _, r :: rs => lastTime r.time rs

/-- `(*recordBatch).writeTo` without the int32 size prefix + `writeRecordBatch` (uncompressed) -/
def legacyBatchWith (delta : Int → Int → Int) (crc : Bytes → Nat) (recs : List PRec) : Bytes :=
  match recs with
  | [] => []   -- Go indexes msgs[0]: WriteMessages returns early for no messages
  | r0 :: _ =>
    let base := r0.time
    let size := recordBatchSizeWith delta base 0 recs
    let count := recs.length
    let crcRegion := i16 0 ++ (i32 ((count : Int) - 1) ++ (i64 (timestampOf base) ++ (i64 (timestampOf (lastTime base recs)) ++
      (i64 (-1) ++ (i16 (-1) ++ (i32 (-1) ++ (i32 (count : Int) ++ legacyRecordsWith delta base 0 recs)))))))
    i64 0 ++ (i32 ((size : Int) - 12) ++ (i32 (-1) ++ (i8 2 ++ (u32 (crc crcRegion) ++ crcRegion))))

/-- `compressRecordBatch` + `(*recordBatch).writeTo` with `r.compressed != nil`: every record goes through the
compressor (`writeRecord(0, msgs[0].Time, i, msg)`), `size = recordBatchHeaderSize + compressed.Len()`,
attributes = the codec's code -/
def legacyBatchC (crc : Bytes → Nat) (comp : Bytes → Bytes) (code : Int) (recs : List PRec) : Bytes :=
  match recs with
  | [] => []
  | r0 :: _ =>
    let base := r0.time
    let compressed := comp (legacyRecordsWith tsDelta base 0 recs)
    let size := 61 + compressed.length
    let count := recs.length
    let crcRegion := i16 code ++ (i32 ((count : Int) - 1) ++ (i64 (timestampOf base) ++ (i64 (timestampOf (lastTime base recs)) ++
      (i64 (-1) ++ (i16 (-1) ++ (i32 (-1) ++ (i32 (count : Int) ++ compressed)))))))
    i64 0 ++ (i32 ((size : Int) - 12) ++ (i32 (-1) ++ (i8 2 ++ (u32 (crc crcRegion) ++ crcRegion))))

def legacyBatch := legacyBatchWith tsDelta
def legacyBatchOld := legacyBatchWith tsDeltaOld

/-- `writeMessage(offset, attributes, time, key, value)` (magic 1) -/
def legacyMessage (crc : Bytes → Nat) (offset attributes : Int) (r : PRec) : Bytes :=
  let body := i8 1 ++ (i8 attributes ++ (i64 (timestampOf r.time) ++ (writeNullBytes r.key ++ writeNullBytes r.value)))
  let size := 4 + 1 + 1 + 8 + (4 + Spec.RB.optLen r.key) + (4 + Spec.RB.optLen r.value)   -- `messageSize`
  i64 offset ++ (i32 (size : Int) ++ (u32 (crc body) ++ body))

/-- `writeProduceRequestV2` message set: uncompressed = one `writeMessage(msg.Offset, 0, …)` per message -/
def legacyMessageSet (crc : Bytes → Nat) : List PRec → Bytes
  | [] => []
  | r :: rs => legacyMessage crc 0 0 r ++ legacyMessageSet crc rs

/-- `compressMessageSet`: inner messages with offsets 0,1,… and attributes 0 -/
def legacyInner (crc : Bytes → Nat) : Nat → List PRec → Bytes
  | _, [] => []
  | i, r :: rs => legacyMessage crc (i : Int) 0 r ++ legacyInner crc (i + 1) rs

/-- the wrapper `Message{Value: compressed}`: offset 0, attributes = codec code, zero time (timestamp 0), nil key -/
def legacyWrapper (crc : Bytes → Nat) (comp : Bytes → Bytes) (code : Int) (recs : List PRec) : Bytes :=
  let v := comp (legacyInner crc 0 recs)
  let body := i8 1 ++ (i8 code ++ (i64 0 ++ (writeNullBytes none ++ writeNullBytes (some v))))
  let size := 4 + 1 + 1 + 8 + (4 + 0) + (4 + v.length)
  i64 0 ++ (i32 (size : Int) ++ (u32 (crc body) ++ body))

end KV.Model.RecordWriter
