/-
Model/GroupBalancer.lean — executable model of /repo/groupbalancer.go (core Lean only).

Go ↔ Lean
  GroupMember{ID, Topics, UserData}      ↔ `Member{id, topics, zone}`   (ids / topics / racks are opaque
                                            keys: the Go code only compares ids with `<`/`==` and topics and
                                            racks with `==`; the oracle maps Go strings to `Nat` by an
                                            order-preserving injection, see Oracle/C14.lean)
  Partition{Topic, ID, Leader.Rack}      ↔ `Part{topic, id, zone}`
  findPartitions                         ↔ `findPartitions`
  findMembersByTopic (one map key)       ↔ `findMembersByTopic ms t` = `sortById (appendByTopic t ms)`
                                            (`sort.Slice` by ID, modelled as insertion sort; for distinct ids
                                            every sort gives the same list, for equal ids the result of the
                                            balancers does not depend on their relative order because the output
                                            is keyed by id)
  RangeGroupBalancer.AssignGroups        ↔ `rangeAssign ms ps t id`  (= groupAssignments[id][t], `[]` if absent)
  RoundRobinGroupBalancer.AssignGroups   ↔ `rrAssign ms ps t id`
  (*RackAffinityGroupBalancer).assignTopic ↔ `rackAssignTopic` (Option: `none` = a slice/index expression that
                                            would be out of range in Go), map iteration orders are parameters
  RackAffinityGroupBalancer.AssignGroups ↔ `rackAssign`
-/
namespace KV.GroupBalancer

structure Member where
  id : Nat
  topics : List Nat
  zone : Nat
deriving DecidableEq, Repr, Inhabited

structure Part where
  topic : Nat
  id : Int
  zone : Nat
deriving DecidableEq, Repr, Inhabited

/-- `findPartitions`: ids of the listed partitions of `t`, in listed order -/
def findPartitions (t : Nat) : List Part → List Int
  | [] => []
  | p :: ps => if p.topic = t then p.id :: findPartitions t ps else findPartitions t ps

/-- first loop of `findMembersByTopic`, the slice stored under key `t`: one copy of the member per occurrence
of `t` in its topic list, in listing order -/
def appendByTopic (t : Nat) : List Member → List Member
  | [] => []
  | m :: ms => (m.topics.filter (· == t)).map (fun _ => m) ++ appendByTopic t ms

def insertById (m : Member) : List Member → List Member
  | [] => [m]
  | x :: xs => if m.id ≤ x.id then m :: x :: xs else x :: insertById m xs

/-- `sort.Slice(members, func(i, j) { return members[i].ID < members[j].ID })` -/
def sortById : List Member → List Member
  | [] => []
  | m :: ms => insertById m (sortById ms)

/-- `findMembersByTopic(members)[t]` -/
def findMembersByTopic (ms : List Member) (t : Nat) : List Member := sortById (appendByTopic t ms)

/-- inner loop `for partitionIndex, partition := range partitions { if sel partitionIndex { append } }`
with the running index `j` -/
def pick (sel : Nat → Bool) : Nat → List Int → List Int
  | _, [] => []
  | j, p :: ps => if sel j then p :: pick sel (j + 1) ps else pick sel (j + 1) ps

/-- member loop `for memberIndex, member := range members`: the appends made to
`groupAssignments[member.ID][topic]`, in order, `i` the running member index -/
def assignGo (sel : Nat → Nat → Bool) (parts : List Int) : Nat → List Member → List (Nat × List Int)
  | _, [] => []
  | i, m :: rest => (m.id, pick (sel i) 0 parts) :: assignGo sel parts (i + 1) rest

/-- the value of `groupAssignments[id][topic]` after the appends `es` -/
def collect (id : Nat) (es : List (Nat × List Int)) : List Int :=
  (es.filter (·.1 == id)).flatMap (·.2)

/-- Range: `partitionIndex >= minIndex && partitionIndex < maxIndex` -/
def rangeSel (M P : Nat) (i j : Nat) : Bool :=
  decide (i * P / M ≤ j) && decide (j < (i + 1) * P / M)

/-- RoundRobin: `(partitionIndex % memberCount) == memberIndex` -/
def rrSel (M : Nat) (i j : Nat) : Bool := j % M == i

def rangeTopic (sub : List Member) (parts : List Int) : List (Nat × List Int) :=
  assignGo (rangeSel sub.length parts.length) parts 0 sub

def rrTopic (sub : List Member) (parts : List Int) : List (Nat × List Int) :=
  assignGo (rrSel sub.length) parts 0 sub

/-- `RangeGroupBalancer{}.AssignGroups(ms, ps)[id][t]` -/
def rangeAssign (ms : List Member) (ps : List Part) (t id : Nat) : List Int :=
  collect id (rangeTopic (findMembersByTopic ms t) (findPartitions t ps))

/-- `RoundRobinGroupBalancer{}.AssignGroups(ms, ps)[id][t]` -/
def rrAssign (ms : List Member) (ps : List Part) (t id : Nat) : List Int :=
  collect id (rrTopic (findMembersByTopic ms t) (findPartitions t ps))

end KV.GroupBalancer
