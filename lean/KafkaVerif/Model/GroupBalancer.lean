/-
Model/GroupBalancer.lean — executable model of /repo/groupbalancer.go (core Lean only).

Go ↔ Lean
  GroupMember{ID, Topics, UserData}      ↔ `Member{id, topics, zone}`   (ids / topics / racks are opaque
                                            keys: the Go code only compares ids with `<`/`==` and topics and
                                            racks with `==`; the oracle maps Go strings to `Nat` by an
                                            order-preserving injection, see Oracle/C14.lean)
  Partition{Topic, ID, Leader.Rack}      ↔ `Part{topic, id, zone}`
  findPartitions                         ↔ `findPartitions`
  findMembersByTopic (one map key)       ↔ `findMembersByTopic ms t` = `sortById (appendByTopic t ms)` (a topic a member
                                            lists twice counts once: `topicListedBefore` ↔ `firstListings`)
                                            (`sort.Slice` by ID, modelled as insertion sort; for distinct ids
                                            every sort gives the same list, for equal ids the result of the
                                            balancers does not depend on their relative order because the output
                                            is keyed by id)
  RangeGroupBalancer.AssignGroups        ↔ `rangeAssign ms ps t id`  (= groupAssignments[id][t], `[]` if absent)
  RoundRobinGroupBalancer.AssignGroups   ↔ `rrAssign ms ps t id`
  (*RackAffinityGroupBalancer).assignTopic ↔ `rackAssignTopic` (Option: `none` = a slice/index expression that
                                            would be out of range in Go), map iteration orders are parameters
  RackAffinityGroupBalancer.AssignGroups ↔ `rackAssign`
-/
namespace KV.GroupBalancer

structure Member where
  id : Nat
  topics : List Nat
  zone : Nat
deriving DecidableEq, Repr, Inhabited

structure Part where
  topic : Nat
  id : Int
  zone : Nat
deriving DecidableEq, Repr, Inhabited

/-- `findPartitions`: ids of the listed partitions of `t`, in listed order -/
def findPartitions (t : Nat) : List Part → List Int
  | [] => []
  | p :: ps => if p.topic = t then p.id :: findPartitions t ps else findPartitions t ps

/-- the entries of a member's topic list that count: `Topics[i]` unless `topicListedBefore(Topics, i)`, i.e. unless it
already occurs in `Topics[:i]` (`pre` = the part of the list already walked over) -/
def firstListings : List Nat → List Nat → List Nat
  | _, [] => []
  | pre, x :: xs => if x ∈ pre then firstListings (pre ++ [x]) xs else x :: firstListings (pre ++ [x]) xs

/-- first loop of `findMembersByTopic` (and of `RackAffinityGroupBalancer.AssignGroups`), the slice stored under key
`t`: the member is appended once per *first* listing of `t` in its topic list, in listing order -/
def appendByTopic (t : Nat) : List Member → List Member
  | [] => []
  | m :: ms => ((firstListings [] m.topics).filter (· == t)).map (fun _ => m) ++ appendByTopic t ms

def insertById (m : Member) : List Member → List Member
  | [] => [m]
  | x :: xs => if m.id ≤ x.id then m :: x :: xs else x :: insertById m xs

/-- `sort.Slice(members, func(i, j) { return members[i].ID < members[j].ID })` -/
def sortById : List Member → List Member
  | [] => []
  | m :: ms => insertById m (sortById ms)

/-- `findMembersByTopic(members)[t]` -/
def findMembersByTopic (ms : List Member) (t : Nat) : List Member := sortById (appendByTopic t ms)

/-- inner loop `for partitionIndex, partition := range partitions { if sel partitionIndex { append } }`
with the running index `j` -/
def pick (sel : Nat → Bool) : Nat → List Int → List Int
  | _, [] => []
  | j, p :: ps => if sel j then p :: pick sel (j + 1) ps else pick sel (j + 1) ps

/-- member loop `for memberIndex, member := range members`: the appends made to
`groupAssignments[member.ID][topic]`, in order, `i` the running member index -/
def assignGo (sel : Nat → Nat → Bool) (parts : List Int) : Nat → List Member → List (Nat × List Int)
  | _, [] => []
  | i, m :: rest => (m.id, pick (sel i) 0 parts) :: assignGo sel parts (i + 1) rest

/-- the value of `groupAssignments[id][topic]` after the appends `es` -/
def collect (id : Nat) (es : List (Nat × List Int)) : List Int :=
  (es.filter (·.1 == id)).flatMap (·.2)

/-- Range: `partitionIndex >= minIndex && partitionIndex < maxIndex` -/
def rangeSel (M P : Nat) (i j : Nat) : Bool :=
  decide (i * P / M ≤ j) && decide (j < (i + 1) * P / M)

/-- RoundRobin: `(partitionIndex % memberCount) == memberIndex` -/
def rrSel (M : Nat) (i j : Nat) : Bool := j % M == i

def rangeTopic (sub : List Member) (parts : List Int) : List (Nat × List Int) :=
  assignGo (rangeSel sub.length parts.length) parts 0 sub

def rrTopic (sub : List Member) (parts : List Int) : List (Nat × List Int) :=
  assignGo (rrSel sub.length) parts 0 sub

/-- `RangeGroupBalancer{}.AssignGroups(ms, ps)[id][t]` -/
def rangeAssign (ms : List Member) (ps : List Part) (t id : Nat) : List Int :=
  collect id (rangeTopic (findMembersByTopic ms t) (findPartitions t ps))

/-- `RoundRobinGroupBalancer{}.AssignGroups(ms, ps)[id][t]` -/
def rrAssign (ms : List Member) (ps : List Part) (t id : Nat) : List Int :=
  collect id (rrTopic (findMembersByTopic ms t) (findPartitions t ps))

/-! ## RackAffinity

`assignTopic(members, partitions)` for one topic.  `assignments` (a Go map id → slice that is only ever appended
to) is modelled like above as the list of appends, read back with `collect`.  `zonedPartitions` /
`zonedConsumers` (maps rack → slice, filled by appending in listing order) are the functions `zoneParts` /
`zoneConsumers`.  Go iterates `zonedPartitions` twice in unspecified order: `σ₁` is the order of the zone loop,
`σ₂` the order in which the leftover slices are concatenated into `remaining`.  During the zone loop only the
current key is replaced or deleted, so every key is visited once: `σ₁`, `σ₂` are duplicate-free lists of racks.
Slice expressions `s[:n]`, `s[n:]` with `n > len(s)` and index expressions out of range give `none`.
-/

/-- `zonedPartitions[z]` after the grouping loop -/
def zoneParts (parts : List Part) (z : Nat) : List Int := (parts.filter (fun p => p.zone == z)).map (·.id)

/-- `zonedConsumers[z]` after the grouping loop -/
def zoneConsumers (members : List Member) (z : Nat) : List Nat := (members.filter (fun m => m.zone == z)).map (·.id)

/-- `for _, consumer := range consumers { assignments[consumer] = append(…, parts[:ppm]...); parts = parts[ppm:] }`:
the appends and the rest of `parts` -/
def giveEach (ppm : Nat) : List Nat → List Int → Option (List (Nat × List Int) × List Int)
  | [], parts => some ([], parts)
  | c :: cs, parts =>
    if ppm ≤ parts.length then
      match giveEach ppm cs (parts.drop ppm) with
      | some (es, left) => some ((c, parts.take ppm) :: es, left)
      | none => none
    else none

/-- `for i := 0; i < leftover; i++ { assignments[consumers[i]] = append(assignments[consumers[i]], parts[i]) }`
(`n` iterations still to go, running index `i`) -/
def giveOne (consumers : List Nat) (parts : List Int) : Nat → Nat → Option (List (Nat × List Int))
  | 0, _ => some []
  | n + 1, i =>
    match consumers[i]?, parts[i]? with
    | some c, some p =>
      match giveOne consumers parts n (i + 1) with
      | some es => some ((c, [p]) :: es)
      | none => none
    | _, _ => none

/-- body of the zone loop for one rack with at least one consumer: appends, what stays in `zonedPartitions[zone]`,
the new `remainder` -/
def zoneAlloc (target rem : Nat) (consumers : List Nat) (parts : List Int) :
    Option (List (Nat × List Int) × List Int × Nat) :=
  let ppm := if parts.length / consumers.length > target then target else parts.length / consumers.length
  match giveEach ppm consumers parts with
  | none => none
  | some (es1, parts1) =>
    let leftover0 := parts1.length
    let leftover :=
      if ppm = target then
        let l := if leftover0 > rem then rem else leftover0
        if l > consumers.length then consumers.length else l
      else leftover0
    let rem' := if ppm = target then rem - leftover else rem
    match giveOne consumers parts1 leftover 0 with
    | none => none
    | some es2 =>
      if leftover ≤ parts1.length then some (es1 ++ es2, parts1.drop leftover, rem') else none

/-- state of the zone loop: appends so far, the replaced entries of `zonedPartitions`, `remainder` -/
structure ZoneState where
  entries : List (Nat × List Int)
  left : List (Nat × List Int)
  rem : Nat

/-- the zone loop `for zone, parts := range zonedPartitions` in the order `σ₁` -/
def zoneLoop (members : List Member) (parts : List Part) (target : Nat) : List Nat → ZoneState → Option ZoneState
  | [], st => some st
  | z :: zs, st =>
    let consumers := zoneConsumers members z
    if consumers.length = 0 then zoneLoop members parts target zs st      -- `continue`
    else
      match zoneAlloc target st.rem consumers (zoneParts parts z) with
      | none => none
      | some (es, left, rem') => zoneLoop members parts target zs ⟨st.entries ++ es, st.left ++ [(z, left)], rem'⟩

/-- `zonedPartitions[z]` after the zone loop -/
def zoneLeft (parts : List Part) (left : List (Nat × List Int)) (z : Nat) : List Int :=
  match left.find? (fun e => e.1 == z) with
  | some e => e.2
  | none => zoneParts parts z

/-- the last loop `for _, member := range members`, `acc` = all appends so far -/
def finalLoop (target : Nat) : List Member → List (Nat × List Int) → Nat → List Int → Option (List (Nat × List Int))
  | [], acc, _, _ => some acc
  | m :: rest, acc, rem, remaining =>
    let assigned := collect m.id acc
    -- delta := targetPerMember - len(assigned); if delta >= 0 && remainder > 0 { delta++; remainder-- }
    let bump := decide (assigned.length ≤ target) && decide (rem > 0)
    let delta := if assigned.length ≤ target then target - assigned.length + (if bump then 1 else 0) else 0
    let rem' := if bump then rem - 1 else rem
    if delta > 0 then
      if delta ≤ remaining.length then
        finalLoop target rest (acc ++ [(m.id, remaining.take delta)]) rem' (remaining.drop delta)
      else none
    else finalLoop target rest acc rem' remaining

/-- `(*RackAffinityGroupBalancer).assignTopic(members, partitions)` as the list of appends to `assignments`;
`members` must be non-empty (Go would panic with a division by zero; `AssignGroups` never does that) -/
def rackAssignTopic (members : List Member) (parts : List Part) (σ₁ σ₂ : List Nat) : Option (List (Nat × List Int)) :=
  if members.length = 0 then none else
  let target := parts.length / members.length
  let rem := parts.length % members.length
  match zoneLoop members parts target σ₁ ⟨[], [], rem⟩ with
  | none => none
  | some st =>
    let remaining := σ₂.flatMap (zoneLeft parts st.left)
    finalLoop target members st.entries st.rem remaining

/-- `partitionsByTopic[t]` -/
def partsOfTopic (t : Nat) (ps : List Part) : List Part := ps.filter (fun p => p.topic == t)

/-- `RackAffinityGroupBalancer.AssignGroups(ms, ps)[id][t]` when the map iteration orders for topic `t` are
`σ₁ t`, `σ₂ t`; `none` = the Go code would panic -/
def rackAssign (ms : List Member) (ps : List Part) (σ₁ σ₂ : Nat → List Nat) (t id : Nat) : Option (List Int) :=
  if (appendByTopic t ms).length = 0 then some [] else
  (rackAssignTopic (appendByTopic t ms) (partsOfTopic t ps) (σ₁ t) (σ₂ t)).map (collect id)

end KV.GroupBalancer
