/-
Model/ConnVersions.lean — the version cache of a kafka.Conn (conn.go `apiVersions atomic.Value`, `loadVersions`,
`negotiateVersion`, `apiVersionMap.negotiate`), core Lean only.

A Conn asks the broker for its versions (ApiVersions v0) the first time an operation has to choose between several
versions of its request, and keeps the answer for its whole life.  This is Conn state next to the read stream: the
clause "after a broker-reported error the next operation behaves as on a fresh connection" speaks about it too — an
ApiVersions answer that carries an error code must not become the Conn's version map.

  loadVersions       cached map, or one ApiVersions exchange; `if err != nil { return nil, err }` BEFORE the map is
                     built and stored (regenerated fact `Gen.ConnLegacy.loadVersionsStrict`)
  negotiate          the highest candidate not above the broker's MaxVersion for the key (a key the broker did not
                     list has the zero ApiVersion: MaxVersion 0); −1 → "no matching versions"
  ApiVersions        returns the entries it parsed TOGETHER with a broker error code (`return r, size, Error(code)`)
-/
import KafkaVerif.Model.ConnSpecs

namespace KV.ConnVersions
open KV KV.Reader KV.ConnOps

/-- one entry of an ApiVersions response: api key, min version, max version -/
abbrev Entry := Int × Int × Int

structure VConn where
  conn : Conn
  cache : Option (List Entry)

def VConn.fresh (stream : Bytes) (id : Int) : VConn := ⟨⟨stream, id, false⟩, none⟩

/-- the (key, min, max) triples among the events of the ApiVersions parse (events are newest first) -/
def triplesOf : List Int → List Entry
  | k :: mn :: mx :: r => (k, mn, mx) :: triplesOf r
  | _ => []

def entriesOfCtx (c : Ctx) : List Entry :=
  triplesOf (c.evs.reverse.filterMap fun e => match e with | .int v => some v | _ => none)

/-- the entries `(*Conn).ApiVersions` hands back for the response at the head of the stream: the parsed list when the
parse went through (with or without a broker error code), nothing otherwise -/
def headEntries (c : Conn) : List Entry :=
  if c.closed then [] else
  match waitResponse c with
  | .ok (sz, rest) =>
    match runSteps apiVersionsParse { ver := 0 } ⟨rest, sz⟩ with
    | (.ok ctx, _) => entriesOfCtx ctx
    | _ => []
  | .error _ => []

/-- conn.go apiVersionMap.negotiate -/
def negotiate (m : List Entry) (key : Int) (cands : List Nat) : Option Nat :=
  let mx : Int := ((m.filter (·.1 == key)).getLast?.map (·.2.2)).getD 0     -- later entries overwrite earlier ones
  (cands.reverse.find? fun s => mx ≥ s)

/-- conn.go loadVersions.  `strict` = the error check precedes the caching whatever the list holds (the code as it is;
`false`: a list that came with a broker error is cached all the same — the seeded shape C11-m8). -/
def loadVersions (strict : Bool) (av : OpSpec) (topic : Bytes) (vc : VConn) : Option (List Entry) × Outcome × VConn :=
  match vc.cache with
  | some m => (some m, .ok, vc)
  | none =>
    let es := headEntries vc.conn
    let r := connDo av 0 topic vc.conn
    match r.1 with
    | .ok => (some es, .ok, ⟨r.2, some es⟩)
    | .kafka k => if !strict && !es.isEmpty then (some es, .ok, ⟨r.2, some es⟩) else (none, .kafka k, ⟨r.2, none⟩)
    | out => (none, out, ⟨r.2, none⟩)

def noMatch : Outcome := .fail (.other "no matching versions were found between the client and the broker")

/-- an exchange that negotiates its version first (negotiateVersion, then `run` at that version: a `(*Conn).do`
operation or ReadBatchWith + Batch) -/
def vRun (strict : Bool) (av : OpSpec) (key : Int) (cands : List Nat) (run : Nat → Conn → Outcome × Conn) (topic : Bytes)
    (vc : VConn) : Outcome × VConn :=
  match loadVersions strict av topic vc with
  | (none, out, vc1) => (out, vc1)
  | (some m, _, vc1) =>
    match negotiate m key cands with
    | none => (noMatch, vc1)
    | some v => ((run v vc1.conn).1, ⟨(run v vc1.conn).2, vc1.cache⟩)

def vDo (strict : Bool) (av : OpSpec) (key : Int) (cands : List Nat) (o : OpSpec) (topic : Bytes) (vc : VConn) : Outcome × VConn :=
  vRun strict av key cands (fun v c => connDo o v topic c) topic vc

def vFetch (strict : Bool) (av : OpSpec) (fixed : Bool) (offset : Int) (b : Body) (topic : Bytes) (vc : VConn) : Outcome × VConn :=
  vRun strict av 1 (Gen.ConnLegacy.versionsOf "ReadBatchWith") (fun v c => connFetch fixed v offset b c) topic vc

/-- api key and candidate versions (regenerated: the arguments of negotiateVersion) of the negotiating operations -/
def negotiating (name : String) : Option (Int × List Nat) :=
  match name with
  | "produce" => some (0, Gen.ConnLegacy.versionsOf "writeCompressedMessages")
  | "metadata" => some (3, Gen.ConnLegacy.versionsOf "ReadPartitions")
  | "joinGroup" => some (11, Gen.ConnLegacy.versionsOf "joinGroup")
  | "createTopics" => some (19, Gen.ConnLegacy.versionsOf "createTopics")
  | "deleteTopics" => some (20, Gen.ConnLegacy.versionsOf "deleteTopics")
  | "saslHandshake" => some (17, Gen.ConnLegacy.versionsOf "saslHandshake")
  | _ => none

end KV.ConnVersions
