/-
Model/TransportConn.lean — the life cycle of the connections of kafka.Transport (transport.go: connGroup.connect /
grabConn / grabConnTo / releaseConn / removeConn / closeIdleConns, (*conn).run) as a labelled transition system, core
Lean only.  The events are exactly the hook points that already exist in transport.go (`verifEvent("T.…")`):

  T.New c g        connGroup.connect created connection c of group g and hands it to the requester
  T.Grab c         grabConn / grabConnTo took c off the idle stack (under g.mutex)
  T.Recv c         (*conn).run received a request on c.reqs
  T.Done c ok nr   roundTrip returned: ok, or an error that is (nr) / is not protocol.ErrNoRecord
  T.Release c b    releaseConn: b = true pushed c on the idle stack, b = false the group is closed
  T.Remove c       the idle timer took c off the idle stack (then closes it)
  T.CloseIdle g    closeIdleConns emptied the idle stack of group g (then closes those connections)
  T.Exit c         (*conn).run returned (pc.Close())

`step` allows `Release` only after a completed exchange (ok or ErrNoRecord — nothing was written) or for a connection
that was never used; after a failed exchange only `Exit` is possible.  This is the Go code

    if err != nil { cr.res.reject(err); if !errors.Is(err, protocol.ErrNoRecord) { break } } else { cr.res.resolve(r) }
    if !c.group.releaseConn(c) { break }
-/
namespace KV.TransportConn

inductive St where
  | fresh      -- handed to a requester (after New or Grab), no request received yet
  | serving    -- Recv: an exchange is in progress
  | doneOk     -- exchange completed (ok or ErrNoRecord), not yet released
  | doneFail   -- exchange failed: the connection is in an unknown state
  | idle       -- on the idle stack of its group
  | closing    -- taken off the stack for good / group closed: reqs is being closed, run will return
  | exited     -- run returned, the network connection is closed
  deriving DecidableEq, Repr

inductive Ev where
  | new (c g : Nat)
  | grab (c : Nat)
  | recv (c : Nat)
  | done (c : Nat) (ok noRecord : Bool)
  | release (c : Nat) (kept : Bool)
  | remove (c : Nat)
  | closeIdle (g : Nat)
  | exit (c : Nat)
  deriving DecidableEq, Repr

/-- connection ↦ (group, status) -/
abbrev State := List (Nat × Nat × St)

def get (s : State) (c : Nat) : Option St :=
  match s with
  | [] => none
  | (c', _, st) :: r => if c' = c then some st else get r c

def set (s : State) (c : Nat) (st : St) : State :=
  match s with
  | [] => []
  | (c', g, st') :: r => if c' = c then (c', g, st) :: r else (c', g, st') :: set r c st

def closeGroup (s : State) (g : Nat) : State :=
  s.map fun (c, g', st) => if g' = g ∧ st = .idle then (c, g', .closing) else (c, g', st)

/-- move c from one of the statuses `from` to `to` -/
def move (s : State) (c : Nat) (frm : List St) (to : St) : Option State :=
  match get s c with
  | some st => if frm.contains st then some (set s c to) else none
  | none => none

/-- what the translator reads off transport.go `(*conn).run` (Gen.ConnLegacy.transportFacts): after a failed exchange
(other than ErrNoRecord) the loop is left BEFORE `releaseConn` is reached -/
structure TFacts where
  dropFailed : Bool
  deriving Repr, DecidableEq

def step (f : TFacts) (s : State) : Ev → Option State
  | .new c g => if (get s c).isSome then none else some ((c, g, .fresh) :: s)
  | .grab c => move s c [.idle] .fresh
  | .recv c => move s c [.fresh] .serving
  | .done c ok nr => move s c [.serving] (if ok || nr then .doneOk else .doneFail)
  | .release c true => move s c (if f.dropFailed then [.doneOk, .fresh] else [.doneOk, .doneFail, .fresh]) .idle
  | .release c false => move s c [.doneOk, .fresh] .closing
  | .remove c => move s c [.idle] .closing
  | .closeIdle g => some (closeGroup s g)
  | .exit c => move s c (if f.dropFailed then [.doneFail, .closing] else [.doneFail, .closing, .idle]) .exited

def run (f : TFacts) (s : State) : List Ev → Option State
  | [] => some s
  | e :: es => match step f s e with
    | some s' => run f s' es
    | none => none

/-- index of the first event the LTS refuses (for the oracle's diagnostics) -/
def firstRejected (f : TFacts) (s : State) : List Ev → Nat → Option Nat
  | [], _ => none
  | e :: es, i => match step f s e with
    | some s' => firstRejected f s' es (i + 1)
    | none => some i

/-- c has failed: it is waiting to exit or has exited -/
def dead (s : State) (c : Nat) : Prop := get s c = some .doneFail ∨ get s c = some .exited

/-- the event uses connection c as a live connection -/
def uses (c : Nat) : Ev → Bool
  | .new c' _ => c' == c
  | .grab c' => c' == c
  | .recv c' => c' == c
  | .done c' _ _ => c' == c
  | .release c' _ => c' == c
  | .remove c' => c' == c
  | _ => false

end KV.TransportConn
