/-
Model/Auth.lean — executable model of connection set-up with SASL (core Lean only).

Two straight-line machines, driven by what the environment answers:

  * `Path.dialer`    ↔ `dialer.go (*Dialer).connect` → `(*Dialer).authenticateSASL`
                        → `conn.go (*Conn).saslHandshake` / `(*Conn).saslAuthenticate`
                        (`negotiateVersion` → `loadVersions` → `(*Conn).ApiVersions` is the lazy
                        ApiVersions exchange in front of the handshake; `apiVersionMap.negotiate`)
  * `Path.transport` ↔ `transport.go (*connGroup).connect` → `authenticateSASL`
                        → `saslHandshakeRoundTrip` / `saslAuthenticateRoundTrip`
                        (`protocol.Conn.RoundTrip`, `ApiKey.SelectVersion`,
                        `protocol/saslauthenticate (*Request).Required / RawExchange`)

The environment is the broker (its answer to the outstanding request), the configured
`sasl.Mechanism` (the outcome of `Start` / `Next`; the mechanism's computation is abstract, see
`PlainMech` below for PLAIN) and, once the connection was handed out, the application (`use`).
`step` consumes one environment event and performs every write the Go code performs until it needs the
next answer.  Everything the client puts on the wire is appended to `log` together with the marker
`verdict` (the broker's final positive answer of the authentication exchange, flagged by the broker
itself in the event) — the observation the property is about.

A failed dial closes the connection: `Dialer.connect` calls `conn.Close()` when `authenticateSASL`
fails; `connGroup.connect` has `defer … netConn.Close()` armed until the very end.
-/
import KafkaVerif.Base.Bytes

namespace KV.Auth

inductive Path | dialer | transport
  deriving DecidableEq, Repr

/-- what the client writes on the connection -/
inductive Wire
  | apiVersions
  | saslHandshake (v : Nat)
  | saslAuthenticate (v : Nat) (token : Bytes)   -- Kafka-framed SaslAuthenticate request vN (after a v1 handshake)
  | rawToken (token : Bytes)           -- 4-byte length + opaque bytes (after a v0 handshake)
  | other (apiKey : Nat)               -- any other request
  deriving DecidableEq, Repr

def Wire.isAuth : Wire → Bool
  | .other _ => false
  | _ => true

/-- chronological observation: writes of the client and the broker's verdict -/
inductive Item
  | wrote (w : Wire)
  | verdict            -- the broker sent its final, positive answer of the authentication exchange
  deriving DecidableEq, Repr

/-- error classes of a failed dial (the canonical form the harness reduces Go errors to) -/
inductive Err
  | kafka (code : Int)   -- a `kafka.Error` (errors.As)
  | other
  deriving DecidableEq, Repr

inductive Env
  /-- ApiVersions response: error code and the advertised (min,max) of SaslHandshake (key 17) and of
      SaslAuthenticate (key 36), independently (none: not listed) -/
  | versions (err : Int) (hs : Option (Int × Int)) (auth : Option (Int × Int))
  /-- well-formed response to SaslHandshake / SaslAuthenticate / a raw token: error code, payload,
      and whether the broker regards the exchange as successfully finished with this answer -/
  | reply (err : Int) (data : Bytes) (final : Bool)
  | eof      -- the broker closed the connection: the pending read returns io.EOF
  | ioerr    -- any other failure of the pending exchange (timeout, malformed frame, id mismatch)
  | mechStart (tok : Option Bytes)           -- `Mechanism.Start`: none = error
  | mechNext (r : Option (Bool × Bytes))     -- `StateMachine.Next`: none = error, else (completed, state)
  | use (apiKey : Nat)                        -- the application issues a request on the returned connection
  deriving DecidableEq, Repr

inductive Phase
  | awaitVersions
  | awaitHandshake (v : Nat) (av : Nat)
  | awaitStart (v : Nat) (av : Nat)     -- v: handshake version sent; av: version of framed SaslAuthenticate requests
  | awaitAuth (v : Nat) (av : Nat)
  | awaitNext (v : Nat) (av : Nat)
  | ready
  | failed
  deriving DecidableEq, Repr

structure Cfg where
  path : Path
  sasl : Bool
  /-- `splitHostPortNumber(address)` succeeds (the port of the dialled address is a number); both
      paths evaluate it only inside their SASL branch, after the socket is open -/
  addrOk : Bool := true
  /-- the dial has a time limit (`Dialer.Timeout` / `Dialer.Deadline` / a deadline on the caller's context;
      a Transport always has its `DialTimeout`).  Nothing below looks at it: what is sent, in which order, and when the
      dial fails do not depend on whether the caller asked for a time limit — only whether a silent broker can produce
      `Env.ioerr` does (Props/C18 `connect_flows_run_under_the_time_limit`). -/
  limit : Bool := true
  deriving DecidableEq, Repr

structure State where
  phase : Phase
  log : List Item         -- chronological
  closed : Bool
  result : Option Err     -- `some e` once the dial has failed
  deriving DecidableEq, Repr

/-- what the client does on one environment event: the writes it performs before it needs the next
answer, the phase it moves to, and (ghost) whether the event was the broker's verdict -/
structure Act where
  next : Phase
  write : Option Wire := none
  verdict : Bool := false
  err : Option Err := none     -- `some e`: the dial fails with e (and the connection is closed)
  deriving DecidableEq, Repr

def failWith (e : Err) : Act := { next := .failed, err := some e }

/-- the state after `dial`: the first thing either path does with SASL configured is the ApiVersions
exchange; a Dialer without SASL hands the Conn out untouched, a Transport still asks for versions. -/
def start (c : Cfg) : State :=
  match c.path, c.sasl with
  | .dialer, false => { phase := .ready, log := [], closed := false, result := none }
  | .dialer, true =>
    -- `Dialer.connect`: host/port for sasl.Metadata are computed before anything is written
    if c.addrOk then { phase := .awaitVersions, log := [.wrote .apiVersions], closed := false, result := none }
    else { phase := .failed, log := [], closed := true, result := some .other }
  | _, _ => { phase := .awaitVersions, log := [.wrote .apiVersions], closed := false, result := none }

/-- `apiVersionMap.negotiate(saslHandshake, v0, v1)` (Conn) — only the advertised max matters, a key
that is not listed reads as the zero value -/
def negotiateConn (hs : Option (Int × Int)) : Option Nat :=
  let mx : Int := match hs with | some (_, m) => m | none => 0
  if mx ≥ 1 then some 1 else if mx ≥ 0 then some 0 else none

/-- `ApiKey.SelectVersion` for SaslHandshake (library range 0..1); a key that is not listed leaves
the map's zero value -/
def selectTransport (hs : Option (Int × Int)) : Nat :=
  match hs with
  | none => 0
  | some (_, mx) => if 0 > mx then 0 else if 1 < mx then 1 else mx.toNat

/-- version of the framed SaslAuthenticate request.  Conn (`saslAuthenticate`): always v0.  Transport:
`ApiKey.SelectVersion` for SaslAuthenticate (library range 0..1), zero if not listed. -/
def authVersion (p : Path) (auth : Option (Int × Int)) : Nat :=
  match p with
  | .dialer => 0
  | .transport => selectTransport auth

/-- raw-versus-framed is decided by the HANDSHAKE version that was sent (`conn.go saslAuthenticate`:
`negotiateVersion(saslHandshake, v0, v1)`; `saslauthenticate.Request.Required`: `versions[SaslHandshake] == 0`),
never by the range advertised for SaslAuthenticate -/
def authWire (v av : Nat) (tok : Bytes) : Wire :=
  if v = 0 then .rawToken tok else .saslAuthenticate av tok

/-- the straight-line code between two reads, per phase and event; `none`: the event cannot happen here -/
def react (c : Cfg) : Phase → Env → Option Act
  -- ApiVersions answer
  | .awaitVersions, .versions err hs auth =>
    if err ≠ 0 then some (failWith (.kafka err))
    else if !c.sasl then some { next := .ready }
    else match c.path with
      | .dialer =>
        match negotiateConn hs with
        | none => some (failWith .other)
        | some v => some { next := .awaitHandshake v (authVersion c.path auth), write := some (.saslHandshake v) }
      | .transport =>
        -- `connGroup.connect`: host/port for sasl.Metadata are computed after the ApiVersions exchange
        if !c.addrOk then some (failWith .other)
        else
          let v := selectTransport hs
          some { next := .awaitHandshake v (authVersion c.path auth), write := some (.saslHandshake v) }
  | .awaitVersions, .eof => some (failWith .other)
  | .awaitVersions, .ioerr => some (failWith .other)
  -- SaslHandshake answer
  | .awaitHandshake v av, .reply err _ final =>
    if final then none
    else if err ≠ 0 then some (failWith (.kafka err))
    else some { next := .awaitStart v av }
  | .awaitHandshake _ _, .eof => some (failWith .other)
  | .awaitHandshake _ _, .ioerr => some (failWith .other)
  -- Mechanism.Start
  | .awaitStart _ _, .mechStart none => some (failWith .other)
  | .awaitStart v av, .mechStart (some tok) => some { next := .awaitAuth v av, write := some (authWire v av tok) }
  -- answer to an authentication token
  | .awaitAuth v av, .reply err _ final =>
    if err ≠ 0 then
      -- raw exchange: the answer is opaque bytes, there is no error field; an error is never final
      (if v = 0 ∨ final then none else some (failWith (.kafka err)))
    else some { next := .awaitNext v av, verdict := final }
  -- `errors.Is(err, io.EOF)` → SASLAuthenticationFailed.  The legacy Conn reader and the raw exchange
  -- surface io.EOF; `protocol.ReadResponse` turns it into io.ErrUnexpectedEOF (`dontExpectEOF`), so on the
  -- framed Transport path the mapping in `authenticateSASL` is not reached and the error stays opaque.
  | .awaitAuth v _, .eof => if c.path = .dialer ∨ v = 0 then some (failWith (.kafka 58)) else some (failWith .other)
  | .awaitAuth _ _, .ioerr => some (failWith .other)
  -- StateMachine.Next
  | .awaitNext _ _, .mechNext none => some (failWith .other)
  | .awaitNext v av, .mechNext (some (completed, tok)) =>
    if completed then some { next := .ready }
    else some { next := .awaitAuth v av, write := some (authWire v av tok) }
  -- handed out
  | .ready, .use k => some { next := .ready, write := some (.other k) }
  | _, _ => none

def State.apply (s : State) (a : Act) : State :=
  { phase := a.next
    log := s.log ++ (if a.verdict then [.verdict] else []) ++ (match a.write with | some w => [.wrote w] | none => [])
    closed := s.closed || a.err.isSome
    result := match a.err with | some e => some e | none => s.result }

def step (c : Cfg) (s : State) (e : Env) : Option State :=
  (react c s.phase e).map s.apply

def runFrom (c : Cfg) : State → List Env → Option State
  | s, [] => some s
  | s, e :: es => match step c s e with
    | none => none
    | some s' => runFrom c s' es

def run (c : Cfg) (es : List Env) : Option State := runFrom c (start c) es

/-- index of the first event the model cannot take (for trace acceptance diagnostics) -/
def firstRejected (c : Cfg) : State → List Env → Nat → Option Nat
  | _, [], _ => none
  | s, e :: es, i => match step c s e with
    | none => some i
    | some s' => firstRejected c s' es (i + 1)

/-! ### PLAIN (`sasl/plain/plain.go`) -/

/-- `Mechanism.Start`: `fmt.Sprintf("\x00%s\x00%s", m.Username, m.Password)` -/
def plainStart (user pass : Bytes) : Bytes := [0] ++ user ++ [0] ++ pass

/-- `Mechanism.Next`: `return true, nil, nil` whatever the challenge -/
def plainNext (_challenge : Bytes) : Bool × Bytes := (true, [])

/-- the environment events the PLAIN mechanism contributes to a script: one `Start`, and one `Next`
after the first answer -/
def plainEvents (user pass : Bytes) (brokerAnswer : Env) : List Env :=
  [.mechStart (some (plainStart user pass)), brokerAnswer, .mechNext (some (plainNext []))]

/-! ### TLS layering (`Dialer.TLS`, `Transport.TLS`)

Both paths wrap the socket before the first protocol byte: `Dialer.dialContext` runs the handshake (`connectTLS`) before
`NewConnWith`; `connGroup.connect` replaces the dialled socket by `tls.Client(…)` before `protocol.NewConn`, and a
`tls.Conn` performs its handshake on the first write.  What the broker's SOCKET sees is therefore the ClientHello and
then, inside the channel, exactly the journal of the plain model. -/

inductive SockItem
  | hello               -- a TLS handshake record in clear: the only thing that is ever in clear
  | inner (i : Item)    -- a request of the set-up exchange or of the application, inside the channel
  deriving DecidableEq, Repr

/-- the Dialer shakes hands inside `dialContext`, i.e. even when the dial then fails before writing anything (bad port);
the Transport's first write (ApiVersions, always sent) triggers it -/
def socketView (tls : Bool) (s : State) : List SockItem :=
  (if tls then [.hello] else []) ++ s.log.map .inner

/-- the dial with TLS configured: when the handshake fails (`hsOk = false`: the peer does not speak TLS, its
certificate is refused, …) the dial fails before anything else is written and the socket is closed — by `connectTLS`
itself on the Dialer path (since /repo C18-D32; the socket used to be left open), by the deferred guard of
`connGroup.connect` on the Transport path, where the handshake runs inside the first write -/
def startTls (c : Cfg) (tls hsOk : Bool) : State :=
  if tls && !hsOk then { phase := .failed, log := [], closed := true, result := some .other } else start c

def runTls (c : Cfg) (tls hsOk : Bool) (es : List Env) : Option State := runFrom c (startTls c tls hsOk) es

/-! ### SCRAM adaptor (`sasl/scram/scram.go`) over an abstract conversation

The cryptography lives in the dependency xdg-go/scram; the library's own code is the adaptor: `Start` performs the
conversation's first `Step("")`, `Next` performs `Step(challenge)` and reports `Done()`.  A conversation is any state
machine with a step function (new state, output, failed?) and a `done` flag. -/

structure Conv (σ : Type) where
  step : σ → Bytes → σ × Bytes × Bool
  done : σ → Bool

/-- `(*mechanism).Start`: the `mechStart` environment event the adaptor contributes -/
def scramStart {σ : Type} (cv : Conv σ) (s0 : σ) : σ × Option Bytes :=
  let r := cv.step s0 []
  (r.1, if r.2.2 then none else some r.2.1)

/-- `(*session).Next`: the `mechNext` environment event the adaptor contributes -/
def scramNext {σ : Type} (cv : Conv σ) (s : σ) (challenge : Bytes) : σ × Option (Bool × Bytes) :=
  let r := cv.step s challenge
  (r.1, if r.2.2 then none else some (cv.done r.1, r.2.1))

end KV.Auth
