/-
Model/ReaderFront.lean — reader.go `Reader.FetchMessage / SetOffset / start` and the `msgs` queue as a
transition system.  Core Lean only.

State: the current `version`, the FIFO `msgs` channel whose entries carry the version tag of the fetcher that
produced them, and for every fetcher ever started its tag, the offset it was started at, what it has enqueued
so far and whether it has been cancelled.  Events: `setOffset o` (`Reader.SetOffset`: under the mutex cancel the
previous fetchers, version++, start a fetcher at `o`), `enqueue t r` (`(*reader).sendMessage` of fetcher `t`:
allowed while not cancelled — and once more after cancellation, the `select` in sendMessage is a free choice),
`fetch` (`Reader.FetchMessage`: receive from the channel, drop entries whose tag is not the current version).
The fetchers themselves are Model/ReaderLoop.lean: what fetcher `t` enqueues is, in order, the stored records at
or above its start offset (`iterated_fetch`); here that is the hypothesis `Fed`.
-/
import KafkaVerif.Spec.Layout

namespace KV.C02

structure Front where
  version : Nat := 0
  queue : List (Nat × Rec) := []      -- (version tag, message)
  deriving Repr

/-- `Reader.SetOffset` / `start`: r.version++ ; the queue is not drained -/
def Front.setOffset (f : Front) : Front := { f with version := f.version + 1 }

/-- `(*reader).sendMessage` by the fetcher with tag `t` -/
def Front.enqueue (f : Front) (t : Nat) (r : Rec) : Front := { f with queue := f.queue ++ [(t, r)] }

/-- `Reader.FetchMessage`: `for { m := <-r.msgs; if m.version != r.version { continue }; return m }`;
`none` = the channel is empty (the call blocks) -/
def Front.fetchMessage (f : Front) : Option (Rec × Front) :=
  match f.queue.dropWhile (fun e => e.1 != f.version) with
  | [] => none
  | e :: rest => some (e.2, { f with queue := rest })

/-- what the entries with the current tag look like: in order they are a prefix of `expected` -/
def Fed (f : Front) (expected : List Rec) : Prop :=
  ((f.queue.filter (fun e => e.1 == f.version)).map (·.2)) <+: expected

end KV.C02

namespace KV.C02

/-! ### the front as a transition system with its fetchers

`reader.go start`: under `r.mutex` cancel the previous fetchers, `r.version++`, spawn a fetcher that captured the new
version (since commit 56d48de the tag is read while the lock is held) and the start offset.  A fetcher only ever
enqueues, in order, the stored records at or above its start offset (`iterated_fetch`), each tagged with its own
version; cancellation makes it stop eventually, but it may still enqueue (the `select` in sendMessage is a free
choice) — the model lets a stale fetcher enqueue any number of its records. -/

structure Fetcher where
  tag : Nat
  start : Int
  sent : Nat := 0
  deriving Repr

structure FS where
  version : Nat := 0
  queue : List (Nat × Rec) := []
  fetchers : List Fetcher := []
  accepted : Nat := 0        -- messages FetchMessage has returned since the last SetOffset
  deriving Repr

inductive FEv
  | setOffset (o : Int)
  | enqueue (t : Nat)
  | fetch
  deriving Repr

/-- what a fetcher started at `o` sends, in order -/
def feed (log : List Rec) (o : Int) : List Rec := log.filter (fun r => o ≤ r.1)

def bump (t : Nat) (fs : List Fetcher) : List Fetcher :=
  fs.map fun g => if g.tag = t then { g with sent := g.sent + 1 } else g

/-- one step; for `fetch` also the message returned (`none` as a whole = the event is not enabled / blocks) -/
def fstep (log : List Rec) (s : FS) : FEv → Option (FS × Option Rec)
  | .setOffset o =>
    some ({ version := s.version + 1, queue := s.queue, fetchers := { tag := s.version + 1, start := o } :: s.fetchers,
            accepted := 0 }, none)
  | .enqueue t =>
    match s.fetchers.find? (fun f => f.tag = t) with
    | none => none
    | some f =>
      match (feed log f.start)[f.sent]? with
      | none => none
      | some r => some ({ s with queue := s.queue ++ [(t, r)], fetchers := bump t s.fetchers }, none)
  | .fetch =>
    match Front.fetchMessage { version := s.version, queue := s.queue } with
    | none => none
    | some (r, f') => some ({ s with queue := f'.queue, accepted := s.accepted + 1 }, some r)

/-- run events, collecting the messages FetchMessage returned -/
def frun (log : List Rec) : FS → List FEv → Option (FS × List Rec)
  | s, [] => some (s, [])
  | s, e :: es =>
    match fstep log s e with
    | none => none
    | some (s', m) =>
      match frun log s' es with
      | none => none
      | some (s'', ms) => some (s'', (match m with | some r => [r] | none => []) ++ ms)

end KV.C02
