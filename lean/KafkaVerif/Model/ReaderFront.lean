/-
Model/ReaderFront.lean — reader.go `Reader.FetchMessage / SetOffset / start` and the `msgs` queue as a
transition system.  Core Lean only.

State: the current `version`, the FIFO `msgs` channel whose entries carry the version tag of the fetcher that
produced them, and for every fetcher ever started its tag, the offset it was started at, what it has enqueued
so far and whether it has been cancelled.  Events: `setOffset o` (`Reader.SetOffset`: under the mutex cancel the
previous fetchers, version++, start a fetcher at `o`), `enqueue t r` (`(*reader).sendMessage` of fetcher `t`:
allowed while not cancelled — and once more after cancellation, the `select` in sendMessage is a free choice),
`fetch` (`Reader.FetchMessage`: receive from the channel, drop entries whose tag is not the current version).
The fetchers themselves are Model/ReaderLoop.lean: what fetcher `t` enqueues is, in order, the stored records at
or above its start offset (`iterated_fetch`); here that is the hypothesis `Fed`.
-/
import KafkaVerif.Spec.Layout

namespace KV.C02

structure Front where
  version : Nat := 0
  queue : List (Nat × Rec) := []      -- (version tag, message)
  deriving Repr

/-- `Reader.SetOffset` / `start`: r.version++ ; the queue is not drained -/
def Front.setOffset (f : Front) : Front := { f with version := f.version + 1 }

/-- `(*reader).sendMessage` by the fetcher with tag `t` -/
def Front.enqueue (f : Front) (t : Nat) (r : Rec) : Front := { f with queue := f.queue ++ [(t, r)] }

/-- `Reader.FetchMessage`: `for { m := <-r.msgs; if m.version != r.version { continue }; return m }`;
`none` = the channel is empty (the call blocks) -/
def Front.fetchMessage (f : Front) : Option (Rec × Front) :=
  match f.queue.dropWhile (fun e => e.1 != f.version) with
  | [] => none
  | e :: rest => some (e.2, { f with queue := rest })

/-- what the entries with the current tag look like: in order they are a prefix of `expected` -/
def Fed (f : Front) (expected : List Rec) : Prop :=
  ((f.queue.filter (fun e => e.1 == f.version)).map (·.2)) <+: expected

end KV.C02
