/-
Model/Seek.lean — (*Conn).Seek whence arithmetic and range check, Conn.Offset (C19; core only).

Go ↔ Lean
  conn.go (*Conn).Seek       seek      (the two ReadOffsets round trips are the parameter `offsets`)
  conn.go (*Conn).Offset     offsetOf
  conn.go (*Conn).ReadOffsets readOffsets (first request fails → error; second fails → error, first not leaked)

Offsets are `Int`; the Go code computes in int64 — the theorems assume no overflow (|values| < 2^62 is enough),
which the generator respects.
-/
import KafkaVerif.Gen.Offsets

namespace KV.Seek

/-! the whence constants and the sentinel offsets are regenerated from conn.go / reader.go (Gen/Offsets.lean) -/
def seekStart : Int := Gen.Offsets.seekStart
def seekAbsolute : Int := Gen.Offsets.seekAbsolute
def seekEnd : Int := Gen.Offsets.seekEnd
def seekCurrent : Int := Gen.Offsets.seekCurrent
/-- SeekDontCheck -/
def dontCheckBit : Nat := Gen.Offsets.seekDontCheck

inductive Outcome where
  | ok (newOffset : Int)   -- c.offset afterwards = the value returned (every success path returns the stored offset)
  | badWhence
  | outOfRange
  | readError                                -- ReadOffsets failed; c.offset unchanged
  deriving DecidableEq, Repr, Inhabited

/-- result of ReadOffsets: `none` = one of the two list-offset requests failed -/
abbrev Offsets := Option (Int × Int)

/-- (*Conn).Seek(offset, whence) with the connection's current offset `cur`.
`whence` is given as its base value and the SeekDontCheck flag separately (`whence &^ SeekDontCheck`). -/
def seek (cur : Int) (offset : Int) (whence : Int) (dontCheck : Bool) (offsets : Offsets) : Outcome :=
  if !(whence == seekStart || whence == seekAbsolute || whence == seekEnd || whence == seekCurrent) then .badWhence
  else if dontCheck && whence == seekAbsolute then .ok offset
  else if dontCheck && whence == seekCurrent then .ok (cur + offset)
  else if whence == seekAbsolute && offset == cur then .ok cur
  else
    let offset := if whence == seekCurrent then cur + offset else offset
    match offsets with
    | none => .readError
    | some (first, last) =>
      let offset :=
        if whence == seekStart then first + offset
        else if whence == seekEnd then last - offset
        else offset
      if offset < first || offset > last then .outOfRange else .ok offset

/-- (*Conn).ReadOffsets: first offset, then last offset, by two list-offset requests; an error of the first is
returned as is, an error of the second is returned without leaking the first value -/
def readOffsets (first last : Except Int Int) : Except Int (Int × Int) :=
  match first with
  | .error e => .error e
  | .ok f =>
    match last with
    | .error e => .error e
    | .ok l => .ok (f, l)

/-- does this call consult the broker? -/
def needsOffsets (cur : Int) (offset : Int) (whence : Int) (dontCheck : Bool) : Bool :=
  (whence == seekStart || whence == seekEnd) ||
  (whence == seekAbsolute && !dontCheck && offset != cur) ||
  (whence == seekCurrent && !dontCheck)

/-- (*Conn).Offset: the sentinel offsets are reported relative to start / end -/
def offsetOf (cur : Int) : Int × Int :=
  if cur == Gen.Offsets.firstOffset then (0, seekStart) else if cur == Gen.Offsets.lastOffset then (0, seekEnd) else (cur, seekAbsolute)

end KV.Seek
