/-
Model/Xerial.lean — executable model of compress/snappy/xerial.go over an ABSTRACT block codec (core only).

  Writer  ↔ `xerialWriter`: `input` (bytes buffered, capacity `blockCap` = defaultBufferSize = 32 KiB),
            `out` (everything written to the underlying writer so far; `nbytes = out.length`), `framed`.
            `flush` ↔ `Flush` (header once, when nothing was written yet; 4-byte length; encoded block),
            `writeLoop` ↔ the loop of `Write` (copy what fits, `fullEnough` = framed ∧ cap-len < 1024 → Flush),
            `close` ↔ `writer.Close` (Flush).
            In framed mode `full()` is never true at the top of the loop (after every copy either a flush
            emptied the buffer or ≥ 1024 bytes stay free), so `grow` is dead code there and the capacity is the
            constant 32 KiB; in unframed mode nothing is flushed before Close and the buffer grows: the model
            keeps an unbounded `input` for it.
  Reader  ↔ `xerialReader`: `rest` (unread bytes of the underlying reader — `io.ReadFull` and the read-to-EOF
            loop do not depend on how the underlying reader cuts its data), `header` (16 bytes, zero after
            Reset), `nbytes`, `output`, `offset`.  `readChunk` ↔ `readChunk(dst)` incl. header detection on the
            first 16 bytes only, the unframed path and the direct-decode path (`DecodedLen ≤ len(dst)`);
            `read` ↔ `Read(b)` with `k = len(b)`.
  Pool    ↔ `NewReader`/`NewWriter` (Get + Reset) and `Close` (Flush, Reset(nil), Put): `resetReader`,
            `resetWriter`.
-/
import KafkaVerif.Spec.Xerial
import KafkaVerif.Gen.XerialFacts

namespace KV.Model.Xerial
open KV KV.RW

structure Codec where
  enc : Bytes → Bytes
  dec : Bytes → Option Bytes
  decodedLen : Bytes → Option Nat

def blockCap : Nat := 32768
def slack : Nat := 1024

/-! ### writer -/

structure Writer where
  framed : Bool
  input : Bytes
  out : Bytes
  blocks : List Bytes   -- ghost: the uncompressed blocks flushed so far (not in the Go struct)

def newWriter (framed : Bool) : Writer := ⟨framed, [], [], []⟩

/-- `Flush` -/
def flush (c : Codec) (w : Writer) : Writer :=
  if w.input = [] then w
  else
    let b := c.enc w.input
    let hdr := if w.framed ∧ w.out = [] then Spec.Xerial.header else []
    let len := if w.framed then beN 4 b.length else []
    { w with input := [], out := w.out ++ (hdr ++ (len ++ b)), blocks := w.blocks ++ [w.input] }

/-- the loop of `Write`; `fuel` ≥ number of bytes left -/
def writeLoop (c : Codec) : Nat → Writer → Bytes → Writer
  | 0, w, _ => w
  | fuel + 1, w, b =>
    if b = [] then w
    else if w.framed then
      let n := min (blockCap - w.input.length) b.length
      let w := { w with input := w.input ++ b.take n }
      let w := if blockCap - w.input.length < slack then flush c w else w
      writeLoop c fuel w (b.drop n)
    else
      { w with input := w.input ++ b }

def write (c : Codec) (w : Writer) (b : Bytes) : Writer := writeLoop c b.length w b

def writeAll (c : Codec) (w : Writer) : List Bytes → Writer
  | [] => w
  | b :: bs => writeAll c (write c w b) bs

/-- `Close`: Flush (then Reset(nil) and back to the pool) -/
def close (c : Codec) (w : Writer) : Writer := flush c w

/-- `Reset(w)`; `framed` is assigned by `NewWriter` afterwards -/
def resetWriter (framed : Bool) (_w : Writer) : Writer := ⟨framed, [], [], []⟩

/-! ### reader -/

structure Reader where
  rest : Bytes
  header : Bytes
  nbytes : Nat
  output : Bytes
  offset : Nat
  deriving DecidableEq, Repr

def zeros16 : Bytes := List.replicate 16 0

def newReader (s : Bytes) : Reader := ⟨s, zeros16, 0, [], 0⟩

/-- `Reset(r)` -/
def resetReader (s : Bytes) (_r : Reader) : Reader := ⟨s, zeros16, 0, [], 0⟩

inductive Chunk where
  | direct (b : Bytes)     -- decoded straight into the caller's buffer, `n = b.length` returned
  | buffered               -- decoded into `output`, 0 returned
  | eof
  | err
  deriving DecidableEq, Repr

def decodeInto (c : Codec) (r : Reader) (input : Bytes) (dstLen : Nat) : Reader × Chunk :=
  match c.decodedLen input with
  | some n =>
    if n ≤ dstLen then
      match c.dec input with
      | some b => (r, .direct b)
      | none => (r, .err)
    else
      match c.dec input with
      | some b => ({ r with output := b }, .buffered)
      | none => (r, .err)
  | none =>
    match c.dec input with
    | some b => ({ r with output := b }, .buffered)
    | none => (r, .err)

/-- first part of `readChunk`: on the first call of a stream (`nbytes == 0`) read up to 16 header bytes
(`io.ReadFull`; nothing at all → EOF); returns the reader and `prefix` -/
def headerPhase (r : Reader) : Option (Reader × Nat) :=
  let h := r.rest.take 16
  if r.nbytes = 0 then
    if h = [] then none
    else some ({ r with header := h ++ r.header.drop h.length, rest := r.rest.drop 16, nbytes := h.length }, h.length)
  else some (r, 0)

/-- `isXerialHeader` branch: 4-byte length, frame, decode -/
def framedBody (c : Codec) (r : Reader) (dstLen : Nat) : Reader × Chunk :=
  let l := r.rest.take 4
  if l = [] then (r, .eof)
  else if l.length < 4 then ({ r with rest := [], nbytes := r.nbytes + l.length }, .err)
  else
    let frame := deN l
    let input := (r.rest.drop 4).take frame
    if input.length < frame then
      -- `if _, err := x.readFull(x.input); err != nil { return 0, err }`: io.ReadFull answers io.EOF when NOT ONE byte of
      -- the block is there, io.ErrUnexpectedEOF when some are: a stream that stops right after a length field is
      -- reported as a clean end (observation, docs/notes/C16.md)
      if input = [] then ({ r with rest := [], nbytes := r.nbytes + 4 }, .eof)
      else ({ r with rest := [], nbytes := r.nbytes + 4 + input.length }, .err)
    else decodeInto c { r with rest := r.rest.drop (4 + frame), nbytes := r.nbytes + 4 + frame } input dstLen

/-- unframed branch: the header bytes already read plus everything up to EOF is one raw block -/
def unframedBody (c : Codec) (r : Reader) (pre : Nat) (dstLen : Nat) : Reader × Chunk :=
  let input := r.header.take pre ++ r.rest
  if input = [] then (r, .eof)
  else decodeInto c { r with rest := [], nbytes := r.nbytes + r.rest.length } input dstLen

/-- `readChunk(dst)` with `dstLen = len(dst)` -/
def readChunk (c : Codec) (r : Reader) (dstLen : Nat) : Reader × Chunk :=
  let r := { r with output := [], offset := 0 }
  match headerPhase r with
  | none => (r, .eof)
  | some (r, pre) =>
    if r.header.take 8 = Spec.Xerial.magic then framedBody c r dstLen else unframedBody c r pre dstLen

inductive ReadRes where
  | data (b : Bytes)
  | eof
  | err
  deriving DecidableEq, Repr

/-- `Read(b)` with `k = len(b) ≥ 1`; `fuel` bounds the number of empty blocks skipped -/
def read (c : Codec) : Nat → Reader → Nat → Reader × ReadRes
  | 0, r, _ => (r, .err)
  | fuel + 1, r, k =>
    if r.offset < r.output.length then
      let d := (r.output.drop r.offset).take k
      ({ r with offset := r.offset + d.length }, .data d)
    else
      match readChunk c r k with
      | (r, .direct b) => if b.length > 0 then (r, .data b) else read c fuel r k
      | (r, .buffered) => read c fuel r k
      | (r, .eof) => (r, .eof)
      | (r, .err) => (r, .err)

/-! ### `Read(p)` with a buffer whose capacity exceeds its length

`p` may be a prefix of a larger array (`buf[:n]`, io.LimitedReader, scratch arrays): `len(p) < cap(p)`.  `Read` must hand
out at most `len(p)` bytes (io.Reader).  Pending output is copied with `copy(b, …)` — bounded by `len(b)` — but the
"decode straight into the caller's buffer" shortcut of `readChunk` compares the decoded length with a builtin of `dst`
that the model takes FROM THE SOURCE (Gen/XerialFacts.directDecodeBound, go/ast on every run): `len` or `cap`. -/

/-- what `readChunk(dst)` compares the decoded length with, for a buffer of length `len` and capacity `cap` -/
def directBound (len cap : Nat) : Nat :=
  if Gen.XerialFacts.directDecodeBound = ["len"] then len else cap

/-- `Read(p)` for `len(p) = len ≥ 1`, `cap(p) = cap`: like `read`, with the copy bounded by `len` and the direct-decode
decision by `bound` -/
def readB (c : Codec) : Nat → Reader → Nat → Nat → Reader × ReadRes
  | 0, r, _, _ => (r, .err)
  | fuel + 1, r, len, bound =>
    if r.offset < r.output.length then
      let d := (r.output.drop r.offset).take len
      ({ r with offset := r.offset + d.length }, .data d)
    else
      match readChunk c r bound with
      | (r, .direct b) => if b.length > 0 then (r, .data b) else readB c fuel r len bound
      | (r, .buffered) => readB c fuel r len bound
      | (r, .eof) => (r, .eof)
      | (r, .err) => (r, .err)

def readBuf (c : Codec) (fuel : Nat) (r : Reader) (len cap : Nat) : Reader × ReadRes :=
  readB c fuel r len (directBound len cap)

/-- a consumer calling `Read` with the given buffer sizes until EOF: the returned sizes (0 for the final EOF),
as observed by the harness -/
def readSizes (c : Codec) (r : Reader) : List Nat → List Nat
  | [] => []
  | k :: ks =>
    match read c (r.rest.length + 2) r k with
    | (r, .data b) => b.length :: readSizes c r ks
    | (_, .eof) => [0]
    | (_, .err) => [0, 0]

/-- a consumer calling `Read` with buffer sizes `ks` until EOF: everything it received (`none`: an error, or
the sizes ran out before EOF) -/
def readAllWith (c : Codec) : Reader → List Nat → Option Bytes
  | _, [] => none
  | r, k :: ks =>
    match read c (r.rest.length + 2) r k with
    | (r', .data b) => (readAllWith c r' ks).map (b ++ ·)
    | (_, .eof) => some []
    | (_, .err) => none

/-- everything a consumer with buffer sizes `ks` receives before the end, an error, or running out of sizes -/
def readAllOut (c : Codec) : Reader → List Nat → Bytes
  | _, [] => []
  | r, k :: ks =>
    match read c (r.rest.length + 2) r k with
    | (r', .data b) => b ++ readAllOut c r' ks
    | _ => []

/-- `WriteTo(w)` (what io.Copy uses): write what is pending in `output`, then chunk after chunk (`readChunk(nil)`:
no direct decoding except for empty blocks) until EOF; the result is everything written to `w` -/
def writeTo (c : Codec) : Nat → Reader → Option Bytes
  | 0, _ => none
  | fuel + 1, r =>
    let pend := r.output.drop r.offset
    match readChunk c { r with offset := r.output.length } 0 with
    | (_, .eof) => some pend
    | (_, .err) => none
    | (r', .direct b) => (writeTo c fuel r').map (fun t => pend ++ (b ++ t))
    | (r', .buffered) => (writeTo c fuel r').map (fun t => pend ++ t)

/-- a consumer that first calls `Read` with buffer sizes `ks` (e.g. to sniff a prefix) and then drains the rest with
`WriteTo` — what `io.Copy(dst, reader)` does, since the codec reader exposes io.WriterTo -/
def readsThenWriteTo (c : Codec) : Reader → List Nat → Option Bytes
  | r, [] => writeTo c (r.rest.length + 2) r
  | r, k :: ks =>
    match read c (r.rest.length + 2) r k with
    | (r', .data b) => (readsThenWriteTo c r' ks).map (b ++ ·)
    | (_, .eof) => some []
    | (_, .err) => none

/-- `WriteTo`-style consumption: chunk after chunk until EOF -/
def drain (c : Codec) : Nat → Reader → Option Bytes
  | 0, _ => none
  | fuel + 1, r =>
    match readChunk c r 0 with
    | (r, .direct b) => (drain c fuel r).map (b ++ ·)
    | (r, .buffered) => (drain c fuel r).map (r.output ++ ·)
    | (_, .eof) => some []
    | (_, .err) => none

end KV.Model.Xerial
