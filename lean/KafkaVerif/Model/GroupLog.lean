/-
Model/GroupLog.lean — the abstract group history of Model/Group.lean generalised to a log WITH HOLES (compaction,
aborted transactions' control records, …): the stored offsets are an arbitrary strictly increasing list; a reader epoch
hands out the least stored offset at or above its position (that is C02's contract for a fetcher: gap-free RELATIVE TO
THE STORED RECORDS) and moves just past it.  Everything else (assign at committed-or-StartOffset, coexisting epochs,
commits bounded by what the member was handed, coordinator acks) as in Model/Group.lean.  Core Lean only.
-/
namespace KV.GroupLog

structure Reader where
  m : Nat
  start : Nat
  pos : Nat
  epoch : List Nat
  deriving DecidableEq, Repr

structure G where
  log : List Nat := []                   -- stored offsets, strictly increasing
  committed : Option Nat := none
  readers : List Reader := []
  delivered : List (Nat × Nat) := []
  deriving Repr

inductive GEv
  | produce (o : Nat)                    -- a record is stored at offset o (above everything stored)
  | assign (m : Nat)
  | revoke (i : Nat)
  | deliver (i : Nat)
  | commit (m : Nat) (o : Nat) (ack : Bool)
  deriving Repr

/-- StartOffset = FirstOffset: position 0 (at or below every stored offset) -/
def gstep (s : G) : GEv → Option G
  | .produce o => if s.log.all (· < o) then some { s with log := s.log ++ [o] } else none
  | .assign m =>
    let p := s.committed.getD 0
    some { s with readers := s.readers ++ [{ m := m, start := p, pos := p, epoch := [] }] }
  | .revoke i => if i < s.readers.length then some { s with readers := s.readers.eraseIdx i } else none
  | .deliver i =>
    match s.readers[i]? with
    | some rd =>
      match s.log.find? (fun r => rd.pos ≤ r) with
      | some r =>
        some { s with readers := s.readers.set i { rd with pos := r + 1, epoch := rd.epoch ++ [r] },
                      delivered := s.delivered ++ [(rd.m, r)] }
      | none => none
    | none => none
  | .commit m o ack =>
    if s.delivered.any (fun d => d.1 == m && o ≤ d.2 + 1) then
      some (if ack then { s with committed := some o } else s)
    else none

def grun : G → List GEv → Option G
  | s, [] => some s
  | s, e :: es => match gstep s e with
    | some s' => grun s' es
    | none => none

inductive GReachable : G → Prop
  | init : GReachable {}
  | step {s s' : G} (e : GEv) : GReachable s → gstep s e = some s' → GReachable s'

end KV.GroupLog
