/-
Base/RecWire.lean — wire primitives used by the record-batch formats (core Lean only).

Big-endian fixed-width integers are modelled arithmetically (`n / 256 % 256`), signed values through
`Int.emod`, so that `omega` closes the round trips.  Unsigned LEB128 varints and zig-zag as in the Kafka
protocol guide ("VARINT", "VARLONG").  No Go code is mirrored here: these are the reference definitions
used by `Spec/RecordBatch.lean`; the Go encoders are modelled in `Model/RecordWriter.lean`.
-/
import KafkaVerif.Base.Bytes

namespace KV.RW
open KV

def byte (n : Nat) : UInt8 := UInt8.ofNat (n % 256)

@[simp] theorem byte_toNat (n : Nat) : (byte n).toNat = n % 256 := by
  simp [byte, UInt8.toNat_ofNat']

theorem byte_of_toNat (b : UInt8) : byte b.toNat = b := by
  apply UInt8.toNat_inj.mp
  have := b.toNat_lt
  simp [byte_toNat]

/-! ### unsigned big-endian, `k` bytes -/

/-- the `k` low-order base-256 digits of `n`, most significant first -/
def beN : Nat → Nat → Bytes
  | 0, _ => []
  | k + 1, n => beN k (n / 256) ++ [byte n]

def deN (bs : Bytes) : Nat := bs.foldl (fun a b => a * 256 + b.toNat) 0

@[simp] theorem beN_length (k n : Nat) : (beN k n).length = k := by
  induction k generalizing n with
  | zero => rfl
  | succ k ih => simp [beN, ih]

theorem deN_append_single (bs : Bytes) (b : UInt8) : deN (bs ++ [b]) = deN bs * 256 + b.toNat := by
  simp [deN, List.foldl_append]

theorem deN_beN (k n : Nat) : deN (beN k n) = n % 256 ^ k := by
  induction k generalizing n with
  | zero => simp [beN, deN, Nat.mod_one]
  | succ k ih =>
    rw [beN, deN_append_single, ih, byte_toNat, Nat.pow_succ, Nat.mul_comm (256 ^ k) 256, Nat.mod_mul]
    omega

/-- read `k` bytes as an unsigned big-endian number -/
def readN (k : Nat) (bs : Bytes) : Option (Nat × Bytes) :=
  if k ≤ bs.length then some (deN (bs.take k), bs.drop k) else none

theorem readN_beN (k n : Nat) (r : Bytes) (h : n < 256 ^ k) :
    readN k (beN k n ++ r) = some (n, r) := by
  simp [readN, deN_beN, Nat.mod_eq_of_lt h]

theorem readN_length {k : Nat} {bs r : Bytes} {n : Nat} (h : readN k bs = some (n, r)) :
    bs.length = k + r.length := by
  unfold readN at h
  split at h
  · simp at h; rw [← h.2]; simp; omega
  · simp at h

/-! ### signed fixed-width integers (two's complement) -/

def M8 : Nat := 256
def M16 : Nat := 65536
def M32 : Nat := 4294967296
def M64 : Nat := 18446744073709551616

/-- two's complement residue of `x` modulo `m` -/
def toU (m : Nat) (x : Int) : Nat := (x % (m : Int)).toNat
/-- signed value of the residue `n` modulo `m` -/
def toS (m : Nat) (n : Nat) : Int := if 2 * n < m then (n : Int) else (n : Int) - (m : Int)

def InRange (m : Nat) (x : Int) : Prop := -(m : Int) ≤ 2 * x ∧ 2 * x < (m : Int)

instance (m : Nat) (x : Int) : Decidable (InRange m x) := by unfold InRange; infer_instance

theorem toU_lt (m : Nat) (hm : 0 < m) (x : Int) : toU m x < m := by
  unfold toU
  have h1 : 0 ≤ x % (m : Int) := Int.emod_nonneg _ (by omega)
  have h2 : x % (m : Int) < m := Int.emod_lt_of_pos _ (by omega)
  omega

theorem toS_toU (m : Nat) (hm : 0 < m) (x : Int) (h : InRange m x) : toS m (toU m x) = x := by
  unfold toS toU InRange at *
  by_cases hx : 0 ≤ x
  · have : x % (m : Int) = x := Int.emod_eq_of_lt hx (by omega)
    rw [this]
    have : ((x.toNat : Nat) : Int) = x := Int.toNat_of_nonneg hx
    split <;> omega
  · have h3 : (x + m) % (m : Int) = x + m := Int.emod_eq_of_lt (by omega) (by omega)
    have h4 : (x + m) % (m : Int) = x % (m : Int) := Int.add_emod_right ..
    rw [← h4, h3]
    have : (((x + m).toNat : Nat) : Int) = x + m := Int.toNat_of_nonneg (by omega)
    split <;> omega

def i8 (x : Int) : Bytes := beN 1 (toU M8 x)
def i16 (x : Int) : Bytes := beN 2 (toU M16 x)
def i32 (x : Int) : Bytes := beN 4 (toU M32 x)
def i64 (x : Int) : Bytes := beN 8 (toU M64 x)
def u32 (n : Nat) : Bytes := beN 4 n

def readI (k m : Nat) (bs : Bytes) : Option (Int × Bytes) :=
  match readN k bs with
  | some (n, r) => some (toS m n, r)
  | none => none

def readI8 := readI 1 M8
def readI16 := readI 2 M16
def readI32 := readI 4 M32
def readI64 := readI 8 M64
def readU32 := readN 4

theorem readI8_i8 (x : Int) (r : Bytes) (h : InRange M8 x) : readI8 (i8 x ++ r) = some (x, r) := by
  have := toU_lt M8 (by decide) x
  simp [readI8, readI, i8, readN_beN _ _ _ (show toU M8 x < 256 ^ 1 from this), toS_toU M8 (by decide) x h]

theorem readI16_i16 (x : Int) (r : Bytes) (h : InRange M16 x) : readI16 (i16 x ++ r) = some (x, r) := by
  have := toU_lt M16 (by decide) x
  simp [readI16, readI, i16, readN_beN _ _ _ (show toU M16 x < 256 ^ 2 from this), toS_toU M16 (by decide) x h]

theorem readI32_i32 (x : Int) (r : Bytes) (h : InRange M32 x) : readI32 (i32 x ++ r) = some (x, r) := by
  have := toU_lt M32 (by decide) x
  simp [readI32, readI, i32, readN_beN _ _ _ (show toU M32 x < 256 ^ 4 from this), toS_toU M32 (by decide) x h]

theorem readI64_i64 (x : Int) (r : Bytes) (h : InRange M64 x) : readI64 (i64 x ++ r) = some (x, r) := by
  have := toU_lt M64 (by decide) x
  simp [readI64, readI, i64, readN_beN _ _ _ (show toU M64 x < 256 ^ 8 from this), toS_toU M64 (by decide) x h]

theorem readU32_u32 (n : Nat) (r : Bytes) (h : n < M32) : readU32 (u32 n ++ r) = some (n, r) := by
  simp [readU32, u32, readN_beN _ _ _ (show n < 256 ^ 4 from h)]

@[simp] theorem i8_length (x : Int) : (i8 x).length = 1 := by simp [i8]
@[simp] theorem i16_length (x : Int) : (i16 x).length = 2 := by simp [i16]
@[simp] theorem i32_length (x : Int) : (i32 x).length = 4 := by simp [i32]
@[simp] theorem i64_length (x : Int) : (i64 x).length = 8 := by simp [i64]
@[simp] theorem u32_length (n : Nat) : (u32 n).length = 4 := by simp [u32]

/-! ### varints -/

/-- zig-zag: 0,-1,1,-2,… ↦ 0,1,2,3,… -/
def zigzag (x : Int) : Nat := if 0 ≤ x then (2 * x).toNat else (-2 * x - 1).toNat

def unzigzag (n : Nat) : Int := if n % 2 = 0 then ((n / 2 : Nat) : Int) else -((n / 2 : Nat) : Int) - 1

theorem unzigzag_zigzag (x : Int) : unzigzag (zigzag x) = x := by
  unfold unzigzag zigzag
  split <;> split <;> omega

theorem zigzag_unzigzag (n : Nat) : zigzag (unzigzag n) = n := by
  unfold unzigzag zigzag
  split <;> split <;> omega

/-- unsigned LEB128 -/
def uvarint (n : Nat) : Bytes :=
  if n < 128 then [byte n] else byte (n % 128 + 128) :: uvarint (n / 128)
termination_by n
decreasing_by omega

def readUvarint : Bytes → Option (Nat × Bytes)
  | [] => none
  | b :: r =>
    if b.toNat < 128 then some (b.toNat, r)
    else match readUvarint r with
      | some (v, r') => some (b.toNat - 128 + 128 * v, r')
      | none => none

theorem readUvarint_uvarint (n : Nat) (r : Bytes) : readUvarint (uvarint n ++ r) = some (n, r) := by
  induction n using uvarint.induct with
  | case1 n h =>
    rw [uvarint]; simp [h, readUvarint]
    have : n % 256 = n := by omega
    simp [this, h]
  | case2 n h ih =>
    rw [uvarint]; simp only [h, if_false, List.cons_append, readUvarint, byte_toNat]
    rw [ih]
    have : ¬ (n % 128 + 128) % 256 < 128 := by omega
    simp [this]; omega

/-- length of the LEB128 form: the loop of `varIntLen` (write.go) -/
def uvarintLen (n : Nat) : Nat := if n < 128 then 1 else 1 + uvarintLen (n / 128)
termination_by n
decreasing_by omega

theorem uvarint_length (n : Nat) : (uvarint n).length = uvarintLen n := by
  induction n using uvarint.induct with
  | case1 n h => rw [uvarint, uvarintLen]; simp [h]
  | case2 n h ih => rw [uvarint, uvarintLen]; simp [h, ih]; omega

theorem uvarintLen_pos (n : Nat) : 0 < uvarintLen n := by
  rw [uvarintLen]; split <;> omega

def varint (x : Int) : Bytes := uvarint (zigzag x)

def readVarint (bs : Bytes) : Option (Int × Bytes) :=
  match readUvarint bs with
  | some (n, r) => some (unzigzag n, r)
  | none => none

theorem readVarint_varint (x : Int) (r : Bytes) : readVarint (varint x ++ r) = some (x, r) := by
  simp [readVarint, varint, readUvarint_uvarint, unzigzag_zigzag]

def varintLen (x : Int) : Nat := uvarintLen (zigzag x)

theorem varint_length (x : Int) : (varint x).length = varintLen x := uvarint_length _

theorem readUvarint_length {bs r : Bytes} {n : Nat} (h : readUvarint bs = some (n, r)) : r.length < bs.length := by
  induction bs generalizing n r with
  | nil => simp [readUvarint] at h
  | cons b t ih =>
    simp only [readUvarint] at h
    split at h
    · simp at h; rw [← h.2]; simp
    · cases hr : readUvarint t with
      | none => simp [hr] at h
      | some p =>
        obtain ⟨v, r'⟩ := p
        simp [hr] at h
        have := ih hr
        rw [← h.2]; simp; omega

/-- take exactly `n` bytes -/
def takeN (n : Nat) (bs : Bytes) : Option (Bytes × Bytes) :=
  if n ≤ bs.length then some (bs.take n, bs.drop n) else none

theorem takeN_append (a r : Bytes) : takeN a.length (a ++ r) = some (a, r) := by
  simp [takeN]

end KV.RW
