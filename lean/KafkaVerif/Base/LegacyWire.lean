/-
Base/LegacyWire.lean — the primitives of the hand-written Conn codec of the root package (core Lean only):
`sizeof.go` (`sizeofInt32`, `sizeofString`, `sizeofArray`, …) and `write.go` `writeBuffer` (`writeInt32`,
`writeString`, `writeArray`, …), with the length lemmas used by the generated `legacy_size` theorems of
Gen/Legacy.lean.  Sizes are `Int` (Go: int32; frames are assumed < 2^31 bytes).
-/
import KafkaVerif.Base.Wire

namespace KV.Legacy
open KV KV.Wire

/-! ### sizeof.go -/
def sizeofInt8 (_ : Int) : Int := 1
def sizeofInt16 (_ : Int) : Int := 2
def sizeofInt32 (_ : Int) : Int := 4
def sizeofInt64 (_ : Int) : Int := 8
def sizeofBool (_ : Bool) : Int := 1
def sizeofString (s : Bytes) : Int := 2 + s.length
def sizeofNullableString (s : Option Bytes) : Int := match s with | none => 2 | some s => sizeofString s
def sizeofBytes (b : Bytes) : Int := 4 + b.length
def sumInt : List Int → Int
  | [] => 0
  | x :: xs => x + sumInt xs
/-- `sizeofArray(len(a), func(i int) int32 { return f(a[i]) })` -/
def sizeofArray {α : Type} (a : List α) (f : α → Int) : Int := 4 + sumInt (a.map f)
def sizeofInt32Array (a : List Int) : Int := 4 + 4 * a.length
def sizeofStringArray (a : List Bytes) : Int := sizeofArray a sizeofString

/-! ### write.go writeBuffer -/
def writeInt8 (i : Int) : Bytes := encInt 1 i
def writeInt16 (i : Int) : Bytes := encInt 2 i
def writeInt32 (i : Int) : Bytes := encInt 4 i
def writeInt64 (i : Int) : Bytes := encInt 8 i
def writeBool (b : Bool) : Bytes := [if b then 1 else 0]
def writeString (s : Bytes) : Bytes := encInt 2 s.length ++ s
def writeNullableString (s : Option Bytes) : Bytes := match s with | none => encInt 2 (-1) | some s => writeString s
def writeBytes (b : Bytes) : Bytes := encInt 4 b.length ++ b
/-- the loop `for … { f(x) }` -/
def writeEach {α : Type} (a : List α) (f : α → Bytes) : Bytes := (a.map f).flatten
/-- `writeArrayLen(n)` -/
def writeArrayLen (n : Int) : Bytes := encInt 4 n
/-- `writeArray(len(a), func(i int) { f(a[i]) })` -/
def writeArray {α : Type} (a : List α) (f : α → Bytes) : Bytes := writeArrayLen a.length ++ writeEach a f
def writeInt32Array (a : List Int) : Bytes := writeArray a writeInt32
def writeStringArray (a : List Bytes) : Bytes := writeArray a writeString

/-- time.go `milliseconds(d)`: a duration (ns) as int32 milliseconds, clamped (only its width matters here) -/
def milliseconds (d : Int) : Int := d / 1000000

/-- a `*recordBatch` (recordbatch.go): its `size` field and the bytes `writeRecordBatch` emits for it; that the two
agree is property C05's (hypothesis `ok`) -/
structure RecordBatchBlob where
  size : Int
  body : Bytes
  ok : (body.length : Int) = size

@[simp] theorem RecordBatchBlob.len (rb : RecordBatchBlob) : ((rb.body.length : Nat) : Int) = rb.size := rb.ok

/-! ### length lemmas (the simp set of `legacy_size`) -/
theorem len_encInt (k : Nat) (i : Int) : (encInt k i).length = k := by simp [encInt, be_length]
@[simp] theorem len_writeInt8 (i : Int) : (writeInt8 i).length = 1 := len_encInt 1 i
@[simp] theorem len_writeInt16 (i : Int) : (writeInt16 i).length = 2 := len_encInt 2 i
@[simp] theorem len_writeInt32 (i : Int) : (writeInt32 i).length = 4 := len_encInt 4 i
@[simp] theorem len_writeInt64 (i : Int) : (writeInt64 i).length = 8 := len_encInt 8 i
@[simp] theorem len_writeBool (b : Bool) : (writeBool b).length = 1 := by simp [writeBool]
@[simp] theorem len_writeArrayLen (n : Int) : (writeArrayLen n).length = 4 := len_encInt 4 n
@[simp] theorem len_writeString (s : Bytes) : ((writeString s).length : Int) = sizeofString s := by
  simp [writeString, sizeofString, len_encInt]
@[simp] theorem len_writeNullableString (s : Option Bytes) : ((writeNullableString s).length : Int) = sizeofNullableString s := by
  cases s <;> simp [writeNullableString, sizeofNullableString, len_encInt]
@[simp] theorem len_writeBytes (b : Bytes) : ((writeBytes b).length : Int) = sizeofBytes b := by
  simp [writeBytes, sizeofBytes, len_encInt]

theorem len_writeEach {α : Type} (a : List α) (f : α → Bytes) :
    ((writeEach a f).length : Int) = sumInt (a.map fun x => ((f x).length : Int)) := by
  induction a with
  | nil => simp [writeEach, sumInt]
  | cons x xs ih =>
    simp only [writeEach, List.map_cons, List.flatten_cons, List.length_append, sumInt] at ih ⊢
    omega

theorem len_writeArray' {α : Type} (a : List α) (f : α → Bytes) :
    ((writeArray a f).length : Int) = 4 + sumInt (a.map fun x => ((f x).length : Int)) := by
  simp [writeArray, len_writeEach]

/-- written length of an array whose elements have the announced sizes -/
theorem len_writeArray {α : Type} (a : List α) (f : α → Bytes) (g : α → Int)
    (h : ∀ x, ((f x).length : Int) = g x) : ((writeArray a f).length : Int) = sizeofArray a g := by
  have : (fun x => ((f x).length : Int)) = g := funext h
  simp [writeArray, sizeofArray, len_writeEach, this]

theorem len_writeEach_of {α : Type} (a : List α) (f : α → Bytes) (g : α → Int)
    (h : ∀ x, ((f x).length : Int) = g x) : ((writeEach a f).length : Int) = sumInt (a.map g) := by
  have : (fun x => ((f x).length : Int)) = g := funext h
  simp [len_writeEach, this]

theorem sumInt_const {α : Type} (a : List α) (c : Int) : sumInt (a.map fun _ => c) = c * a.length := by
  induction a with
  | nil => simp [sumInt]
  | cons x xs ih => simp only [List.map_cons, sumInt, ih, List.length_cons]; rw [Int.natCast_succ, Int.mul_add]; omega

@[simp] theorem len_writeInt32Array (a : List Int) : ((writeInt32Array a).length : Int) = sizeofInt32Array a := by
  rw [writeInt32Array, len_writeArray a writeInt32 (fun _ => 4) (by simp), sizeofArray, sumInt_const, sizeofInt32Array]
@[simp] theorem len_writeStringArray (a : List Bytes) : ((writeStringArray a).length : Int) = sizeofStringArray a := by
  rw [writeStringArray, len_writeArray a writeString sizeofString (by simp), sizeofStringArray]

/-- conn.go `writeRequest`: `hdr.Size = hdr.size() + req.size() - 4`, then header and request are written:
the size prefix announces exactly the bytes that follow it -/
theorem frame_announces (hdrLen reqLen : Nat) (hdrSize reqSize : Int) (h1 : (hdrLen : Int) = hdrSize) (h2 : (reqLen : Int) = reqSize) :
    ((hdrLen + reqLen : Nat) : Int) - 4 = hdrSize + reqSize - 4 := by omega

end KV.Legacy
