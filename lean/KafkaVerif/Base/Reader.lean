/-
Base/Reader.lean — the size-threading reader of kafka-go's legacy codec (read.go, discard.go) as a state
transformer (core Lean only).

Go shape:   `remain, err = readX(r *bufio.Reader, sz int, &v)`
Lean shape: `readX : RS → Except Err α × RS`  with `RS = ⟨inp, sz⟩`:
  * `inp` — the bytes that will still arrive on the connection, in order; after them the stream is at EOF
            (for an intact connection `inp` simply extends beyond the current frame);
  * `sz`  — the `remain`/`size` counter of the Go code: bytes of the current response frame not consumed yet.
The state is returned on errors too (Go returns the remaining size together with the error), so "bytes consumed",
"bytes of the frame left unread" and the error class are all observable.

Assumptions (recorded in docs/notes/C11.md): `sz ≥ 0` (a frame whose size prefix is < 4 is C20's subject);
`bufio.Reader.Peek(n)` succeeds iff n bytes arrive before EOF (n ≤ 8 here, far below the 4096-byte buffer);
a blocked read is an EOF (deadlines are runtime, not modelled).
-/
import KafkaVerif.Base.Bytes

namespace KV.Reader
open KV

inductive Err where
  | shortRead                 -- errShortRead
  | eof                       -- io.EOF (Peek/Discard/ReadFull-with-nothing on a dead stream)
  | unexpectedEOF             -- io.ErrUnexpectedEOF
  | kafka (code : Int)        -- kafka.Error(code)
  | other (what : String)     -- fmt.Errorf(…), bufio.ErrNegativeCount, io.ErrNoProgress, …
  | panic (what : String)     -- the Go code would panic here
  deriving Repr, DecidableEq

structure RS where
  inp : Bytes
  sz  : Nat
  deriving Repr, DecidableEq

abbrev R (α : Type) := RS → Except Err α × RS

/-- `Adv s s'`: `s'` is `s` after consuming some bytes `pre`, with the frame counter decremented by exactly
`pre.length` (the conservation law every read.go primitive obeys, on success and on error). -/
def Adv (s s' : RS) : Prop := ∃ pre : Bytes, s.inp = pre ++ s'.inp ∧ s.sz = pre.length + s'.sz

theorem Adv.refl (s : RS) : Adv s s := ⟨[], by simp, by simp⟩

theorem Adv.trans {a b c : RS} (h₁ : Adv a b) (h₂ : Adv b c) : Adv a c := by
  obtain ⟨p, hp, hs⟩ := h₁
  obtain ⟨q, hq, ht⟩ := h₂
  refine ⟨p ++ q, ?_, ?_⟩
  · rw [hp, hq, List.append_assoc]
  · rw [hs, ht, List.length_append]; omega

/-- consumed everything that was announced: if the counter reached 0 the input held at least `sz` bytes and
exactly `sz` of them were consumed. -/
theorem Adv.consumed_all {s s' : RS} (h : Adv s s') (hz : s'.sz = 0) :
    s.sz ≤ s.inp.length ∧ s'.inp = s.inp.drop s.sz := by
  obtain ⟨p, hp, hs⟩ := h
  have : s.sz = p.length := by omega
  constructor
  · rw [hp, List.length_append]; omega
  · rw [hp, this, List.drop_left]

/-- a reader `Conserves` when every run advances the state in the sense of `Adv`. -/
def Conserves {α : Type} (m : R α) : Prop := ∀ s, Adv s (m s).2

def rpure {α : Type} (a : α) : R α := fun s => (.ok a, s)
def rthrow {α : Type} (e : Err) : R α := fun s => (.error e, s)
def rbind {α β : Type} (m : R α) (f : α → R β) : R β := fun s =>
  match m s with
  | (.ok a, s') => f a s'
  | (.error e, s') => (.error e, s')

theorem conserves_pure {α : Type} (a : α) : Conserves (rpure a) := fun s => Adv.refl s
theorem conserves_throw {α : Type} (e : Err) : Conserves (rthrow (α := α) e) := fun s => Adv.refl s

theorem conserves_bind {α β : Type} {m : R α} {f : α → R β} (hm : Conserves m) (hf : ∀ a, Conserves (f a)) :
    Conserves (rbind m f) := by
  intro s
  have h := hm s
  unfold rbind
  cases hms : m s with
  | mk r s' =>
    rw [hms] at h
    cases r with
    | ok a => exact Adv.trans h (hf a s')
    | error e => exact h

/-! ### big-endian integers -/

def beNat (bs : Bytes) : Nat := bs.foldl (fun a b => a * 256 + b.toNat) 0

/-- signed big-endian value of an `n`-byte field (makeInt8/16/32/64) -/
def beInt (bs : Bytes) : Int :=
  let u := beNat bs
  let m := 256 ^ bs.length
  if 2 * u ≥ m then (u : Int) - m else u

/-! ### read.go / discard.go primitives -/

/-- read.go `peekRead(r, sz, n, f)`: `n > sz` → errShortRead; `Peek(n)` fails → its error; else consume n. -/
def peekRead (n : Nat) : R Bytes := fun s =>
  if n > s.sz then (.error .shortRead, s)
  else if s.inp.length < n then (.error .eof, s)
  else (.ok (s.inp.take n), ⟨s.inp.drop n, s.sz - n⟩)

/-- readInt8/16/32/64, readBool -/
def readInt (n : Nat) : R Int := fun s =>
  match peekRead n s with
  | (.ok b, s') => (.ok (beInt b), s')
  | (.error e, s') => (.error e, s')

/-- discard.go `discardN(r, sz, n)`.  `bufio.Reader.Discard` consumes what is there and reports the stream error. -/
def discardN (n : Int) : R Unit := fun s =>
  if n ≤ s.sz then
    if n < 0 then (.error (.other "bufio: negative count"), s)
    else if s.inp.length < n.toNat then (.error .eof, ⟨[], s.sz - s.inp.length⟩)
    else (.ok (), ⟨s.inp.drop n.toNat, s.sz - n.toNat⟩)
  else
    if s.inp.length < s.sz then (.error .eof, ⟨[], s.sz - s.inp.length⟩)
    else (.error .shortRead, ⟨s.inp.drop s.sz, 0⟩)

/-- read.go `readNewBytes(r, sz, n)`: `io.ReadFull` of `min n sz` bytes, errShortRead if the frame is too short. -/
def readNewBytes (n : Int) : R Bytes := fun s =>
  if n ≤ 0 then (.ok [], s)
  else
    let m := min n.toNat s.sz
    if s.inp.length < m then
      (.error (if s.inp.length = 0 then .eof else .unexpectedEOF), ⟨[], s.sz - s.inp.length⟩)
    else if s.sz < n.toNat then (.error .shortRead, ⟨s.inp.drop m, s.sz - m⟩)
    else (.ok (s.inp.take m), ⟨s.inp.drop m, s.sz - m⟩)

/-- read.go `readStringWith` / `readBytesWith` (`lenBytes` = 2 resp. 4): length, `n > sz` → errShortRead, callback. -/
def readLenWith {α : Type} (lenBytes : Nat) (cb : Int → R α) : R α := fun s =>
  match readInt lenBytes s with
  | (.error e, s') => (.error e, s')
  | (.ok n, s') => if n > s'.sz then (.error .shortRead, s') else cb n s'

def readString : R Bytes := readLenWith 2 readNewBytes
def readBytes : R Bytes := readLenWith 4 readNewBytes

/-- discard.go `discardString` / `discardBytes` -/
def discardLen (lenBytes : Nat) : R Unit :=
  readLenWith lenBytes (fun n => if n < 0 then rpure () else discardN n)

/-! ### conservation of the primitives -/

theorem take_append_drop' (n : Nat) (l : Bytes) : l = l.take n ++ l.drop n := (List.take_append_drop n l).symm

theorem conserves_peekRead (n : Nat) : Conserves (peekRead n) := by
  intro s
  unfold peekRead
  split
  · exact Adv.refl s
  · split
    · exact Adv.refl s
    · refine ⟨s.inp.take n, take_append_drop' n s.inp, ?_⟩
      simp only [List.length_take]; omega

theorem conserves_readInt (n : Nat) : Conserves (readInt n) := by
  intro s
  have h := conserves_peekRead n s
  unfold readInt
  cases hp : peekRead n s with
  | mk r s' => rw [hp] at h; cases r <;> exact h

theorem conserves_discardN (n : Int) : Conserves (discardN n) := by
  intro s
  unfold discardN
  split
  · split
    · exact Adv.refl s
    · split
      · refine ⟨s.inp, by simp, ?_⟩
        simp only; omega
      · refine ⟨s.inp.take n.toNat, take_append_drop' _ _, ?_⟩
        simp only [List.length_take]; omega
  · split
    · refine ⟨s.inp, by simp, ?_⟩
      simp only; omega
    · refine ⟨s.inp.take s.sz, take_append_drop' _ _, ?_⟩
      simp only [List.length_take]; omega

theorem conserves_readNewBytes (n : Int) : Conserves (readNewBytes n) := by
  intro s
  unfold readNewBytes
  split
  · exact Adv.refl s
  · simp only
    split
    · refine ⟨s.inp, by simp, ?_⟩
      simp only; omega
    · split
      · refine ⟨s.inp.take (min n.toNat s.sz), take_append_drop' _ _, ?_⟩
        simp only [List.length_take]; omega
      · refine ⟨s.inp.take (min n.toNat s.sz), take_append_drop' _ _, ?_⟩
        simp only [List.length_take]; omega

theorem conserves_readLenWith {α : Type} (k : Nat) {cb : Int → R α} (h : ∀ n, Conserves (cb n)) :
    Conserves (readLenWith k cb) := by
  intro s
  have hi := conserves_readInt k s
  unfold readLenWith
  cases hp : readInt k s with
  | mk r s' =>
    rw [hp] at hi
    cases r with
    | error e => exact hi
    | ok n =>
      simp only
      split
      · exact hi
      · exact Adv.trans hi (h n s')

theorem conserves_readString : Conserves readString := conserves_readLenWith 2 conserves_readNewBytes
theorem conserves_readBytes : Conserves readBytes := conserves_readLenWith 4 conserves_readNewBytes

theorem conserves_discardLen (k : Nat) : Conserves (discardLen k) := by
  apply conserves_readLenWith
  intro n
  split
  · exact conserves_pure ()
  · exact conserves_discardN n

end KV.Reader
