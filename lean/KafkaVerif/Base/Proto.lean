/-
Base/Proto.lean — the line protocol loop shared by all oracle executables (core Lean only).
One request per input line, exactly one response line per request, flushed at the end.
-/
namespace KV

partial def lineLoop {σ : Type} (h : IO.FS.Stream) (out : IO.FS.Stream) (step : σ → String → σ × String) (s : σ) : IO Unit := do
  let line ← h.getLine
  if line.isEmpty then
    out.flush
    return ()
  let (s', o) := step s (line.trimAscii.toString)
  out.putStrLn o
  lineLoop h out step s'

def runOracle {σ : Type} (init : σ) (step : σ → String → σ × String) : IO Unit := do
  let i ← IO.getStdin
  let o ← IO.getStdout
  lineLoop i o step init

def words (s : String) : List String :=
  (s.splitOn " ").filter (· ≠ "")

def parseInt? (s : String) : Option Int := s.toInt?
def parseNat? (s : String) : Option Nat := s.toNat?

end KV
