/-
Base/Bytes.lean — byte strings and hex text for the line protocol (core Lean only).
-/
namespace KV

abbrev Bytes := List UInt8

def hexDigit (n : Nat) : Char :=
  if n < 10 then Char.ofNat (48 + n) else Char.ofNat (87 + n)

def hexOfByte (b : UInt8) : String :=
  String.ofList [hexDigit (b.toNat / 16), hexDigit (b.toNat % 16)]

def toHex (bs : Bytes) : String :=
  String.join (bs.map hexOfByte)

def hexVal (c : Char) : Option Nat :=
  if '0' ≤ c ∧ c ≤ '9' then some (c.toNat - 48)
  else if 'a' ≤ c ∧ c ≤ 'f' then some (c.toNat - 87)
  else if 'A' ≤ c ∧ c ≤ 'F' then some (c.toNat - 55)
  else none

def ofHexChars : List Char → Option Bytes
  | [] => some []
  | [_] => none
  | a :: b :: rest => do
    let x ← hexVal a
    let y ← hexVal b
    let r ← ofHexChars rest
    pure (UInt8.ofNat (x * 16 + y) :: r)

/-- Parse lowercase/uppercase hex. `"-"` denotes the empty byte string (so that a field is never empty
on the line), and `"nil"` is handled by callers that distinguish nil from empty. -/
def ofHex (s : String) : Option Bytes :=
  if s == "-" then some [] else ofHexChars s.toList

end KV
