/-
Base/Wire.lean — Kafka wire primitives as arithmetic on `Nat`/`Int` (core Lean only).

Mirrors protocol/encode.go `writeInt8/16/32/64`, `writeUnsignedVarInt` and protocol/decode.go
`readInt8/16/32/64`, `readUnsignedVarInt`.  Integers are modelled arithmetically (`n / 256`, `n % 256`) so
that `omega` closes the round trips; no bit-vector reasoning.
-/
import KafkaVerif.Base.Bytes

namespace KV.Wire
open KV

/-- big-endian, exactly `k` bytes, of `n % 256^k` (`binary.BigEndian.PutUintN`) -/
def be : Nat → Nat → Bytes
  | 0, _ => []
  | k + 1, n => be k (n / 256) ++ [UInt8.ofNat (n % 256)]

/-- `binary.BigEndian.UintN` -/
def fromBE (bs : Bytes) : Nat := bs.foldl (fun acc b => acc * 256 + b.toNat) 0

/-- two's complement: Go's `uintN(i)` conversion of a signed value, `bits = 8k` -/
def toU (bits : Nat) (i : Int) : Nat := (i % (2 ^ bits : Nat)).toNat

/-- Go's `intN(u)` conversion of an unsigned value below `2^bits` -/
def toS (bits : Nat) (u : Nat) : Int := if u < 2 ^ (bits - 1) then (u : Int) else (u : Int) - (2 ^ bits : Nat)

/-- `writeIntN` for N = 8·k -/
def encInt (k : Nat) (i : Int) : Bytes := be k (toU (8 * k) i)

/-- `writeUnsignedVarInt` (the `n < len(b)` guard of the 32-byte scratch buffer never binds for a uint64) -/
def uvarint (n : Nat) : Bytes :=
  if h : n < 128 then [UInt8.ofNat n] else UInt8.ofNat (n % 128 + 128) :: uvarint (n / 128)
decreasing_by omega

/-- value of a varint read with at most `fuel` bytes; `none`: ran out of fuel or of input.
`readUnsignedVarInt`'s loop `x |= uint64(b&0x7f) << s` accumulates little-endian base-128 digits; the
recursive form below computes the same sum (digit + 128·rest), the caller truncates to 64 bits. -/
def readUvarintAux : Nat → Bytes → Option (Nat × Bytes)
  | 0, _ => none
  | _ + 1, [] => none
  | fuel + 1, b :: rest =>
    if b.toNat < 128 then some (b.toNat, rest)
    else match readUvarintAux fuel rest with
      | some (v, r) => some (b.toNat - 128 + 128 * v, r)
      | none => none

theorem be_length (k n : Nat) : (be k n).length = k := by
  induction k generalizing n with
  | zero => rfl
  | succ k ih => simp [be, ih]

theorem fromBE_append_single (bs : Bytes) (b : UInt8) : fromBE (bs ++ [b]) = fromBE bs * 256 + b.toNat := by
  simp [fromBE, List.foldl_append]

theorem fromBE_be (k n : Nat) : fromBE (be k n) = n % 256 ^ k := by
  induction k generalizing n with
  | zero => simp [be, fromBE, Nat.mod_one]
  | succ k ih =>
    rw [be, fromBE_append_single, ih, Nat.pow_succ]
    have h1 : (UInt8.ofNat (n % 256)).toNat = n % 256 := by
      simp [UInt8.toNat_ofNat']
    rw [h1, Nat.mod_mul_left_div_self_aux]
where
  Nat.mod_mul_left_div_self_aux {n k : Nat} : n / 256 % 256 ^ k * 256 + n % 256 = n % (256 ^ k * 256) := by
    have := Nat.mod_mul_left_div_self n 256 (256 ^ k)
    rw [Nat.mul_comm (256 ^ k) 256, Nat.mod_mul, Nat.mul_comm]
    omega

theorem toS_toU (bits : Nat) (i : Int) (hb : 0 < bits) (lo : -(2 ^ (bits - 1) : Nat) ≤ i) (hi : i < (2 ^ (bits - 1) : Nat)) :
    toS bits (toU bits i) = i := by
  have hp : (2 ^ bits : Nat) = 2 * 2 ^ (bits - 1) := by
    cases bits with
    | zero => omega
    | succ b => simp [Nat.pow_succ, Nat.mul_comm]
  unfold toS toU
  generalize (2 ^ (bits - 1) : Nat) = h at *
  rw [hp]
  have hpos : (0 : Int) < ((2 * h : Nat) : Int) := by omega
  by_cases hn : 0 ≤ i
  · have : i % ((2 * h : Nat) : Int) = i := Int.emod_eq_of_lt hn (by omega)
    rw [this]; split <;> omega
  · have h2 : i % ((2 * h : Nat) : Int) = i + ((2 * h : Nat) : Int) := by
      have := Int.add_mul_emod_self_left i ((2 * h : Nat) : Int) 1
      rw [Int.mul_one] at this
      rw [← this]; exact Int.emod_eq_of_lt (by omega) (by omega)
    rw [h2]; split <;> omega

theorem toU_lt (bits : Nat) (i : Int) : toU bits i < 2 ^ bits := by
  unfold toU
  have hpos : (0 : Int) < ((2 ^ bits : Nat) : Int) := by
    have : 0 < 2 ^ bits := Nat.two_pow_pos bits
    omega
  have h1 := Int.emod_lt_of_pos i hpos
  have h2 := Int.emod_nonneg i (Int.ne_of_gt hpos)
  omega

/-- reading back a fixed-width signed integer -/
theorem decInt_encInt (k : Nat) (i : Int) (hk : 0 < k)
    (lo : -(2 ^ (8 * k - 1) : Nat) ≤ i) (hi : i < (2 ^ (8 * k - 1) : Nat)) :
    toS (8 * k) (fromBE (encInt k i)) = i := by
  unfold encInt
  rw [fromBE_be]
  have : (256 : Nat) ^ k = 2 ^ (8 * k) := by
    rw [show (256 : Nat) = 2 ^ 8 by rfl, ← Nat.pow_mul]
  rw [this, Nat.mod_eq_of_lt (toU_lt _ _)]
  exact toS_toU _ _ (by omega) lo hi

theorem uvarint_ne_nil (n : Nat) : uvarint n ≠ [] := by
  unfold uvarint; split <;> simp

theorem uvarint_length_pos (n : Nat) : 0 < (uvarint n).length := by
  have := uvarint_ne_nil n
  cases h : uvarint n with
  | nil => exact absurd h this
  | cons _ _ => simp

theorem uvarint_length_le (k n : Nat) (hk : 0 < k) (h : n < 128 ^ k) : (uvarint n).length ≤ k := by
  induction k generalizing n with
  | zero => omega
  | succ k ih =>
    unfold uvarint
    split
    · simp
    · rename_i hn
      have hk' : 0 < k := by
        cases k with
        | zero => simp at h; omega
        | succ _ => omega
      have : n / 128 < 128 ^ k := by
        rw [Nat.pow_succ] at h
        exact Nat.div_lt_of_lt_mul (by rw [Nat.mul_comm]; exact h)
      have := ih (n / 128) hk' this
      simp; omega

theorem readUvarintAux_uvarint (fuel n : Nat) (r : Bytes) (h : (uvarint n).length ≤ fuel) :
    readUvarintAux fuel (uvarint n ++ r) = some (n, r) := by
  induction fuel generalizing n with
  | zero => have := uvarint_length_pos n; omega
  | succ fuel ih =>
    unfold uvarint at h ⊢
    split
    · rename_i hn
      simp [readUvarintAux, UInt8.toNat_ofNat', Nat.mod_eq_of_lt (show n < 256 by omega), hn]
    · rename_i hn
      have h1 : (UInt8.ofNat (n % 128 + 128)).toNat = n % 128 + 128 := by
        simp [UInt8.toNat_ofNat']; omega
      simp only [List.cons_append, readUvarintAux, h1]
      have : ¬ (n % 128 + 128 < 128) := by omega
      simp only [this, if_false]
      simp only [dite_false, hn, List.length_cons] at h
      rw [ih (n / 128) (by omega)]
      simp; omega

end KV.Wire
