/-
Base/LegacyRead.lean — the READ primitives of the hand-written Conn codec (read.go: `readInt16`, `readString`,
`readBytes`, `readArrayWith`, …) as parsers on the bytes of a response body, the statement combinators the generated
`T.readFrom` functions of Gen/Legacy.lean are built from, and the lemmas "reading what `write.go` wrote gives the value
back" the generated `read_write` theorems rest on.  Core Lean only.

The `remain` counter the Go functions thread through (bytes of the frame not yet consumed) is the length of the byte
list here: the body is the list, running out of it is `none` (Go: errShortRead / io.ErrUnexpectedEOF).
-/
import KafkaVerif.Base.LegacyWire

namespace KV.Legacy
open KV KV.Wire

abbrev Rd (α : Type) := Bytes → Option (α × Bytes)

/-- `readInt8/16/32/64`: k bytes, big endian, two's complement -/
def rdInt (k : Nat) : Rd Int := fun bs =>
  if bs.length < k then none else some (toS (8 * k) (fromBE (bs.take k)), bs.drop k)
def readInt8 : Rd Int := rdInt 1
def readInt16 : Rd Int := rdInt 2
def readInt32 : Rd Int := rdInt 4
def readInt64 : Rd Int := rdInt 8
/-- `readBool`: `b[0] != 0` -/
def readBool : Rd Bool := fun bs => match rdInt 1 bs with
  | none => none
  | some (i, r) => some (i != 0, r)
/-- `readNewBytes(r, sz, n)` after the `n > sz` test of `readStringWith` / `readBytesWith`: n ≤ 0 reads nothing -/
def rdBlob (n : Int) : Rd Bytes := fun r =>
  if n ≤ 0 then some ([], r) else if r.length < n.toNat then none else some (r.take n.toNat, r.drop n.toNat)
/-- `readString`: int16 length, then the bytes (a null string reads as "") -/
def readString : Rd Bytes := fun bs => match rdInt 2 bs with
  | none => none
  | some (n, r) => rdBlob n r
/-- `readBytes`: int32 length, then the bytes (null reads as nil) -/
def readBytes : Rd Bytes := fun bs => match rdInt 4 bs with
  | none => none
  | some (n, r) => rdBlob n r
/-- the loop of `readArrayWith`: `for n := int(len); n > 0; n-- { cb(r, sz) }` -/
def readElems {α : Type} (elem : Rd α) : Nat → Rd (List α)
  | 0, bs => some ([], bs)
  | n + 1, bs => match elem bs with
    | none => none
    | some (x, r) => match readElems elem n r with
      | none => none
      | some (xs, r') => some (x :: xs, r')
/-- `readArrayWith(r, sz, cb)`: int32 count (negative: no element), then the elements, collected in order -/
def readArrayWith {α : Type} (elem : Rd α) : Rd (List α) := fun bs => match rdInt 4 bs with
  | none => none
  | some (n, r) => readElems elem n.toNat r
def readStringArray : Rd (List Bytes) := readArrayWith readString
def readInt32Array : Rd (List Int) := readArrayWith readInt32

/-! ### statements of a `readFrom` body -/
/-- `if remain, err = readX(r, remain, &t.F); err != nil { return }` (the reader may depend on the receiver: `T{v: t.v}`) -/
def rdField {σ α : Type} (rd : σ → Rd α) (set : σ → α → σ) : σ → Rd σ := fun t bs =>
  match rd t bs with
  | none => none
  | some (x, r) => some (set t x, r)
def rdSeq {σ : Type} (f g : σ → Rd σ) : σ → Rd σ := fun t bs =>
  match f t bs with
  | none => none
  | some (t', r) => g t' r
/-- `if t.v >= vN { … }` -/
def rdIf {σ : Type} (c : σ → Bool) (f : σ → Rd σ) : σ → Rd σ := fun t bs => if c t then f t bs else some (t, bs)
def rdDone {σ : Type} : σ → Rd σ := fun t bs => some (t, bs)

/-! ### reading back what write.go wrote -/
def inRng (bits : Nat) (i : Int) : Prop := -(2 ^ (bits - 1) : Nat) ≤ i ∧ i < (2 ^ (bits - 1) : Nat)

theorem rdInt_enc (k : Nat) (i : Int) (rest : Bytes) (hk : 0 < k) (h : inRng (8 * k) i) :
    rdInt k (encInt k i ++ rest) = some (i, rest) := by
  have hl : (encInt k i).length = k := len_encInt k i
  have h1 : ¬ ((encInt k i ++ rest).length < k) := by simp [hl]
  simp only [rdInt, h1, if_false]
  rw [List.take_left' hl, List.drop_left' hl, decInt_encInt k i hk h.1 h.2]

@[simp] theorem readInt8_write (i : Int) (rest : Bytes) (h : inRng 8 i) : readInt8 (writeInt8 i ++ rest) = some (i, rest) :=
  rdInt_enc 1 i rest (by decide) h
@[simp] theorem readInt16_write (i : Int) (rest : Bytes) (h : inRng 16 i) : readInt16 (writeInt16 i ++ rest) = some (i, rest) :=
  rdInt_enc 2 i rest (by decide) h
@[simp] theorem readInt32_write (i : Int) (rest : Bytes) (h : inRng 32 i) : readInt32 (writeInt32 i ++ rest) = some (i, rest) :=
  rdInt_enc 4 i rest (by decide) h
@[simp] theorem readInt64_write (i : Int) (rest : Bytes) (h : inRng 64 i) : readInt64 (writeInt64 i ++ rest) = some (i, rest) :=
  rdInt_enc 8 i rest (by decide) h

@[simp] theorem readBool_write (b : Bool) (rest : Bytes) : readBool (writeBool b ++ rest) = some (b, rest) := by
  cases b <;> simp [readBool, writeBool, rdInt, fromBE, toS]

theorem rdBlob_append (s rest : Bytes) : rdBlob (s.length : Int) (s ++ rest) = some (s, rest) := by
  unfold rdBlob
  by_cases h0 : s.length = 0
  · have : s = [] := List.eq_nil_of_length_eq_zero h0
    subst this; simp
  · have h1 : ¬ ((s.length : Int) ≤ 0) := by omega
    have h2 : ¬ ((s ++ rest).length < s.length) := by simp
    simp only [h1, h2, if_false, Int.toNat_natCast, List.take_left' rfl, List.drop_left' rfl]

@[simp] theorem readString_write (s rest : Bytes) (h : s.length < 2 ^ 15) :
    readString (writeString s ++ rest) = some (s, rest) := by
  have hr : inRng (8 * 2) (s.length : Int) := by constructor <;> simp <;> omega
  simp only [readString, writeString, List.append_assoc, rdInt_enc 2 _ _ (by decide) hr, rdBlob_append]

@[simp] theorem readBytes_write (s rest : Bytes) (h : s.length < 2 ^ 31) :
    readBytes (writeBytes s ++ rest) = some (s, rest) := by
  have hr : inRng (8 * 4) (s.length : Int) := by constructor <;> simp <;> omega
  simp only [readBytes, writeBytes, List.append_assoc, rdInt_enc 4 _ _ (by decide) hr, rdBlob_append]

theorem readElems_writeEach {α : Type} (elem : Rd α) (w : α → Bytes) (xs : List α) (rest : Bytes)
    (h : ∀ x ∈ xs, ∀ r, elem (w x ++ r) = some (x, r)) :
    readElems elem xs.length (writeEach xs w ++ rest) = some (xs, rest) := by
  induction xs with
  | nil => simp [readElems, writeEach]
  | cons x xs ih =>
    have hx := h x (List.mem_cons_self ..)
    have ih' := ih (fun y hy => h y (List.mem_cons_of_mem _ hy))
    simp only [writeEach, List.map_cons, List.flatten_cons, List.append_assoc, List.length_cons, readElems] at ih' ⊢
    rw [hx]
    simp only [ih']

theorem readArrayWith_writeArray {α : Type} (elem : Rd α) (w : α → Bytes) (xs : List α) (rest : Bytes)
    (h : ∀ x ∈ xs, ∀ r, elem (w x ++ r) = some (x, r)) (hl : xs.length < 2 ^ 31) :
    readArrayWith elem (writeArray xs w ++ rest) = some (xs, rest) := by
  have hr : inRng (8 * 4) (xs.length : Int) := by constructor <;> simp <;> omega
  simp only [readArrayWith, writeArray, writeArrayLen, List.append_assoc, rdInt_enc 4 _ _ (by decide) hr,
    Int.toNat_natCast, readElems_writeEach elem w xs rest h]

@[simp] theorem readStringArray_write (xs : List Bytes) (rest : Bytes) (h : ∀ x ∈ xs, x.length < 2 ^ 15) (hl : xs.length < 2 ^ 31) :
    readStringArray (writeStringArray xs ++ rest) = some (xs, rest) :=
  readArrayWith_writeArray readString writeString xs rest (fun x hx r => readString_write x r (h x hx)) hl

@[simp] theorem readInt32Array_write (xs : List Int) (rest : Bytes) (h : ∀ x ∈ xs, inRng 32 x) (hl : xs.length < 2 ^ 31) :
    readInt32Array (writeInt32Array xs ++ rest) = some (xs, rest) :=
  readArrayWith_writeArray readInt32 writeInt32 xs rest (fun x hx r => readInt32_write x r (h x hx)) hl

end KV.Legacy
