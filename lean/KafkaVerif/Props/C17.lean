/-
Props/C17.lean — "A response cut off at any byte yields an error, never a panic, hang or fake data".

The stream model of Base/Reader.lean makes a lost connection explicit: `inp` is everything that will ever arrive, then
EOF.  A response frame announces `sz` bytes; the connection is lost inside it iff `inp.length < sz` (cut inside the
body) or fewer than 8 bytes arrive (cut inside the size prefix / correlation id).

  * `cut_is_error_generic` — the one-line heart: any byte-conserving computation that ends with the frame counter at 0
    has consumed `sz` bytes, so it cannot end that way on a stream holding fewer.  Generic over ALL parser programs
    (`parser_conserves`), hence over whatever the translator regenerates from /repo.
  * `cut_is_error` / `cut_in_header_is_error` — every (*Conn).do operation: result is a non-kafka error and the Conn is
    closed; `closed_stays_failed` (C11) then says every later operation fails.  Whatever the bytes are: no
    well-formedness needed, every cut position.
  * `fetch_cut_is_error` — ReadBatchWith/Batch for every byte-conserving message-set reader: never a complete batch
    (`ok`); if a kafka error is reported the stream has been used up, so the next operation fails (`dead_stream_fails`).
    Records delivered before the error are the message-set reader's business (message_reader.go: property C02/C05
    models); the driver checks on the real code that they are a prefix of the records sent.
  * `readResponse_cut_is_error` — the reflective decoder (protocol/decode.go, protocol/response.go ReadResponse) under
    its contract "ok is only returned after `discardAll` brought `remain` to 0" (`d.discardAll(); err = d.err`), tied
    by correspondence on every registered response type × version × cut position.
Not proved: "blocks beyond its deadline" (runtime; observed by the driver's watchdog), absence of panics inside
message_reader.go (D14 belongs to C02; the driver counts panics on cut fetch responses).
-/
import KafkaVerif.Props.C11
import KafkaVerif.Lemmas.TransportConnC17
import KafkaVerif.Props.C02
import KafkaVerif.Props.C01
import KafkaVerif.Model.SplitMerge
import KafkaVerif.Lemmas.CodecAcct
import KafkaVerif.Gen.DecoderCfg

namespace KV.C17
open KV KV.Reader KV.ConnOps

/-- a conserving computation cannot bring the frame counter to 0 on a stream shorter than the frame -/
theorem cut_is_error_generic {s s' : RS} (h : Adv s s') (hcut : s.inp.length < s.sz) : s'.sz ≠ 0 := by
  intro hz
  have := (h.consumed_all hz).1
  omega

/-- every parser program, on a cut stream, ends with part of the frame still announced -/
theorem parser_cut (ps : List Step) (c : Ctx) (s : RS) (hcut : s.inp.length < s.sz) : (runSteps ps c s).2.sz ≠ 0 :=
  cut_is_error_generic (runSteps_adv ps c s) hcut

/-- one exchange on a cut stream fails (non-kafka error), for every good operation -/
theorem exchange_cut_is_error (o : OpSpec) (v : Nat) (topic : Bytes) (s : RS) (hgood : o.good v = true)
    (hcut : s.inp.length < s.sz) : (opRead o v topic s).1.isFail = true := by
  cases hf : (opRead o v topic s).1.isFail with
  | true => rfl
  | false =>
    have := (C11.exchange_aligned o v topic s hgood hf).1
    omega

/-- THE C17 THEOREM for (*Conn).do operations, cut inside the body (any position): the header announced `n` bytes,
fewer arrive.  The call returns a non-kafka error and the Conn is closed. -/
theorem cut_is_error (o : OpSpec) (v : Nat) (topic : Bytes) (c : Conn) (hdr tail : Bytes) (n : Nat)
    (hgood : o.good v = true) (hclose : o.closeOnErr = true) (hopen : c.closed = false)
    (hstream : c.stream = hdr ++ tail) (hlen : hdr.length = 8)
    (hsize : beInt (hdr.take 4) = n + 4) (hid : beInt (hdr.drop 4) = c.nextId)
    (hcut : tail.length < n) :
    (connDo o v topic c).1.isFail = true ∧ (connDo o v topic c).2.closed = true := by
  have hw := C11.wait_hdr c hdr tail n hstream hlen hsize hid
  have hf := exchange_cut_is_error o v topic ⟨tail, n⟩ hgood hcut
  unfold connDo
  simp [hopen, hw, hf, hclose]

/-- cut inside the size prefix or the correlation id (fewer than 8 bytes arrive), and equally a stream that is
already used up: the call fails and the Conn is closed -/
theorem cut_in_header_is_error (o : OpSpec) (v : Nat) (topic : Bytes) (c : Conn) (hopen : c.closed = false)
    (hshort : c.stream.length < 8) :
    (connDo o v topic c).1.isFail = true ∧ (connDo o v topic c).2.closed = true := by
  unfold connDo waitResponse
  simp [hopen, hshort, Outcome.isFail]

theorem dead_stream_fails (o : OpSpec) (v : Nat) (topic : Bytes) (c : Conn) (hdead : c.stream = []) :
    (connDo o v topic c).1.isFail = true := by
  cases hc : c.closed with
  | true => exact (C11.closed_stays_failed o v topic c hc).1
  | false => exact (cut_in_header_is_error o v topic c hc (by rw [hdead]; decide)).1

/-! ### a cut anywhere in a run of operations

`C11.sequence_aligned` gives the operations before the cut (each as alone on a fresh connection); the operation whose
response is cut fails and closes the Conn; every later one fails.  For every number of operations, every position of
the cut inside (or at the start of) a response, every byte content. -/

theorem seqWF_append (a b : List C11.Exch) (id : Int) :
    C11.seqWF (a ++ b) id ↔ C11.seqWF a id ∧ C11.seqWF b (id + a.length) := by
  induction a generalizing id with
  | nil => simp [C11.seqWF]
  | cons x r ih =>
    simp only [List.cons_append, C11.seqWF, ih, List.length_cons, and_assoc]
    have : id + 1 + (r.length : Int) = id + ((r.length + 1 : Nat) : Int) := by omega
    rw [this]

theorem runOps_append (topic : Bytes) (a b : List C11.Exch) (c : Conn) :
    C11.runOps topic (a ++ b) c =
      ((C11.runOps topic a c).1 ++ (C11.runOps topic b (C11.runOps topic a c).2).1,
       (C11.runOps topic b (C11.runOps topic a c).2).2) := by
  induction a generalizing c with
  | nil => rfl
  | cons x r ih => simp only [List.cons_append, C11.runOps, ih]

theorem cut_in_sequence (topic : Bytes) (pre : List C11.Exch) (e : C11.Exch) (post : List C11.Exch) (c : Conn) (k : Nat)
    (hopen : c.closed = false) (hwf : C11.seqWF (pre ++ [e]) c.nextId)
    (hpre : (C11.expectedOuts topic pre).all (fun o => !o.isFail) = true)
    (hk : k < 8 + e.body.length)
    (hs : c.stream = C11.streamOf pre ++ (e.hdr ++ e.body).take k) :
    ∃ out, out.isFail = true ∧
      (C11.runOps topic (pre ++ e :: post) c).1 =
        C11.expectedOuts topic pre ++ out :: post.map (fun _ => C11.closedOutcome) ∧
      (C11.runOps topic (pre ++ e :: post) c).2.closed = true := by
  obtain ⟨hwp, hwe⟩ := (seqWF_append pre [e] c.nextId).1 hwf
  obtain ⟨⟨hlen, hsize, hid, hgood, hclose⟩, _⟩ := hwe
  obtain ⟨ho, hc⟩ := C11.sequence_aligned topic pre c _ hopen hwp hs
  have hc1 := hc hpre
  -- the Conn after the complete exchanges: open, positioned at the cut response
  have hcut : (connDo e.o e.v topic (C11.runOps topic pre c).2).1.isFail = true ∧
      (connDo e.o e.v topic (C11.runOps topic pre c).2).2.closed = true := by
    rw [hc1]
    by_cases h8 : k < 8
    · exact cut_in_header_is_error e.o e.v topic _ rfl (by simp only [List.length_take, List.length_append]; omega)
    · have hsplit : (e.hdr ++ e.body).take k = e.hdr ++ e.body.take (k - 8) := by
        rw [List.take_append, List.take_of_length_le (by omega), hlen]
      exact cut_is_error e.o e.v topic _ e.hdr (e.body.take (k - 8)) e.body.length hgood hclose rfl
        (by simp only [hsplit]) hlen hsize (by simpa using hid) (by simp only [List.length_take]; omega)
  refine ⟨(connDo e.o e.v topic (C11.runOps topic pre c).2).1, hcut.1, ?_, ?_⟩
  · rw [runOps_append, ho]
    simp only [C11.runOps, C11.runOps_closed topic post _ hcut.2]
  · rw [runOps_append]
    simp only [C11.runOps, C11.runOps_closed topic post _ hcut.2, hcut.2]

/-! ### a cut during the version negotiation (conn.go loadVersions) -/

open KV.ConnVersions in
/-- the response to the ApiVersions request of a negotiating exchange is cut (fewer bytes than announced after a complete
header): the exchange fails with a non-kafka error, nothing becomes the Conn's version map, the Conn is closed — and the
same for every later exchange, negotiating or not (`C11.closed_stays_failed`) -/
theorem negotiation_cut_is_error (strict : Bool) (av : OpSpec) (key : Int) (cands : List Nat)
    (run : Nat → Conn → Outcome × Conn) (topic : Bytes) (c : Conn) (hdr tail : Bytes) (n : Nat)
    (hgood : av.good 0 = true) (hclose : av.closeOnErr = true) (hopen : c.closed = false)
    (hstream : c.stream = hdr ++ tail) (hlen : hdr.length = 8)
    (hsize : beInt (hdr.take 4) = n + 4) (hid : beInt (hdr.drop 4) = c.nextId) (hcut : tail.length < n) :
    (vRun strict av key cands run topic ⟨c, none⟩).1.isFail = true ∧
    (vRun strict av key cands run topic ⟨c, none⟩).2.conn.closed = true ∧
    (vRun strict av key cands run topic ⟨c, none⟩).2.cache = none := by
  obtain ⟨hf, hc⟩ := cut_is_error av 0 topic c hdr tail n hgood hclose hopen hstream hlen hsize hid hcut
  cases hr : (connDo av 0 topic c).1 with
  | ok => rw [hr] at hf; simp [Outcome.isFail] at hf
  | kafka k => rw [hr] at hf; simp [Outcome.isFail] at hf
  | fail e => simp [vRun, loadVersions, hr, hc, Outcome.isFail]

/-- fetch on a cut stream, for every conserving message-set reader and however far the caller read the batch before
Close: a non-kafka error, and the Conn is closed — the same statement as `cut_is_error` (since the fix C02-D33; before
it a kafka error out of ReadMessage, or an early Close, could end "successfully" on a Conn left in mid-response) -/
theorem fetch_cut_is_error (v : Nat) (offset : Int) (b : Body) (c : Conn) (hdr tail : Bytes) (n : Nat)
    (hb : b.Conserves) (hopen : c.closed = false)
    (hstream : c.stream = hdr ++ tail) (hlen : hdr.length = 8)
    (hsize : beInt (hdr.take 4) = n + 4) (hid : beInt (hdr.drop 4) = c.nextId)
    (hcut : tail.length < n) :
    (connFetch true v offset b c).1.isFail = true ∧ (connFetch true v offset b c).2.closed = true := by
  have hw := C11.wait_hdr c hdr tail n hstream hlen hsize hid
  have hf := fetchRead_cut v offset b ⟨tail, n⟩ hb hcut
  unfold connFetch
  simp only [hopen, Bool.false_eq_true, ↓reduceIte, hw]
  exact ⟨hf, hf⟩

/-! ### the reflective decoder (Transport path) under its contract -/

/-- protocol.ReadResponse as seen from the stream: it conserves bytes, and returns a message only after
`d.discardAll()` left `d.remain = 0` without a sticky error. -/
structure Decoder (α : Type) where
  run : RS → Option α × RS
  conserves : ∀ s, Adv s (run s).2
  ok_after_discardAll : ∀ s a, (run s).1 = some a → (run s).2.sz = 0

theorem readResponse_cut_is_error {α : Type} (d : Decoder α) (s : RS) (hcut : s.inp.length < s.sz) :
    (d.run s).1 = none := by
  cases h : (d.run s).1 with
  | none => rfl
  | some a => exact absurd (d.ok_after_discardAll s a h) (cut_is_error_generic (d.conserves s) hcut)

/-- the contract is satisfiable by a decoder that does return messages (non-vacuity) -/
example : ∃ d : Decoder Nat, (d.run ⟨[1, 2, 3], 2⟩).1 = some 2 :=
  ⟨{ run := fun s => if s.inp.length < s.sz then (none, ⟨[], s.sz - s.inp.length⟩) else (some s.sz, ⟨s.inp.drop s.sz, 0⟩),
     conserves := by
       intro s
       split
       · refine ⟨s.inp, by simp, ?_⟩; simp only; omega
       · refine ⟨s.inp.take s.sz, (List.take_append_drop _ _).symm, ?_⟩
         simp only [List.length_take]; omega,
     ok_after_discardAll := by
       intro s a h
       split at h
       · simp at h
       · rename_i hn; simp [hn] },
   by decide⟩

/-! ### concrete instances (non-vacuity): the D2 frame of Props/C11 cut at every position -/

/-- every strict prefix of the produce error frame, through the current produce operation: failed and closed -/
theorem produce_frame_every_cut :
    (List.range (C11.d2Frame 1).length).all (fun k =>
      match specOf "produce" with
      | some o =>
        let r := connDo o 2 [116] ⟨(C11.d2Frame 1).take k, 1, false⟩
        r.1.isFail && r.2.closed
      | none => false) = true := by decide

/-- the un-framed sasl token exchange on a complete answer — 4 bytes of length, the token, then anything: ok, and the
stream is exactly at what follows the token (the C11 side of this exchange: the framed operations that follow the
authentication start at a frame boundary) -/
theorem raw_token_aligned (len tok rest : Bytes) (hl : len.length = 4) (hv : beInt len = tok.length) :
    rawToken (len ++ (tok ++ rest)) = (.ok, rest) := by
  unfold rawToken
  rw [C11.readInt_app len _ 4 4 hl (by omega)]
  simp only [hv]
  have hneg : ¬ ((tok.length : Int) < 0) := by omega
  simp only [hneg, ↓reduceIte, Int.toNat_natCast]
  unfold readNewBytes
  by_cases h0 : tok.length = 0
  · have : tok = [] := List.eq_nil_of_length_eq_zero h0
    subst this
    simp
  · have hpos : ¬ ((tok.length : Int) ≤ 0) := by omega
    simp only [hpos, ↓reduceIte, Int.toNat_natCast, Nat.min_self, List.length_append]
    have h1 : ¬ (tok.length + rest.length < tok.length) := by omega
    simp only [h1, ↓reduceIte, Nat.lt_irrefl, List.drop_left]

/-- the un-framed sasl token exchange: an answer announcing n bytes of which fewer arrive (or whose 4-byte length is
itself cut) is an error, at every cut position -/
theorem raw_token_cut_is_error (inp : Bytes) (h : inp.length < 4 ∨ (0 ≤ beInt (inp.take 4) ∧ (inp.length : Int) < 4 + beInt (inp.take 4))) :
    (rawToken inp).1.isFail = true := by
  unfold rawToken readInt peekRead
  by_cases h4 : inp.length < 4
  · simp [h4, Outcome.isFail]
  · have hn : ¬ (4 > 4) := by omega
    simp only [gt_iff_lt, Nat.lt_irrefl, ↓reduceIte, h4]
    rcases h with h | h
    · omega
    · by_cases hneg : beInt (inp.take 4) < 0
      · simp [hneg, Outcome.isFail]
      · simp only [hneg, ↓reduceIte]
        have hc := cut_is_error_generic (conserves_readNewBytes (beInt (inp.take 4)) ⟨inp.drop 4, (beInt (inp.take 4)).toNat⟩)
          (by simp only [List.length_drop]; omega)
        cases hr : readNewBytes (beInt (inp.take 4)) ⟨inp.drop 4, (beInt (inp.take 4)).toNat⟩ with
        | mk r s' =>
          cases r with
          | error e => simp [Outcome.isFail]
          | ok b =>
            -- an ok result of readNewBytes has consumed everything announced
            exfalso
            rw [hr] at hc
            unfold readNewBytes at hr
            by_cases h0 : beInt (inp.take 4) ≤ 0
            · have : beInt (inp.take 4) = 0 := by omega
              simp only [this, Int.le_refl, ↓reduceIte, Prod.mk.injEq] at hr
              rw [← hr.2] at hc; simp [this] at hc
            · simp only [h0, ↓reduceIte, Nat.min_self, Nat.lt_irrefl] at hr
              split at hr
              · cases hr
              · simp only [Prod.mk.injEq] at hr
                rw [← hr.2] at hc; simp at hc

/-! ### Transport path: a failed connection is never used again, the next request runs on another one

Model/TransportConn.lean: the life cycle of transport.go's connections as an LTS whose events are the existing
`verifEvent("T.…")` hook points; tie = trace acceptance of the recorded events of every end-to-end case of the driver
(Client / Writer over a real kafka.Transport against the fake broker, response cut at byte k, then follow-up calls). -/

open KV.TransportConn in
/-- the fact the LTS is parameterised by, as regenerated from transport.go `(*conn).run` now -/
theorem transport_drops_failed : Gen.ConnLegacy.transportFacts.dropFailed = true := by decide

open KV.TransportConn in
/-- for ALL event sequences the LTS accepts (with the regenerated fact): after an exchange on c failed (T.Done c, not ok,
not ErrNoRecord) no later event grabs c, receives a request on it, completes an exchange on it, releases it to the idle
stack or removes it from there — c can only exit — and it is still dead at the end. -/
theorem failed_conn_never_reused (f : TFacts) (hf : f.dropFailed = true) (s0 s3 : State) (pre post : List TransportConn.Ev) (c : Nat)
    (h : run f s0 (pre ++ [TransportConn.Ev.done c false false] ++ post) = some s3) :
    (∀ e ∈ post, uses c e = false) ∧ dead s3 c := by
  rw [List.append_assoc, run_append] at h
  cases h1 : run f s0 pre with
  | none => simp [h1] at h
  | some s1 =>
    simp only [h1, Option.bind_some, List.singleton_append, run] at h
    cases h2 : step f s1 (TransportConn.Ev.done c false false) with
    | none => simp [h2] at h
    | some s2 =>
      simp only [h2] at h
      have hd : dead s2 c := by
        simp only [step, Bool.or_self, Bool.false_eq_true, ↓reduceIte] at h2
        obtain ⟨st, hg, _, rfl⟩ := move_spec h2
        exact Or.inl (get_set_same _ hg)
      have := dead_run hf post hd h
      exact ⟨this.2, this.1⟩

open KV.TransportConn in
/-- so the request after a cut runs on a different connection: whatever is grabbed or created later is not c, and a
grabbed connection is one that sits on the idle stack (released after a completed exchange, or never used). -/
theorem resume_after_cut (f : TFacts) (hf : f.dropFailed = true) (s0 s3 : State) (pre post : List TransportConn.Ev) (c : Nat)
    (h : run f s0 (pre ++ [TransportConn.Ev.done c false false] ++ post) = some s3) :
    (∀ c', TransportConn.Ev.grab c' ∈ post → c' ≠ c) ∧ (∀ c' g, TransportConn.Ev.new c' g ∈ post → c' ≠ c) ∧ (∀ c', TransportConn.Ev.recv c' ∈ post → c' ≠ c) := by
  have hu := (failed_conn_never_reused f hf s0 s3 pre post c h).1
  refine ⟨fun c' hm hc => ?_, fun c' g hm hc => ?_, fun c' hm hc => ?_⟩ <;>
    · have := hu _ hm
      subst hc
      simp [uses] at this

open KV.TransportConn in
theorem grab_takes_idle (f : TFacts) (s s' : State) (c : Nat) (h : step f s (TransportConn.Ev.grab c) = some s') : get s c = some St.idle := by
  obtain ⟨st, hg, hf, _⟩ := move_spec h
  cases st <;> first | exact hg | exact absurd hf (by decide)

open KV.TransportConn in
/-- the LTS accepts the normal life of a connection (non-vacuity) and refuses the seeded-mutant shape — releasing a
connection to the idle stack after a failed exchange — unless the regenerated fact says the code does exactly that,
in which case the reuse the theorem excludes becomes an accepted behaviour: grab and serve on a dead connection. -/
theorem transport_examples :
    (run ⟨true⟩ [] [.new 1 0, .recv 1, .done 1 true false, .release 1 true, .grab 1, .recv 1, .done 1 false false, .exit 1,
             .new 2 0, .recv 2, .done 2 true false, .release 2 true, .closeIdle 0, .exit 2]).isSome = true ∧
    run ⟨true⟩ [] [.new 1 0, .recv 1, .done 1 false false, .release 1 true] = none ∧
    run ⟨true⟩ [] [.new 1 0, .recv 1, .done 1 false true, .release 1 true, .grab 1] ≠ none ∧
    (run ⟨false⟩ [] [.new 1 0, .recv 1, .done 1 false false, .release 1 true, .exit 1, .grab 1]).isSome = false ∧
    (run ⟨false⟩ [] [.new 1 0, .recv 1, .done 1 false false, .release 1 true, .grab 1, .exit 1]).isSome = false ∧
    (run ⟨false⟩ [] [.new 1 0, .recv 1, .done 1 false false, .release 1 true, .grab 1]).isSome = true := by decide

/-! ### inside the message set: no cut makes the fetch path panic (as far as the C02 decoder model reaches)

`fetch_cut_is_error` above treats message_reader.go as "any byte-conserving reader".  The C02 builder's model of that
reader (Model/MessageSetReader.lean: readHeader / readMessageV2 / markRead / Batch.readMessage as a token machine,
`Variant.fixed` = the code after the D4/D14/D15 fixes) has `Outcome.desync` for "parses bytes of one kind as another /
`panic: markRead: negative count`".  A connection lost after k bytes of the message set presents the decoder with
exactly the token stream `truncate (allTokens items) k` of Spec/Layout.lean (complete tokens, then a token on which
the next `read*` fails — with io.EOF / io.ErrUnexpectedEOF instead of errShortRead, which changes only how the batch
*ends*, i.e. the part modelled by `fetchRead`, not which statements ran before).  Instantiating C02's
`single_fetch` (full since C02 round 2): for every well-formed log layout (v2 batches plain or compressed, v0/v1 messages
and wrappers, compaction holes, retained empty batches, gaps; hypothesis `Safe`, which follows from the fetch contract), every cut position k and every fetch offset, the decoder does not panic / desynchronise and hands out
exactly the completely received records at or after the fetch offset — a prefix of what was sent, never fabricated
data.  v0/v1 message sets: observed by the driver on every cut only (as in C02). -/

open KV.C02 in
theorem fetch_cut_no_panic (items : List Item) (nb : Int) (hnb : 0 ≤ nb) (hwf : LWF nb items)
    (o hwm : Int) (ho : 0 ≤ o) (hsafe : Safe o items) (hne : hwm ≠ o) (k : Nat) (expired : Bool) :
    (readAll .fixed expired o hwm (truncate (allTokens items) k)).2.2 ≠ .desync ∧
    (readAll .fixed expired o hwm (truncate (allTokens items) k)).1 = (contained items k).filter (fun r => o ≤ r.1) := by
  have h := single_fetch items nb hnb hwf o hwm ho hsafe hne (k : Int) expired
  have hk : ¬ ((k : Int) < 0) := by omega
  simp only [responseTokens, containedRecords, hk, if_false, Int.toNat_natCast] at h
  exact ⟨h.2.1, h.1⟩

section ReaderResume
open KV.C02

/-! ### resume_after_cut for the Reader, composed with the C02 machines

The per-round facts come from C02 (`fetch_round` for complete responses, `single_fetch` for a response lost after k
bytes — the same theorem `fetch_cut_no_panic` instantiates), the restart rule from ReaderLoop (`onAnswer … .cutAfter`,
`deliver`: Conn closed, restart at last delivered + 1; `lost_round_is_reader_loop` ties `roundStep` to it).  The theorem
is the invariant "delivered = log ∩ [start, position)" carried through ANY interleaving of complete and lost rounds. -/

/-- what happens to the fetch the Reader issues at its position: a complete response within a byte budget (the Conn
is kept, the next fetch is at the Conn's offset), or a response lost after `k` bytes of its message set (the records
received completely are delivered, the Conn is closed, the Reader dials again and restarts at last delivered + 1 —
ReaderLoop `onAnswer … (.cutAfter toks)`, `deliver`) -/
inductive Round where
  | complete (budget : Nat)
  | lost (k : Nat)

/-- (records delivered, next fetch position) of one round at position q -/
def roundStep (items : List Item) (hwm q : Int) : Round → List Rec × Int
  | .complete b => ((fetchOnce .fixed items hwm q b).1, (fetchOnce .fixed items hwm q b).2.1)
  | .lost k =>
    let d := (readAll .fixed false q hwm (truncate (allTokens (dropBefore q items)) k)).1
    (d, match d.getLast? with | some x => x.1 + 1 | none => q)

def resumeSeq (items : List Item) (hwm : Int) : Int → List Round → List Rec × Int
  | q, [] => ([], q)
  | q, r :: rs =>
    ((roundStep items hwm q r).1 ++ (resumeSeq items hwm (roundStep items hwm q r).2 rs).1,
     (resumeSeq items hwm (roundStep items hwm q r).2 rs).2)

theorem le_getLast_of_pairwise {d : List Rec} (hp : d.Pairwise (fun a b => a.1 < b.1)) {x : Rec}
    (hl : d.getLast? = some x) : ∀ r ∈ d, r.1 ≤ x.1 := by
  induction d with
  | nil => simp at hl
  | cons a t ih =>
    intro r hr
    cases t with
    | nil =>
      simp only [List.getLast?_singleton, Option.some.injEq] at hl
      simp only [List.mem_singleton] at hr
      subst hl; subst hr; exact Int.le_refl _
    | cons b t' =>
      have hl' : (b :: t').getLast? = some x := by simpa [List.getLast?_cons_cons] using hl
      have hp' := (List.pairwise_cons.mp hp)
      rcases List.mem_cons.mp hr with rfl | hm
      · have hx : x ∈ b :: t' := List.mem_of_getLast? hl'
        have := hp'.1 x hx
        omega
      · exact ih hp'.2 hl' r hm

/-- one round keeps the invariant "delivered = the log between the old and the new position", whether the response
arrived completely or the connection was lost after any number of bytes -/
theorem round_inv (items : List Item) (nb : Int) (hnb : 0 ≤ nb) (hwf : LWF nb items) (hwm q : Int) (hq : 0 ≤ q) (rd : Round) :
    q ≤ (roundStep items hwm q rd).2 ∧
    (∀ r ∈ (roundStep items hwm q rd).1, r ∈ allRecords items ∧ q ≤ r.1 ∧ r.1 < (roundStep items hwm q rd).2) ∧
    (∀ r ∈ allRecords items, q ≤ r.1 → r.1 < (roundStep items hwm q rd).2 → r ∈ (roundStep items hwm q rd).1) ∧
    (roundStep items hwm q rd).1.Pairwise (fun a b => a.1 < b.1) := by
  cases rd with
  | complete b =>
    obtain ⟨f1, f2, f3, f4, _, _⟩ := fetch_round items nb hnb hwf hwm q hq b
    exact ⟨f1, f2, f3, f4⟩
  | lost k =>
    by_cases hne : hwm = q
    · simp [roundStep, readAll, hne]
    · obtain ⟨d1, d2, d3, d4⟩ := dropBefore_spec q hwf
      have hsafe : Safe q (dropBefore q items) := by
        cases hsub : dropBefore q items with
        | nil => trivial
        | cons it rest => rw [hsub] at d1; exact safe_of_contract d1 (d4 it rest hsub)
      have h := single_fetch (dropBefore q items) nb hnb d1 q hwm hq hsafe hne (k : Int) false
      have hk : ¬ ((k : Int) < 0) := by omega
      simp only [responseTokens, containedRecords, hk, if_false, Int.toNat_natCast] at h
      obtain ⟨g1, _, g3, g4, g5⟩ := h
      simp only [roundStep]
      generalize hd : (readAll .fixed false q hwm (truncate (allTokens (dropBefore q items)) k)) = res at g1 g3 g4 g5 ⊢
      have hmem : ∀ r ∈ res.1, r ∈ allRecords items ∧ q ≤ r.1 := by
        intro r hr
        rw [g1] at hr
        have := List.mem_filter.mp hr
        exact ⟨d3 r (contained_subset _ _ r this.1), by simpa using this.2⟩
      cases hl : res.1.getLast? with
      | none =>
        have hnil : res.1 = [] := by simpa using hl
        simp [hnil]
      | some x =>
        have hxm : x ∈ res.1 := List.mem_of_getLast? hl
        have hle := le_getLast_of_pairwise g5 hl
        simp only
        refine ⟨by have := (hmem x hxm).2; omega, ?_, ?_, g5⟩
        · intro r hr
          have hm := hmem r hr
          have hl2 := hle r hr
          exact ⟨hm.1, hm.2, by omega⟩
        · intro r hr h1 h2
          rcases d2 r hr with hlt | hsub
          · omega
          · exact g3 r hsub h1 (by have := g4 x hxm; omega)

/-- **resume_after_cut for the Reader**: for every well-formed log, every start position and every sequence of rounds —
complete responses under any byte budgets and responses lost after any number of bytes, in any order — the
concatenation of what is delivered is exactly the log between the start position and the final position: every
delivered message is a stored record of that range, strictly increasing offsets (no duplicate, no reordering), and no
stored record of that range is missing (no loss). -/
theorem reader_resume_after_cut (items : List Item) (nb : Int) (hnb : 0 ≤ nb) (hwf : LWF nb items) (hwm : Int) :
    ∀ (rounds : List Round) (start : Int), 0 ≤ start →
      start ≤ (resumeSeq items hwm start rounds).2 ∧
      (∀ r ∈ (resumeSeq items hwm start rounds).1, r ∈ allRecords items ∧ start ≤ r.1 ∧ r.1 < (resumeSeq items hwm start rounds).2) ∧
      (∀ r ∈ allRecords items, start ≤ r.1 → r.1 < (resumeSeq items hwm start rounds).2 → r ∈ (resumeSeq items hwm start rounds).1) ∧
      (resumeSeq items hwm start rounds).1.Pairwise (fun a b => a.1 < b.1) := by
  intro rounds
  induction rounds with
  | nil => intro q _; simp [resumeSeq]
  | cons rd rs ih =>
    intro q hq
    obtain ⟨f1, f2, f3, f4⟩ := round_inv items nb hnb hwf hwm q hq rd
    obtain ⟨i1, i2, i3, i4⟩ := ih (roundStep items hwm q rd).2 (by omega)
    simp only [resumeSeq]
    refine ⟨by omega, ?_, ?_, ?_⟩
    · intro r hr
      simp only [List.mem_append] at hr
      rcases hr with hr | hr
      · have := f2 r hr; exact ⟨this.1, this.2.1, by omega⟩
      · have := i2 r hr; exact ⟨this.1, by omega, this.2.2⟩
    · intro r hr h1 h2
      simp only [List.mem_append]
      by_cases hlt : r.1 < (roundStep items hwm q rd).2
      · exact Or.inl (f3 r hr h1 hlt)
      · exact Or.inr (i3 r hr (by omega) h2)
    · rw [List.pairwise_append]
      refine ⟨f4, i4, ?_⟩
      intro a ha c hc
      have := (f2 a ha).2.2
      have := (i2 c hc).2.1
      omega


/-- the `lost` round is ReaderLoop's transition for a connection cut (Model/ReaderLoop.lean `onAnswer … (.cutAfter toks)`):
same records delivered, Conn closed, and `deliver` leaves the restart position where `roundStep` says -/
theorem lost_round_is_reader_loop (s : RL) (items : List Item) (hwm first last : Int) (k : Nat)
    (hq : s.connOff = s.offset) (hne : hwm ≠ s.offset) :
    (match onAnswer .fixed s hwm first last (.cutAfter (truncate (allTokens (dropBefore s.offset items)) k)) with
     | .go s' => s'.out = s.out ++ (roundStep items hwm s.offset (.lost k)).1 ∧ s'.connOpen = false ∧
                 s'.offset = (roundStep items hwm s.offset (.lost k)).2
     | .stop _ _ => False) := by
  simp only [onAnswer, roundStep, readAll, hne, if_false, hq, deliver]
  refine ⟨trivial, trivial, ?_⟩
  cases (run Variant.fixed false s.offset { off := s.offset } (truncate (allTokens (dropBefore s.offset items)) k)).1.out.getLast? <;> rfl

/-- non-vacuity on the C02 defect layout (compaction holes, empty batch, compressed batch): lost after 70 bytes,
lost at once, then complete — everything from 100 on is delivered exactly once -/
example : (resumeSeq d15Layout 112 100 [.lost 70, .lost 0, .complete 1000, .lost 61, .complete 1000]).1
    = (allRecords d15Layout).filter (fun r => 100 ≤ r.1) := by decide

end ReaderResume

/-! ### resume_after_cut for the Writer, composed with the C01 machine

The Writer LTS of C01 (Model/Writer.lean) lets the broker's decision on an attempt be `acked`, `lost applied?`
(the acknowledgement never reaches the client) or `rejected code`, and relates it to the client-side result of the
attempt by `consistent`: that relation is where "a lost response is an error for the client" enters C01 as a modelling
assumption.  C17 discharges it: a produce response cut at any byte is never decoded into a result
(`readResponse_cut_is_error`; Conn path `cut_is_error`), and the Transport never hands the failed connection to the next
attempt (`resume_after_cut`).  C01 then says what follows: the attempt ends with an error, is retried only if
retriable and within the attempt budget (`C01.retry_only_after_retriable`, `attempts_bounded`), and a second copy of a
batch exists only after an acknowledgement was lost (`C01.dups_only_after_lost_ack`) — C01's retry rule. -/
theorem writer_resume_after_cut {α : Type} (d : Decoder α) (s : Reader.RS) (hcut : s.inp.length < s.sz)
    (cfg : Writer.Cfg) (st st' : Writer.State) (pw b k : Nat)
    (hdone : Writer.step cfg st (.attemptDone pw b k 0) = some st') :
    -- the cut response decodes to an error …
    (d.run s).1 = none ∧
    -- … while the Writer machine ends an attempt WITHOUT error only when the broker applied and acknowledged it:
    (∃ P, st.pws pw = some P ∧ P.sender = .attempting b k (some .acked)) :=
  ⟨readResponse_cut_is_error d s hcut, C01.ok_needs_broker_ack cfg st st' pw b k hdone⟩

/-! ### split requests: one lost part never yields a result that looks complete -/

/-! ### what the retry sends, and which waits have a deadline (round 7: seeded C17-m9, C17-m10)

Two facts about the resume paths that the machines of C01/C02 do not carry because they speak about batches and
records, not about the Go values that carry them:

* a record reader is consumed by the request that sends it, so "the Writer retries the batch" needs the reader to be
  built again for every attempt (`Gen.ConnLegacy.retryRebuildsRecords`, writer.go writeBatch/produce);
* "returns by its deadline" needs every read of the fetch — ReadBatchWith, each ReadMessage AND the skip of the rest of
  the response in Batch.Close — to happen while the read deadline is armed (`Gen.ConnLegacy.readerClosesUnderDeadline`,
  reader.go (*reader).read). -/

/-- what attempt `n` of a produce puts on the wire when the record reader is rebuilt per attempt / built once -/
def attemptPayload {α : Type} (rebuilt : Bool) (msgs : List α) : Nat → List α
  | 0 => msgs
  | _ + 1 => if rebuilt then msgs else []

theorem retry_carries_the_batch {α : Type} (msgs : List α) (n : Nat) : attemptPayload true msgs n = msgs := by
  cases n <;> rfl

theorem retry_rebuilds_records_holds : Gen.ConnLegacy.retryRebuildsRecords = true := by decide

/-- the seeded shape: the retry after a lost response goes out empty — "success" without the records -/
theorem stale_reader_counterexample : attemptPayload false [1, 2, 3] 1 = ([] : List Nat) := rfl

/-- the waits of one fetch of the Reader, in program order -/
inductive RWait where
  | arm      -- conn.SetReadDeadline(now + …)
  | clear    -- conn.SetReadDeadline(time.Time{})
  | read     -- a read for bytes that never arrive (the connection stays open)
  deriving DecidableEq, Repr

/-- does the sequence get stuck for ever?  A read with the deadline armed comes back with a timeout and the program
goes on; a read without one does not come back. -/
def stuck : Bool → List RWait → Bool
  | _, [] => false
  | _, .arm :: r => stuck true r
  | _, .clear :: r => stuck false r
  | armed, .read :: r => if armed then stuck armed r else true

/-- (*reader).read: arm, ReadBatchWith, arm, ReadMessage (fails at the deadline), then Close's discard and the clear —
in the order the regenerated fact says -/
def readerWaits (closeUnderDeadline : Bool) : List RWait :=
  [.arm, .read, .arm, .read] ++ (if closeUnderDeadline then [.read, .clear] else [.clear, .read])

/-- no read happens without an armed deadline ⇒ never stuck, whatever arrives or not -/
theorem armed_reads_return : ∀ (ws : List RWait) (armed : Bool),
    (∀ pre post, ws = pre ++ .read :: post → (armed = true ∧ .clear ∉ pre) ∨ (∃ p q, pre = p ++ .arm :: q ∧ .clear ∉ q)) →
    stuck armed ws = false
  | [], _, _ => rfl
  | .arm :: r, _, h => by
    simp only [stuck]
    refine armed_reads_return r true fun pre post hp => ?_
    rcases h (.arm :: pre) post (by rw [hp]; rfl) with ⟨_, hc⟩ | ⟨p, q, hpq, hc⟩
    · exact Or.inl ⟨rfl, fun hm => hc (List.mem_cons_of_mem _ hm)⟩
    · cases p with
      | nil => simp only [List.nil_append, List.cons.injEq, true_and] at hpq; exact Or.inl ⟨rfl, hpq ▸ hc⟩
      | cons x p' =>
        simp only [List.cons_append, List.cons.injEq] at hpq
        exact Or.inr ⟨p', q, hpq.2, hc⟩
  | .clear :: r, _, h => by
    simp only [stuck]
    refine armed_reads_return r false fun pre post hp => ?_
    rcases h (.clear :: pre) post (by rw [hp]; rfl) with ⟨_, hc⟩ | ⟨p, q, hpq, hc⟩
    · exact absurd (List.mem_cons_self) hc
    · cases p with
      | nil => simp at hpq
      | cons x p' =>
        simp only [List.cons_append, List.cons.injEq] at hpq
        exact Or.inr ⟨p', q, hpq.2, hc⟩
  | .read :: r, armed, h => by
    have h0 := h [] r rfl
    have ha : armed = true := by
      rcases h0 with ⟨ha, _⟩ | ⟨p, q, hpq, _⟩
      · exact ha
      · cases p <;> simp at hpq
    subst ha
    simp only [stuck, ↓reduceIte]
    refine armed_reads_return r true fun pre post hp => ?_
    rcases h (.read :: pre) post (by rw [hp]; rfl) with ⟨_, hc⟩ | ⟨p, q, hpq, hc⟩
    · exact Or.inl ⟨rfl, fun hm => hc (List.mem_cons_of_mem _ hm)⟩
    · cases p with
      | nil => simp at hpq
      | cons x p' =>
        simp only [List.cons_append, List.cons.injEq] at hpq
        exact Or.inr ⟨p', q, hpq.2, hc⟩

theorem reader_closes_under_deadline_holds : Gen.ConnLegacy.readerClosesUnderDeadline = true := by decide

/-- the Reader's fetch as it is returns whatever stops arriving; with the batch closed after the deadline is cleared
(the seeded shape: a deferred Close) the discard of the response's rest waits for ever -/
theorem reader_fetch_returns :
    stuck false (readerWaits Gen.ConnLegacy.readerClosesUnderDeadline) = false ∧ stuck false (readerWaits false) = true := by
  decide

section SplitMerge
open KV.SplitMerge

/-- strict merges (ListGroups, DescribeGroups, DescribeConfigs): the call succeeds iff every part did, and then it
returns exactly the parts' entries in request order -/
theorem mergeStrict_ok {α : Type} : ∀ (rs : List (Except String (List α))) (out : List α),
    mergeStrict rs = .ok out ↔ (∀ r ∈ rs, isOk r = true) ∧ out = rs.flatMap entriesOf := by
  intro rs
  induction rs with
  | nil =>
    intro out
    simp only [mergeStrict, Except.ok.injEq, List.not_mem_nil, false_imp_iff, implies_true, true_and, List.flatMap_nil]
    exact eq_comm
  | cons r rest ih =>
    intro out
    cases r with
    | error e => simp [mergeStrict, isOk]
    | ok xs =>
      simp only [mergeStrict]
      cases hm : mergeStrict rest with
      | error e =>
        simp only [reduceCtorEq, false_iff, not_and]
        intro hall
        have := (ih (rest.flatMap entriesOf)).mpr ⟨fun r hr => hall r (List.mem_cons_of_mem _ hr), rfl⟩
        rw [hm] at this; cases this
      | ok ys =>
        have := (ih ys).mp hm
        simp only [Except.ok.injEq, List.mem_cons, forall_eq_or_imp, isOk, true_and, List.flatMap_cons, entriesOf]
        constructor
        · intro h; exact ⟨this.1, by rw [← h, this.2]⟩
        · intro h; rw [h.2, this.2]

/-- … so a part whose response was lost (any cut position: `readResponse_cut_is_error`) fails the whole call -/
theorem lost_part_fails_call {α : Type} (rs : List (Except String (List α))) (e : String) (h : .error e ∈ rs) :
    ∃ e', mergeStrict rs = .error e' := by
  cases hm : mergeStrict rs with
  | error e' => exact ⟨e', rfl⟩
  | ok out =>
    have := ((mergeStrict_ok rs out).mp hm).1 _ h
    simp [isOk] at this

/-- the three Merge methods have the strict shape in the code as it is now (regenerated) -/
theorem strict_merges_hold : Gen.ConnLegacy.strictMerges.all (·.2) = true := by decide

end SplitMerge

/-! ### the `Decoder` contract is a theorem about the structural decoder model

`Decoder` above states what `readResponse_cut_is_error` needs from protocol.ReadResponse.  The C04 builder's structural
model of the reflective decoder (Model/Codec.lean: decode.go's decoder{remain, err}, every schema type, tagged fields,
record sets as opaque payloads; schemas and the bounded/unbounded configuration regenerated from /repo) satisfies it:
frame accounting holds for every schema (Lemmas/CodecAcct.lean `da_all`, the mutual induction of C20's `ds_all` with
another predicate), and `discardAll` closes the frame. -/

section StructuralDecoder
open KV.Codec KV.CodecAcct

/-- ReadResponse after the size prefix, as a `Decoder` -/
def codecDecoder (cfg : Cfg) (hrecs : RecsAcct cfg) (flex : Bool) (t : Ty) : Decoder (Int × Val) where
  run := fun s =>
    match respTail cfg flex t ⟨s.inp, s.sz⟩ with
    | .ok r d => (some r, ⟨d.inp, d.remain⟩)
    | _ => (none, s)
  conserves := by
    intro s
    have h := respTail_acctz cfg hrecs flex t ⟨s.inp, s.sz⟩
    cases hr : respTail cfg flex t ⟨s.inp, s.sz⟩ with
    | ok r d =>
      rw [hr] at h
      obtain ⟨⟨pre, hp, hl⟩, hz⟩ := h
      exact ⟨pre, hp, by simp only at hl ⊢; omega⟩
    | error => exact Reader.Adv.refl s
    | panic => exact Reader.Adv.refl s
    | balloon => exact Reader.Adv.refl s
  ok_after_discardAll := by
    intro s a h
    have hz := respTail_acctz cfg hrecs flex t ⟨s.inp, s.sz⟩
    cases hr : respTail cfg flex t ⟨s.inp, s.sz⟩ with
    | ok r d => rw [hr] at hz; simp only [hr]; exact hz.2
    | error => simp [hr] at h
    | panic => simp [hr] at h
    | balloon => simp [hr] at h

/-- the decoder configuration regenerated from the current source tree uses the built-in record-set reader (no
`Cfg.recs` hook), so the accounting premise holds for it -/
theorem decoderCfg_recsAcct : RecsAcct Gen.decoderCfg := recsAcct_none _ rfl

/-- every response schema, the decoder configuration of the current source tree, every cut position: no message -/
theorem readResponse_cut_is_error_structural (flex : Bool) (t : Ty) (frame : Bytes)
    (hframe : frame.length = 4 + (announced frame).toNat) (hpos : 0 ≤ announced frame) (k : Nat) (hk : k < frame.length)
    (r : Int × Val) (d : Dec) : readResponse Gen.decoderCfg flex t (frame.take k) ≠ .ok r d :=
  readResponse_cut_structural Gen.decoderCfg decoderCfg_recsAcct flex t frame hframe hpos k hk r d

/-- and a decoded message means the whole announced frame, and nothing else, was consumed (Transport-side alignment) -/
theorem readResponse_ok_aligned (flex : Bool) (t : Ty) (stream : Bytes) (r : Int × Val) (d : Dec)
    (h : readResponse Gen.decoderCfg flex t stream = .ok r d) :
    4 + (announced stream).toNat ≤ stream.length ∧ d.inp = stream.drop (4 + (announced stream).toNat) := by
  have := readResponse_ok_consumes_frame Gen.decoderCfg decoderCfg_recsAcct flex t stream r d h
  exact ⟨this.2.2.1, this.2.2.2.1⟩

end StructuralDecoder

end KV.C17
