/-
Props/C17.lean — "A response cut off at any byte yields an error, never a panic, hang or fake data".

The stream model of Base/Reader.lean makes a lost connection explicit: `inp` is everything that will ever arrive, then
EOF.  A response frame announces `sz` bytes; the connection is lost inside it iff `inp.length < sz` (cut inside the
body) or fewer than 8 bytes arrive (cut inside the size prefix / correlation id).

  * `cut_is_error_generic` — the one-line heart: any byte-conserving computation that ends with the frame counter at 0
    has consumed `sz` bytes, so it cannot end that way on a stream holding fewer.  Generic over ALL parser programs
    (`parser_conserves`), hence over whatever the translator regenerates from /repo.
  * `cut_is_error` / `cut_in_header_is_error` — every (*Conn).do operation: result is a non-kafka error and the Conn is
    closed; `closed_stays_failed` (C11) then says every later operation fails.  Whatever the bytes are: no
    well-formedness needed, every cut position.
  * `fetch_cut_is_error` — ReadBatchWith/Batch for every byte-conserving message-set reader: never a complete batch
    (`ok`); if a kafka error is reported the stream has been used up, so the next operation fails (`dead_stream_fails`).
    Records delivered before the error are the message-set reader's business (message_reader.go: property C02/C05
    models); the driver checks on the real code that they are a prefix of the records sent.
  * `readResponse_cut_is_error` — the reflective decoder (protocol/decode.go, protocol/response.go ReadResponse) under
    its contract "ok is only returned after `discardAll` brought `remain` to 0" (`d.discardAll(); err = d.err`), tied
    by correspondence on every registered response type × version × cut position.
Not proved: "blocks beyond its deadline" (runtime; observed by the driver's watchdog), absence of panics inside
message_reader.go (D14 belongs to C02; the driver counts panics on cut fetch responses).
-/
import KafkaVerif.Props.C11

namespace KV.C17
open KV KV.Reader KV.ConnOps

/-- a conserving computation cannot bring the frame counter to 0 on a stream shorter than the frame -/
theorem cut_is_error_generic {s s' : RS} (h : Adv s s') (hcut : s.inp.length < s.sz) : s'.sz ≠ 0 := by
  intro hz
  have := (h.consumed_all hz).1
  omega

/-- every parser program, on a cut stream, ends with part of the frame still announced -/
theorem parser_cut (ps : List Step) (c : Ctx) (s : RS) (hcut : s.inp.length < s.sz) : (runSteps ps c s).2.sz ≠ 0 :=
  cut_is_error_generic (runSteps_adv ps c s) hcut

/-- one exchange on a cut stream fails (non-kafka error), for every good operation -/
theorem exchange_cut_is_error (o : OpSpec) (v : Nat) (topic : Bytes) (s : RS) (hgood : o.good v = true)
    (hcut : s.inp.length < s.sz) : (opRead o v topic s).1.isFail = true := by
  cases hf : (opRead o v topic s).1.isFail with
  | true => rfl
  | false =>
    have := (C11.exchange_aligned o v topic s hgood hf).1
    omega

/-- THE C17 THEOREM for (*Conn).do operations, cut inside the body (any position): the header announced `n` bytes,
fewer arrive.  The call returns a non-kafka error and the Conn is closed. -/
theorem cut_is_error (o : OpSpec) (v : Nat) (topic : Bytes) (c : Conn) (hdr tail : Bytes) (n : Nat)
    (hgood : o.good v = true) (hclose : o.closeOnErr = true) (hopen : c.closed = false)
    (hstream : c.stream = hdr ++ tail) (hlen : hdr.length = 8)
    (hsize : beInt (hdr.take 4) = n + 4) (hid : beInt (hdr.drop 4) = c.nextId)
    (hcut : tail.length < n) :
    (connDo o v topic c).1.isFail = true ∧ (connDo o v topic c).2.closed = true := by
  have hw := C11.wait_hdr c hdr tail n hstream hlen hsize hid
  have hf := exchange_cut_is_error o v topic ⟨tail, n⟩ hgood hcut
  unfold connDo
  simp [hopen, hw, hf, hclose]

/-- cut inside the size prefix or the correlation id (fewer than 8 bytes arrive), and equally a stream that is
already used up: the call fails and the Conn is closed -/
theorem cut_in_header_is_error (o : OpSpec) (v : Nat) (topic : Bytes) (c : Conn) (hopen : c.closed = false)
    (hshort : c.stream.length < 8) :
    (connDo o v topic c).1.isFail = true ∧ (connDo o v topic c).2.closed = true := by
  unfold connDo waitResponse
  simp [hopen, hshort, Outcome.isFail]

theorem dead_stream_fails (o : OpSpec) (v : Nat) (topic : Bytes) (c : Conn) (hdead : c.stream = []) :
    (connDo o v topic c).1.isFail = true := by
  cases hc : c.closed with
  | true => exact (C11.closed_stays_failed o v topic c hc).1
  | false => exact (cut_in_header_is_error o v topic c hc (by rw [hdead]; decide)).1

/-- fetch on a cut stream: never a complete batch; a kafka error can only come with a used-up stream -/
theorem fetch_cut_is_error (v : Nat) (offset : Int) (b : Body) (c : Conn) (hdr tail : Bytes) (n : Nat)
    (hb : b.Conserves) (hopen : c.closed = false)
    (hstream : c.stream = hdr ++ tail) (hlen : hdr.length = 8)
    (hsize : beInt (hdr.take 4) = n + 4) (hid : beInt (hdr.drop 4) = c.nextId)
    (hcut : tail.length < n)
    (hwf : ∀ cx s1, runSteps (fetchHeader v) { ver := v } ⟨tail, n⟩ = (.ok cx, s1) → cx.hwm = offset → s1.sz = 0) :
    (connFetch true v offset b c).1 ≠ .ok ∧
    ((connFetch true v offset b c).1.isFail = true → (connFetch true v offset b c).2.closed = true) ∧
    ((connFetch true v offset b c).1.isFail = false → (connFetch true v offset b c).2.stream = []) := by
  have hw := C11.wait_hdr c hdr tail n hstream hlen hsize hid
  have hf := fetchRead_cut v offset b ⟨tail, n⟩ hb hcut hwf
  unfold connFetch
  simp only [hopen, Bool.false_eq_true, ↓reduceIte, hw]
  refine ⟨hf.1, ?_, hf.2⟩
  intro h
  simp [h]

/-! ### the reflective decoder (Transport path) under its contract -/

/-- protocol.ReadResponse as seen from the stream: it conserves bytes, and returns a message only after
`d.discardAll()` left `d.remain = 0` without a sticky error. -/
structure Decoder (α : Type) where
  run : RS → Option α × RS
  conserves : ∀ s, Adv s (run s).2
  ok_after_discardAll : ∀ s a, (run s).1 = some a → (run s).2.sz = 0

theorem readResponse_cut_is_error {α : Type} (d : Decoder α) (s : RS) (hcut : s.inp.length < s.sz) :
    (d.run s).1 = none := by
  cases h : (d.run s).1 with
  | none => rfl
  | some a => exact absurd (d.ok_after_discardAll s a h) (cut_is_error_generic (d.conserves s) hcut)

/-- the contract is satisfiable by a decoder that does return messages (non-vacuity) -/
example : ∃ d : Decoder Nat, (d.run ⟨[1, 2, 3], 2⟩).1 = some 2 :=
  ⟨{ run := fun s => if s.inp.length < s.sz then (none, ⟨[], s.sz - s.inp.length⟩) else (some s.sz, ⟨s.inp.drop s.sz, 0⟩),
     conserves := by
       intro s
       split
       · refine ⟨s.inp, by simp, ?_⟩; simp only; omega
       · refine ⟨s.inp.take s.sz, (List.take_append_drop _ _).symm, ?_⟩
         simp only [List.length_take]; omega,
     ok_after_discardAll := by
       intro s a h
       split at h
       · simp at h
       · rename_i hn; simp [hn] },
   by decide⟩

/-! ### concrete instances (non-vacuity): the D2 frame of Props/C11 cut at every position -/

/-- every strict prefix of the produce error frame, through the current produce operation: failed and closed -/
theorem produce_frame_every_cut :
    (List.range (C11.d2Frame 1).length).all (fun k =>
      match specOf "produce" with
      | some o =>
        let r := connDo o 2 [116] ⟨(C11.d2Frame 1).take k, 1, false⟩
        r.1.isFail && r.2.closed
      | none => false) = true := by decide

end KV.C17
