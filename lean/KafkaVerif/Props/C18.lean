/-
Props/C18.lean — property C18: with SASL configured, nothing is sent before authentication succeeds.

Model: Model/Auth.lean (`Dialer.connect/authenticateSASL`, `connGroup.connect/authenticateSASL`,
`Conn.saslHandshake/saslAuthenticate`, `protocol.Conn.RoundTrip` raw/framed, `sasl/plain`).
Reference side: Spec/SaslPlain.lean (RFC 4616 message, ordering monitor `orderHolds`).

All theorems quantify over EVERY environment script `es : List Env` (broker answers, mechanism
outcomes, application requests) and both paths; there is no bound on the number of authentication
rounds.  SCRAM's cryptography is not modelled (the mechanism is an arbitrary source of `mechStart` /
`mechNext` events): what is proved about the mechanism is proved for PLAIN only.
-/
import KafkaVerif.Model.Auth
import KafkaVerif.Model.AuthPlainGen
import KafkaVerif.Spec.SaslPlain
import KafkaVerif.Gen.MuxFacts

namespace KV.C18
open KV KV.Auth KV.Spec.Sasl

/-- the broker-side view of a log item -/
def seenOf : Item → Seen
  | .wrote .apiVersions => .apiVersions
  | .wrote (.saslHandshake _) => .saslHandshake
  | .wrote (.saslAuthenticate _ _) => .saslAuthenticate
  | .wrote (.rawToken _) => .rawToken
  | .wrote (.other k) => .other k
  | .verdict => .verdict

/-- environment events that are failures of the exchange: error code in an answer, connection closed,
any other I/O failure, a failing mechanism step -/
def bad : Env → Bool
  | .versions err _ _ => err != 0
  | .reply err _ _ => err != 0
  | .eof => true
  | .ioerr => true
  | .mechStart none => true
  | .mechNext none => true
  | _ => false

/-- everything written so far is ApiVersions / SaslHandshake / SaslAuthenticate / raw token -/
def AuthOnly (log : List Item) : Prop := ∀ w, Item.wrote w ∈ log → w.isAuth = true

/-- the broker's final positive answer -/
def isFinalOk : Env → Bool
  | .reply err _ final => err == 0 && final
  | _ => false

def isDone : Env → Bool
  | .mechNext (some (completed, _)) => completed
  | _ => false

/-- hypothesis on the mechanism (relative to the broker it talks to): it reports `completed` only on
the broker's final positive answer.  (`prev` = the previous event was such an answer.) -/
def mechSound : Bool → List Env → Bool
  | _, [] => true
  | prev, e :: es => (!isDone e || prev) && mechSound (isFinalOk e) es

/-! ## generic induction over scripts -/

theorem runFrom_inv (c : Cfg) (P : State → Prop)
    (hstep : ∀ s e s', P s → step c s e = some s' → P s') :
    ∀ es s s', P s → runFrom c s es = some s' → P s' := by
  intro es
  induction es with
  | nil => intro s s' hp h; simp [runFrom] at h; subst h; exact hp
  | cons e es ih =>
    intro s s' hp h
    simp only [runFrom] at h
    split at h
    · exact absurd h (by simp)
    · next s1 h1 => exact ih s1 s' (hstep s e s1 hp h1) h

theorem runFrom_append (c : Cfg) : ∀ (es₁ es₂ : List Env) (s : State),
    runFrom c s (es₁ ++ es₂) = (runFrom c s es₁).bind (fun s₁ => runFrom c s₁ es₂) := by
  intro es₁
  induction es₁ with
  | nil => intro es₂ s; simp [runFrom]
  | cons e es ih =>
    intro es₂ s
    simp only [List.cons_append, runFrom]
    split
    · simp
    · next s1 h1 => exact ih es₂ s1

/-! ## facts about one reaction (finite case analysis over `react`) -/

/-- break `h : react c ph e = some a` into its arms -/
macro "react_cases" h:ident : tactic =>
  `(tactic| (unfold react at $h:ident
             split at $h:ident <;> (try split at $h:ident) <;> (try split at $h:ident) <;>
               (try split at $h:ident) <;> (try split at $h:ident) <;>
               simp only [Option.some.injEq, reduceCtorEq, failWith] at $h:ident <;> (try subst $h:ident)))

theorem authWire_isAuth (v av : Nat) (t : Bytes) : (authWire v av t).isAuth = true := by
  unfold authWire; split <;> rfl

theorem react_write_auth {c : Cfg} {ph : Phase} {e : Env} {a : Act} (h : react c ph e = some a)
    (hp : ph ≠ .ready) : ∀ w, a.write = some w → w.isAuth = true := by
  react_cases h <;> simp_all [authWire_isAuth] <;> simp [Wire.isAuth]

theorem react_ready {c : Cfg} {ph : Phase} {e : Env} {a : Act} (h : react c ph e = some a)
    (hr : a.next = .ready) : ph = .ready ∨ (isDone e = true ∧ ∃ v av, ph = .awaitNext v av) ∨ c.sasl = false := by
  react_cases h <;> simp_all [isDone]

theorem react_err_iff {c : Cfg} {ph : Phase} {e : Env} {a : Act} (h : react c ph e = some a) :
    a.err.isSome = true ↔ a.next = .failed := by
  react_cases h <;> simp_all

theorem react_bad {c : Cfg} {ph : Phase} {e : Env} {a : Act} (h : react c ph e = some a)
    (hb : bad e = true) : a.next = .failed := by
  react_cases h <;> simp_all [bad]

theorem react_verdict {c : Cfg} {ph : Phase} {e : Env} {a : Act} (h : react c ph e = some a) :
    a.verdict = isFinalOk e := by
  react_cases h <;> simp_all [isFinalOk]

theorem react_awaitNext {c : Cfg} {ph : Phase} {e : Env} {a : Act} (h : react c ph e = some a)
    {v av : Nat} (hn : a.next = .awaitNext v av) : ∃ d f, e = .reply 0 d f := by
  react_cases h <;> simp_all

theorem react_ready' {c : Cfg} {ph : Phase} {e : Env} {a : Act} (h : react c ph e = some a)
    (hr : a.next = .ready) :
    (ph = .ready ∧ ∃ k, e = .use k) ∨ ((∃ v av, ph = .awaitNext v av) ∧ ∃ tok, e = .mechNext (some (true, tok))) ∨
      c.sasl = false := by
  react_cases h <;> simp_all

theorem react_failed (c : Cfg) (e : Env) : react c .failed e = none := by
  unfold react; split <;> simp_all

theorem react_from_ready {c : Cfg} {e : Env} {a : Act} (h : react c .ready e = some a) :
    a.next = .ready ∧ a.err = none ∧ a.verdict = false ∧ ∃ k, e = .use k ∧ a.write = some (.other k) := by
  react_cases h <;> simp_all

/-! ## 1. Before the client has seen the exchange succeed, only authentication requests are written -/

theorem step_log_prefix {c : Cfg} {s s' : State} {e : Env} (h : step c s e = some s') : s.log <+: s'.log := by
  unfold step at h
  cases hr : react c s.phase e with
  | none => simp [hr] at h
  | some a =>
    simp [hr] at h; subst h
    simp only [State.apply, List.append_assoc]
    exact List.prefix_append _ _

theorem step_authOnly {c : Cfg} {s s' : State} {e : Env}
    (hp : s.phase ≠ .ready → AuthOnly s.log) (h : step c s e = some s') :
    s'.phase ≠ .ready → AuthOnly s'.log := by
  unfold step at h
  cases hr : react c s.phase e with
  | none => simp [hr] at h
  | some a =>
    simp [hr] at h; subst h
    intro hn w hw
    have hph : s.phase ≠ .ready := by
      intro hrd
      rw [hrd] at hr
      exact hn (react_from_ready hr).1
    simp only [State.apply, List.mem_append] at hw
    rcases hw with (hw | hw) | hw
    · exact hp hph w hw
    · split at hw <;> simp at hw
    · split at hw
      · next w' hw' => simp at hw; subst hw; exact react_write_auth hr hph w hw'
      · simp at hw

theorem start_authOnly (c : Cfg) : (start c).phase ≠ .ready → AuthOnly (start c).log := by
  unfold start
  split <;> (try split) <;> simp [AuthOnly, Wire.isAuth]

/-- At every moment of every run — i.e. for every prefix `pre` of every script the model accepts —
as long as the client has not reached `ready` (it has not yet seen a positive answer that completed
the mechanism), everything it has written is ApiVersions / SaslHandshake / SaslAuthenticate / raw
token; and what is written later only extends that log. -/
theorem only_auth_before_success (c : Cfg) (pre post : List Env) (s : State)
    (h : run c (pre ++ post) = some s) :
    ∃ s', run c pre = some s' ∧ s'.log <+: s.log ∧ (s'.phase ≠ .ready → AuthOnly s'.log) := by
  unfold run at h ⊢
  rw [runFrom_append] at h
  cases h1 : runFrom c (start c) pre with
  | none => simp [h1] at h
  | some s' =>
    simp [h1] at h
    refine ⟨s', rfl, ?_, ?_⟩
    · exact runFrom_inv c (fun t => s'.log <+: t.log)
        (fun t e t' hp hs => List.IsPrefix.trans hp (step_log_prefix hs)) post s' s (List.prefix_refl _) h
    · exact runFrom_inv c (fun t => t.phase ≠ .ready → AuthOnly t.log)
        (fun t e t' hp hs => step_authOnly hp hs) pre (start c) s' (start_authOnly c) h1

/-! ## 2. `ready` is reached only through a positive answer that completed the mechanism, and never after a failure -/

def isUse : Env → Bool
  | .use _ => true
  | _ => false

/-- history invariant: `hist` is the script consumed so far -/
structure Hist (c : Cfg) (hist : List Env) (s : State) : Prop where
  noBad : s.phase ≠ .failed → ∀ e ∈ hist, bad e = false
  lastReply : ∀ v av, s.phase = .awaitNext v av → ∃ h0 d f, hist = h0 ++ [.reply 0 d f]
  accepted : s.phase = .ready → c.sasl = true →
    ∃ h0 d f tok us, hist = h0 ++ [.reply 0 d f, .mechNext (some (true, tok))] ++ us ∧ ∀ u ∈ us, isUse u = true
  failedClosed : s.phase = .failed → s.closed = true ∧ s.result.isSome = true
  okOpen : s.phase ≠ .failed → s.result = none

theorem hist_step {c : Cfg} {hist : List Env} {s s' : State} {e : Env}
    (hi : Hist c hist s) (h : step c s e = some s') : Hist c (hist ++ [e]) s' := by
  unfold step at h
  cases hr : react c s.phase e with
  | none => simp [hr] at h
  | some a =>
    simp [hr] at h; subst h
    have hnf : s.phase ≠ .failed := by
      intro hf; rw [hf, react_failed] at hr; simp at hr
    constructor
    · intro hn e' he'
      simp only [State.apply] at hn
      rcases List.mem_append.mp he' with he' | he'
      · exact hi.noBad hnf e' he'
      · simp at he'; subst he'
        cases hb : bad e' with
        | false => rfl
        | true => exact absurd (react_bad hr hb) hn
    · intro v av hv
      simp only [State.apply] at hv
      obtain ⟨d, f, he⟩ := react_awaitNext hr hv
      exact ⟨hist, d, f, by rw [he]⟩
    · intro hrd hs
      simp only [State.apply] at hrd
      rcases react_ready' hr hrd with ⟨hp, k, hk⟩ | ⟨⟨v, av, hv⟩, tok, ht⟩ | hns
      · obtain ⟨h0, d, f, tok, us, hh, hu⟩ := hi.accepted hp hs
        refine ⟨h0, d, f, tok, us ++ [e], by rw [hh]; simp, ?_⟩
        intro u hu'
        rcases List.mem_append.mp hu' with hu' | hu'
        · exact hu u hu'
        · simp at hu'; subst hu'; rw [hk]; rfl
      · obtain ⟨h0, d, f, hh⟩ := hi.lastReply v av hv
        exact ⟨h0, d, f, tok, [], by rw [hh, ht]; simp, by simp⟩
      · rw [hs] at hns; cases hns
    · intro hf
      simp only [State.apply] at hf ⊢
      have := (react_err_iff hr).mpr hf
      constructor
      · simp [this]
      · cases ha : a.err with
        | none => simp [ha] at this
        | some _ => simp
    · intro hn
      simp only [State.apply] at hn ⊢
      have hne : a.err = none := by
        cases ha : a.err with
        | none => rfl
        | some x => exact absurd ((react_err_iff hr).mp (by simp [ha])) hn
      simp [hne]; exact hi.okOpen hnf

theorem hist_start (c : Cfg) : Hist c [] (start c) := by
  unfold start
  constructor <;> split <;> (try split) <;> simp_all

theorem hist_run (c : Cfg) : ∀ (es hist : List Env) (s s' : State),
    Hist c hist s → runFrom c s es = some s' → Hist c (hist ++ es) s' := by
  intro es
  induction es with
  | nil => intro hist s s' hi h; simp [runFrom] at h; subst h; simpa using hi
  | cons e es ih =>
    intro hist s s' hi h
    simp only [runFrom] at h
    split at h
    · exact absurd h (by simp)
    · next s1 h1 =>
      have := ih (hist ++ [e]) s1 s' (hist_step hi h1) h
      simpa using this

/-- the connection is handed out (`ready`) only if no answer in the whole script was a failure and the
script contains a positive answer of the broker immediately followed by the mechanism reporting
`completed`; after that point the script consists of application requests only. -/
theorem ready_only_after_success (c : Cfg) (es : List Env) (s : State) (h : run c es = some s)
    (hs : c.sasl = true) (hr : s.phase = .ready) :
    (∀ e ∈ es, bad e = false) ∧
    ∃ h0 d f tok us, es = h0 ++ [.reply 0 d f, .mechNext (some (true, tok))] ++ us ∧ ∀ u ∈ us, isUse u = true := by
  have hi := hist_run c es [] (start c) s (hist_start c) h
  simp only [List.nil_append] at hi
  exact ⟨hi.noBad (by rw [hr]; simp), hi.accepted hr hs⟩

/-- requests other than the authentication ones are written only on a connection that was handed out -/
theorem other_only_when_ready (c : Cfg) (es : List Env) (s : State) (h : run c es = some s) (k : Nat)
    (hk : Item.wrote (.other k) ∈ s.log) : s.phase = .ready := by
  obtain ⟨s', h1, _, h3⟩ := only_auth_before_success c es [] s (by simpa using h)
  rw [h] at h1; cases h1
  cases hp : s.phase with
  | ready => rfl
  | _ => exact absurd (h3 (by rw [hp]; simp) (.other k) hk) (by simp [Wire.isAuth])

/-! ## 2b. Set-up leaves the connection balanced: when connect hands the connection out, every request written during
set-up has had its answer consumed.  This is the premise under which the C06 models start a connection
(`ConnMux.init`, `TransportConn.Event.new`: nothing written that is not answered, no response bytes outstanding);
there it was an assumption ("set-up exchanges abstracted"), here it is a theorem about the set-up model. -/

/-- the environment event is a response read off the wire -/
def isAnswer : Env → Bool
  | .versions _ _ _ => true
  | .reply _ _ _ => true
  | _ => false

/-- requests of the set-up exchange in a journal (ApiVersions, SaslHandshake, tokens) -/
def setupWrites (l : List Item) : Nat :=
  l.countP (fun i => match i with | .wrote w => w.isAuth | .verdict => false)

/-- responses the client is waiting for in a phase -/
def outstanding : Phase → Nat
  | .awaitVersions => 1
  | .awaitHandshake _ _ => 1
  | .awaitAuth _ _ => 1
  | _ => 0

def actWrites (a : Act) : Nat :=
  match a.write with
  | some w => if w.isAuth then 1 else 0
  | none => 0

theorem react_balance {c : Cfg} {ph : Phase} {e : Env} {a : Act} (h : react c ph e = some a)
    (hn : a.next ≠ .failed) :
    outstanding ph + actWrites a = outstanding a.next + (if isAnswer e then 1 else 0) := by
  react_cases h <;> simp_all [outstanding, actWrites, isAnswer, authWire_isAuth] <;> simp [Wire.isAuth]

theorem setupWrites_apply (s : State) (a : Act) : setupWrites (s.apply a).log = setupWrites s.log + actWrites a := by
  unfold State.apply setupWrites actWrites
  cases a.write <;> cases a.verdict <;> simp [List.countP_append, List.countP_cons, List.countP_nil]

/-- balance invariant along a script, `n` answers consumed so far -/
theorem balance_run (c : Cfg) : ∀ (es : List Env) (s s' : State) (n : Nat),
    (s.phase ≠ .failed → setupWrites s.log = n + outstanding s.phase) →
    runFrom c s es = some s' → s'.phase ≠ .failed →
    setupWrites s'.log = n + es.countP isAnswer + outstanding s'.phase := by
  intro es
  induction es with
  | nil => intro s s' n hb h hf; simp [runFrom] at h; subst h; simpa using hb hf
  | cons e es ih =>
    intro s s' n hb h hf
    simp only [runFrom] at h
    split at h
    · exact absurd h (by simp)
    · next s1 h1 =>
      have key : s1.phase ≠ .failed →
          setupWrites s1.log = (n + (if isAnswer e then 1 else 0)) + outstanding s1.phase := by
        intro hf1
        unfold step at h1
        cases hr : react c s.phase e with
        | none => simp [hr] at h1
        | some a =>
          simp [hr] at h1; subst h1
          have hsf : s.phase ≠ .failed := by
            intro hsf; rw [hsf, react_failed] at hr; exact absurd hr (by simp)
          have hb' := hb hsf
          have hbal := react_balance hr (by simpa [State.apply] using hf1)
          rw [setupWrites_apply]
          simp only [State.apply] at hf1 ⊢
          omega
      have := ih s1 s' _ key h hf
      rw [this, List.countP_cons]
      split <;> simp_all <;> omega

theorem start_balanced (c : Cfg) :
    (start c).phase ≠ .failed → setupWrites (start c).log = 0 + outstanding (start c).phase := by
  unfold start
  cases c.path <;> cases c.sasl <;> (try cases c.addrOk) <;> simp [setupWrites, outstanding, Wire.isAuth]

/-- **setup_is_balanced** — a connection handed out by `Dialer.connect` / `connGroup.connect` has consumed exactly one
answer per set-up request it wrote: no response to a set-up request is outstanding, none was consumed twice -/
theorem setup_is_balanced (c : Cfg) (es : List Env) (s : State) (h : run c es = some s) (hr : s.phase = .ready) :
    setupWrites s.log = es.countP isAnswer := by
  have := balance_run c es (start c) s 0 (start_balanced c) h (by simp [hr])
  simpa [hr, outstanding] using this

/-- while the set-up is in progress at most one answer is outstanding: set-up requests are never pipelined (so an answer
cannot be attributed to a later set-up request) -/
theorem setup_never_pipelines (c : Cfg) (es : List Env) (s : State) (h : run c es = some s) (hf : s.phase ≠ .failed) :
    setupWrites s.log = es.countP isAnswer + outstanding s.phase ∧ outstanding s.phase ≤ 1 := by
  have := balance_run c es (start c) s 0 (start_balanced c) h hf
  have ho : outstanding s.phase ≤ 1 := by unfold outstanding; split <;> simp
  exact ⟨by omega, ho⟩

/-! ## 3. Any failure makes the dial fail and closes the connection -/

/-- rejected mechanism / error code in any answer, a failing mechanism step, the broker closing the
connection or any other I/O failure: the dial returns an error, the connection is closed, and (since
`failed` takes no further event) nothing is ever written afterwards. -/
theorem failure_closes (c : Cfg) (es : List Env) (s : State) (h : run c es = some s)
    (hb : ∃ e ∈ es, bad e = true) : s.phase = .failed ∧ s.closed = true ∧ s.result.isSome = true := by
  have hi := hist_run c es [] (start c) s (hist_start c) h
  simp only [List.nil_append] at hi
  have hf : s.phase = .failed := by
    cases hp : s.phase with
    | failed => rfl
    | _ =>
      obtain ⟨e, he, hbe⟩ := hb
      have := hi.noBad (by rw [hp]; simp) e he
      rw [this] at hbe; cases hbe
  exact ⟨hf, hi.failedClosed hf⟩

/-- a failed dial is final: the model takes no further event (no write can follow) -/
theorem failed_is_final (c : Cfg) (s : State) (e : Env) (hf : s.phase = .failed) : step c s e = none := by
  unfold step; rw [hf, react_failed]; rfl

/-- the dial returns an error exactly when it ends in `failed`; a handed-out connection has no error -/
theorem result_iff_failed (c : Cfg) (es : List Env) (s : State) (h : run c es = some s) :
    (s.result.isSome = true ↔ s.phase = .failed) := by
  have hi := hist_run c es [] (start c) s (hist_start c) h
  constructor
  · intro hr
    cases hp : s.phase with
    | failed => rfl
    | _ => have := hi.okOpen (by rw [hp]; simp); rw [this] at hr; cases hr
  · intro hf; exact (hi.failedClosed hf).2

/-! ## 4. The broker-side monitor holds on the model's log, given a sound mechanism -/

theorem orderHolds_snoc (l : List Seen) (x : Seen) (h : orderHolds l = true)
    (hx : x.allowedBeforeVerdict = true ∨ Seen.verdict ∈ l) : orderHolds (l ++ [x]) = true := by
  induction l with
  | nil =>
    rcases hx with hx | hx
    · cases x <;> simp_all [orderHolds, Seen.allowedBeforeVerdict]
    · simp at hx
  | cons y l ih =>
    cases y <;> simp_all [orderHolds, Seen.allowedBeforeVerdict]

structure Mon (c : Cfg) (prev : Bool) (s : State) : Prop where
  order : orderHolds (s.log.map seenOf) = true
  auth : s.phase ≠ .ready → AuthOnly s.log
  prevVerdict : prev = true → Item.verdict ∈ s.log
  readyVerdict : s.phase = .ready → Item.verdict ∈ s.log

theorem seenOf_allowed (w : Wire) (h : w.isAuth = true) : (seenOf (.wrote w)).allowedBeforeVerdict = true := by
  cases w <;> simp_all [seenOf, Seen.allowedBeforeVerdict, Wire.isAuth]

theorem mon_step {c : Cfg} (hs : c.sasl = true) {prev : Bool} {s s' : State} {e : Env}
    (hm : Mon c prev s) (hsound : (!isDone e || prev) = true) (h : step c s e = some s') :
    Mon c (isFinalOk e) s' := by
  have hauth' := step_authOnly hm.auth h
  unfold step at h
  cases hr : react c s.phase e with
  | none => simp [hr] at h
  | some a =>
    simp [hr] at h; subst h
    have hv := react_verdict hr
    constructor
    · -- order
      simp only [State.apply, List.map_append]
      have h1 : orderHolds (s.log.map seenOf ++ (if a.verdict then [Item.verdict] else []).map seenOf) = true := by
        split
        · exact orderHolds_snoc _ _ hm.order (Or.inl rfl)
        · simpa using hm.order
      cases hw : a.write with
      | none => simpa using h1
      | some w =>
        simp only [List.map_cons, List.map_nil]
        apply orderHolds_snoc _ _ h1
        by_cases hp : s.phase = .ready
        · right
          have := hm.readyVerdict hp
          simp only [List.mem_append, List.mem_map]
          exact Or.inl ⟨_, this, rfl⟩
        · left; exact seenOf_allowed w (react_write_auth hr hp w hw)
    · exact hauth'
    · intro hf
      rw [← hv] at hf
      simp [State.apply, hf]
    · intro hrd
      simp only [State.apply] at hrd ⊢
      rcases react_ready' hr hrd with ⟨hp, _⟩ | ⟨_, tok, ht⟩ | hns
      · have := hm.readyVerdict hp; simp [this]
      · have hp : prev = true := by rw [ht] at hsound; simpa [isDone] using hsound
        have := hm.prevVerdict hp; simp [this]
      · rw [hs] at hns; cases hns

theorem mon_run {c : Cfg} (hs : c.sasl = true) : ∀ (es : List Env) (prev : Bool) (s s' : State),
    Mon c prev s → mechSound prev es = true → runFrom c s es = some s' → ∃ p, Mon c p s' := by
  intro es
  induction es with
  | nil => intro prev s s' hm _ h; simp [runFrom] at h; subst h; exact ⟨prev, hm⟩
  | cons e es ih =>
    intro prev s s' hm hsnd h
    simp only [runFrom] at h
    simp only [mechSound, Bool.and_eq_true] at hsnd
    split at h
    · exact absurd h (by simp)
    · next s1 h1 => exact ih _ s1 s' (mon_step hs hm hsnd.1 h1) hsnd.2 h

/-- Broker-side statement of the property.  If the mechanism reports `completed` only on the answer the
broker itself regards as its final positive one (`mechSound`), then on every run the journal of the
connection — the client's writes in order, with the broker's verdict — satisfies the monitor: no request
other than ApiVersions / SaslHandshake / SaslAuthenticate / raw token precedes the verdict. -/
theorem only_auth_before_broker_verdict (c : Cfg) (hs : c.sasl = true) (es : List Env) (s : State)
    (hsound : mechSound false es = true) (h : run c es = some s) :
    orderHolds (s.log.map seenOf) = true := by
  have h0 : Mon c false (start c) := by
    unfold start
    constructor <;> split <;> (try split) <;>
      simp_all [orderHolds, seenOf, Seen.allowedBeforeVerdict, AuthOnly, Wire.isAuth]
  obtain ⟨_, hm⟩ := mon_run hs es false (start c) s h0 hsound h
  exact hm.order

/-- the hypothesis cannot be dropped: a mechanism that declares itself complete on a non-final answer
lets a normal request out before the broker's verdict -/
theorem unsound_mechanism_counterexample :
    let c : Cfg := { path := .dialer, sasl := true }
    let es : List Env := [.versions 0 (some (0, 1)) (some (0, 1)), .reply 0 [] false, .mechStart (some [1]),
                          .reply 0 [2] false, .mechNext (some (true, [])), .use 3]
    (run c es).map (fun s => orderHolds (s.log.map seenOf)) = some false := by decide

/-! ## 5. PLAIN -/

/-- `sasl/plain` builds the RFC 4616 message with an empty authorization identity -/
theorem plain_format (user pass : Bytes) : plainStart user pass = plainMessage [] user pass := by
  simp [plainStart, plainMessage]

/-- the same for the format string as re-extracted from sasl/plain/plain.go on this run -/
theorem plain_format_extracted (user pass : Bytes) :
    plainStartGen user pass = some (plainMessage [] user pass) := by
  simp [plainStartGen, Gen.plainFmt, renderPlain, plainMessage]

/-- `Mechanism.Next` as extracted reports `completed` at once, as the model's `plainNext` does -/
theorem plain_next_extracted : Gen.plainNextCompleted = (plainNext []).1 := by decide

/-- the order of the authentication-relevant calls in the four functions the model follows, as
re-extracted on this run: dial → wrap → (close if host/port cannot be computed, fix d0aad9c) →
authenticate → (close on error); handshake → Start →
authenticate → Next; Transport: dial → (deferred close) → ApiVersions round trip → versions →
authenticate → only then the connection's `run` loop is started. -/
theorem call_order_extracted :
    Gen.dialerConnectCalls = ["dialContext", "NewConnWith", "Close", "authenticateSASL", "Close"] ∧
    Gen.dialerAuthCalls = ["saslHandshake", "Start", "saslAuthenticate", "Next"] ∧
    Gen.transportConnectCalls = ["dial", "Close", "RoundTrip", "SetVersions", "authenticateSASL", "run"] ∧
    Gen.transportAuthCalls = ["saslHandshakeRoundTrip", "Start", "saslAuthenticateRoundTrip", "Next"] := by
  decide

theorem splitNul_append (u rest : Bytes) (hu : ∀ b ∈ u, b ≠ 0) : splitNul (u ++ 0 :: rest) = some (u, rest) := by
  induction u with
  | nil => simp [splitNul]
  | cons b u ih =>
    have hb : b ≠ 0 := hu b (by simp)
    have := ih (fun x hx => hu x (by simp [hx]))
    simp [splitNul, hb, this]

/-- an RFC 4616 server recovers exactly (no authzid, user, password) from what PLAIN sends, provided
user name and password contain no NUL (which RFC 4616 forbids; `plain.go` does not check it) -/
theorem plain_parses (user pass : Bytes) (hu : ∀ b ∈ user, b ≠ 0) (hp : ∀ b ∈ pass, b ≠ 0) :
    parsePlain (plainStart user pass) = some ([], user, pass) := by
  have h1 : splitNul (plainStart user pass) = some ([], user ++ 0 :: pass) := by
    simp [plainStart, splitNul]
  have h2 := splitNul_append user pass hu
  simp [parsePlain, h1, h2]
  exact fun h => hp 0 h rfl

/-- the hypothesis is needed: a NUL inside the user name is not caught by `plain.go`, and the message it
builds is then not a well-formed RFC 4616 message for those credentials -/
theorem plain_nul_counterexample : parsePlain (plainStart [97, 0, 98] [99]) = none := by decide

/-- PLAIN end to end on both paths and both handshake versions: against a broker that accepts, the
script is taken, the mechanism is sound, the connection is handed out, and the journal is exactly
ApiVersions, SaslHandshake, one token carrying the RFC 4616 message, verdict, then the application's
requests. -/
theorem plain_accepts (c : Cfg) (hs : c.sasl = true) (ha : c.addrOk = true) (hsv auv : Option (Int × Int)) (v : Nat)
    (hv : (match c.path with | .dialer => negotiateConn hsv | .transport => some (selectTransport hsv)) = some v)
    (user pass d mechs : Bytes) (k : Nat) :
    let es := [Env.versions 0 hsv auv, .reply 0 mechs false] ++ plainEvents user pass (.reply 0 d true) ++ [.use k]
    mechSound false es = true ∧
    run c es = some { phase := .ready, closed := false, result := none,
                      log := [.wrote .apiVersions, .wrote (.saslHandshake v),
                              .wrote (authWire v (authVersion c.path auv) (plainMessage [] user pass)), .verdict, .wrote (.other k)] } := by
  obtain ⟨path, sasl, addrOk⟩ := c
  simp at hs ha; subst hs; subst ha
  cases path <;> simp at hv <;>
    simp [run, runFrom, start, step, react, hv, plainEvents, plainNext, State.apply, mechSound, isDone, isFinalOk,
          plain_format]

example : run { path := .transport, sasl := true } [.versions 0 (some (0, 1)) (some (0, 0)), .reply 33 [] false] =
    some { phase := .failed, closed := true, result := some (.kafka 33),
           log := [.wrote .apiVersions, .wrote (.saslHandshake 1)] } := by decide

example : run { path := .dialer, sasl := true } [.versions 0 (some (0, 0)) none, .reply 0 [] false, .mechStart (some [7]), .eof] =
    some { phase := .failed, closed := true, result := some (.kafka 58),
           log := [.wrote .apiVersions, .wrote (.saslHandshake 0), .wrote (.rawToken [7])] } := by decide

/-- an address whose port is not a number (`splitHostPortNumber` fails inside the SASL branch): the dial
fails, the freshly opened connection is closed, and a Dialer has written nothing at all -/
example : run { path := .dialer, sasl := true, addrOk := false } [] =
    some { phase := .failed, closed := true, result := some .other, log := [] } := by decide

example : run { path := .transport, sasl := true, addrOk := false } [.versions 0 none none] =
    some { phase := .failed, closed := true, result := some .other, log := [.wrote .apiVersions] } := by decide

/-- Kafka 1.0/1.1 shape: SaslHandshake 0..1 but SaslAuthenticate 0..0.  The handshake goes out as v1, so
the token is FRAMED (a SaslAuthenticate v0 request) on both paths — the range advertised for
SaslAuthenticate never makes the client fall back to raw bytes. -/
theorem framing_follows_handshake (p : Path) (au : Option (Int × Int)) (tok : Bytes) :
    (run { path := p, sasl := true } [.versions 0 (some (0, 1)) au, .reply 0 [] false, .mechStart (some tok)]).map
      (fun s => s.log.getLast?) = some (some (.wrote (.saslAuthenticate (authVersion p au) tok))) := by
  cases p <;> simp [run, runFrom, start, step, react, negotiateConn, selectTransport, authWire, State.apply]

/-- and after a v0 handshake the token is raw, whatever is advertised for SaslAuthenticate -/
theorem raw_follows_handshake_v0 (p : Path) (au : Option (Int × Int)) (tok : Bytes) :
    (run { path := p, sasl := true } [.versions 0 (some (0, 0)) au, .reply 0 [] false, .mechStart (some tok)]).map
      (fun s => s.log.getLast?) = some (some (.wrote (.rawToken tok))) := by
  cases p <;> simp [run, runFrom, start, step, react, negotiateConn, selectTransport, authWire, State.apply]

/-- structural facts re-read from the source on every run (`go/extract/muxfacts`, shapes not spellings):
`(*Conn).saslAuthenticate` negotiates on the HANDSHAKE api key and `saslauthenticate.(*Request).Required` looks at
`versions[SaslHandshake]` (what `authWire` / `framing_follows_handshake` model); `connGroup.connect` closes the
dialled socket through its deferred guard unless the conn was handed out (`failWith` sets `closed`). -/
theorem auth_structural_facts_hold :
    Gen.MuxFacts.connAuthFramingByHandshake = true ∧ Gen.MuxFacts.transportAuthFramingByHandshake = true ∧
    Gen.MuxFacts.transportConnectClosesUnlessHandedOut = true := by decide

/-! ## SCRAM adaptor: `completed` is the conversation's verdict on THIS challenge

`mechSound` (the mechanism completes only on a validated final answer) was assumed for SCRAM.  It is now reduced to
the contract of the dependency: `ConvSound cv V` — the conversation is done without error after a step only if the
challenge it was just given verifies (`V`, e.g. "is a server-final whose signature matches").  The adaptor adds nothing
to that and takes nothing away: -/

def ConvSound {σ : Type} (cv : Conv σ) (V : σ → Bytes → Prop) : Prop :=
  ∀ s ch, (cv.step s ch).2.2 = false → cv.done (cv.step s ch).1 = true → V s ch

/-- the adaptor reports `completed` for a challenge only if the conversation verified that very challenge -/
theorem scram_completed_only_if_verified {σ : Type} (cv : Conv σ) (V : σ → Bytes → Prop) (hc : ConvSound cv V)
    (s : σ) (ch out : Bytes) (h : (scramNext cv s ch).2 = some (true, out)) : V s ch := by
  unfold scramNext at h
  cases hf : (cv.step s ch).2.2 with
  | true => simp [hf] at h
  | false =>
    simp [hf] at h
    exact hc s ch hf h.1

/-- a step the conversation refuses (e.g. a forged server signature) is a failing `Next`: the dial fails (with
`failure_closes`: error result, connection closed, nothing written afterwards) -/
theorem scram_refusal_fails_the_dial {σ : Type} (cv : Conv σ) (s : σ) (ch : Bytes) (hf : (cv.step s ch).2.2 = true)
    (c : Cfg) (v av : Nat) :
    (scramNext cv s ch).2 = none ∧
      (react c (.awaitNext v av) (.mechNext ((scramNext cv s ch).2))).map (·.next) = some .failed := by
  unfold scramNext
  simp [hf, react, failWith]

/-- the adaptor as written in sasl/scram/scram.go is `scramStart` / `scramNext` (facts re-extracted this run) -/
theorem scram_adaptor_extracted :
    Gen.scramNextCompletedIsDoneAfterStep = true ∧ Gen.scramNextReturnsStepError = true ∧
    Gen.scramNextReturnsStepOutput = true ∧ Gen.scramNextStepsOnChallenge = true ∧
    Gen.scramStartReturnsStepError = true ∧ Gen.scramStartStepsOnEmpty = true := by decide

/-! ## TLS layering: the ClientHello is the only thing ever in clear, and a failed handshake closes the socket

`socketView` / `startTls` (Model/Auth.lean).  The statements are small — the content is in the tie: the fake broker
behind TLS notes what reaches its raw socket first (`S` = a TLS handshake record, `C:<hex>` = protocol bytes in clear),
and the shape facts below re-read where the two dial paths put the wrap. -/

/-- with TLS the broker's socket sees the ClientHello first and then exactly the journal of the plain model, inside the
channel: every theorem about the journal (only authentication requests before success, nothing after a failure, …)
holds for what travels inside, and nothing else travels -/
theorem tls_hello_then_journal (c : Cfg) (es : List Env) (s : State) (_h : runTls c true true es = some s) :
    socketView true s = .hello :: s.log.map .inner := rfl

theorem tls_success_is_plain_run (c : Cfg) (es : List Env) : runTls c true true es = run c es := by
  simp [runTls, run, startTls]

/-- a failed handshake: the dial has failed, the socket is closed, nothing was written and nothing can be
(`failed_is_final`) -/
theorem tls_handshake_failure_closes (c : Cfg) (es : List Env) (s : State) (h : runTls c true false es = some s) :
    s.phase = .failed ∧ s.closed = true ∧ s.result.isSome = true ∧ s.log = [] ∧ es = [] := by
  cases es with
  | nil =>
    simp [runTls, startTls, runFrom] at h; subst h; simp
  | cons e es =>
    simp only [runTls, startTls, Bool.not_false, Bool.and_self, ↓reduceIte, runFrom] at h
    rw [failed_is_final c _ e rfl] at h
    cases h

/-- where the wrap sits, re-read from dialer.go / transport.go this run -/
theorem tls_wrap_facts_hold :
    Gen.transportTlsWrapsBeforeProtocolConn = true ∧ Gen.dialerHandshakesInDialContext = true ∧
    Gen.dialerConnUsesDialContextResult = true ∧ Gen.dialerFailedHandshakeCloses = true := by decide

/-- the third connection path — `kafka.NewWriter(WriterConfig{Dialer: d})` builds a Transport out of the pre-0.4
Dialer: `Cfg.sasl` of the Transport model is `d.SASLMechanism != nil` only if the constructor copies the mechanism
(and the TLS config) whatever the other settings are (seed C18-m11 copied both only under `if d.TLS != nil`) -/
theorem new_writer_keeps_security_settings : Gen.newWriterCopiesSaslAndTlsUnconditionally = true := by decide

/-! ## error codes are signed: every non-zero code is a refusal

Kafka error codes are int16 and −1 (UNKNOWN_SERVER_ERROR) is a real one — a broker whose credential back-end throws
answers a SaslAuthenticate step with it.  Seed C18-m10 tested `res.ErrorCode > 0` in `saslAuthenticateRoundTrip`: the −1
was taken for acceptance and, with a single-step mechanism, the connection was handed out.  The model's `reply err` has
`err : Int` and refuses on `err ≠ 0`; what was missing was the statement and answer scripts with negative codes. -/

theorem any_nonzero_code_is_a_refusal (c : Cfg) (err : Int) (h : err ≠ 0) (d : Bytes) (hs au : Option (Int × Int))
    (v av : Nat) (hv : v ≠ 0) :
    react c .awaitVersions (.versions err hs au) = some (failWith (.kafka err)) ∧
    react c (.awaitHandshake v av) (.reply err d false) = some (failWith (.kafka err)) ∧
    react c (.awaitAuth v av) (.reply err d false) = some (failWith (.kafka err)) := by
  refine ⟨?_, ?_, ?_⟩ <;> simp [react, h, hv]

/-- −1 at the token step of a framed PLAIN exchange: the dial fails, closed, and the connection is never handed out -/
theorem unknown_server_error_refuses :
    (run { path := .transport, sasl := true }
        [.versions 0 (some (0, 1)) (some (0, 1)), .reply 0 [] false, .mechStart (some [0, 97, 0, 98]), .reply (-1) [] false]).map
      (fun s => (s.phase, s.closed, s.result)) = some (.failed, true, some (.kafka (-1))) := by decide

/-! ## the control flow of the two `authenticateSASL` functions, re-extracted by symbolic execution

`go/extract/saslplain/authflow.go` runs both functions symbolically over scenarios of call outcomes (handshake,
`Mechanism.Start`, authenticate, `StateMachine.Next`: ok / EOF / other error, completed or not) — following if /
switch / for / return and the conditions on `err`, `errors.Is(err, io.EOF)` and `completed`, whatever the spelling —
and writes, per scenario, the calls made in order and the value returned (`Gen.dialerAuthFlow`,
`Gen.transportAuthFlow`).  `modelFlow` computes the same from Model/Auth.lean (`react`), and the theorem says the
extracted tables ARE the model's behaviour. -/

def envOfToken : String → Option Env
  | "hs:ok" => some (.reply 0 [] false)
  | "hs:err" => some (.reply 33 [] false)
  | "hs:eof" => some .eof
  | "start:ok" => some (.mechStart (some [1]))
  | "start:err" => some (.mechStart none)
  | "auth:ok" => some (.reply 0 [] false)
  | "auth:eof" => some .eof
  | "auth:err" => some .ioerr
  | "next:more" => some (.mechNext (some (false, [2])))
  | "next:done" => some (.mechNext (some (true, [])))
  | "next:err" => some (.mechNext none)
  | "next:errdone" => some (.mechNext none)      -- an error from Next wins over its `completed` result
  | _ => none

def roleOfPhase : Phase → String
  | .awaitHandshake _ _ => "hs"
  | .awaitStart _ _ => "start"
  | .awaitAuth _ _ => "auth"
  | .awaitNext _ _ => "next"
  | _ => "?"

/-- the calls the model makes (one per environment answer it consumes) and what the function returns; the
broker advertises SaslHandshake 0..0, so the exchange is un-framed and EOF maps to SASLAuthenticationFailed on
both paths -/
def modelFlowFrom (c : Cfg) : State → List String → List String → List String × String
  | s, [], acc =>
    (acc.reverse, match s.phase, s.result with
      | .ready, _ => "nil"
      | .failed, some (.kafka 58) => "SASLAuthenticationFailed"
      | .failed, _ => "err"
      | _, _ => "pending")
  | s, t :: ts, acc =>
    match envOfToken t with
    | none => (acc.reverse, "bad-token")
    | some e =>
      match step c s e with
      | none => (acc.reverse, "rejected")
      | some s' => modelFlowFrom c s' ts (roleOfPhase s.phase :: acc)

def modelFlow (p : Path) (tokens : List String) : List String × String :=
  let c : Cfg := { path := p, sasl := true }
  match step c (start c) (.versions 0 (some (0, 0)) none) with
  | some s => modelFlowFrom c s tokens []
  | none => ([], "rejected")

/-- the extracted control flow of `(*Dialer).authenticateSASL` and of transport.go `authenticateSASL` is the
model's, scenario by scenario (11 scenarios each: every failure position, one to three rounds) -/
theorem auth_control_flow_extracted :
    Gen.dialerAuthFlow.all (fun (sc, calls, ret) => modelFlow .dialer sc == (calls, ret)) = true ∧
    Gen.transportAuthFlow.all (fun (sc, calls, ret) => modelFlow .transport sc == (calls, ret)) = true := by
  decide

/-! ## every way out of the two `connect` functions, re-extracted by symbolic execution

`Gen.MuxFacts.dialerConnectFlow` / `transportConnectFlow` (go/extract/muxfacts/symflow.go): for every combination
of "dial failed / ApiVersions round trip failed / error code in it / SASL configured / host:port unusable /
authentication failed" the calls made in order, whether the connection is closed (`close`, or the deferred guard
registered and not cleared) and what is returned.  `*ConnectModelRow` computes the same row from Model/Auth.lean:
the scenario becomes a configuration and an answer script, and the row is read off the state `run` ends in. -/

def cflag (sc : List String) (p : String) : Bool := sc.contains (p ++ "=true")

def okScript : List Env :=
  [.versions 0 (some (0, 1)) (some (0, 1)), .reply 0 [] false, .mechStart (some [1]), .reply 0 [] true, .mechNext (some (true, []))]

def wroteHandshake (s : State) : Bool :=
  s.log.any fun i => match i with | .wrote (.saslHandshake _) => true | _ => false

def dialerConnectModelRow (sc : List String) : List String :=
  if cflag sc "dialFailed" then ["dial", "return:error"]
  else
    let sasl := cflag sc "sasl"
    let c : Cfg := { path := .dialer, sasl := sasl, addrOk := !(cflag sc "splitFailed") }
    let script : List Env :=
      if !sasl || !c.addrOk then []
      else if cflag sc "authFailed" then [.versions 0 (some (0, 1)) (some (0, 1)), .reply 33 [] false] else okScript
    match run c script with
    | none => ["model: script rejected"]
    | some s =>
      ["dial", "wrap"] ++ (if sasl then ["split"] else []) ++ (if !s.log.isEmpty then ["auth"] else []) ++
      (if s.closed then ["close"] else []) ++ [if s.phase == .ready then "return:conn" else "return:error"]

def transportConnectModelRow (sc : List String) : List String :=
  if cflag sc "dialFailed" then ["dial", "return:error"]
  else
    let sasl := cflag sc "sasl"
    let c : Cfg := { path := .transport, sasl := sasl, addrOk := !(cflag sc "splitFailed") }
    let versions : List Env :=
      if cflag sc "apiVersionsFailed" then [.ioerr]
      else if cflag sc "versionsErrorCode" then [.versions 35 (some (0, 1)) (some (0, 1))]
      else [.versions 0 (some (0, 1)) (some (0, 1))]
    match run c versions with
    | none => ["model: script rejected"]
    | some s1 =>
      -- the ApiVersions answer itself was good (the model also fails at this event when host:port is unusable)
      let versionsOk := s1.phase != .failed || (sasl && !c.addrOk && !(cflag sc "apiVersionsFailed") && !(cflag sc "versionsErrorCode"))
      let rest : List Env :=
        if !versionsOk || !sasl || !c.addrOk then []
        else if cflag sc "authFailed" then [.reply 33 [] false] else okScript.drop 1
      match runFrom c s1 rest with
      | none => ["model: script rejected"]
      | some s =>
        ["dial", "defer:closeUnlessCleared", "apiVersions"] ++ (if versionsOk then ["setVersions"] else []) ++
        (if versionsOk && sasl then ["split"] else []) ++ (if wroteHandshake s then ["auth"] else []) ++
        -- the guard is cleared (and the run loop started) exactly when the model does not close the connection
        (if s.closed then [] else ["startRun", "clearGuard"]) ++
        [if s.phase == .ready then "return:conn" else "return:error"]

/-- the deadline bookkeeping of the two connect functions is the subject of `connect_flows_run_under_the_time_limit` -/
def noTimeLimit (eff : List String) : List String :=
  eff.filter (fun e => !(e == "setDeadline" || e == "clearDeadline"))

set_option maxRecDepth 32768 in
/-- the extracted exit structure of `(*Dialer).connect` and `(*connGroup).connect` is the model's: same calls,
closed on exactly the same paths, a connection returned exactly when the model reaches `ready` -/
theorem connect_flows_are_the_model :
    Gen.MuxFacts.dialerConnectFlow.all (fun (sc, eff) => dialerConnectModelRow sc == noTimeLimit eff) = true ∧
    Gen.MuxFacts.transportConnectFlow.all (fun (sc, eff) => transportConnectModelRow sc == noTimeLimit eff) = true := by
  decide

/-- the set-up runs under the dial's time limit: walking a row of the two connect functions, every exchange with the
broker (`apiVersions`, `auth` = the whole SASL exchange) happens while a deadline is set on the connection, and the
deadline is cleared before the connection is handed out.  (A Dialer's ApiVersions exchange is part of `auth`: it is the
lazy negotiation inside `saslHandshake`.)  The model's `Env.ioerr` — "the pending exchange fails: timeout, …" — is an
event the code can actually produce only under this discipline: with no deadline on the connection a broker that falls
silent produces no event at all (finding C18-D33). -/
def underTimeLimit (effs : List String) : Bool :=
  (effs.foldl (fun (st : Bool × Bool) (e : String) =>
      -- st = (deadline set, ok so far)
      if e == "setDeadline" then (true, st.2)
      else if e == "clearDeadline" then (false, st.2)
      else if e == "apiVersions" || e == "auth" then (st.1, st.2 && st.1)
      else if e == "return:conn" then (st.1, st.2 && !st.1)
      else st) (false, true)).2

set_option maxRecDepth 32768 in
theorem connect_flows_run_under_the_time_limit :
    Gen.MuxFacts.dialerConnectFlow.all (fun (sc, eff) => !cflag sc "ctxHasDeadline" || underTimeLimit eff) = true ∧
    Gen.MuxFacts.transportConnectFlow.all (fun (_, eff) => underTimeLimit eff) = true := by
  decide

/-- **the time limit decides nothing else** (seed C18-m7 moved the SASL exchange under `if deadline, ok := ctx.Deadline()`:
with `Timeout == 0`, a zero `Deadline` and a context without deadline the Conn went out unauthenticated).  Model: a run
does not depend on `Cfg.limit`.  Code: `connect_flows_are_the_model` compares EVERY row of `dialerConnectFlow` — the
table now has `ctxHasDeadline` as a dimension of its own — with a model row that does not look at that flag, so the
calls made (`split`, `auth`, `close`) and the value returned are the same with and without a deadline; and rows that
differ only in that flag differ only by the deadline bookkeeping: -/
theorem time_limit_decides_nothing (c : Cfg) (b : Bool) (es : List Env) :
    run { c with limit := b } es = run c es := by
  have hstep : ∀ (s : State) (e : Env), step { c with limit := b } s e = step c s e := by
    intro s e; unfold step react; rfl
  have hrun : ∀ (es : List Env) (s : State), runFrom { c with limit := b } s es = runFrom c s es := by
    intro es
    induction es with
    | nil => intro s; rfl
    | cons e es ih => intro s; simp only [runFrom, hstep]; split <;> simp [ih]
  have hstart : start { c with limit := b } = start c := by unfold start; rfl
  simp [run, hstart, hrun]

/-- the configuration flags that only say whether (and how) the dial is limited in time -/
def isLimitFlag (x : String) : Bool :=
  x == "ctxHasDeadline=true" || x == "ctxHasDeadline=false" || x == "hasTimeout=true" || x == "hasTimeout=false" ||
  x == "noDeadline=true" || x == "noDeadline=false"

set_option maxRecDepth 16384 in
theorem dialer_rows_agree_across_the_time_limit :
    Gen.MuxFacts.dialerConnectFlow.all (fun (sc, eff) =>
      Gen.MuxFacts.dialerConnectFlow.all (fun (sc', eff') =>
        !(sc.filter (fun x => !isLimitFlag x) == sc'.filter (fun x => !isLimitFlag x)) ||
        noTimeLimit eff == noTimeLimit eff')) = true := by
  decide

/-! ## raw versus framed: the two places that decide it, re-extracted -/

def isRawWire : Wire → Bool
  | .rawToken _ => true
  | _ => false

/-- `(*Conn).saslAuthenticate`: what is negotiated, which exchange is used (from `authWire`), and how the un-framed
exchange ends on each failure — including the negative length rejected since C18-D30 -/
def connSaslAuthenticateModelRow (sc : List String) : List String :=
  let neg := "negotiate:saslHandshake"          -- the HANDSHAKE key: `negotiateVersion(saslHandshake, v0, v1)`
  if cflag sc "negotiateFailed" then [neg, "return:error"]
  else if !isRawWire (authWire (if cflag sc "handshakeWasV1" then 1 else 0) 0 []) then
    -- the framed answer: a failed exchange is returned as it is; an error code in a well-formed answer is the model's
    -- `reply err` with err ≠ 0 (`failWith (.kafka err)`)
    let kafka := !cflag sc "framedExchangeFailed" && cflag sc "errorCodeInAnswer" &&
      (react { path := .dialer, sasl := true } (.awaitAuth 1 0) (.reply 58 [] false)).map (·.err) == some (some (.kafka 58))
    [neg, "framedExchange"] ++ (if kafka then ["kafkaError"] else []) ++ ["return:data,err"]
  else
    [neg, "rawLength", "rawWrite"] ++
    (if cflag sc "writeFailed" then ["return:error"]
     else ["rawFlush"] ++
      (if cflag sc "flushFailed" then ["return:error"]
       else ["rawReadLength"] ++
        (if cflag sc "lengthReadFailed" || cflag sc "negativeLength" then ["return:error"]
         else ["rawReadBody", "return:data,err"])))

/-- `protocol.(*Conn).RoundTrip`: a fresh id, then the raw exchange exactly for a message that is a RawExchanger
and says it is required (`Required` = "the handshake went out as v0", fact `transportAuthFramingByHandshake`) -/
def protocolConnRoundTripModelRow (sc : List String) : List String :=
  ["nextId"] ++ (if cflag sc "isPrepared" then ["prepare"] else []) ++
  [if cflag sc "isRawExchanger" && isRawWire (authWire (if cflag sc "rawRequired" then 0 else 1) 0 []) then "rawExchange"
   else "framedRoundTrip"]

/-- the three small wrappers around one exchange: a transport failure is passed on, an error code in a well-formed
answer becomes a `kafka.Error` (`react`'s `failWith (.kafka err)`), otherwise the exchange succeeded -/
def wrapperModelRow (ph : Phase) (pre : List String) (sc : List String) : List String :=
  if cflag sc "negotiateFailed" then pre ++ ["return"]
  else
    let e : Env := if cflag sc "exchangeFailed" then .ioerr else if cflag sc "errorCodeInAnswer" then .reply 33 [] false else .reply 0 [] false
    match react { path := .dialer, sasl := true } ph e with
    | none => ["model: event not enabled"]
    | some a =>
      pre ++ ["exchange"] ++ (match a.err with | some (.kafka _) => ["kafkaError"] | _ => []) ++ ["return"]

set_option maxRecDepth 32768 in
theorem wrapper_flows_are_the_model :
    Gen.MuxFacts.connSaslHandshakeFlow.all
      (fun (sc, eff) => wrapperModelRow (.awaitHandshake 1 0) ["negotiate:saslHandshake"] sc == eff) = true ∧
    Gen.MuxFacts.saslHandshakeRoundTripFlow.all (fun (sc, eff) => wrapperModelRow (.awaitHandshake 1 0) [] sc == eff) = true ∧
    Gen.MuxFacts.saslAuthenticateRoundTripFlow.all (fun (sc, eff) => wrapperModelRow (.awaitAuth 1 0) [] sc == eff) = true := by
  decide

set_option maxRecDepth 32768 in
theorem framing_flows_are_the_model :
    Gen.MuxFacts.connSaslAuthenticateFlow.all (fun (sc, eff) => connSaslAuthenticateModelRow sc == eff) = true ∧
    Gen.MuxFacts.protocolConnRoundTripFlow.all (fun (sc, eff) => protocolConnRoundTripModelRow sc == eff) = true := by
  decide

end KV.C18
